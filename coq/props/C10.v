(* C10 - rendering is exact and fail-stop under writer, expression and context failures.
   Property statements only; each is closed by [exact].

   Every theorem quantifies over: every destination writer (any state type, any function answering
   (accepted, error, new state) with accepted <= offered), every buffer size, whether or not the destination
   implements io.StringWriter / http.Flusher, every escaping function, every environment (for every enclosing
   loop-iteration path: value and optional error of every string expression, truth of every boolean expression,
   selected case of every switch tag, number of elements of every ranged-over expression), every context state,
   every program of the generated-code shape (spec/RenderSpec.v [node]: literals, expressions, nested templates
   and block closures, templ.Join, templ.Flush, templ.Raw, hand-written components, if/else-if/else, for, switch,
   conditional and boolean attributes, and hand-written components that are passed a block of children and render it
   0, 1 or more times into the writer they were given, through a forwarding writer of their own (unlimited, or
   failing after k bytes) or into a bytes.Buffer of their own - nested to any depth), every pool content and every
   pool choice.

   A block of children handed a writer that is not the enclosing render's buffer is a render of its own: it takes a
   pooled buffer, flushes it into that writer when it returns and adopts the flush error (model/RenderSkel.v
   closure_top).  [host_errs p] lists the error values of the limited writers of p's hand-written components; it is
   [] for a program without such a component, and every statement below then reads exactly as before that
   component existed in the model.  The buffer size is positive (runtime.DefaultBufferSize; bufio.NewWriterSize
   replaces a size <= 0 by 4096). *)
From Coq.Strings Require Import Byte String.
From Coq Require Import List NArith Arith.
Import ListNotations.
From V Require Import lib.Bytes spec.RenderSpec spec.RenderDestSpec model.Bufio model.RenderSkel model.RenderDest
                      proofs.BufioProof proofs.RenderSkelProof proofs.RenderDestProof.
Local Open Scope nat_scope.

(* If Render returns nil, the destination accepted exactly the document, once and in order (and the program had
   no failure of its own). *)
Theorem C10_nil_means_all :
  forall (sink_st : Type) (sink : sink_st -> bytes -> nat * option err * sink_st) (cap : nat) (sw flusher : bool)
         (esc : bytes -> bytes) (env : list nat -> N -> bytes * option N) (benv : list nat -> N -> bool)
         (senv cnt : list nat -> N -> nat) (cancel : option N),
  (forall s p, fst (fst (sink s p)) <= length p) -> 0 < cap ->
  forall pool choice g body (w0 : world sink_st) w' pool',
  recv w0 = [] -> log w0 = [] ->
  render_top sink_st sink cap sw flusher esc env benv senv cnt cancel true pool choice g body w0 = (None, w', pool') ->
  recv w' = fst (denote esc env benv senv cnt cancel (Templ g body) []) /\ snd (denote esc env benv senv cnt cancel (Templ g body) []) = None.
Proof. exact nil_means_all. Qed.
Print Assumptions C10_nil_means_all.

(* Whatever happens, the bytes the destination accepted are a prefix of the document.  If the destination ever
   refused (returned an error; or took fewer bytes than a flush offered without an error -> io.ErrShortWrite;
   x is the first such refusal), Render's result is non-nil; it is that very error, unless the program had
   already failed by itself, in which case it is the program's error (or a limited writer of one of its
   hand-written components had failed, in which case it may be that writer's error); with no failure in the program
   and no such writer it is that very error. *)
Theorem C10_fail_stop :
  forall (sink_st : Type) (sink : sink_st -> bytes -> nat * option err * sink_st) (cap : nat) (sw flusher : bool)
         (esc : bytes -> bytes) (env : list nat -> N -> bytes * option N) (benv : list nat -> N -> bool)
         (senv cnt : list nat -> N -> nat) (cancel : option N),
  (forall s p, fst (fst (sink s p)) <= length p) -> 0 < cap ->
  forall pool choice g body (w0 : world sink_st) res w' pool',
  recv w0 = [] -> log w0 = [] ->
  render_top sink_st sink cap sw flusher esc env benv senv cnt cancel true pool choice g body w0 = (res, w', pool') ->
  prefix (recv w') (fst (denote esc env benv senv cnt cancel (Templ g body) [])) /\
  (forall x, first_refusal (log w') = Some x ->
     res <> None /\
     (res = Some x \/ (res = snd (denote esc env benv senv cnt cancel (Templ g body) []) /\ snd (denote esc env benv senv cnt cancel (Templ g body) []) <> None) \/
      (exists y, res = Some y /\ In y (host_errs (Templ g body)))) /\
     (snd (denote esc env benv senv cnt cancel (Templ g body) []) = None -> host_errs (Templ g body) = [] -> res = Some x)).
Proof. exact fail_stop. Qed.
Print Assumptions C10_fail_stop.

(* The whole specification predicate at once (this is the predicate the harness evaluates, extracted, on the
   real implementation's observations). *)
Theorem C10_render_meets_spec :
  forall (sink_st : Type) (sink : sink_st -> bytes -> nat * option err * sink_st) (cap : nat) (sw flusher : bool)
         (esc : bytes -> bytes) (env : list nat -> N -> bytes * option N) (benv : list nat -> N -> bool)
         (senv cnt : list nat -> N -> nat) (cancel : option N),
  (forall s p, fst (fst (sink s p)) <= length p) -> 0 < cap ->
  forall pool choice g body (w0 : world sink_st) res w' pool',
  recv w0 = [] -> log w0 = [] ->
  render_top sink_st sink cap sw flusher esc env benv senv cnt cancel true pool choice g body w0 = (res, w', pool') ->
  spec_ok (fst (denote esc env benv senv cnt cancel (Templ g body) [])) (snd (denote esc env benv senv cnt cancel (Templ g body) []))
          (host_errs (Templ g body)) res (recv w') (log w').
Proof. exact render_top_spec. Qed.
Print Assumptions C10_render_meets_spec.

(* An expression that returns an error, everything before it having rendered: Render returns
   templ.Error{Err: that error, FileName, Line, Col} with the file name and position recorded for that expression
   (or the destination's own error if the destination refused first); the bytes received are a prefix of what
   precedes the expression. *)
Theorem C10_expr_error_position :
  forall (sink_st : Type) (sink : sink_st -> bytes -> nat * option err * sink_st) (cap : nat) (sw flusher : bool)
         (esc : bytes -> bytes) (env : list nat -> N -> bytes * option N) (benv : list nat -> N -> bool)
         (senv cnt : list nat -> N -> nat) (cancel : option N),
  (forall s p, fst (fst (sink s p)) <= length p) -> 0 < cap ->
  forall pool choice (g : bool) pre id file line col post v x (w0 : world sink_st) res w' pool',
  recv w0 = [] -> log w0 = [] ->
  (if g then cancel else None) = None ->
  snd (seq_d node (fun n => denote esc env benv senv cnt cancel n []) pre) = None ->
  env [] id = (v, Some x) ->
  render_top sink_st sink cap sw flusher esc env benv senv cnt cancel true pool choice g (pre ++ Expr id file line col :: post) w0 = (res, w', pool') ->
  prefix (recv w') (fst (seq_d node (fun n => denote esc env benv senv cnt cancel n []) pre)) /\
  (first_refusal (log w') = None ->
     res = Some (ETempl file line col (EExpr x)) \/
     (exists z, res = Some z /\ In z (host_errs (Templ g (pre ++ Expr id file line col :: post))))) /\
  (forall z, first_refusal (log w') = Some z ->
     res = Some (ETempl file line col (EExpr x)) \/ res = Some z \/
     (exists z', res = Some z' /\ In z' (host_errs (Templ g (pre ++ Expr id file line col :: post))))).
Proof. exact expr_error_position. Qed.
Print Assumptions C10_expr_error_position.

(* The same for a failure anywhere in the program, however deeply nested (an expression of a nested template,
   a nested component, templ.Raw's errs, a cancelled context seen by a nested template): with y the program's
   first failure, Render returns y unless the destination refused first. *)
Theorem C10_program_error_returned :
  forall (sink_st : Type) (sink : sink_st -> bytes -> nat * option err * sink_st) (cap : nat) (sw flusher : bool)
         (esc : bytes -> bytes) (env : list nat -> N -> bytes * option N) (benv : list nat -> N -> bool)
         (senv cnt : list nat -> N -> nat) (cancel : option N),
  (forall s p, fst (fst (sink s p)) <= length p) -> 0 < cap ->
  forall pool choice g body (w0 : world sink_st) res w' pool' y,
  recv w0 = [] -> log w0 = [] ->
  render_top sink_st sink cap sw flusher esc env benv senv cnt cancel true pool choice g body w0 = (res, w', pool') ->
  snd (denote esc env benv senv cnt cancel (Templ g body) []) = Some y ->
  (first_refusal (log w') = None -> res = Some y \/ (exists z, res = Some z /\ In z (host_errs (Templ g body)))) /\
  (forall x, first_refusal (log w') = Some x ->
     res = Some y \/ res = Some x \/ (exists z, res = Some z /\ In z (host_errs (Templ g body)))) /\
  prefix (recv w') (fst (denote esc env benv senv cnt cancel (Templ g body) [])).
Proof. exact program_error_returned. Qed.
Print Assumptions C10_program_error_returned.

(* A context that is already cancelled: a generated template returns the context's error; the destination is
   not called, nothing is taken from or put into the pool. *)
Theorem C10_cancelled_no_output :
  forall (sink_st : Type) (sink : sink_st -> bytes -> nat * option err * sink_st) (cap : nat) (sw flusher : bool)
         (esc : bytes -> bytes) (env : list nat -> N -> bytes * option N) (benv : list nat -> N -> bool)
         (senv cnt : list nat -> N -> nat) (cancel : option N),
  forall pool choice body (w0 : world sink_st) c,
  cancel = Some c ->
  render_top sink_st sink cap sw flusher esc env benv senv cnt cancel true pool choice true body w0 = (Some (ECtx c), w0, pool).
Proof. exact cancelled_no_output. Qed.
Print Assumptions C10_cancelled_no_output.

(* For every sequence of renders (each to its own destination, or through templ.ToGoHTML into a pooled
   bytes.Buffer), every initial content of the *runtime.Buffer pool (dirty buffers with stale bytes and sticky
   errors included), every choice either pool makes, every earlier failure: what each render returns, what its
   destination receives and how its destination is called are exactly those of that render run alone. *)
Theorem C10_pool_independent :
  forall (sink_st : Type) (sink : sink_st -> bytes -> nat * option err * sink_st) (cap : nat) (sw flusher : bool)
         (esc : bytes -> bytes) (js : list (job sink_st)) (ps : list bw * list bytes),
  Forall (fun c => c = []) (snd ps) ->
  run_jobs sink_st sink cap sw flusher esc true true ps js
    = map (fun j => fst (run_job sink_st sink cap sw flusher esc true true ([], []) j)) js.
Proof. exact jobs_pool_independent. Qed.
Print Assumptions C10_pool_independent.

(* The io.Writer contract hypothesis, stated explicitly: a destination that, offered something, returns a nil
   error accepts at least one byte (io.Writer demands more: n < len(p) => err != nil).  Under it the write loop
   of the buffered writer always returns.  Without it see [C10_spin_witness]. *)
Theorem C10_no_spin_under_contract :
  forall (sink_st : Type) (sink : sink_st -> bytes -> nat * option err * sink_st) (cap : nat) (sw flusher : bool)
         (esc : bytes -> bytes) (env : list nat -> N -> bytes * option N) (benv : list nat -> N -> bool)
         (senv cnt : list nat -> N -> nat) (cancel : option N),
  (forall s p, fst (fst (sink s p)) <= length p) ->
  (forall s p n s', p <> [] -> sink s p = (n, None, s') -> 0 < n) ->
  0 < cap ->
  forall pool choice g body (w0 : world sink_st) res w' pool',
  log w0 = [] ->
  render_top sink_st sink cap sw flusher esc env benv senv cnt cancel true pool choice g body w0 = (res, w', pool') ->
  ~ In LSpin (log w').
Proof. exact no_spin_under_contract. Qed.
Print Assumptions C10_no_spin_under_contract.

(* A block of children (`@c() { ... }`) that the hand-written component c renders into a writer w of its own - any
   writer that is not the enclosing render's *runtime.Buffer - `times` times: each render takes a pooled buffer,
   flushes it into w when it returns and adopts the flush error.  If the last render returns nil, w has received
   exactly the block's output, that many times, and has never refused; otherwise w has received a prefix of it and
   the error is the block's own failure, w's first refusal, or the error of a limited writer inside the block. *)
Theorem C10_block_on_a_writer_of_the_components_own :
  forall (sink_st : Type) (sink : sink_st -> bytes -> nat * option err * sink_st) (cap : nat) (sw flusher : bool)
         (esc : bytes -> bytes) (env : list nat -> N -> bytes * option N) (benv : list nat -> N -> bool)
         (senv cnt : list nat -> N -> nat) (cancel : option N),
  (forall s p, fst (fst (sink s p)) <= length p) -> 0 < cap ->
  forall ch path times (w : world sink_st) r w',
  first_refusal (log w) = None ->
  closure_times (closure_top sink_st sink flusher true
                   (seq_r sink_st node (fun c => run sink_st sink cap sw flusher esc env benv senv cnt cancel c path) ch)) times w = (r, w') ->
  let g := denote esc env benv senv cnt cancel (Host HPass times ch) path in
  match r with
  | None => recv w' = recv w ++ fst g /\ snd g = None /\ first_refusal (log w') = None
  | Some y => prefix (recv w') (recv w ++ fst g) /\ (snd g = Some y \/ first_refusal (log w') = Some y \/ In y (flat_map host_errs ch))
  end.
Proof. exact block_meets_spec. Qed.
Print Assumptions C10_block_on_a_writer_of_the_components_own.

(* The destination is a buffered writer of the CALLER (a *bufio.Writer of any size in front of any writer): the
   caller renders into it and then flushes it.  Stated on the writer behind the caller's: it is handed a prefix of
   the document - the whole document when Render and the caller's Flush both return nil; a refusal of that writer
   during Render comes back from Render (unless the program had failed first), any refusal comes back from the
   caller's Flush; its http.Flusher is not called; and once the caller has flushed (and, after an error, Reset) its
   writer, that writer is as new - so every later render into the same object starts like this one. *)
Theorem C10_buffered_destination :
  forall (inner_st : Type) (inner : inner_st -> bytes -> nat * option err * inner_st) (size : nat),
  (forall s p, fst (fst (inner s p)) <= length p) ->
  forall (cap : nat) (esc : bytes -> bytes) (env : list nat -> N -> bytes * option N) (benv : list nat -> N -> bool)
         (senv cnt : list nat -> N -> nat) (cancel : option N),
  0 < cap ->
  forall pool choice g body (s0 : inner_st),
  let o := render_wrapped inner_st inner size cap esc env benv senv cnt cancel pool choice g body s0 in
  spec_wrap_ok (fst (denote esc env benv senv cnt cancel (Templ g body) [])) (snd (denote esc env benv senv cnt cancel (Templ g body) []))
               (host_errs (Templ g body)) (wo_res o) (wo_fres o) (wo_got o) (wo_log1 o) (wo_log2 o) 0 /\
  wo_marks o = [] /\ wo_after o = bw_fresh.
Proof. exact wrapped_spec. Qed.
Print Assumptions C10_buffered_destination.

(* ... whatever templ's pool holds and hands out. *)
Theorem C10_buffered_destination_pool_independent :
  forall (inner_st : Type) (inner : inner_st -> bytes -> nat * option err * inner_st) (size : nat)
         (cap : nat) (esc : bytes -> bytes) (env : list nat -> N -> bytes * option N) (benv : list nat -> N -> bool)
         (senv cnt : list nat -> N -> nat) (cancel : option N) pool choice g body (s0 : inner_st),
  render_wrapped inner_st inner size cap esc env benv senv cnt cancel pool choice g body s0
  = render_wrapped inner_st inner size cap esc env benv senv cnt cancel [] 0 g body s0.
Proof. exact wrapped_pool_irrelevant. Qed.
Print Assumptions C10_buffered_destination_pool_independent.

(* A render is handed one of the caller's destination objects; the others are exactly what they were. *)
Theorem C10_other_destinations_untouched :
  forall (A B : Type) (f : A -> B * A) (st : list A) (i k : nat),
  k <> i -> nth_error (snd (on_slot A f st i)) k = nth_error st k.
Proof. exact @on_slot_frame. Qed.
Print Assumptions C10_other_destinations_untouched.

(* ---------- witnesses ---------- *)
(* what Buffer.Reset in GetBuffer is for: without it the render after a failed one inherits its sticky error *)
Lemma C10_leak_without_acquire_reset :
  map obs_view (run_jobs fsink fsink_step 4 false false (fun s => s) false true ([], []) leak_jobs1)
    = [(Some (ESink 7%N), bs "ab"); (Some (ESink 7%N), [])] /\
  map obs_view (run_jobs fsink fsink_step 4 false false (fun s => s) true true ([], []) leak_jobs1)
    = [(Some (ESink 7%N), bs "ab"); (None, bs "xy")].
Proof. exact leak_without_acquire_reset. Qed.

(* what bytes.Buffer.Reset in templ.ReleaseBuffer is for *)
Lemma C10_leak_without_release_reset :
  map obs_view (run_jobs fsink fsink_step 4 false false (fun s => s) true false ([], []) leak_jobs2)
    = [(None, bs "ab"); (None, bs "abxy")] /\
  map obs_view (run_jobs fsink fsink_step 4 false false (fun s => s) true true ([], []) leak_jobs2)
    = [(None, bs "ab"); (None, bs "xy")].
Proof. exact leak_without_release_reset. Qed.

(* a destination answering (0, nil) for ever to a write larger than the buffer: the call does not return *)
Lemma C10_spin_witness :
  map obs_view (run_jobs fsink fsink_step 4 true false (fun s => s) true true ([], [])
                  [leak_job [Lit (bs "abcdefgh")] false 4%N 0])
    = [(Some ESpin, [])].
Proof. exact spin_witness. Qed.

(* what the block's own deferred release is for (generator.go writeTemplBuffer inside writeBlockTemplElementExpression):
   a block { abc } rendered by a hand-written component through a forwarding writer of its own, buffer size 4,
   destination that never fails.  With the release the destination gets abc; without it the component's writer is
   never called, Render returns nil and the output is lost. *)
Lemma C10_block_without_own_release :
  block_view true = (None, bs "abc", []) /\ block_view false = (None, [], []).
Proof. exact block_without_own_release. Qed.

(* non-vacuity: a program with a literal, two expressions (the second failing), a nested template, join, flush, raw,
   a hand-written component, if / else-if / else, a for loop with a per-iteration expression (failing in iteration 2
   when asked to), a switch and a boolean attribute; cap = 4; the destination fails after 9 bytes, or never *)
Definition ex_env (loopfail : bool) : list nat -> N -> bytes * option N :=
  fun path i => if N.eqb i 2 then (bs "zz", Some 5%N)
                else if N.eqb i 3 then (match path with [k] => dec (N.of_nat k) | _ => bs "?" end,
                                        match path with [2] => if loopfail then Some 6%N else None | _ => None end)
                else (bs "<v>", None).
Definition ex_benv : list nat -> N -> bool := fun _ i => N.eqb i 11.
Definition ex_senv : list nat -> N -> nat := fun _ _ => 1.
Definition ex_cnt : list nat -> N -> nat := fun _ _ => 4.
Definition ex_body (failing : bool) : list node :=
  [Lit (bs "<p>"); Expr 1%N (bs "t.templ") 3%N 9%N; Templ true [Lit (bs "in"); Func [FWrite (bs "0123456789")]];
   Flush [Lit (bs "fl")]; Join [Raw (bs "<hr>") None; Nop];
   If (CBool 10%N) [Lit (bs "A")] [If (CBool 11%N) [Lit (bs "B")] [Lit (bs "C")]];
   CondLit 10%N (bs " hidden"); CondLit 11%N (bs " open");
   For 20%N [Lit (bs "("); Expr 3%N (bs "t.templ") 5%N 2%N; Lit (bs ")")];
   Switch 30%N [[Lit (bs "s0")]; [Lit (bs "s1")]] [Lit (bs "sd")];
   Expr (if failing then 2%N else 1%N) (bs "t.templ") 7%N 4%N; Lit (bs "</p>")].
Definition ex_world (mode : N) (limit : nat) : world fsink :=
  {| sst := {| f_mode := mode; f_limit := limit; f_tripped := false; f_err := 3%N |}; recv := []; log := []; marks := [] |}.
Definition ex_view (r : option err * world fsink * list bw) : option err * bytes := (fst (fst r), recv (snd (fst r))).
Definition ex_render (loopfail : bool) (cancel : option N) (failing : bool) (mode : N) (limit : nat) :=
  ex_view (render_top fsink fsink_step 4 false true html_escape (ex_env loopfail) ex_benv ex_senv ex_cnt cancel true [] 0 true
             (ex_body failing) (ex_world mode limit)).

Example C10_ex_complete :
  ex_render false None false 0%N 0 = (None, bs "<p>&lt;v&gt;in0123456789fl<hr>B open(0)(1)(2)(3)s1&lt;v&gt;</p>") /\
  denote html_escape (ex_env false) ex_benv ex_senv ex_cnt None (Templ true (ex_body false)) []
    = (bs "<p>&lt;v&gt;in0123456789fl<hr>B open(0)(1)(2)(3)s1&lt;v&gt;</p>", None).
Proof. split; vm_compute; reflexivity. Qed.
Example C10_ex_sink_fails : ex_render false None false 1%N 9 = (Some (ESink 3%N), bs "<p>&lt;v&").
Proof. vm_compute. reflexivity. Qed.
Example C10_ex_expr_fails :
  ex_render false None true 0%N 0
    = (Some (ETempl (bs "t.templ") 7%N 4%N (EExpr 5%N)), bs "<p>&lt;v&gt;in0123456789fl<hr>B open(0)(1)(2)(3)s1").
Proof. vm_compute. reflexivity. Qed.
(* an expression failing in the third iteration of the loop: the first two iterations are out, the loop is left *)
Example C10_ex_loop_iteration_fails :
  ex_render true None false 0%N 0
    = (Some (ETempl (bs "t.templ") 5%N 2%N (EExpr 6%N)), bs "<p>&lt;v&gt;in0123456789fl<hr>B open(0)(1)(").
Proof. vm_compute. reflexivity. Qed.
Example C10_ex_cancelled : ex_render false (Some 1%N) false 0%N 0 = (Some (ECtx 1%N), []).
Proof. vm_compute. reflexivity. Qed.
(* hand-written components that are passed a block: <x>{ v }</x> through a forwarding writer (tee), twice into the
   writer the component was given, not at all, through a writer that fails after 5 bytes (the component reporting
   its writer itself / returning what the block returned), into a bytes.Buffer that is copied afterwards; a block whose
   expression fails; cap = 4 *)
Definition exh_block (failing : bool) : list node := [Lit (bs "<x>"); Expr (if failing then 2%N else 1%N) (bs "t.templ") 9%N 3%N; Lit (bs "</x>")].
Definition exh_render (k : hkind) (times : nat) (failing : bool) (mode : N) (limit : nat) :=
  ex_view (render_top fsink fsink_step 4 false true html_escape (ex_env false) ex_benv ex_senv ex_cnt None true [] 0 true
             [Lit (bs "["); Host k times (exh_block failing); Lit (bs "]")] (ex_world mode limit)).
Example C10_ex_host_tee : exh_render (HFwd None 1%N false) 1 false 0%N 0 = (None, bs "[<x>&lt;v&gt;</x>]").
Proof. vm_compute. reflexivity. Qed.
Example C10_ex_host_twice : exh_render HPass 2 false 0%N 0 = (None, bs "[<x>&lt;v&gt;</x><x>&lt;v&gt;</x>]").
Proof. vm_compute. reflexivity. Qed.
Example C10_ex_host_tee_twice : exh_render (HFwd None 1%N true) 2 false 0%N 0 = (None, bs "[<x>&lt;v&gt;</x><x>&lt;v&gt;</x>]").
Proof. vm_compute. reflexivity. Qed.
Example C10_ex_host_not_at_all : exh_render (HFwd None 1%N false) 0 false 0%N 0 = (None, bs "[]").
Proof. vm_compute. reflexivity. Qed.
Example C10_ex_host_capture : exh_render HCapture 1 false 0%N 0 = (None, bs "[<x>&lt;v&gt;</x>]").
Proof. vm_compute. reflexivity. Qed.
(* the component's own writer fails after 5 bytes: its error comes back, a prefix has arrived *)
Example C10_ex_host_limit_own : exh_render (HFwd (Some 5) 8%N true) 1 false 0%N 0 = (Some (EComp 8%N), bs "[<x>&l").
Proof. vm_compute. reflexivity. Qed.
Example C10_ex_host_limit_trust : exh_render (HFwd (Some 5) 8%N false) 1 false 0%N 0 = (Some (EComp 8%N), bs "[<x>&l").
Proof. vm_compute. reflexivity. Qed.
(* the limit is not reached: nothing fails *)
Example C10_ex_host_limit_not_reached : exh_render (HFwd (Some 50) 8%N false) 1 false 0%N 0 = (None, bs "[<x>&lt;v&gt;</x>]").
Proof. vm_compute. reflexivity. Qed.
(* the block's expression fails: its error comes back; through the forwarding writer what the block wrote before has
   arrived, the capturing component has written nothing of it *)
Example C10_ex_host_block_fails :
  exh_render (HFwd None 1%N false) 1 true 0%N 0 = (Some (ETempl (bs "t.templ") 9%N 3%N (EExpr 5%N)), bs "[<x>") /\
  exh_render HCapture 1 true 0%N 0 = (Some (ETempl (bs "t.templ") 9%N 3%N (EExpr 5%N)), bs "[").
Proof. split; vm_compute; reflexivity. Qed.
(* the destination fails after 6 bytes while the block is written through the forwarding writer *)
Example C10_ex_host_destination_fails : exh_render (HFwd None 1%N false) 1 false 1%N 6 = (Some (ESink 3%N), bs "[<x>&l").
Proof. vm_compute. reflexivity. Qed.
Example C10_ex_host_errs : host_errs (Templ true [Host (HFwd (Some 5) 8%N true) 1 [Host (HFwd None 2%N true) 1 []; Host (HFwd (Some 1) 9%N false) 2 []]]) = [EComp 8%N; EComp 9%N].
Proof. reflexivity. Qed.
(* the same program into the caller's bufio.Writer (size 8) in front of a writer that fails after 9 bytes / never *)
Definition ex_wrapped (failing : bool) (mode : N) (limit : nat) :=
  let o := render_wrapped fsink fsink_step 8 4 html_escape (ex_env false) ex_benv ex_senv ex_cnt None [] 0 true (ex_body failing)
             {| f_mode := mode; f_limit := limit; f_tripped := false; f_err := 3%N |} in
  (wo_res o, wo_fres o, wo_got o).
Example C10_ex_wrapped_complete :
  ex_wrapped false 0%N 0 = (None, None, bs "<p>&lt;v&gt;in0123456789fl<hr>B open(0)(1)(2)(3)s1&lt;v&gt;</p>").
Proof. vm_compute. reflexivity. Qed.
Example C10_ex_wrapped_sink_fails : ex_wrapped false 1%N 9 = (Some (ESink 3%N), Some (ESink 3%N), bs "<p>&lt;v&").
Proof. vm_compute. reflexivity. Qed.
(* the writer behind fails only when the caller flushes: Render itself returns nil *)
Example C10_ex_wrapped_fails_in_callers_flush :
  let o := render_wrapped fsink fsink_step 64 4 html_escape (ex_env false) ex_benv ex_senv ex_cnt None [] 0 true [Lit (bs "hello world")]
             {| f_mode := 1%N; f_limit := 5; f_tripped := false; f_err := 3%N |} in
  (wo_res o, wo_fres o, wo_got o, wo_thru o) = (None, Some (ESink 3%N), bs "hello", 0).
Proof. vm_compute. reflexivity. Qed.
Example C10_ex_contract : forall s p n s', p <> [] -> f_mode s <> 4%N -> fsink_step s p = (n, None, s') ->
  f_mode s = 0%N \/ f_mode s = 3%N \/ 0 < n \/ f_limit s = 0.
Proof.
  intros s p n s' Hp Hm H. unfold fsink_step in H.
  destruct (N.eqb (f_mode s) 0) eqn:M0; [left; apply N.eqb_eq; exact M0|].
  destruct (N.eqb (f_mode s) 3) eqn:M3; [right; left; apply N.eqb_eq; exact M3|].
  right. right.
  destruct (f_tripped s).
  - destruct (N.eqb (f_mode s) 4) eqn:M4; [apply N.eqb_eq in M4; contradiction|discriminate].
  - destruct (length p <=? f_limit s) eqn:L.
    + inversion H; subst. left. destruct p; [contradiction|cbn; apply Nat.lt_0_succ].
    + destruct (N.eqb (f_mode s) 1); [discriminate|]. destruct (N.eqb (f_mode s) 2); [discriminate|].
      inversion H; subst. destruct (f_limit s); [right; reflexivity|left; apply Nat.lt_0_succ].
Qed.
