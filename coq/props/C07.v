(* C07 - the source map relates every Go expression byte to the same byte in generated code.
   This file holds property statements only; each is closed by [exact].
   Models: model/SourceMap.v (SourceMap.Add, the two tables), model/Gen.v (RangeWriter, generator),
   model/ProxyCache.v (the language-server proxy's DidOpen / DidChange / DidClose: held text, cached map, Go text at gopls),
   model/GenOpts.v (the GenerateOpt values given to Generate and the comment lines they put in front of the file).
   Specification: spec/SmSpec.v (pos_of, sget/target_from_source/source_from_target, rune_starts, add_faithful, range_ok),
   spec/ProxySpec.v (held_map_current, held_map_matches_gopls).
   Vocabulary (proofs/SourceMapProof.v): [rune_starts (S |l|) l 0] = the rune starts of a line and the offset one past
   its end; [roff lines i] = the byte offset of line i as Add counts it, [line_off lines i] = as the text has it (equal
   when no line ends inside a multi-byte sequence: [aligned]); [col0 i c] = c on the first line, 0 on later lines;
   [src_keys e]/[tgt_keys e tp] = the (line, col) keys Add writes; [entries e tp m] = e's entries are in both tables. *)
From Coq.Strings Require Import Byte String.
From Coq Require Import List Arith NArith Bool.
Import ListNotations.
From V Require Import lib.Bytes lib.Sexp model.Ast model.Gen model.SourceMap spec.SmSpec.
From Coq Require Import Permutation.
From V Require Import proofs.SourceMapProof proofs.RangeWriterProof proofs.SmFaithfulProof proofs.GenAddsProof proofs.GenExprsProof.
From V Require Import model.ProxyCache spec.ProxySpec proofs.ProxyCacheProof.
From V Require Import model.GenOpts proofs.GenOptsProof.
Local Open Scope nat_scope.

(* ---------------------------------------------------------------------------------------------------- 1 *)
(* After Add(e, tp): for every line i of e.Value (split on LF), every rune start j of that line and the offset
   one past its end: source (from.line+i, c0+j) -> (tp.index + off_i + j, tp.line+i, c0'+j), and the target->source
   table holds the mirror entry.  All inputs: any bytes (multi-byte, malformed), any prior tables. *)
Theorem C07_add_maps_every_rune_start :
  forall (e : expr) (tp : pos) (m : smap * smap) (i : nat) (l : bytes) (j : nat),
    nth_error (split_on x0a (e_val e) []) i = Some l ->
    In j (rune_starts (S (length l)) l 0) ->
    let lines := split_on x0a (e_val e) [] in
    let m' := sm_add e tp m in
    sget (e_fl e + N.of_nat i, col0 i (e_fc e) + N.of_nat j)%N (fst m')
      = Some (fst (fst tp) + N.of_nat (roff lines i) + N.of_nat j, snd (fst tp) + N.of_nat i, col0 i (snd tp) + N.of_nat j)%N
    /\ sget (snd (fst tp) + N.of_nat i, col0 i (snd tp) + N.of_nat j)%N (snd m')
      = Some (e_fi e + N.of_nat (roff lines i) + N.of_nat j, e_fl e + N.of_nat i, col0 i (e_fc e) + N.of_nat j)%N.
Proof. exact sm_add_entries. Qed.
Print Assumptions C07_add_maps_every_rune_start.

(* Add's running index is the byte offset of the line in the expression text whenever no line ends inside a
   multi-byte sequence; ASCII lines are such lines and every byte offset of an ASCII line is a rune start. *)
Theorem C07_offsets_are_byte_offsets :
  (forall (lines : list bytes) (i : nat), Forall aligned lines -> roff lines i = line_off lines i) /\
  (forall l : bytes, Forall (fun b => Byte.to_nat b < 128) l ->
     aligned l /\ forall j, j <= length l -> In j (rune_starts (S (length l)) l 0)).
Proof.
  exact (conj roff_aligned (fun l H => conj (ascii_aligned l H) (proj2 (rune_ascii l (S (length l)) H (Nat.lt_succ_diag_r _))))).
Qed.
Print Assumptions C07_offsets_are_byte_offsets.

(* Consecutive positions map to consecutive positions: the rune after offset j (k = width of the lead byte at j)
   starts at j+k, both are mapped, the target of j+k is the target of j moved by k on the same line, and both
   targets map back. *)
Theorem C07_consecutive :
  forall (e : expr) (tp : pos) (m : smap * smap) (i : nat) (l : bytes) (j : nat),
    nth_error (split_on x0a (e_val e) []) i = Some l -> In j (rune_starts (S (length l)) l 0) -> j < length l ->
    let k := lead_width (nth j l x00) in
    let lines := split_on x0a (e_val e) [] in
    let m' := sm_add e tp m in
    exists a b : pos, In (j + k) (rune_starts (S (length l)) l 0) /\
      sget (e_fl e + N.of_nat i, col0 i (e_fc e) + N.of_nat j)%N (fst m') = Some a /\
      sget (e_fl e + N.of_nat i, col0 i (e_fc e) + N.of_nat j + N.of_nat k)%N (fst m') = Some b /\
      b = (fst (fst a) + N.of_nat k, snd (fst a), snd a + N.of_nat k)%N /\
      sget (snd (fst a), snd a) (snd m') = Some (e_fi e + N.of_nat (roff lines i) + N.of_nat j, e_fl e + N.of_nat i, col0 i (e_fc e) + N.of_nat j)%N /\
      sget (snd (fst b), snd b) (snd m') = Some (e_fi e + N.of_nat (roff lines i) + N.of_nat j + N.of_nat k, e_fl e + N.of_nat i, col0 i (e_fc e) + N.of_nat j + N.of_nat k)%N.
Proof. exact consecutive. Qed.
Print Assumptions C07_consecutive.

(* non-vacuity: f(e-acute,<LF> u-umlaut) added at target (17,2,6): rune start 2 of line 0 (the two-byte character),
   the offset one past the end of line 1, the mirror entries; the continuation byte is not a key *)
Example C07_ex_add :
  let m' := sm_add ex_e ex_tp ([], []) in
  nth_error (split_on x0a (e_val ex_e) []) 1 = Some [x20; xc3; xbc; x29] /\
  rune_starts 5 [x20; xc3; xbc; x29] 0 = [0; 1; 3; 4] /\
  sget (1, 3 + 2)%N (fst m') = Some (17 + 2, 2, 6 + 2)%N /\
  sget (1, 3 + 3)%N (fst m') = None /\
  sget (2, 4)%N (fst m') = Some (17 + 6 + 4, 3, 4)%N /\
  sget (3, 4)%N (snd m') = Some (13 + 6 + 4, 2, 4)%N /\
  roff (split_on x0a (e_val ex_e) []) 1 = 6.
Proof. vm_compute. repeat split; reflexivity. Qed.
Example C07_ex_consecutive :
  In 2 (rune_starts 6 [x66; x28; xc3; xa9; x2c] 0) /\ lead_width (nth 2 [x66; x28; xc3; xa9; x2c] x00) = 2 /\
  In 4 (rune_starts 6 [x66; x28; xc3; xa9; x2c] 0).
Proof. vm_compute. auto 10. Qed.
Example C07_ex_aligned : Forall aligned (split_on x0a (e_val ex_e) []) /\ ~ aligned [x61; xc3].
Proof. split; [repeat constructor|vm_compute; discriminate]. Qed.

(* ---------------------------------------------------------------------------------------------------- 2 *)
(* Add leaves every key outside the key set of e unchanged, in both tables. *)
Theorem C07_add_preserves_other_keys :
  forall (e : expr) (tp : pos) (m : smap * smap),
    (forall k, ~ In k (src_keys e) -> sget k (fst (sm_add e tp m)) = sget k (fst m)) /\
    (forall k, ~ In k (tgt_keys e tp) -> sget k (snd (sm_add e tp m)) = sget k (snd m)).
Proof. exact sm_add_preserves. Qed.
Print Assumptions C07_add_preserves_other_keys.

(* the key sets are exactly the keys of theorem 1 *)
Theorem C07_key_sets :
  forall (lines : list bytes) (ln c0 : N) (k : key),
    In k (lines_keys lines ln c0) <->
    exists i l j, nth_error lines i = Some l /\ In j (rune_starts (S (length l)) l 0) /\ k = (ln + N.of_nat i, col0 i c0 + N.of_nat j)%N.
Proof. exact in_lines_keys. Qed.
Print Assumptions C07_key_sets.

(* In the map built from a list of Adds (sourcemap = fold of sm_add from the empty tables): the entries of an Add
   survive to the final map if the later Adds have key sets disjoint from its own. *)
Theorem C07_adds_disjoint :
  forall (pre : list (expr * pos)) (e : expr) (tp : pos) (post : list (expr * pos)),
    (forall e' tp', In (e', tp') post -> disj (src_keys e) (src_keys e') /\ disj (tgt_keys e tp) (tgt_keys e' tp')) ->
    entries e tp (sourcemap (pre ++ (e, tp) :: post)).
Proof. exact adds_disjoint. Qed.
Print Assumptions C07_adds_disjoint.

Theorem C07_adds_pairwise_disjoint :
  forall adds : list (expr * pos), pairwise_disj adds ->
    forall e tp, In (e, tp) adds -> entries e tp (sourcemap adds).
Proof. exact adds_pairwise_disjoint. Qed.
Print Assumptions C07_adds_pairwise_disjoint.

Example C07_ex_other_key : ~ In (1, 6)%N (src_keys ex_e) /\ In (1, 7)%N (src_keys ex_e).
Proof. split; [vm_compute; intuition discriminate|vm_compute; auto 10]. Qed.
Example C07_ex_pairwise : pairwise_disj [(ex_e, ex_tp); (ex_e2, ex_tp2)] /\
  sget (3, 0)%N (fst (sourcemap [(ex_e, ex_tp); (ex_e2, ex_tp2)])) = Some (60, 5, 1)%N /\
  sget (1, 5)%N (fst (sourcemap [(ex_e, ex_tp); (ex_e2, ex_tp2)])) = Some (19, 2, 8)%N.
Proof. split; [apply pairwise_disjb_ok; vm_compute; reflexivity|vm_compute; split; reflexivity]. Qed.

(* ---------------------------------------------------------------------------------------------------- 3 *)
(* RangeWriter: Current = position reached by walking everything written so far.  Established by the initial
   writer, preserved by write, closeLiteral, WriteIndent, Write, WriteStringLiteral. *)
Theorem C07_writer_invariant :
  wf rw0 /\
  forall w : rw, wf w ->
    (forall s, wf (raw s w)) /\ (forall lvl, wf (close_literal lvl w)) /\ (forall lvl s, wf (wi_ lvl s w)) /\
    (forall s, wf (wr_ s w)) /\ (forall s, wf (wl_ s w)).
Proof. exact writer_position. Qed.
Print Assumptions C07_writer_invariant.

(* ... hence Current is the specification's position (index, line, column) of the first byte written next *)
Theorem C07_writer_position_is_pos_of_output :
  forall (w : rw) (rest : bytes), wf w ->
    cur w = pos_of (outtext w ++ rest) (N.of_nat (length (outtext w))).
Proof. exact wf_pos_of. Qed.
Print Assumptions C07_writer_position_is_pos_of_output.

(* Write(e.Value) + Add(e, range): the generated text becomes pre ++ e.Value and the position handed to Add is the
   position of offset |pre| of the generated text, with index |pre|. *)
Theorem C07_target_holds_expression_bytes :
  forall (e : expr) (g : gst), wf (w g) ->
    exists (pre : bytes) (tp : pos),
      adds (wre e g) = (e, tp) :: adds g
      /\ outtext (w (wre e g)) = pre ++ e_val e
      /\ tp = pos_of (outtext (w (wre e g))) (N.of_nat (length pre))
      /\ fst (fst tp) = N.of_nat (length pre)
      /\ wf (w (wre e g)).
Proof. exact target_holds_expression_bytes. Qed.
Print Assumptions C07_target_holds_expression_bytes.

(* WriteIndent(level, e.Value ++ s) + Add(e, range) (raw Go code, case clauses): same, after the indentation *)
Theorem C07_target_holds_expression_bytes_indent :
  forall (lvl : nat) (e : expr) (s : bytes) (g : gst), wf (w g) ->
    exists (pre : bytes) (tp : pos),
      adds (wie lvl e (e_val e ++ s) g) = (e, tp) :: adds g
      /\ outtext (w (wie lvl e (e_val e ++ s) g)) = pre ++ e_val e ++ s
      /\ tp = pos_of (outtext (w (wie lvl e (e_val e ++ s) g))) (N.of_nat (length pre))
      /\ fst (fst tp) = N.of_nat (length pre)
      /\ wf (w (wie lvl e (e_val e ++ s) g)).
Proof. exact target_holds_expression_bytes_indent. Qed.
Print Assumptions C07_target_holds_expression_bytes_indent.

Example C07_ex_writer :
  let g := wl (bs "<p>") (wi 1 (bs "x := 1") (g_init ex_fn)) in
  wf (w g) /\ inlit (w g) = true /\
  adds (wre ex_e g) = [(ex_e, (146, 4, 0)%N)] /\ pos_of (outtext (w (wre ex_e g))) 146 = (146, 4, 0)%N /\
  skipn 146 (outtext (w (wre ex_e g))) = ex_val.
Proof. vm_compute. repeat split; reflexivity. Qed.

(* ---------------------------------------------------------------------------------------------------- 4 *)
(* Link to the executable predicate the harness evaluates on the real map and the real generated text: if the
   target position recorded for e is a position of the generated text [out] (tp = pos_of out tp.index), [out]
   holds e.Value there, e's entries are in the tables (theorems 1-2: they were added and not overwritten) and no
   line of e ends inside a multi-byte sequence, then SmSpec.add_faithful holds. *)
Theorem C07_add_faithful_link :
  forall (src out : bytes) (s2t t2s : smap) (e : expr) (tp : pos),
    Forall aligned (split_on x0a (e_val e) []) ->
    tp = pos_of out (fst (fst tp)) ->
    has_prefix (e_val e) (skipn (N.to_nat (fst (fst tp))) out) = true ->
    entries e tp (s2t, t2s) ->
    add_faithful src out s2t t2s e = true.
Proof. exact add_faithful_link. Qed.
Print Assumptions C07_add_faithful_link.

(* The property at byte level.  With, in addition, range_ok src e (the parser's range agrees with the source text,
   C06): for every rune start (and line end) at byte offset k of the expression, the source position
   pos_of src (from+k) is mapped to t = pos_of out (tp.index+k), t maps back to that source position, and the
   generated text at t holds the same byte as the source at from+k. *)
Theorem C07_same_byte :
  forall (src out : bytes) (m : smap * smap) (e : expr) (tp : pos),
    range_ok src e = true ->
    Forall aligned (split_on x0a (e_val e) []) ->
    tp = pos_of out (fst (fst tp)) ->
    has_prefix (e_val e) (skipn (N.to_nat (fst (fst tp))) out) = true ->
    entries e tp m ->
    forall i l j, nth_error (split_on x0a (e_val e) []) i = Some l -> In j (rune_starts (S (length l)) l 0) ->
      let k := N.of_nat (line_off (split_on x0a (e_val e) []) i + j) in
      let sp := pos_of src (e_fi e + k) in
      let t := pos_of out (fst (fst tp) + k) in
      fst (fst sp) = (e_fi e + k)%N /\ fst (fst t) = (fst (fst tp) + k)%N /\
      target_from_source (fst m) (snd (fst sp)) (snd sp) = Some t /\
      source_from_target (snd m) (snd (fst t)) (snd t) = Some sp /\
      (j < length l -> nth_error out (N.to_nat (fst (fst tp) + k)) = nth_error src (N.to_nat (e_fi e + k))
                       /\ nth_error src (N.to_nat (e_fi e + k)) = nth_error l j).
Proof. exact same_byte. Qed.
Print Assumptions C07_same_byte.

Example C07_ex_link :
  range_ok ex_src ex_e = true /\ Forall aligned (split_on x0a (e_val ex_e) []) /\
  ex_tp = pos_of ex_out (fst (fst ex_tp)) /\
  has_prefix (e_val ex_e) (skipn (N.to_nat (fst (fst ex_tp))) ex_out) = true /\
  entries ex_e ex_tp (sm_add ex_e ex_tp ([], [])) /\
  add_faithful ex_src ex_out (fst (sm_add ex_e ex_tp ([], []))) (snd (sm_add ex_e ex_tp ([], []))) ex_e = true.
Proof.
  split; [vm_compute; reflexivity|]. split; [repeat constructor|]. split; [vm_compute; reflexivity|].
  split; [vm_compute; reflexivity|]. split; [apply sm_add_entries|vm_compute; reflexivity].
Qed.

(* ---------------------------------------------------------------------------------------------------- 5 *)
(* Whole generator model: every (expression, position) pair the generator hands to Add is such that the FINAL
   generated code holds the expression's bytes at that position, and the position is pos_of code of its own
   index.  (gen_state fn f = gen_all f from the initial state; its adds are the Adds in reverse order; the code
   and the dumped map are those of generate_all.) *)
Theorem C07_generated_file_faithful :
  forall (fn : bytes) (f : file) (e : expr) (tp : pos),
    In (e, tp) (adds (gen_state fn f)) ->
    let code := fst (fst (generate_all fn f)) in
    tp = pos_of code (fst (fst tp)) /\ has_prefix (e_val e) (skipn (N.to_nat (fst (fst tp))) code) = true.
Proof. exact generated_file_faithful. Qed.
Print Assumptions C07_generated_file_faithful.

(* End to end on the model: if the Adds of the file have pairwise disjoint key sets, the predicate the harness
   evaluates holds, on the model's own code and tables, of every added expression whose lines do not end inside a
   multi-byte sequence. *)
Theorem C07_generated_file_add_faithful :
  forall (fn : bytes) (f : file) (src : bytes),
    let g := gen_state fn f in
    let code := fst (fst (generate_all fn f)) in
    let m := sourcemap (rev (adds g)) in
    pairwise_disj (rev (adds g)) ->
    forall e tp, In (e, tp) (adds g) -> Forall aligned (split_on x0a (e_val e) []) ->
    add_faithful src code (fst m) (snd m) e = true.
Proof. exact generated_file_add_faithful. Qed.
Print Assumptions C07_generated_file_add_faithful.

Example C07_ex_generated :
  map fst (rev (adds (gen_state ex_fn ex_file))) = [f_pkg ex_file; mk_e (bs "T()") 17 2 6; mk_e (bs "c") 40 3 13; mk_e [x22; xc3; xa9; x22] 46 3 19] /\
  pairwise_disj (rev (adds (gen_state ex_fn ex_file))).
Proof. split; [vm_compute; reflexivity|apply pairwise_disjb_ok; vm_compute; reflexivity]. Qed.

(* Every Go expression of the file is covered, and nothing else: the expressions the generator hands to Add are,
   up to order and leaving whitespace-only expressions aside, exactly SmSpec.file_exprs (all syntactic slots).
   file_ok f: the package expression has the zero range only when it is blank (a file without a package clause: the
   generator then writes it without adding it), and for every template of f, no attribute expression has a zero range, conditional attributes nest
   fewer than 50 deep (ok_node / ok_attr), and the node nesting is within the model's fuel
   (node_exprs 100 = node_exprs 200 on its children). *)
Theorem C07_all_expressions_added :
  forall (fn : bytes) (f : file), file_ok f ->
    Permutation (filter (fun e => negb (forallb is_blank (e_val e))) (map fst (adds (gen_state fn f)))) (file_exprs f).
Proof. exact all_expressions_added. Qed.
Print Assumptions C07_all_expressions_added.

(* in particular nothing synthetic is added: every non-blank added expression is an expression of the AST *)
Theorem C07_nothing_else_added :
  forall (fn : bytes) (f : file) (e : expr), file_ok f ->
    In e (map fst (adds (gen_state fn f))) -> forallb is_blank (e_val e) = false -> In e (file_exprs f).
Proof. exact nothing_else_added. Qed.
Print Assumptions C07_nothing_else_added.

Example C07_ex_file_ok : file_ok ex_file /\ length (file_exprs ex_file) = 4.
Proof. split; [exact ex_file_ok|vm_compute; reflexivity]. Qed.

(* Regression (defect fixed by the `fix:` commit for C07): the class-attribute path hands a synthetic expression
   with a zero range to the default attribute writer.  The fixed generator (wre_nz) does not Add it; had it been
   added (at whatever target position tp), source (0,0) - the package clause - would map to tp instead of to the
   package clause in the generated code. *)
Lemma C07_regression_synthetic_class_add :
  let adds_fixed := rev (adds (gen_state ex_fn ex_file)) in
  ~ In ex_syn (map fst adds_fixed) /\
  target_from_source (fst (sourcemap adds_fixed)) 0 0 = Some (43, 2, 0)%N /\
  pos_of (fst (fst (generate_all ex_fn ex_file))) 43 = (43, 2, 0)%N /\
  forall tp : pos, target_from_source (fst (sourcemap (adds_fixed ++ [(ex_syn, tp)]))) 0 0 = Some tp.
Proof.
  split; [vm_compute; intuition discriminate|]. split; [vm_compute; reflexivity|]. split; [vm_compute; reflexivity|].
  intros [[a b] c]. vm_compute. reflexivity.
Qed.

(* ---------------------------------------------------------------------------------------------------- 6 *)
(* The source map the language-server proxy HOLDS.  model/ProxyCache.v: the server's DidOpen / DidChange / DidClose on
   templ documents (held text, SourceMapCache, GoSource, the Go text given to gopls), for any verdict function
   [parse] of the (unmodelled) parser and any history of notifications, over any number of documents.
   After every history, for every URI: if the held text is accepted, the held map is the source map of THAT text and
   gopls has the Go text generated from THAT text (held_map_current); and whatever map is held - also while the held
   text does not parse - is the map of an accepted text whose Go text is the one gopls has (held_map_matches_gopls). *)
Theorem C07_proxy_holds_map_of_held_text :
  forall (parse : bytes -> option file) (evs : list pev) (u : bytes),
    let s := run parse evs in
    held_map_current (gen_of parse) (lookup u (docs s)) (lookup u (cache s)) (lookup u (gopls s)) /\
    held_map_matches_gopls (gen_of parse) (lookup u (cache s)) (lookup u (gopls s)).
Proof. exact proxy_coherent. Qed.
Print Assumptions C07_proxy_holds_map_of_held_text.

(* ... hence, with theorem 5, the predicate the harness evaluates on the server's state holds after every history: for
   a document whose held text d is accepted (AST f), the proxy holds a map m and gopls a Go text code with
   add_faithful d code m e for every expression e the generator Added (all expressions of f: C07_all_expressions_added),
   under the hypotheses of C07_generated_file_add_faithful. *)
Theorem C07_proxy_held_map_faithful :
  forall (parse : bytes -> option file) (evs : list pev) (u d : bytes) (f : file),
    let s := run parse evs in
    lookup u (docs s) = Some d -> parse d = Some f ->
    pairwise_disj (rev (adds (gen_state [] f))) ->
    exists m code, lookup u (cache s) = Some m /\ lookup u (gopls s) = Some code /\
      forall e tp, In (e, tp) (adds (gen_state [] f)) -> Forall aligned (split_on x0a (e_val e) []) ->
        add_faithful d code (fst m) (snd m) e = true.
Proof. exact proxy_held_map_faithful. Qed.
Print Assumptions C07_proxy_held_map_faithful.

(* Refuted variant: a proxy that returns from DidChange before SourceMapCache.Set when the new Go text equals the one
   gopls already has (run_skip).  didOpen "package p\n\ntempl T() {\n}\n", then a blank line typed above the template:
   the two texts generate the same Go text, the held text is the second, the held map is still the first one's, which
   has no entry for the signature's new position (3,6) - the real transition system holds the second map. *)
Lemma C07_proxy_skip_when_go_unchanged_refuted :
  let s := run_skip sk_parse sk_evs in
  fst (generate_tables [] sk_f1) = fst (generate_tables [] sk_f2) /\
  lookup sk_u (docs s) = Some sk_t2 /\
  lookup sk_u (cache s) = Some (snd (generate_tables [] sk_f1)) /\
  target_from_source (fst (snd (generate_tables [] sk_f1))) 3 6 = None /\
  target_from_source (fst (snd (generate_tables [] sk_f2))) 3 6 <> None /\
  ~ held_map_current (gen_of sk_parse) (lookup sk_u (docs s)) (lookup sk_u (cache s)) (lookup sk_u (gopls s)).
Proof. exact skip_variant_stale. Qed.
Example C07_ex_proxy_real :
  let s := run sk_parse sk_evs in
  lookup sk_u (cache s) = Some (snd (generate_tables [] sk_f2)) /\ lookup sk_u (gopls s) = Some (fst (generate_tables [] sk_f2)).
Proof. exact real_variant_current. Qed.

(* ---------------------------------------------------------------------------------------------------- 7 *)
(* The generator OPTIONS.  model/GenOpts.v: Generate(template, w, opts...) for any list [os] of WithVersion(v),
   WithTimestamp(d) (d = the formatted date the option stores), WithFileName(n), WithSkipCodeGeneratedComment() - any
   values (any bytes: line feeds, multi-byte text), any order, repeated or absent.  The options decide the first lines
   of the file ("//" or the code-generated comment, "// templ: version: v", "// templ: generated: d" - the last by
   writeUnrecorded) and the file name spelled in the error handlers; everything after is Gen.gen_all's.
   Without options, or with a file name only, the model is the generator model of sections 5-6. *)
Theorem C07_options_none_is_the_generator :
  (forall f, generate_all_o [] f = generate_all [] f /\ gen_state_o [] f = gen_state [] f) /\
  (forall n f, generate_all_o [OFileName n] f = generate_all (opt_file_name n) f /\ gen_state_o [OFileName n] f = gen_state (opt_file_name n) f) /\
  (forall fn f g, gen_all_o {| o_version := []; o_fname := fn; o_skip := false; o_date := [] |} f g = gen_all f g).
Proof.
  exact (conj (fun f => conj (generate_all_o_nil f) (gen_state_o_nil f))
        (conj (fun n f => conj (generate_all_o_file_name n f) (gen_state_o_file_name n f)) gen_all_o_default)).
Qed.
Print Assumptions C07_options_none_is_the_generator.

(* The lines the options add go through the RangeWriter: after them, for EVERY option record, the writer invariant
   holds, Current is the specification's position of the end of what has been written, and no literal is pending. *)
Theorem C07_option_lines_move_the_writer :
  forall (o : gopts) (rest : bytes),
    let w1 := w (prologue o (g_init_o o)) in
    wf w1 /\ cur w1 = pos_of (outtext w1 ++ rest) (N.of_nat (length (outtext w1))) /\ inlit w1 = false.
Proof.
  exact (fun o rest => conj (proj1 (good_prologue o (g_init_o o) (Inv_init_o o)))
                      (conj (prologue_position o rest) (inlit_after_prologue o (g_init_o o)))).
Qed.
Print Assumptions C07_option_lines_move_the_writer.

(* Theorem 5 for every list of options: every (expression, position) handed to Add is such that the final code holds
   the expression's bytes there and the position is pos_of code of its own index. *)
Theorem C07_generated_file_faithful_under_options :
  forall (os : list gopt) (f : file) (e : expr) (tp : pos),
    In (e, tp) (adds (gen_state_o os f)) ->
    let code := fst (fst (generate_all_o os f)) in
    tp = pos_of code (fst (fst tp)) /\ has_prefix (e_val e) (skipn (N.to_nat (fst (fst tp))) code) = true.
Proof. exact generated_file_faithful_o. Qed.
Print Assumptions C07_generated_file_faithful_under_options.

Theorem C07_generated_file_add_faithful_under_options :
  forall (os : list gopt) (f : file) (src : bytes),
    let g := gen_state_o os f in
    let code := fst (fst (generate_all_o os f)) in
    let m := sourcemap (rev (adds g)) in
    pairwise_disj (rev (adds g)) ->
    forall e tp, In (e, tp) (adds g) -> Forall aligned (split_on x0a (e_val e) []) ->
    add_faithful src code (fst m) (snd m) e = true.
Proof. exact generated_file_add_faithful_o. Qed.
Print Assumptions C07_generated_file_add_faithful_under_options.

(* ... and coverage: whatever the options, the expressions Added are exactly the AST's. *)
Theorem C07_all_expressions_added_under_options :
  forall (os : list gopt) (f : file), file_ok f ->
    Permutation (filter (fun e => negb (forallb is_blank (e_val e))) (map fst (adds (gen_state_o os f)))) (file_exprs f).
Proof. exact all_expressions_added_o. Qed.
Print Assumptions C07_all_expressions_added_under_options.

(* What a list of options means: the last option of a kind wins; an absolute file name keeps its last element. *)
Theorem C07_options_last_wins :
  forall os : list gopt,
    (forall v, o_version (apply_opts (os ++ [OVersion v])) = v) /\
    (forall d, o_date (apply_opts (os ++ [OTimestamp d])) = d) /\
    (forall n, o_fname (apply_opts (os ++ [OFileName n])) = opt_file_name n) /\
    o_skip (apply_opts (os ++ [OSkipComment])) = true.
Proof. exact (fun os => conj (opts_last_version os) (conj (opts_last_timestamp os) (conj (opts_last_file_name os) (opts_skip os)))). Qed.
Print Assumptions C07_options_last_wins.

(* non-vacuity: absolute file name, version and timestamp; the package clause is Added at (107, 4, 0), after the 107
   bytes / 4 lines of the three comment lines *)
Example C07_ex_options :
  let os := [OFileName (bs "/a/b.templ"); OVersion (bs "v1"); OTimestamp ex_date] in
  apply_opts os = {| o_version := bs "v1"; o_fname := bs "b.templ"; o_skip := false; o_date := ex_date |} /\
  firstn 107 (fst (fst (generate_all_o os ex_file))) =
    bs "// Code generated by templ - DO NOT EDIT." ++ [x0a; x0a] ++ bs "// templ: version: v1" ++ [x0a] ++
    bs "// templ: generated: 2026-01-02T03:04:05Z" ++ [x0a] /\
  In (f_pkg ex_file, (107, 4, 0)%N) (adds (gen_state_o os ex_file)) /\
  pairwise_disj (rev (adds (gen_state_o os ex_file))).
Proof. exact ex_options. Qed.

(* Refuted variant (model/GenOpts.v prologue_bypass): the generated-date line handed to the underlying io.Writer instead
   of the RangeWriter.  The bytes are in the file but Current did not move: the writer invariant is lost, and the
   template signature T() is Added at (228, 9, 5), which is not a position of the code (index 228 is line 8, column
   15) and does not hold "T()".  Without WithTimestamp the variant and the generator coincide. *)
Lemma C07_date_line_bypassing_the_writer_refuted :
  let g := gen_state_bypass [OTimestamp ex_date] ex_file in
  let code := outtext (w g) in
  ~ wf (w g) /\
  exists e tp, In (e, tp) (adds g) /\ tp <> pos_of code (fst (fst tp)) /\
               has_prefix (e_val e) (skipn (N.to_nat (fst (fst tp))) code) = false.
Proof. exact bypass_refuted. Qed.
Lemma C07_bypass_needs_timestamp :
  gen_state_bypass [OVersion (bs "v1"); OSkipComment; OFileName (bs "/a/b.templ")] ex_file
  = gen_state_o [OVersion (bs "v1"); OSkipComment; OFileName (bs "/a/b.templ")] ex_file.
Proof. exact bypass_needs_timestamp. Qed.
