(* C07 - the source map relates every Go expression byte to the same byte in generated code. *)
From Coq.Strings Require Import Byte String.
From Coq Require Import List Arith.
From V Require Import lib.Bytes.
