(* C15 - `templ generate` output is a deterministic function of the tree (PARTIAL in the sense of DESIGN section 10:
   the file system is a finite map, goroutine scheduling is the set of interleavings of the handlers' read and
   write steps with at most w handlers in flight; data races are looked for with -race by the harness).
   This file holds property statements only; each is closed by [exact].

   Vocabulary (model/Walk.v, spec/WalkSpec.v):
     l : listing                 the input tree: path -> file (contents, mtime) | directory; a modification time is
                                 any integer (Z, nanoseconds relative to the Unix epoch): before the epoch, the
                                 epoch, equal times, times one nanosecond apart, the far future - no sign or
                                 size assumption anywhere (wf_tree says nothing about times)
     generate                    oracle: parse + generate + gofmt of one file alone (None = cannot be generated)
     es                          the events of the run: everything WalkFiles emits, each once, plus possibly
                                 _templ.go files created by a handler while the walk was still going
     steps w (start_cfg t es) c  an interleaved run: handlers are started in channel order while fewer than w are in
                                 flight (they read the tree then), and complete in any order (they write then)
     finished c                  every event handled
     arg, cwd                    the -path argument AS IT WAS SPELLED (absolute or relative, clean or with a trailing
                                 '/', "/./", "/x/../", "//") and the working directory of the process: any byte strings
     g0                          generation + gofmt of one file given the FILE NAME the generator works with
     gen_rel g0                  the specification's oracle: that name is the root-relative slash path of the file
     gen_spelled g0 arg cwd      what a run started as `-path arg` in cwd computes (model/RootPath.v: the root is stored
                                 verbatim when absolute, WalkFiles sends cleaned absolute names, the handler takes
                                 filepath.Rel of the two, WithFileName reduces an absolute name to its base name)
     spec_holds l T failed       contents of every path as the property demands, nothing else touched (mtime
                                 included), failed <-> some template outside skipped directories cannot be generated *)
From Coq.Strings Require Import Byte String.
From Coq Require Import List NArith ZArith Bool Permutation.
Import ListNotations.
From V Require Import lib.Bytes model.Walk spec.WalkSpec proofs.WalkProof model.RootPath proofs.RootPathProof.

(* For every well-formed tree - whatever the root directory is called - every worker count, flag set and complete
   interleaved run: the final tree and exit status are the ones the property demands. *)
Theorem C15_generate_spec :
  forall (generate : path -> bytes -> option bytes) (keep lazy : bool) (now : Z)
         (root : bytes) (l : listing) (w : nat) (es : list path) (c : cfg),
  wf_tree generate lazy root l = true ->
  (1 <= w)%nat ->
  NoDup es /\ (forall p, In p (walk l) -> In p es)
           /\ (forall p, In p es -> In p (walk l) \/ late_gen (lookup l) p) ->
  steps generate keep lazy now w (start_cfg (lookup l) es) c -> finished c ->
  spec_holds generate keep l (ctree c) (exit_fail (cerrs c)).
Proof. intros g k z n root l w es c WF _ EV. exact (generate_spec g k z n root l w es c WF EV). Qed.
Print Assumptions C15_generate_spec.

(* REGRESSION WITNESS (about the behaviour BEFORE commit 91f7c9a, not about the current code): a walk that also tests
   the root directory's own name (walk_root_tested) emits nothing for a root called _site; the command then succeeds
   and the specification fails - the template has no sibling.  The harness reports that behaviour under the shape
   root-dir-name-skipped. *)
Definition ex_gen : path -> bytes -> option bytes := fun _ _ => Some (bs "code").
Definition ex_tree : listing := [(([], bs "a.templ"), File (bs "src") 1%Z)].
Lemma C15_root_tested_variant_refuted :
  exists (root : bytes) (c : cfg),
    wf_tree ex_gen false root ex_tree = true /\ should_skip_name root = true /\
    steps ex_gen false false 5%Z 1 (start_cfg (lookup ex_tree) (walk_root_tested root ex_tree)) c /\ finished c /\
    exit_fail (cerrs c) = false /\
    ~ spec_holds ex_gen false ex_tree (ctree c) (exit_fail (cerrs c)).
Proof.
  exists (bs "_site"), (start_cfg (lookup ex_tree) []).
  split; [vm_compute; reflexivity|]. split; [vm_compute; reflexivity|].
  split; [apply steps_refl|]. split; [split; reflexivity|]. split; [reflexivity|].
  intros [H _]. specialize (H ([], bs "a_templ.go")). vm_compute in H. discriminate H.
Qed.
(* the current walk does not look at the root's name *)
Example C15_ex_root_name_irrelevant :
  walk ex_tree = [([], bs "a.templ")]
  /\ tree (run ex_gen false false 5%Z (init (lookup ex_tree)) (walk ex_tree)) ([], bs "a_templ.go") = Some (File (bs "code") 5%Z).
Proof. vm_compute. split; reflexivity. Qed.

(* REGRESSION WITNESS (about the behaviour BEFORE commit 103800e, not about the current code): UpsertLastModTime
   compared a file seen for the first time with the zero time.Time; a template dated at or before
   0001-01-01T00:00:00Z was "not updated" (effect_zero_compared): the command succeeded and the template had no
   sibling.  The harness reports that behaviour under the shape template-mtime-not-after-go-zero-time. *)
Definition ex_zero_tree (mt : Z) : listing := [(([], bs "a.templ"), File (bs "src") mt)].
Lemma C15_zero_time_variant_refuted :
  let st := run_zero_compared ex_gen false false 5%Z (init (lookup (ex_zero_tree go_zero_time))) (walk (ex_zero_tree go_zero_time)) in
  wf_tree ex_gen false (bs "proj") (ex_zero_tree go_zero_time) = true /\
  exit_fail (errs st) = false /\
  ~ spec_holds ex_gen false (ex_zero_tree go_zero_time) (tree st) (exit_fail (errs st)).
Proof.
  split; [vm_compute; reflexivity|]. split; [vm_compute; reflexivity|].
  intros [H _]. specialize (H ([], bs "a_templ.go")). vm_compute in H. discriminate H.
Qed.
(* one nanosecond later the variant and the current code agree *)
Example C15_ex_zero_time_variant_agrees_later :
  tree (run_zero_compared ex_gen false false 5%Z (init (lookup (ex_zero_tree (go_zero_time + 1)))) (walk (ex_zero_tree (go_zero_time + 1)))) ([], bs "a_templ.go")
  = Some (File (bs "code") 5%Z).
Proof. vm_compute. reflexivity. Qed.
(* the current code: every time is admitted by wf_tree and the template is generated - long before Go's zero time,
   the zero time itself, one nanosecond after it, long before the Unix epoch, one nanosecond before it, the epoch
   itself, beyond the range of a 64-bit nanosecond count; and the time given to the written file may be negative *)
Example C15_ex_any_time :
  forall mt, In mt [(-99999999999000000000)%Z; (go_zero_time - 1)%Z; go_zero_time; (go_zero_time + 1)%Z; (-2147483648000000000)%Z; (-1)%Z; 0%Z; 1%Z; 9223372036854775807%Z;
                    9223372036854775808%Z; 15032385535999999999%Z; 1180591620717411303424%Z] ->
  wf_tree ex_gen true (bs "proj") (ex_zero_tree mt) = true
  /\ tree (run ex_gen false true (-7)%Z (init (lookup (ex_zero_tree mt))) (walk (ex_zero_tree mt))) ([], bs "a_templ.go")
     = Some (File (bs "code") (-7)%Z).
Proof. intros mt H. cbn [In] in H. repeat (destruct H as [<-|H]; [vm_compute; split; reflexivity|]). destruct H. Qed.
(* -lazy compares the two times as integers: an up-to-date sibling one nanosecond newer than a template dated before
   the epoch is left alone (its own time kept); the same age or older, it is written again *)
Definition ex_lazy_tree (mt gmt : Z) : listing :=
  [(([], bs "a.templ"), File (bs "src") mt); (([], bs "a_templ.go"), File (bs "code") gmt)].
Example C15_ex_lazy_negative_times :
  let after mt gmt := tree (run ex_gen false true 99%Z (init (lookup (ex_lazy_tree mt gmt))) (walk (ex_lazy_tree mt gmt))) ([], bs "a_templ.go") in
  after (-5)%Z (-4)%Z = Some (File (bs "code") (-4)%Z)
  /\ after (-5)%Z (-5)%Z = Some (File (bs "code") 99%Z)
  /\ after (-5)%Z (-6)%Z = Some (File (bs "code") 99%Z)
  /\ after 0%Z 1%Z = Some (File (bs "code") 1%Z)
  /\ after (-1)%Z 0%Z = Some (File (bs "code") 0%Z)
  /\ after 9223372036854775808%Z 9223372036854775807%Z = Some (File (bs "code") 99%Z).
Proof. vm_compute. repeat split; reflexivity. Qed.

(* Modification times decide nothing: two well-formed trees with the same contents at every path - their times as
   different as one likes: before or after the epoch, equal, a nanosecond or centuries apart - run with any -lazy
   settings, clocks, worker counts and interleavings, end with the same contents at every path and the same exit
   status. *)
Theorem C15_times_irrelevant :
  forall (generate : path -> bytes -> option bytes) (keep lazy lazy' : bool) (now now' : Z)
         (root root' : bytes) (l l' : listing) (w w' : nat) (es es' : list path) (c c' : cfg),
  wf_tree generate lazy root l = true -> wf_tree generate lazy' root' l' = true ->
  (forall q, content_of (lookup l q) = content_of (lookup l' q)) ->
  NoDup es /\ (forall p, In p (walk l) -> In p es)
           /\ (forall p, In p es -> In p (walk l) \/ late_gen (lookup l) p) ->
  NoDup es' /\ (forall p, In p (walk l') -> In p es')
            /\ (forall p, In p es' -> In p (walk l') \/ late_gen (lookup l') p) ->
  steps generate keep lazy now w (start_cfg (lookup l) es) c -> finished c ->
  steps generate keep lazy' now' w' (start_cfg (lookup l') es') c' -> finished c' ->
  (forall q, content_of (ctree c q) = content_of (ctree c' q)) /\ exit_fail (cerrs c) = exit_fail (cerrs c').
Proof.
  intros g k z z' n n' root root' l l' w w' es es' c c' WF WF' H EV EV' St Fi St' Fi'.
  exact (spec_times_irrelevant g k l l' _ _ _ _ H
           (generate_spec g k z n root l w es c WF EV St Fi)
           (generate_spec g k z' n' root' l' w' es' c' WF' EV' St' Fi')).
Qed.
Print Assumptions C15_times_irrelevant.

(* Any two complete interleavings - any worker counts, any order in which the events reach the handlers - end in
   the same tree with the same error count.  No hypothesis on the tree. *)
Theorem C15_schedule_independent :
  forall (generate : path -> bytes -> option bytes) (keep lazy : bool) (now : Z)
         (t : fs) (es es' : list path) (w w' : nat) (c c' : cfg),
  NoDup es -> Permutation es es' ->
  steps generate keep lazy now w (start_cfg t es) c -> finished c ->
  steps generate keep lazy now w' (start_cfg t es') c' -> finished c' ->
  (forall q, ctree c q = ctree c' q) /\ cerrs c = cerrs c'.
Proof. exact interleavings_agree. Qed.
Print Assumptions C15_schedule_independent.

(* Running the command again on the tree the first run left (listed by l1), at any later time, with any worker
   count, leaves the contents of every path unchanged. *)
Theorem C15_second_run_noop :
  forall (generate : path -> bytes -> option bytes) (keep lazy : bool) (now : Z)
         (root : bytes) (l : listing) (w : nat) (es : list path) (c : cfg)
         (now2 : Z) (w2 : nat) (l1 : listing) (es2 : list path) (c2 : cfg),
  wf_tree generate lazy root l = true ->
  NoDup es /\ (forall p, In p (walk l) -> In p es)
           /\ (forall p, In p es -> In p (walk l) \/ late_gen (lookup l) p) ->
  steps generate keep lazy now w (start_cfg (lookup l) es) c -> finished c ->
  NoDup (map fst l1) -> (forall q, lookup l1 q = ctree c q) ->
  NoDup es2 /\ (forall p, In p (walk l1) -> In p es2)
            /\ (forall p, In p es2 -> In p (walk l1) \/ late_gen (lookup l1) p) ->
  steps generate keep lazy now2 w2 (start_cfg (lookup l1) es2) c2 -> finished c2 ->
  forall q, content_of (ctree c2 q) = content_of (ctree c q).
Proof. exact second_run_noop. Qed.
Print Assumptions C15_second_run_noop.

(* A template that cannot be generated - it does not parse, its code is rejected by gofmt, or ([fails]) its output
   cannot be written because a directory sits at the sibling path - makes the command fail, and every other
   template outside skipped directories that can be generated and written still gets its sibling. *)
Theorem C15_failure_isolated :
  forall (generate : path -> bytes -> option bytes) (keep lazy : bool) (now : Z)
         (root : bytes) (l : listing) (w : nat) (es : list path) (c : cfg),
  wf_tree generate lazy root l = true -> (1 <= w)%nat ->
  NoDup es /\ (forall p, In p (walk l) -> In p es)
           /\ (forall p, In p es -> In p (walk l) \/ late_gen (lookup l) p) ->
  steps generate keep lazy now w (start_cfg (lookup l) es) c -> finished c ->
  (forall src, In src (map fst l) -> fails generate (lookup l) src = true -> exit_fail (cerrs c) = true)
  /\ (forall src g cc mt code, outside_skipped src = true -> sibling src g ->
        lookup l src = Some (File cc mt) -> generate src cc = Some code -> lookup l g <> Some Dir ->
        content_of (ctree c g) = CFile code).
Proof.
  intros g k z n root l w es c WF _ EV St Fi.
  exact (failure_isolated g k l (ctree c) _ (generate_spec g k z n root l w es c WF EV St Fi)).
Qed.
Print Assumptions C15_failure_isolated.

(* Only _templ.go siblings outside skipped directories are ever written or removed: every other path keeps its
   entry exactly (contents and modification time). *)
Theorem C15_untouched :
  forall (generate : path -> bytes -> option bytes) (keep lazy : bool) (now : Z)
         (root : bytes) (l : listing) (w : nat) (es : list path) (c : cfg),
  wf_tree generate lazy root l = true -> (1 <= w)%nat ->
  NoDup es /\ (forall p, In p (walk l) -> In p es)
           /\ (forall p, In p es -> In p (walk l) \/ late_gen (lookup l) p) ->
  steps generate keep lazy now w (start_cfg (lookup l) es) c -> finished c ->
  forall q, ~ (outside_skipped q = true /\ exists src, sibling src q) -> ctree c q = lookup l q.
Proof.
  intros g k z n root l w es c WF _ EV St Fi.
  exact (untouched g k l (ctree c) _ (generate_spec g k z n root l w es c WF EV St Fi)).
Qed.
Print Assumptions C15_untouched.

(* The output is a function of the TREE, not of how its root was spelled on the command line.  For every -path
   argument and working directory (no hypothesis on either), the file name the handler gives the generator for a
   file of the tree is that file's root-relative slash path - exactly what the specification's oracle receives. *)
Theorem C15_name_given_root_relative :
  forall (arg cwd : bytes) (p : path),
  forallb valid_name (full p) = true -> name_given arg cwd p = of_path p.
Proof. exact name_given_root_relative. Qed.
Print Assumptions C15_name_given_root_relative.

(* Hence a run started with ANY spelling of the root, in any working directory, meets the specification stated with
   the root-relative oracle ... *)
Theorem C15_root_spelling_irrelevant :
  forall (g0 : bytes -> bytes -> option bytes) (arg cwd : bytes) (keep lazy : bool) (now : Z)
         (root : bytes) (l : listing) (w : nat) (es : list path) (c : cfg),
  wf_tree (gen_rel g0) lazy root l = true ->
  (1 <= w)%nat ->
  NoDup es /\ (forall p, In p (walk l) -> In p es)
           /\ (forall p, In p es -> In p (walk l) \/ late_gen (lookup l) p) ->
  steps (gen_spelled g0 arg cwd) keep lazy now w (start_cfg (lookup l) es) c -> finished c ->
  spec_holds (gen_rel g0) keep l (ctree c) (exit_fail (cerrs c)).
Proof. intros g0 arg cwd k z n root l w es c WF _ EV. exact (spelled_generate_spec g0 arg cwd k z n root l w es c WF EV). Qed.
Print Assumptions C15_root_spelling_irrelevant.

(* ... and two runs on one tree under two spellings of its root (two working directories, flag sets, clocks, worker
   counts, interleavings) end with the same contents at every path and the same exit status. *)
Theorem C15_spellings_agree :
  forall (g0 : bytes -> bytes -> option bytes) (arg cwd arg' cwd' : bytes) (keep lazy lazy' : bool) (now now' : Z)
         (root root' : bytes) (l : listing) (w w' : nat) (es es' : list path) (c c' : cfg),
  wf_tree (gen_rel g0) lazy root l = true -> wf_tree (gen_rel g0) lazy' root' l = true ->
  NoDup es /\ (forall p, In p (walk l) -> In p es)
           /\ (forall p, In p es -> In p (walk l) \/ late_gen (lookup l) p) ->
  NoDup es' /\ (forall p, In p (walk l) -> In p es')
            /\ (forall p, In p es' -> In p (walk l) \/ late_gen (lookup l) p) ->
  steps (gen_spelled g0 arg cwd) keep lazy now w (start_cfg (lookup l) es) c -> finished c ->
  steps (gen_spelled g0 arg' cwd') keep lazy' now' w' (start_cfg (lookup l) es') c' -> finished c' ->
  (forall q, content_of (ctree c q) = content_of (ctree c' q)) /\ exit_fail (cerrs c) = exit_fail (cerrs c').
Proof.
  intros g0 arg cwd arg' cwd' k z z' n n' root root' l w w' es es' c c' WF WF' EV EV' St Fi St' Fi'.
  exact (spellings_agree g0 arg cwd arg' cwd' k z z' n n' root root' l w w' es es' c c' WF WF' EV EV' St Fi St' Fi').
Qed.
Print Assumptions C15_spellings_agree.

(* the model does tell the spellings apart: an absolute argument is stored verbatim, a relative one is made absolute
   and cleaned; the cleaned event name and the name given to the generator are the same for all of them *)
Definition ex_nested : path := ([bs "views"; bs "admin"], bs "edit.templ").
Example C15_ex_spellings :
  stored_root (bs "/srv/app/") (bs "/home/u") = [[]; bs "srv"; bs "app"; []]
  /\ stored_root (bs "/srv/x/../app") (bs "/home/u") = [[]; bs "srv"; bs "x"; bs ".."; bs "app"]
  /\ stored_root (bs "../../srv/./app/") (bs "/home/u") = [bs "srv"; bs "app"]
  /\ stored_root (bs ".") (bs "/srv/app") = [bs "srv"; bs "app"]
  /\ (forall arg cwd, In (arg, cwd) [ (bs "/srv/app", bs "/"); (bs "/srv/app/", bs "/home/u"); (bs "/srv/./app", bs "/home/u");
                                      (bs "/srv/x/../app", bs "/home/u"); (bs "//srv//app//", bs "/home/u"); (bs "/../srv/app/.", bs "/home/u");
                                      (bs ".", bs "/srv/app"); (bs "", bs "/srv/app"); (bs "./app", bs "/srv"); (bs "app/", bs "/srv");
                                      (bs "../app", bs "/srv/other"); (bs "../../srv/./app/", bs "/home/u"); (bs "..", bs "/srv/app/views") ] ->
        event_name (stored_root arg cwd) ex_nested = [bs "srv"; bs "app"; bs "views"; bs "admin"; bs "edit.templ"]
        /\ name_given arg cwd ex_nested = bs "views/admin/edit.templ")
  /\ with_file_name (bs "/srv/app/views/admin/edit.templ") = bs "edit.templ".
Proof.
  repeat (split; [vm_compute; reflexivity|]). split; [|vm_compute; reflexivity].
  intros arg cwd H. cbn [In] in H. repeat (destruct H as [H|H]; [inversion H; subst; vm_compute; split; reflexivity|]). destruct H.
Qed.

(* The executable predicate the harness evaluates on the real command's before/after trees decides [spec_holds]. *)
Theorem C15_spec_check_sound :
  forall (generate : path -> bytes -> option bytes) (keep : bool) (l l' : listing) (failed : bool),
  spec_check generate keep l l' failed = true -> spec_holds generate keep l (lookup l') failed.
Proof. exact spec_check_sound. Qed.
Print Assumptions C15_spec_check_sound.

(* ---------- non-vacuity ---------- *)
(* for every tree, every w >= 1 and every event list there is a complete run: the sequential one *)
Lemma C15_ex_run_exists : forall generate keep lazy now w t es, (1 <= w)%nat ->
  exists c, steps generate keep lazy now w (start_cfg t es) c /\ finished c.
Proof.
  intros g k z n w t es W. eexists. split; [apply (sequential_steps g k z n w t es W)|split; reflexivity].
Qed.
(* the walk itself is an admissible event list *)
Lemma C15_ex_events : forall l, NoDup (map fst l) ->
  NoDup (walk l) /\ (forall p, In p (walk l) -> In p (walk l))
  /\ (forall p, In p (walk l) -> In p (walk l) \/ late_gen (lookup l) p).
Proof. intros l ND. exact (walk_events_ok l ND). Qed.
(* a well-formed tree with a skipped directory, an orphan, a failing and a succeeding template; the run on it *)
Definition ex2_gen : path -> bytes -> option bytes :=
  fun p c => if bytes_eqb c (bs "bad") then None else Some (bs "go:" ++ c).
Definition ex2_tree : listing :=
  [ (([], bs "a.templ"), File (bs "A") 10%Z);
    (([], bs "b.templ"), File (bs "bad") 10%Z);
    (([], bs "old_templ.go"), File (bs "stale") 3%Z);
    (([], bs "vendor"), Dir);
    (([bs "vendor"], bs "v.templ"), File (bs "V") 10%Z);
    (([], bs "main.go"), File (bs "package main") 2%Z) ].
Example C15_ex_wf : wf_tree ex2_gen true (bs "site") ex2_tree = true /\ wf_tree ex2_gen true (bs "_site") ex2_tree = true.
Proof. split; vm_compute; reflexivity. Qed.
Example C15_ex_run :
  let st := run ex2_gen false false 99%Z (init (lookup ex2_tree)) (walk ex2_tree) in
  walk ex2_tree = [([], bs "a.templ"); ([], bs "b.templ"); ([], bs "main.go"); ([], bs "old_templ.go")]
  /\ tree st ([], bs "a_templ.go") = Some (File (bs "go:A") 99%Z)
  /\ tree st ([], bs "b_templ.go") = None
  /\ tree st ([], bs "old_templ.go") = None
  /\ tree st ([bs "vendor"], bs "v_templ.go") = None
  /\ exit_fail (errs st) = true.
Proof. vm_compute. repeat split; reflexivity. Qed.

(* an output path blocked by a (non-empty) directory: that template fails, the directory stays, the others are generated *)
Definition ex3_tree : listing :=
  [ (([], bs "a.templ"), File (bs "A") 10%Z);
    (([], bs "a_templ.go"), Dir);
    (([bs "a_templ.go"], bs "keep.txt"), File (bs "k") 1%Z);
    (([], bs "b.templ"), File (bs "B") 10%Z);
    (([], bs "z_templ.go"), Dir);
    (([bs "z_templ.go"], bs "keep.txt"), File (bs "k") 1%Z) ].
Example C15_ex_blocked_output :
  let st := run ex2_gen false false 99%Z (init (lookup ex3_tree)) (walk ex3_tree) in
  wf_tree ex2_gen false (bs "site") ex3_tree = true
  /\ fails ex2_gen (lookup ex3_tree) ([], bs "a.templ") = true
  /\ tree st ([], bs "a_templ.go") = Some Dir
  /\ tree st ([], bs "z_templ.go") = Some Dir
  /\ tree st ([], bs "b_templ.go") = Some (File (bs "go:B") 99%Z)
  /\ exit_fail (errs st) = true.
Proof. vm_compute. repeat split; reflexivity. Qed.
