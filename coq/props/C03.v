(* C03 - Go values placed into JavaScript arrive as data only.
   This file holds property statements only; each is closed by [exact].
   Model: model/JsEsc.v (replacement tables regenerated from the live code into gen/Tables03.v).
   Specification: spec/JsLex.v, spec/JsScript.v (whole script elements).   Proofs: proofs/JsEscProof.v, proofs/JsScriptProof.v,
   proofs/JsLinesProof.v (line endings).
   Script parser model: model/JsTrack.v; a process parsing one element after another: model/JsHist.v, proofs/JsHistProof.v. *)
From Coq.Strings Require Import Byte String.
From Coq Require Import List NArith Bool.
Import ListNotations.
From V Require Import lib.Bytes lib.Utf8 spec.JsLex spec.JsScript model.JsEsc model.JsTrack model.JsHist proofs.JsEscProof proofs.JsScriptProof proofs.JsLinesProof proofs.JsHistProof.

(* ---- values placed INSIDE a string literal ('...', "..." or `...`) --------------------------------- *)

(* For every byte string (invalid UTF-8 included) the emitted bytes contain no control byte (so no LF / CR), none of
   the three quotes, no "$", no "<" ">" "&", and no raw U+2028 / U+2029. *)
Theorem C03_replace_clean : forall s : bytes, clean (replace s) = true /\ has_lsps (replace s) = false.
Proof. exact replace_clean. Qed.
Print Assumptions C03_replace_clean.

(* Read as the body of a literal of ANY of the three kinds, the emitted bytes denote exactly the original string. *)
Theorem C03_replace_roundtrip : forall (q : quote) (s : bytes), js_unescape q (replace s) = Some s.
Proof. exact replace_roundtrip. Qed.
Print Assumptions C03_replace_roundtrip.

(* For each quote kind: a JavaScript lexer that entered the literal before the value leaves it exactly at the
   author's closing quote, whatever follows - no early close, no line break, no template interpolation. *)
Theorem C03_literal_closed : forall (q : quote) (s rest : bytes),
  lex_string q (replace s ++ qbyte q :: rest) = LClosed (length (replace s)).
Proof. exact literal_closed. Qed.
Print Assumptions C03_literal_closed.

(* What ScriptContentInsideStringLiteral emits for ANY Go value (string fast path or marshalled) has all three
   guarantees at once; the value the browser sees is the string itself, or the value's JSON text. *)
Theorem C03_script_content_inside : forall (q : quote) (v : jv) (rest : bytes),
  let out := script_content_inside v in
  let want := match v with JStr s => s | _ => json_encode v end in
  clean out = true /\ has_lsps out = false /\
  lex_string q (out ++ qbyte q :: rest) = LClosed (length out) /\
  js_unescape q out = Some want.
Proof.
  intros q v rest. destruct v; cbn zeta; unfold script_content_inside;
  (split; [apply replace_clean|split; [apply replace_clean|split; [apply literal_closed|apply replace_roundtrip]]]).
Qed.
Print Assumptions C03_script_content_inside.

(* The same for a value of ANY Go type: whatever bytes json.Marshal returns for it (through MarshalJSON / MarshalText
   methods of named integer, float or bool types, struct tags, json.RawMessage, time.Time ...), and whether or not its
   dynamic type is string.  Nothing is assumed about [marshal]: the guarantee does not rest on what JSON text looks like,
   let alone on the value's reflect.Kind.  When json.Marshal fails nothing is emitted. *)
Theorem C03_script_content_inside_any_type : forall (GoValue : Type) (as_string marshal : GoValue -> option bytes)
  (v : GoValue) (q : quote) (rest : bytes),
  match script_content_any GoValue as_string marshal true v with
  | None => as_string v = None /\ marshal v = None
  | Some out =>
      exists want : bytes,
        (as_string v = Some want \/ (as_string v = None /\ marshal v = Some want)) /\
        clean out = true /\ has_lsps out = false /\
        lex_string q (out ++ qbyte q :: rest) = LClosed (length out) /\
        js_unescape q out = Some want
  end.
Proof. exact script_content_any_inside. Qed.
Print Assumptions C03_script_content_inside_any_type.

(* Why the pass over the marshalled text cannot be skipped for "numbers and booleans": an enum - a named int whose
   MarshalText gives the label won't - marshals to the seven bytes "won't" (quotes included).  Emitted as they are they
   end a '...' literal at offset 4 and a "..." literal at offset 0; through [replace] the literal closes after them. *)
Definition jd_enum : bytes := [x22; x77; x6f; x6e; x27; x74; x22].
Example C03_ex_marshalled_enum :
  lex_string QSingle (jd_enum ++ [x27; x3b]) = LClosed 4 /\ lex_string QDouble (jd_enum ++ [x22; x3b]) = LClosed 0 /\
  script_content_any bytes (fun _ => None) (fun x => Some x) true jd_enum = Some (replace jd_enum) /\
  lex_string QSingle (replace jd_enum ++ [x27; x3b]) = LClosed (length (replace jd_enum)).
Proof. vm_compute. repeat split; reflexivity. Qed.

(* ---- values placed in script data OUTSIDE a literal, call arguments, JSON script bodies --------------- *)

(* encoding/json's string encoding with HTML escaping: no "<" ">" "&", no raw control byte, no raw U+2028/9. *)
Theorem C03_json_string_clean : forall s : bytes, cool (json_string s) = true /\ has_lsps (json_string s) = false.
Proof. exact json_string_clean. Qed.
Print Assumptions C03_json_string_clean.

(* The same for every value: nested arrays and objects (keys included) of strings, numbers, booleans, null. *)
Theorem C03_json_clean : forall v : jv, wf_jv v = true ->
  cool (json_encode v) = true /\ has_lsps (json_encode v) = false.
Proof. exact json_clean. Qed.
Print Assumptions C03_json_clean.

(* A marshalled string read as a JavaScript double-quoted literal ends at its own closing quote ... *)
Theorem C03_json_string_closed : forall s rest : bytes,
  lex_string QDouble (json_body s ++ x22 :: rest) = LClosed (length (json_body s)).
Proof. exact json_string_closed. Qed.
Print Assumptions C03_json_string_closed.

(* ... and denotes the Go string with every invalid byte replaced by U+FFFD (what the browser's decoder would do too). *)
Theorem C03_json_roundtrip_partial : forall s : bytes, js_unescape QDouble (json_body s) = Some (scrub s).
Proof. exact json_string_roundtrip. Qed.
Print Assumptions C03_json_roundtrip_partial.
(* Full statement not proved (no JSON value parser in the specification):
     forall v, wf_jv v = true -> json_parse (json_encode v) = Some (scrub_value v).
   The string-level statement above is the part that concerns attacker-controlled text; the structural part
   (brackets, commas, number tokens) is checked against node's evaluator in the thorough tier. *)

(* ---- neither emitter can end the script element or open an HTML comment ------------------------------- *)

(* No "</script" (any letter case) and no "<!--" can BEGIN at any position inside the emitted bytes, whatever
   the author wrote before and after them. *)
Theorem C03_script_end_impossible : forall (pre post : bytes) (i : nat),
  (forall s : bytes, (length pre <= i < length pre + length (replace s))%nat ->
     script_end_at (skipn i (pre ++ replace s ++ post)) = false) /\
  (forall v : jv, wf_jv v = true -> (length pre <= i < length pre + length (json_encode v))%nat ->
     script_end_at (skipn i (pre ++ json_encode v ++ post)) = false).
Proof.
  intros pre post i. split.
  - intros s. apply replace_no_script_end.
  - intros v W. apply json_no_script_end. exact W.
Qed.
Print Assumptions C03_script_end_impossible.

(* ---- function names and the attribute form of a call --------------------------------------------------- *)

(* A name accepted by the function-name pattern uses only [$_a-zA-Z0-9.]; html-escaping leaves it unchanged. *)
Theorem C03_fn_name_inert : forall name : bytes, fn_name_ok name = true ->
  forallb name_byte name = true /\ html_escape name = name.
Proof. intros name H. split; [apply fn_name_inert; exact H|apply html_escape_name; apply fn_name_inert; exact H]. Qed.
Print Assumptions C03_fn_name_inert.

(* Whatever the name and the parameters (a templ.JSExpression included), the attribute form of a call contains no
   quote of either kind and no "<" ">": it cannot leave the quoted attribute value it is written into. *)
Theorem C03_call_attr_inert : forall (name : bytes) (ps : list param), attr_inert (safe_script name ps) = true.
Proof. exact safe_script_attr_inert. Qed.
Print Assumptions C03_call_attr_inert.

(* ---- whole script elements: the author's text with holes ----------------------------------------------------- *)
(* spec/JsScript.v reads a script element's text as a JavaScript lexer does (literals of the three kinds with their
   escape sequences, comments, script text) - on the template, where hole i stands for the Go string vals[i] as data,
   and on a rendering.  [skeleton] is the token sequence with the literals' values left out: every run of script text
   and every comment byte for byte, and where the literals are.

   If every hole is escaped for its TRUE lexical position (ScriptContentInsideStringLiteral inside a literal,
   ScriptContentOutsideStringLiteral in script text), the rendering has the token structure of the author's template:
   no value adds, removes, splits or joins a token.  (The literals' values are the subject of
   C03_script_content_inside and C03_json_roundtrip_partial.)  [lexes_cleanly]: the template lexes without stopping,
   its text is cut at rune boundaries, no "$" of the author stands directly before a hole in a template literal, and no
   EMPTY value stands between the CR of a "backslash CR" line continuation and an LF of the author (see
   C03_ex_hole_after_backslash_cr).  Line continuations in all their forms (backslash LF, backslash CR LF, backslash CR,
   backslash U+2028/9), holes directly after them, and raw line breaks in template literals are inside the fragment. *)
Theorem C03_values_confined_partial : forall (vals : list bytes) (tpl : list sym),
  lexes_cleanly vals tpl = true ->
  skeleton (lex_script [] (bytes_syms (render (positions (lex_script vals tpl)) vals tpl))) = skeleton (lex_script vals tpl).
Proof. exact values_confined. Qed.
Print Assumptions C03_values_confined_partial.

(* The full statement (without the "$" clause) is false of the faithful model - a genuine defect, recorded as known
   finding dollar-before-hole-in-template-literal: in  a = `$<hole>`;  the value {x} is escaped to {x} ("{" is left as it
   is), and the author's "$" and the value's "{" open an interpolation. *)
Definition syms (s : string) : list sym := map SB (bs s).
Definition tpl_dollar : list sym := syms "a = `$" ++ [SH 0] ++ syms "`;".
Definition vals_dollar : list bytes := [bs "{x}"].
Example C03_values_confined_refuted :
  walk (fun m s => ok_junction_no_dollar vals_dollar m s && ok_tracker m s) vals_dollar (MCode []) tpl_dollar = true /\
  fragment vals_dollar tpl_dollar = false /\
  positions (lex_script vals_dollar tpl_dollar) = [true] /\
  flags (track (tpl_dollar ++ map SB end_tag)) = [true] /\
  toks_of (lex_script [] (bytes_syms (render [true] vals_dollar tpl_dollar))) = [TCode (bs "a = "); TStop x49] /\
  toks_of (lex_script vals_dollar tpl_dollar) = [TCode (bs "a = "); TStr (Some (bs "${x}")); TCode (bs ";")].
Proof. vm_compute. repeat split; reflexivity. Qed.
(* the author's way out, an escaped dollar, is inside the fragment *)
Example C03_ex_dollar_escaped : fragment vals_dollar (syms "a = `\$" ++ [SH 0] ++ syms "`;") = true.
Proof. vm_compute. reflexivity. Qed.

(* templ's script parser (model/JsTrack.v, mirror of parser/v2/scriptparser.go) recognises every hole, gives each the
   InsideStringLiteral flag of its lexical position, and ends the contents exactly at the end tag - on the fragment
   [tracker_fragment]: the template lexes without stopping and ends in script text; no backslash and no "</" in script
   text; no "</" right after a hole inside a literal; no CR, U+2028, U+2029 inside a line comment.  Escaped backslashes,
   escaped quotes, backslash runs of either parity, the other quote kinds and comment openers inside literals, quotes
   inside comments are all inside the fragment. *)
Theorem C03_tracker_agrees_partial : forall (vals : list bytes) (tpl : list sym),
  tracker_fragment vals tpl = true ->
  track (tpl ++ map SB end_tag) = map FHole (positions (lex_script vals tpl)) ++ [FEnd (length tpl)].
Proof. exact tracker_agrees. Qed.
Print Assumptions C03_tracker_agrees_partial.

(* Without the guard the statement is false of the faithful model:  a = '<hole></b>';  - the parser ends the element's
   contents at the "</" it meets right after the expression, whatever the quote state. *)
Definition tpl_endtag : list sym := syms "a = '" ++ [SH 0] ++ syms "</b>';".
Example C03_tracker_agrees_refuted :
  lexes_cleanly [bs "p"] tpl_endtag = true /\ tracker_fragment [bs "p"] tpl_endtag = false /\
  track (tpl_endtag ++ map SB end_tag) = [FHole true; FEnd 6] /\
  map FHole (positions (lex_script [bs "p"] tpl_endtag)) ++ [FEnd (length tpl_endtag)] = [FHole true; FEnd 12].
Proof. vm_compute. repeat split; reflexivity. Qed.

(* Both together: what the parser, the generator and the runtime emit for a script element (each hole through the
   escaper the PARSER's flag selects) has the token structure of the author's template. *)
Theorem C03_script_structure_partial : forall (vals : list bytes) (tpl : list sym),
  fragment vals tpl = true ->
  skeleton (lex_script [] (bytes_syms (render (flags (track (tpl ++ map SB end_tag))) vals tpl))) = skeleton (lex_script vals tpl).
Proof. exact script_structure. Qed.
Print Assumptions C03_script_structure_partial.

(* ---- line endings -------------------------------------------------------------------------------------------- *)
(* [crlf tpl] is the template saved with CR LF line endings: every LF of the author's text - between statements, at the
   end of a comment, inside a template literal, after the backslash of a line continuation, inside a literal that is
   not closed on its line - becomes CR LF.

   templ's quote tracker (model/JsTrack.v) gives the CR LF file the verdicts of the LF file: the same expressions
   recognised or swallowed, the same InsideStringLiteral flags, the contents ended at the same symbol.  For EVERY
   template - JavaScript or not, inside any fragment or not: the quote state does not depend on how lines end. *)
Theorem C03_tracker_line_endings : forall tpl : list sym,
  track (crlf tpl) = map (crlf_end tpl) (track tpl) /\
  flags (track (crlf tpl ++ map SB end_tag)) = flags (track (tpl ++ map SB end_tag)).
Proof. intros tpl. split; [apply tracker_crlf|apply tracker_crlf_flags]. Qed.
Print Assumptions C03_tracker_line_endings.

(* A JavaScript lexer gives the holes of a template written with LF line endings the same lexical positions in the CR LF
   file (backslash CR LF is one line continuation; a raw CR ends the line inside '...' / "..." as LF does; CR LF in a
   template literal is one line break). *)
Theorem C03_lexer_line_endings : forall (vals : list bytes) (tpl : list sym), no_cr tpl = true ->
  positions (lex_script vals (crlf tpl)) = positions (lex_script vals tpl).
Proof. exact lexer_crlf. Qed.
Print Assumptions C03_lexer_line_endings.

(* Hence the parser flags every hole of the CR LF file by its lexical position in THAT file, on the fragment of
   C03_tracker_agrees_partial. *)
Theorem C03_crlf_file_judged_partial : forall (vals : list bytes) (tpl : list sym),
  tracker_fragment vals tpl = true -> no_cr tpl = true ->
  flags (track (crlf tpl ++ map SB end_tag)) = positions (lex_script vals (crlf tpl)).
Proof. exact crlf_judged. Qed.
Print Assumptions C03_crlf_file_judged_partial.

(* The statements separate the code as it is from a tracker that drops the quote state at a bare LF inside '...' / "..."
   ("the literal cannot go on past the end of its line"): with LF endings the continuation  backslash LF  is consumed as
   one escape and nothing shows; in the CR LF file the escape takes backslash CR, the LF arrives alone, and the hole on
   the continued line would be flagged outside - [false] below.  Its value is then written as a JSON string inside the
   open literal: the literal ends at the value's first quote and the rest is script text. *)
Definition dq_open : list sym := syms "a = " ++ [SB x22; SB x78; SB x5c].        (* a = , double quote, x, backslash *)
Definition dq_close : list sym := [SB x22; SB x3b].                             (* double quote, semicolon *)
Definition tpl_cont_lf : list sym := dq_open ++ [SB x0a; SH 0] ++ dq_close.
Definition vals_cont : list bytes := [bs ";alert(1)//"].
Example C03_crlf_continuation :
  crlf tpl_cont_lf = dq_open ++ [SB x0d; SB x0a; SH 0] ++ dq_close /\
  fragment vals_cont tpl_cont_lf = true /\ fragment vals_cont (crlf tpl_cont_lf) = true /\
  flags (track (tpl_cont_lf ++ map SB end_tag)) = [true] /\
  flags (track (crlf tpl_cont_lf ++ map SB end_tag)) = [true] /\
  positions (lex_script vals_cont (crlf tpl_cont_lf)) = [true] /\
  toks_of (lex_script vals_cont (crlf tpl_cont_lf)) = [TCode (bs "a = "); TStr (Some (bs "x;alert(1)//")); TCode (bs ";")] /\
  toks_of (lex_script [] (bytes_syms (render [true] vals_cont (crlf tpl_cont_lf)))) =
    [TCode (bs "a = "); TStr (Some (bs "x;alert(1)//")); TCode (bs ";")] /\
  toks_of (lex_script [] (bytes_syms (render [false] vals_cont (crlf tpl_cont_lf)))) =
    [TCode (bs "a = "); TStr (Some (bs "x")); TCode (bs ";alert(1)"); TCom ([x2f; x2f; x22; x22; x3b])].
Proof. vm_compute. repeat split; reflexivity. Qed.

(* A hole directly after  backslash CR  (a file with CR line endings): the continuation is complete, the hole is inside
   the literal, the tracker says so, and the template is in the fragment.  The junction clause of [lexes_cleanly] is
   needed: in  a = `x backslash CR <hole> LF y`;  an EMPTY value lets the author's CR and LF meet as one line continuation,
   and the literal denotes xy instead of x LF y (harmless; no escaper can repair an empty value). *)
Definition tpl_bs_cr : list sym := syms "a = 'x" ++ [SB x5c; SB x0d; SH 0] ++ syms "y';".
Definition tpl_bs_cr_lf : list sym := syms "a = `x" ++ [SB x5c; SB x0d; SH 0; SB x0a] ++ syms "y`;".
Example C03_ex_hole_after_backslash_cr :
  fragment [bs "v"] tpl_bs_cr = true /\ fragment [[]] tpl_bs_cr = true /\
  positions (lex_script [bs "v"] tpl_bs_cr) = [true] /\ flags (track (tpl_bs_cr ++ map SB end_tag)) = [true] /\
  toks_of (lex_script [bs "v"] tpl_bs_cr) = [TCode (bs "a = "); TStr (Some (bs "xvy")); TCode (bs ";")] /\
  lexes_cleanly [bs "v"] tpl_bs_cr_lf = true /\ lexes_cleanly [[]] tpl_bs_cr_lf = false /\
  toks_of (lex_script [[]] tpl_bs_cr_lf) = [TCode (bs "a = "); TStr (Some (bs "x" ++ [x0a] ++ bs "y")); TCode (bs ";")] /\
  toks_of (lex_script [] (bytes_syms (render [true] [[]] tpl_bs_cr_lf))) = [TCode (bs "a = "); TStr (Some (bs "xy")); TCode (bs ";")].
Proof. vm_compute. repeat split; reflexivity. Qed.

(* A literal that is not closed on its line is not JavaScript: lexing stops at the line break (TStop L), in the template
   and in every rendering alike, and the holes behind the stop have no lexical position; the tracker goes on with the quote
   open (the hole on the next line is flagged inside), in the LF and in the CR LF file. *)
Definition tpl_open : list sym := syms "a = 'x" ++ [SB x0a] ++ syms "b = " ++ [SH 0] ++ syms ";".
Example C03_ex_literal_open_at_line_end :
  toks_of (lex_script [bs "v"] tpl_open) = [TCode (bs "a = "); TStop x4c] /\
  positions (lex_script [bs "v"] tpl_open) = [] /\
  toks_of (lex_script [] (bytes_syms (render [true] [bs "v"] tpl_open))) = [TCode (bs "a = "); TStop x4c] /\
  toks_of (lex_script [] (bytes_syms (render [false] [bs "v"] tpl_open))) = [TCode (bs "a = "); TStop x4c] /\
  flags (track (tpl_open ++ map SB end_tag)) = [true] /\ flags (track (crlf tpl_open ++ map SB end_tag)) = [true].
Proof. vm_compute. repeat split; reflexivity. Qed.

(* ---- a process that parses one script element after another ------------------------------------------------- *)
(* model/JsHist.v threads the quote tracker's state through a sequence of elements as the parser meets them - the
   elements of one file, then the next file's; complete, or cut off, or stopped by an error.  With the state born in
   every call of Parse ([fresh]: the code as it is) the verdict on an element is the verdict [track] gives it in a fresh
   process, whatever was parsed before - failing input included. *)
Theorem C03_parse_history_independent : forall (before after : list (list sym)) (e : list sym),
  verdict_after fresh before e = track e /\
  nth (length before) (run_elements fresh None (before ++ e :: after)) [] = track e.
Proof. intros before after e. split; [apply history_independent|apply history_independent_nth]. Qed.
Print Assumptions C03_parse_history_independent.

(* Hence the token-structure theorem holds of what a long-running process (templ generate over a directory, --watch,
   the LSP) emits for an element, whatever it parsed before. *)
Theorem C03_script_structure_after_history_partial : forall (before : list (list sym)) (vals : list bytes) (tpl : list sym),
  fragment vals tpl = true ->
  skeleton (lex_script [] (bytes_syms (render (flags (verdict_after fresh before (tpl ++ map SB end_tag))) vals tpl)))
  = skeleton (lex_script vals tpl).
Proof. exact script_structure_after_history. Qed.
Print Assumptions C03_script_structure_after_history_partial.

(* The statement separates the code as it is from a parser whose delimiter outlives a FAILED parse (a field of a shared
   parser value, reset only when an element completes): after a file cut off inside a literal,  var a = 'x  , the bare
   hole of  var b = <hole>  is flagged InsideStringLiteral and alert(1) is emitted as script text.  An element that
   completes hides it. *)
Definition el_cut : list sym := syms "var a = 'x".
Definition tpl_bare : list sym := syms "var b = " ++ [SH 0].
Example C03_history_leak_refuted :
  fragment [bs "alert(1)"] tpl_bare = true /\
  track (tpl_bare ++ map SB end_tag) = [FHole false; FEnd 9] /\
  verdict_after fresh [el_cut] (tpl_bare ++ map SB end_tag) = [FHole false; FEnd 9] /\
  verdict_after leak_on_failure [el_cut] (tpl_bare ++ map SB end_tag) = [FHole true; FEnd 9] /\
  verdict_after leak_on_failure [syms "var a = 'x';</script>"] (tpl_bare ++ map SB end_tag) = [FHole false; FEnd 9] /\
  toks_of (lex_script [] (bytes_syms (render [true] [bs "alert(1)"] tpl_bare))) = [TCode (bs "var b = alert(1)")] /\
  toks_of (lex_script [bs "alert(1)"] tpl_bare) = [TCode (bs "var b = "); TStr (Some (bs "alert(1)"))].
Proof. vm_compute. repeat split; reflexivity. Qed.

(* a literal that ends in an escaped backslash, then a hole in script text: the hole is outside, the value is quoted *)
Definition tpl_path : list sym := syms "a = ""C:\\""; b = " ++ [SH 0].
Example C03_ex_escaped_backslash :
  fragment [bs "alert(1)"] tpl_path = true /\ flags (track (tpl_path ++ map SB end_tag)) = [false] /\
  render [false] [bs "alert(1)"] tpl_path = bs "a = ""C:\\""; b = ""alert(1)""".
Proof. vm_compute. repeat split; reflexivity. Qed.

(* Regression for the defect repaired in 3c0a15d (shape comment-opener-after-hole-in-literal): in
     a = "<hole>//x";  (line break)  b = <hole>
   the loop as it was (track_legacy: comment parsers tried right after every expression, whatever the quote state)
   swallowed the rest of that line as a comment, stayed inside the literal and flagged the second hole as in-literal, so its value alert(1)
   was emitted as script text; the loop as it is gives the lexical positions, and the template is in the fragment. *)
Definition tpl_comment : list sym := syms "a = """ ++ [SH 0] ++ syms "//x"";" ++ [SB x0a] ++ syms "b = " ++ [SH 1].
Definition vals_comment : list bytes := [bs "p"; bs "alert(1)"].
Example C03_comment_after_hole_regression :
  fragment vals_comment tpl_comment = true /\
  flags (track (tpl_comment ++ map SB end_tag)) = [true; false] /\
  positions (lex_script vals_comment tpl_comment) = [true; false] /\
  flags (track_legacy (tpl_comment ++ map SB end_tag)) = [true; true] /\
  toks_of (lex_script [] (bytes_syms (render [true; true] vals_comment tpl_comment))) =
    [TCode (bs "a = "); TStr (Some (bs "p//x")); TCode (bs ";" ++ [x0a] ++ bs "b = alert(1)")] /\
  toks_of (lex_script vals_comment tpl_comment) =
    [TCode (bs "a = "); TStr (Some (bs "p//x")); TCode (bs ";" ++ [x0a] ++ bs "b = "); TStr (Some (bs "alert(1)"))].
Proof. vm_compute. repeat split; reflexivity. Qed.

(* ---- non-vacuity and witnesses ---------------------------------------------------------------------------- *)
(* single quote, double quote, backtick, dollar, braces, less-than, slash, script, greater-than, ampersand *)
Example C03_ex_metachars :
  replace [x27; x22; x60; x24; x7b; x7d; x3c; x2f; x73; x63; x72; x69; x70; x74; x3e; x26] =
  [x5c; x75; x30; x30; x32; x37; x5c; x75; x30; x30; x32; x32; x5c; x75; x30; x30; x36; x30; x5c; x75; x30; x30; x32; x34; x7b; x7d; x5c; x75; x30; x30; x33; x63; x5c; x2f; x73; x63; x72; x69; x70; x74; x5c; x75; x30; x30; x33; x65; x5c; x75; x30; x30; x32; x36].
Proof. vm_compute. reflexivity. Qed.
(* the shape fixed by 0a9d167: the value ${alert(1)} inside a backtick literal opens no interpolation *)
Example C03_ex_backtick :
  lex_string QBacktick (replace (bs "${alert(1)}") ++ [x60; x3b]) = LClosed (length (replace (bs "${alert(1)}"))) /\
  lex_string QBacktick (bs "${alert(1)}" ++ [x60; x3b]) = LInterp 0.
Proof. split; vm_compute; reflexivity. Qed.
(* raw U+2028, a lone continuation byte and a truncated lead survive the round trip *)
Example C03_ex_invalid_utf8 :
  js_unescape QSingle (replace [x61; xe2; x80; xa8; x80; xe2; x80]) = Some [x61; xe2; x80; xa8; x80; xe2; x80].
Proof. vm_compute. reflexivity. Qed.
Example C03_ex_wf_value :
  let v := JObj [(bs "k<", JArr [JStr (bs "</script>"); JNum (bs "-1.5e+3"); JNull; JBool true])] in
  wf_jv v = true /\ has_script_end (json_encode v) = false /\ length (json_encode v) = 53%nat.
Proof. vm_compute. auto. Qed.
Example C03_ex_fn_names :
  fn_name_ok (bs "console.log") = true /\ fn_name_ok (bs "a") = false /\ fn_name_ok (bs "alert(1)//") = false /\
  fn_name_ok (bs "x.") = false /\ fn_name_ok (bs "ab.") = true.
Proof. vm_compute. auto. Qed.
(* the call fn(S, event), S a string holding a, double quote, single quote, less-than, b - written for an attribute *)
Example C03_ex_call :
  safe_script (bs "fn") [PVal (JStr [x61; x22; x27; x3c; x62]); PExpr (bs "event")] =
  [x66; x6e; x28; x26; x23; x33; x34; x3b; x61; x5c; x26; x23; x33; x34; x3b; x26; x23; x33; x39; x3b; x5c; x75; x30; x30; x33; x63; x62; x26; x23; x33; x34; x3b; x2c; x65; x76; x65; x6e; x74; x29].
Proof. vm_compute. reflexivity. Qed.
