(* C17 - the language server's document copy tracks the editor through any edit sequence.
   Statements only; each is closed by [exact].
   model.DocEdit : Document (cmd/templ/lspcmd/proxy/documentcontents.go) and the document bookkeeping of
                   Server.DidOpen / Server.DidChange;   spec.Splice : the editor's buffer as a byte splice.
   model.DocWire : the notifications as they arrive on the wire (lsp/protocol serverDispatch decoding
                   didOpen / didChange / didClose params) and the per-URI map DocumentContents;
                   spec.SpliceWire : the editor's open buffers after a stream of notifications. *)
From Coq.Strings Require Import Byte String.
From Coq Require Import List NArith Lia.
Import ListNotations.
From V Require Import lib.Bytes lib.Lsp lib.LspWire spec.Splice spec.SpliceWire model.DocEdit model.DocWire proofs.DocEditProof proofs.DocWireProof.
Local Open Scope nat_scope.

(* One content change.  For every line array d that is a document (non-empty, no LF inside a line - what
   NewDocument produces and Apply preserves), every change with a valid LSP range (start <= end; positions
   beyond a line's or the document's end allowed) or no range (full replace), and every replacement text:
   Document.String() after Document.Apply is the editor's text after the same change. *)
Theorem C17_apply_is_splice : forall (d : list bytes) (r : option range) (w : bytes),
  doc_wf d -> range_valid r ->
  doc_string (apply d r w) = edit (doc_string d) r w.
Proof. exact apply_is_splice. Qed.
Print Assumptions C17_apply_is_splice.

(* ... and the result is again a document, so the statement applies to the next change. *)
Theorem C17_apply_preserves_document : forall (d : list bytes) (r : option range) (w : bytes),
  doc_wf d -> range_valid r -> doc_wf (apply d r w).
Proof. exact apply_wf. Qed.
Print Assumptions C17_apply_preserves_document.

(* didOpen: NewDocument(text) is a document whose String() is text. *)
Theorem C17_open_is_text : forall s : bytes,
  doc_wf (new_document s) /\ doc_string (new_document s) = s.
Proof. exact new_document_string. Qed.
Print Assumptions C17_open_is_text.

(* DocumentContents.Apply over any list of valid changes, starting from any opened text. *)
Theorem C17_changes_track_editor : forall (s0 : bytes) (cs : list change),
  Forall change_valid cs ->
  doc_string (apply_changes (new_document s0) cs) = fold_left edit_change cs s0.
Proof. exact changes_track_editor. Qed.
Print Assumptions C17_changes_track_editor.

(* Any history: didOpen s0, then any sequence of didOpen / didChange notifications, each didChange carrying
   any list of valid content changes (incremental or full).  The server's copy equals the editor's text. *)
Theorem C17_history_tracks_editor : forall (s0 : bytes) (es : list event),
  Forall event_valid es ->
  doc_string (server_doc s0 es) = editor_text s0 es.
Proof. exact history_tracks_editor. Qed.
Print Assumptions C17_history_tracks_editor.

(* The wire, one change: the change handed to Document.Apply for an element of contentChanges has exactly the
   range that element's own JSON carries (none when the member is absent or null), so applying it is the
   editor's meaning of that element. *)
Theorem C17_wire_change_is_its_json : forall (s : bytes) (w : wchange),
  edit_change s (decode_change w) = wire_edit s w.
Proof. exact decode_edit. Qed.
Print Assumptions C17_wire_change_is_its_json.

(* The wire, any stream: didOpen / didChange / didClose notifications about any URIs in any order, each
   didChange carrying any list of elements (range absent, null or present and valid; rangeLength anything).
   At every URI the server holds a copy exactly when the editor has the buffer open, and the copy is the
   editor's text. *)
Theorem C17_wire_history_tracks_editor : forall (ns : list note) (u : bytes),
  Forall note_valid ns ->
  option_map doc_string (server_contents ns u) = editor_buffers ns u.
Proof. exact wire_history_tracks_editor. Qed.
Print Assumptions C17_wire_history_tracks_editor.

(* After normalize every line/column used to index Document.Lines is inside the array (no slice panic). *)
Theorem C17_normalize_in_range : forall (d : list bytes) (p : pos), d <> [] ->
  N.to_nat (line (norm_pos d p)) < length d /\
  N.to_nat (char (norm_pos d p)) <= length (nth_line d (N.to_nat (line (norm_pos d p)))).
Proof. exact normalize_in_range. Qed.
Print Assumptions C17_normalize_in_range.

(* ---- non-vacuity: the hypotheses are inhabited and every branch of Apply is exercised ---- *)
Definition doc1 : bytes := bs "ab" ++ [nl] ++ bs "cd" ++ [nl].
Example C17_ex_wf : doc_wf (new_document doc1).
Proof. apply split_nl_wf. Qed.
Example C17_ex_insert : doc_string (apply (new_document doc1) (R 1 1 1 1) (bs "X" ++ [nl] ++ bs "Y"))
                        = bs "ab" ++ [nl] ++ bs "cX" ++ [nl] ++ bs "Yd" ++ [nl].
Proof. vm_compute. reflexivity. Qed.
Example C17_ex_delete : doc_string (apply (new_document doc1) (R 0 1 1 1) []) = bs "ad" ++ [nl].
Proof. vm_compute. reflexivity. Qed.
Example C17_ex_overwrite_clamped : doc_string (apply (new_document doc1) (R 0 1 7 9) (bs "Z")) = bs "aZ".
Proof. vm_compute. reflexivity. Qed.
Example C17_ex_whole : doc_string (apply (new_document doc1) (R 0 0 2 0) (bs "Z")) = bs "Z".
Proof. vm_compute. reflexivity. Qed.
Example C17_ex_history :
  Forall event_valid [Change [{| crange := R 0 0 0 0; ctext := bs "X" |}; {| crange := None; ctext := bs "q" |}]; Open doc1;
                      Change [{| crange := R 0 0 0 2; ctext := bs "X" |}]]
  /\ editor_text (bs "ab" ++ [nl]) [Change [{| crange := R 0 0 0 0; ctext := bs "X" |}]] = bs "Xab" ++ [nl].
Proof. split; [repeat constructor; cbn; lia|vm_compute; reflexivity]. Qed.

(* ---- regression witnesses: with the whole-document predicate used before commit 9226857
        (`r.End.Line == l || r.End.Character == c`) the one-change statement is false ---- *)
Lemma C17_old_predicate_refuted : exists (s : bytes) (r : option range) (w : bytes),
  doc_wf (new_document s) /\ range_valid r /\
  doc_string (apply_with is_whole_document_old (new_document s) r w) <> edit (doc_string (new_document s)) r w.
Proof.
  exists (bs "ab" ++ [nl]), (R 0 0 0 0), (bs "X"). split; [apply split_nl_wf|]. split; [right; cbn; split; [reflexivity|lia]|].
  vm_compute. discriminate.
Qed.
Example C17_old_predicate_refuted_replace :
  doc_string (apply_with is_whole_document_old (new_document (bs "ab" ++ [nl] ++ bs "cd")) (R 0 0 0 2) (bs "X"))
  <> edit (bs "ab" ++ [nl] ++ bs "cd") (R 0 0 0 2) (bs "X").
Proof. exact old_predicate_refuted_replace. Qed.

(* ---- the wire: non-vacuity (two URIs interleaved, ranged then full text without / with null range, close,
        re-open) and the refutation of a decoder that reuses the previous notification's slots ---- *)
Definition uA : bytes := bs "file:///a.templ".
Definition uB : bytes := bs "file:///b.templ".
Definition wr (r : option range) (t : bytes) : wchange :=
  {| wrange := match r with Some r => Present r | None => Absent end; wrange_length := Absent; wtext := t |}.
Definition stream1 : list note :=
  [DidOpen uA (bs "ab"); DidOpen uB (bs "cd"); DidChange uA [wr (R 0 1 0 1) (bs "x")];
   DidChange uB [wr (R 0 0 0 1) []; {| wrange := Null; wrange_length := Present 7%N; wtext := bs "Z" |}];
   DidChange uA [wr None (bs "Q")]; DidClose uB].
Example C17_ex_wire : Forall note_valid stream1
  /\ editor_buffers stream1 uA = Some (bs "Q") /\ editor_buffers stream1 uB = None
  /\ editor_buffers (firstn 4 stream1) uA = Some (bs "axb") /\ editor_buffers (firstn 4 stream1) uB = Some (bs "Z").
Proof. split; [repeat constructor; cbn; lia|vm_compute; repeat split; reflexivity]. Qed.
Lemma C17_reused_slot_refuted : exists (s : bytes) (prev : change) (w : wchange),
  wchange_valid w /\
  doc_string (apply_change (new_document s) (decode_into (Some prev) w)) <> wire_edit s w.
Proof.
  exists (bs "ab"), {| crange := R 0 1 0 1; ctext := bs "x" |}, {| wrange := Absent; wrange_length := Absent; wtext := bs "Z" |}.
  split; [exact I|exact reused_slot_refuted].
Qed.
