(* C01 - interpolated strings never change HTML structure (text and attribute contexts).
   Statements only; each is closed by [exact].  Specifications: spec/HtmlTok.v (tokenizer), spec/HtmlRefs.v
   (character references), spec/DocExpect.v (the tokens the author wrote).  Models: model/Escape.v, model/DocFrag.v. *)
From Coq.Strings Require Import Byte String.
From Coq Require Import List NArith Bool.
Import ListNotations.
From V Require Import lib.Bytes spec.HtmlTok spec.HtmlRefs model.Escape model.StyleAttr model.DocFrag spec.DocExpect
  proofs.EscapeProof proofs.StyleAttrProof proofs.TokProof.

(* For every byte string (invalid UTF-8, NUL, CR included): the escaped form holds no < > double or single
   quote, and every & in it begins one of the five references the escaper emits. *)
Theorem C01_escape_inert : forall s : bytes, inert (escape s) = true /\ amps_are_refs (escape s) = true.
Proof. exact (fun s => conj (escape_inert s) (escape_amps s)). Qed.
Print Assumptions C01_escape_inert.

(* Decoding the character references of the escaped form gives the string back byte for byte - in text and in
   attribute values, for ANY named-reference table in which ; occurs only last in a name, lookups are functional
   and amp; lt; gt; are present, and any code-point encoder that is right on ASCII. *)
Theorem C01_escape_decodes : forall (named : list (bytes * bytes)) (encode_cp : N -> bytes) (in_attr : bool),
  table_ok named -> encoder_ok encode_cp ->
  forall s : bytes, decode_refs named encode_cp in_attr (escape s) = s.
Proof. exact escape_decodes. Qed.
Print Assumptions C01_escape_decodes.

(* ... in particular for the concrete table and the UTF-8 encoder of spec/HtmlRefs.v (this also shows the
   hypotheses of the previous theorem are satisfiable). *)
Theorem C01_escape_decodes_min : forall (in_attr : bool) (s : bytes), decode_min in_attr (escape s) = s.
Proof. exact escape_decodes_min. Qed.
Print Assumptions C01_escape_decodes_min.

(* Text hole: in every text state a string can be written in (data, RCDATA, RAWTEXT, script data, PLAINTEXT),
   with any last-start-tag name, the escaped string is emitted as exactly its bytes as character tokens and
   the tokenizer continues from the SAME state on whatever follows. *)
Theorem C01_tok_text_hole : forall (x : tx) (nm s q : bytes), plain_text x = true ->
  run (Text x nm) (escape s ++ q) = let '(st, e) := run (Text x nm) q in (st, chars (escape s) ++ e).
Proof. exact tok_text_hole. Qed.
Print Assumptions C01_tok_text_hole.

(* Attribute hole: inside a double-quoted attribute value (any tag, attribute name, value so far) the escaped
   string followed by the author's quote ends the value exactly at that quote, the value being extended by
   exactly the escaped bytes. *)
Theorem C01_tok_attr_hole : forall (t : tagacc) (k acc s q : bytes),
  run (AttrValDQ t k acc) (escape s ++ x22 :: q) = run (AfterAttrValQ (push t k (acc ++ escape s))) q.
Proof. exact tok_attr_hole. Qed.
Print Assumptions C01_tok_attr_hole.

(* What a hole needs of the bytes written into it, and no more: no < for a text state, no double quote for a
   double-quoted attribute value (this is the predicate the harness evaluates on the implementation's output). *)
Theorem C01_hole_safe_suffices : forall v : bytes, hole_safe v = true ->
  (forall x nm q, plain_text x = true -> run (Text x nm) (v ++ q) = let '(st, e) := run (Text x nm) q in (st, chars v ++ e)) /\
  (forall t k acc q, run (AttrValDQ t k acc) (v ++ x22 :: q) = run (AfterAttrValQ (push t k (acc ++ v))) q).
Proof. exact hole_safe_suffices. Qed.
Print Assumptions C01_hole_safe_suffices.

(* templ.RenderAttributes: for every attribute map (association list in any order) whose KEYS are name-shaped
   and whose values are ANY values of every kind the type switch knows (string, *string / nil, bool, *bool,
   KeyValue[string,bool], KeyValue[bool,bool], func() bool, anything else), the tokens of  <x ATTRS >  are
   exactly one start tag carrying the intended attributes in key order, each string value as one attribute value.
   Hypothesis, not hidden: keys are escaped but not validated by templ, so the statement is about values. *)
Theorem C01_render_attrs_tokens : forall m : list (bytes * aval),
  forallb (fun kv => name_shaped (fst kv)) m = true ->
  tok (bs "<x" ++ render_attrs m ++ [x3e]) = [TStart (bs "x") (expected_attrs m) false].
Proof. exact render_attrs_tokens. Qed.
Print Assumptions C01_render_attrs_tokens.

(* Document fragment: for all trees of static text / dynamic strings / nested elements and void elements with
   constant, boolean, dynamic, conditional-boolean, spread and style attributes - including RCDATA (title, textarea),
   RAWTEXT (style xmp iframe noembed noframes noscript) and script parents holding text and strings -
   the tokenizer sees exactly the author's tags and attributes, each dynamic string being one run of character
   tokens / one attribute value holding its escaped form, and it is back in the data state at the end. *)
Theorem C01_document_fragment : forall t : tree, wf t = true ->
  tok (render t) = expected t /\ fst (run Data (render t)) = Data.
Proof. exact (fun t W => conj (document_fragment t W) (document_fragment_state t W)). Qed.
Print Assumptions C01_document_fragment.

(* JSON script element start tag (jsonscript.go): id, type and nonce are attribute holes; absent when empty. *)
Theorem C01_json_script_header : forall id ty nonce : bytes,
  run Data (json_script_header id ty nonce) =
  (Text XScript (bs "script"),
   [TStart (bs "script") (opt_exp (bs "id") id ++ opt_exp (bs "type") ty ++ opt_exp (bs "nonce") nonce) false]).
Proof. exact json_script_header_tokens. Qed.
Print Assumptions C01_json_script_header.

(* writeScriptHeader (scripttemplate.go): the CSP nonce is an attribute hole. *)
Theorem C01_script_header : forall nonce : bytes,
  run Data (script_header nonce) = (Text XScript (bs "script"), [TStart (bs "script") (opt_exp (bs "nonce") nonce) false]).
Proof. exact script_header_tokens. Qed.
Print Assumptions C01_script_header.

(* Style attribute (runtime/styleattribute.go; the generated code writes the result WITHOUT a further escape):
   for every list of values of every kind the function knows (string, SafeCSS, both maps, the three KeyValue
   forms, funcs, slices, nil, anything else) and for ANY results of the CSS sanitisers, the value holds no
   < > or quote byte, so between the author's double quotes it is exactly one attribute value. *)
Theorem C01_style_attr_inert : forall vs : list sval, inert (style_attr vs) = true.
Proof. exact style_attr_inert. Qed.
Print Assumptions C01_style_attr_inert.

Theorem C01_style_attr_hole : forall (t : tagacc) (k acc : bytes) (vs : list sval) (q : bytes),
  run (AttrValDQ t k acc) (style_attr vs ++ x22 :: q) = run (AfterAttrValQ (push t k (acc ++ style_attr vs))) q.
Proof. exact style_attr_hole. Qed.
Print Assumptions C01_style_attr_hole.

(* ---- non-vacuity and the stated limitation ---- *)
Definition ex_xss : bytes := bs """'></title></textarea></script><script>alert(1)</script><!--&amp;&#34;"%string.
Definition ex_tree : tree :=
  TElem (bs "DIV") [AConst (bs "class") (bs "a""b"); ADyn (bs "title") ex_xss; ABoolExpr (bs "hidden") true;
                    AStyle [SString ex_xss false; SMapSP [(ex_xss, ex_xss)]; SSlice [SFunc (SSafeCSS ex_xss); SNil]; SNil];
                    ASpread [(bs "z", VStringPtr (Some ex_xss)); (bs "b", VKVStringBool ex_xss true); (bs "a", VBool true); (bs "c", VOther)]]
    [TText (bs "hello "); TStr ex_xss; TVoid (bs "br") [ABool (bs "x")];
     TElem (bs "title") [] [TStr ex_xss]; TElem (bs "xmp") [] [TText (bs "t"); TStr ex_xss];
     TElem (bs "textarea") [ADyn (bs "name") ex_xss] [TStr ex_xss]].
Example C01_ex_wf : wf ex_tree = true /\ tok (render ex_tree) = expected ex_tree.
Proof. split; vm_compute; reflexivity. Qed.
Example C01_ex_decode : decode_min true (escape ex_xss) = ex_xss /\ decode_min false (escape ex_xss) = ex_xss.
Proof. split; vm_compute; reflexivity. Qed.
Example C01_ex_attrs : forallb (fun kv => name_shaped (fst kv)) [(bs "data-x", VString ex_xss); (bs "a", VFuncBool true)] = true.
Proof. reflexivity. Qed.
(* the limitation: a key that is not name-shaped adds an attribute (keys are escaped, not validated) *)
Example C01_keys_not_validated :
  tok (bs "<x" ++ render_attrs [(bs "x onclick=alert(1)", VString [])] ++ [x3e])
  = [TStart (bs "x") [(bs "x", []); (bs "onclick", bs "alert(1)=""""")] false].
Proof. vm_compute. reflexivity. Qed.
(* without escaping, the same tree shape is broken by the string: the hypothesis-free statement is not a triviality *)
Example C01_unescaped_breaks : tok (bs "<p>" ++ bs "</p><script>" ++ bs "</p>") <> expected (TElem (bs "p") [] [TStr (bs "</p><script>")]).
Proof. vm_compute. discriminate. Qed.

(* ================= second round: the document theorem over the template language ================= *)
From V Require Import proofs.TokRawProof proofs.ScriptPartsProof.
From V Require spec.JsLex.
(* C01_document_fragment above now quantifies over ALL trees of model/DocFrag.v: in addition to the first round,
   HTML comments, doctype, raw style/script elements with static content, script elements with dynamic parts,
   if/else, for, switch (oracle-driven: the branch taken, the iterations run, the case chosen), component calls,
   the children block, and arbitrarily nested if/else attribute lists.  The statement is repeated under the name
   DESIGN section 5 uses. *)
Theorem C01_document : forall t : tree, wf t = true ->
  tok (render t) = expected t /\ fst (run Data (render t)) = Data.
Proof. exact (fun t W => conj (document_fragment t W) (document_fragment_state t W)). Qed.
Print Assumptions C01_document.

(* a sequence of nodes (a template body) followed by anything: the tokenizer reads the author's tokens and is back in
   the data state, so what follows is read as if the body were not there *)
Theorem C01_document_seq : forall (l : list tree) (rest : bytes), forallb wf l = true ->
  run Data (flat_map render l ++ rest) = let '(st, e) := run Data rest in (st, flat_map expected l ++ e).
Proof.
  exact (fun l rest W => seq_list wf Data l (proj2 (Forall_forall _ l) (fun t _ => c01_tree t)) W rest).
Qed.
Print Assumptions C01_document_seq.

(* Comments: a body that does not start with > or -> and holds no --> or --!> is read as ONE comment with
   exactly that body (all bytes, incl. <, quotes, -- and --! in other positions). *)
Theorem C01_comment_tokens : forall d q : bytes, comment_ok d = true ->
  run Data ([x3c; x21; x2d; x2d] ++ d ++ [x2d; x2d; x3e] ++ q) = let '(st, e) := run Data q in (st, TComment d :: e).
Proof. exact comment_tokens. Qed.
Print Assumptions C01_comment_tokens.

(* Raw-text elements (style: RAWTEXT, script: script data) with static content: content that holds no </name in
   any letter case (and, in a script, no <! ) is read as character data up to the author's end tag - whatever
   else it holds ( < , </ , </other>, partial end tags at its very end ...). *)
Theorem C01_raw_static_tokens : forall (x : tx) (n v rest : bytes), raw2 x = true -> n <> [] -> forallb is_alpha n = true ->
  raw_static_ok x (map lower n) v = true ->
  run (Text x (map lower n)) (v ++ [x3c; x2f] ++ n ++ x3e :: rest) =
  let '(st, e) := run Data rest in (st, chars v ++ TEnd (map lower n) :: e).
Proof. exact raw_static_tokens. Qed.
Print Assumptions C01_raw_static_tokens.

(* Script elements with {{ }} parts: static parts as above (a static part followed by a dynamic one not ending in
   a partial < , </ or </letters), dynamic parts ANY bytes that are clean or cool in the sense of property C03
   (proved there of the JavaScript escaper and the JSON encoder): the element ends at the author's </script>. *)
Theorem C01_script_parts_tokens : forall (ps : list spart) (rest : bytes), parts_ok ps = true ->
  run (Text XScript (bs "script")) (flat_map part_bytes ps ++ [x3c; x2f] ++ bs "script" ++ x3e :: rest) =
  let '(st, e) := run Data rest in (st, chars (flat_map part_bytes ps) ++ TEnd (bs "script") :: e).
Proof. exact (fun ps rest W => script_parts_tokens ps W rest). Qed.
Print Assumptions C01_script_parts_tokens.

(* ---- non-vacuity for the second round, and why the side conditions are there ---- *)
Definition ex_tree2 : tree :=
  TCall [TDoc (bs "html");
    TElem (bs "html") [ACond true [ADyn (bs "lang") ex_xss; ACond false [] [ABool (bs "data-x")]] [AConst (bs "dir") (bs "ltr")]]
     [TCmt (bs " a <b> -- --! ""' comment "); TRaw (bs "style") [] (bs "p > a { content: ""</p>"" } </sty");
      TScript [ADyn (bs "nonce") ex_xss] [PStatic (bs "var a = ""</div>"", b = "); PDyn (bs "\u003cx\u003e /"); PStatic (bs "; if (a<b) {} </scr")];
      TIf false [TText (bs "no")] [TFor [[TElem (bs "li") [] [TStr ex_xss]]; [TElem (bs "li") [] [TStr ex_xss; TChildren [TStr ex_xss]]]]];
      TSwitch 1 [[TText (bs "zero")]; [TElem (bs "title") [] [TIf true [TStr ex_xss] []; TFor [[TText (bs "x")]; [TStr ex_xss]]]]; [TText (bs "two")]];
      TSwitch 7 [[TText (bs "never")]]]].
Example C01_ex2_wf : wf ex_tree2 = true /\ tok (render ex_tree2) = expected ex_tree2.
Proof. split; vm_compute; reflexivity. Qed.
(* a comment body starting with > ends at once; static script text holding </script ends the element early;
   after <!--<script the author's </script> does not end it; a static part ending in < lets clean dynamic bytes finish an end tag *)
Example C01_comment_side_condition : comment_ok (bs ">x") = false /\ tok (render (TCmt (bs ">x"))) <> expected (TCmt (bs ">x")).
Proof. split; [reflexivity|vm_compute; discriminate]. Qed.
Example C01_script_side_conditions :
  (let t := TRaw (bs "script") [] (bs "a=""</script>""") in wf t = false /\ tok (render t) <> expected t) /\
  (let t := TRaw (bs "script") [] (bs "<!--<script>") in wf t = false /\ tok (render t) <> expected t) /\
  (let t := TScript [] [PStatic (bs "x=""<"); PDyn (bs "/script "); PStatic (bs """")] in
   JsLex.clean (bs "/script ") = true /\ wf t = false /\ tok (render t) <> expected t).
Proof. repeat split; try reflexivity; vm_compute; discriminate. Qed.

(* ---------- which writes the generated code performs around dynamic values: the WHOLE generator model
   (model/Gen.v, tied to generator.Generate byte for byte on every run) ---------- *)
From V Require Import model.Ast model.Gen proofs.GenAddsProof proofs.GenFreshProof proofs.GenSinkProof.

(* gen_sinks_escaped.  For every file: the generator's run is the replay of a list l of write operations
   (WriteIndent / Write / WriteStringLiteral of generator text, writes of user expressions) - same writer state, hence
   same code and literals, same source-map additions - and l is Sunk: a WriteIndent that starts with the statement
   `_, templ_7745c5c3_Err = templ_7745c5c3_Buffer.WriteString(` occurs only inside a sink group, in which the written
   variable was declared from the user expression through the matching function:
     text, default attribute: templ.JoinStringErrs(e)                      then WriteString(templ.EscapeString(v))
     URL attribute:           var v templ.SafeURL = e                      then WriteString(templ.EscapeString(string(v)))
     on*, hx-on: attribute:   var v templ.ComponentScript = e              then WriteString(v.Call)
     style attribute:         templruntime.SanitizeStyleAttributeValues(e) then WriteString(v)
     script part:             templruntime.ScriptContentInside/OutsideStringLiteral(e) then WriteString(v)
   and an attribute sink stands between the literals ` name=` `\"` and `\"` within the operations of its element
   (constructors S_expr, S_elem of Sunk; the kind is attr_kind elem name). *)
Theorem C01_gen_sinks_escaped : forall (fn : bytes) (f : file),
  exists l : list op,
    same (gen_state fn f) (replay l (g_init fn)) /\
    Sunk None 0 (Gen.vid (gen_state fn f)) l /\
    (forall (lvl : nat) (s : bytes), In (OI lvl s) l -> is_writer s = true ->
       exists pre grp post : list op, l = pre ++ grp ++ post /\ sink grp /\ In (OI lvl s) grp).
Proof. exact gen_sinks_escaped. Qed.
Print Assumptions C01_gen_sinks_escaped.

(* each string expression in text position (not blank) is written as exactly the text sink group, with a new variable *)
Theorem C01_text_sink_occurrence : forall (f lvl : nat) (e : expr) (t : trailing) (next : option node) (g : Gen.gst),
  Gen.all_ws (e_val e) = false ->
  Gen.write_node (S f) lvl (NStr e t) next g =
  (match t with SpNone => Gen.skip | _ => if Gen.inline_or_text next then Gen.wl [x20] else Gen.skip end)
    (replay (g_text lvl (vname (S (Gen.vid g))) (Gen.fname g) (OE e) e) (Gen.set_vid (S (Gen.vid g)) g)).
Proof. exact text_occurrence. Qed.
Print Assumptions C01_text_sink_occurrence.

(* each expression attribute name={ e } of element elem is written as: literal ` name=`, literal `\"`, the sink group
   of its kind with a new variable, literal `\"` *)
Theorem C01_attr_sink_occurrence : forall (f lvl : nat) (elem n : bytes) (e : expr) (g : Gen.gst),
  Gen.write_attrs (S f) lvl elem [AExpr n e] g =
  replay ([OL ([x20] ++ Gen.hesc n ++ bs "="); OL (bs "\""")] ++
          g_attr (attr_kind elem n) lvl (vname (S (Gen.vid g))) (Gen.fname g) e ++ [OL (bs "\""")])
         (Gen.set_vid (S (Gen.vid g)) g).
Proof. exact attr_occurrence. Qed.
Print Assumptions C01_attr_sink_occurrence.

(* non-vacuity: Sunk is not trivially true - a bare Buffer.WriteString(x) is rejected in every context; the kinds *)
Example C01_ex_bare_write_not_sunk : forall (c : option bytes) (a b : nat), ~ Sunk c a b [OI 0 (wpre ++ bs "x)")].
Proof. exact bare_write_not_sunk. Qed.
Example C01_ex_kinds :
  attr_kind (bs "a") (bs "href") = KUrl /\ attr_kind (bs "A") (bs "HREF") = KUrl /\ attr_kind (bs "form") (bs "action") = KUrl /\
  attr_kind (bs "div") (bs "href") = KDefault /\ attr_kind (bs "button") (bs "onclick") = KOn /\ attr_kind (bs "p") (bs "style") = KStyle.
Proof. exact ex_kinds. Qed.

(* ================= third round: script elements written by the RUNTIME, as a function of the operation
   sequence on one render context ================= *)
From V Require Import model.ScriptCtx spec.ScriptExpect proofs.ScriptCtxProof.

(* For EVERY sequence of templ.RenderScriptItems(scripts...) / ComponentScript.Render / JSONScriptElement.Render
   operations on one context (initialised or bare), every CSP nonce (any bytes) and every set of script names
   already rendered: the bytes written are read back as exactly the intended script elements - the function text of
   a name once per context, the call of a component every time, a script with an empty Function (templ.JSFuncCall)
   only its call - each start tag carrying the nonce as ONE attribute value (none when empty), and the tokenizer is
   back in the data state.  Hypothesis (the author's side, decidable, evaluated by the harness): the text of each
   element holds no </script and no <! . *)
Theorem C01_script_ops : forall (keep : bool) (nonce : bytes) (seen : list bytes) (ops : list sop),
  ops_wf keep nonce seen ops = true ->
  tok (render_ops keep nonce seen ops) = ops_expected keep nonce seen ops /\
  fst (run Data (render_ops keep nonce seen ops)) = Data.
Proof. exact script_ops_tokens. Qed.
Print Assumptions C01_script_ops.

(* ... followed by anything: what comes after is read as if the script elements were not there *)
Theorem C01_script_ops_seq : forall (keep : bool) (nonce : bytes) (seen : list bytes) (ops : list sop) (rest : bytes),
  ops_wf keep nonce seen ops = true ->
  run Data (render_ops keep nonce seen ops ++ rest) =
  let '(st, e) := run Data rest in (st, ops_expected keep nonce seen ops ++ e).
Proof. exact script_ops_seq. Qed.
Print Assumptions C01_script_ops_seq.

(* the elements of script templates carry the context's nonce and no other attribute, wherever in the sequence *)
Theorem C01_script_ops_nonce : forall (keep : bool) (nonce : bytes) (ops : list sop) (seen : list bytes) (e : sel),
  (forall id ty own body, ~ In (OJson id ty own body) ops) ->
  In e (ops_elems keep nonce seen ops) -> se_id e = [] /\ se_ty e = [] /\ se_nonce e = nonce.
Proof. exact script_template_elems_nonce. Qed.
Print Assumptions C01_script_ops_nonce.

(* non-vacuity: second use of a script, a handler's RenderScriptItems before the component, a function-less call,
   with a nonce made of metacharacters; and what a raw nonce in the second header would be read as *)
Definition ex_hello : cscript := CS (bs "hello") (bs "function hello(a){}") (bs "hello(&#34;x&#34;)") (bs "hello(""x"")").
Definition ex_call : cscript := CS (bs "jsFuncCall_1") [] (bs "f(1)") (bs "f(1)").
Definition ex_ops : list sop := [OItems [ex_hello; ex_hello]; ORender ex_hello; ORender ex_hello; ORender ex_call;
                                 OJson (bs "i""d") (bs "application/json") None (bs "{}")].
Example C01_ex_script_ops : ops_wf true (bs """><script x=""") [] ex_ops = true /\
  tok (render_ops true (bs """><script x=""") [] ex_ops) = ops_expected true (bs """><script x=""") [] ex_ops /\
  length (ops_elems true (bs "n") [] ex_ops) = 5 /\ length (ops_elems false (bs "n") [] ex_ops) = 7.
Proof. repeat split; vm_compute; reflexivity. Qed.
Example C01_raw_nonce_breaks :
  tok (bs "<script nonce=""" ++ bs """><script x=""" ++ bs """>f(1)</script>")
  <> sel_tokens (SEL [] [] (bs """><script x=""") (bs "f(1)")).
Proof. vm_compute. discriminate. Qed.
