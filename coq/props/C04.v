(* C04 - URL sanitiser admits only relative references and allow-listed schemes.
   This file holds property statements only; each is closed by [exact]. *)
From Coq.Strings Require Import Byte String.
From Coq Require Import List.
Open Scope string_scope.
From V Require Import lib.Bytes model.Url spec.Whatwg proofs.UrlProof.

(* For every byte string: the sanitiser answers the fixed failure URL, or returns the input
   unchanged and a browser resolves that input as a relative reference (no scheme) or with
   one of http, https, mailto, tel, ftp, ftps. *)
Theorem C04_url_sound : forall s : bytes, url s = failed \/ (url s = s /\ safe s).
Proof. exact url_sound. Qed.
Print Assumptions C04_url_sound.

Theorem C04_url_idempotent : forall s : bytes, url (url s) = url s.
Proof. exact url_idempotent. Qed.
Print Assumptions C04_url_idempotent.

Theorem C04_url_input_or_failed : forall s : bytes, url s = s \/ url s = failed.
Proof. exact url_input_or_failed. Qed.
Print Assumptions C04_url_input_or_failed.

(* non-vacuity: both outcomes occur, and a disguised scheme is caught *)
Example C04_ex_pass : url (bs "hTtPs://a/b") = bs "hTtPs://a/b" /\ safe (bs "hTtPs://a/b").
Proof. split; vm_compute; auto 10. Qed.
Example C04_ex_fail : url (bs "javascript:alert(1)") = failed.
Proof. vm_compute. reflexivity. Qed.

(* Dynamic href on <a> and action on <form>, in every letter case an HTML parser folds to
   those names, are written through the safe-URL attribute writer. *)
Theorem C04_url_sink_dispatch : forall elem attr : bytes,
  (map lower elem = bs "a" /\ map lower attr = bs "href") \/
  (map lower elem = bs "form" /\ map lower attr = bs "action") ->
  url_sink elem attr = true.
Proof. exact url_sink_dispatch. Qed.
Print Assumptions C04_url_sink_dispatch.

(* ---------- the URL sink in the generated code: the WHOLE generator model (model/Gen.v) ---------- *)
From V Require Import model.Ast model.Gen proofs.GenAddsProof proofs.GenFreshProof proofs.GenSinkProof.
Import ListNotations.
Local Open Scope list_scope.

(* An expression attribute name={ e } of element elem is written with the URL sink group - the value is declared as
   templ.SafeURL (so a plain string does not compile and templ.URL / templ.SafeURL must produce it) and written through
   templ.EscapeString(string(v)) between the literals ` name=` `\"` and `\"` - exactly when url_sink elem name
   (C04_url_sink_dispatch: href on a, action on form, in every letter case); otherwise the group is one of the other
   three kinds, none of which declares a templ.SafeURL. *)
Theorem C04_generated_url_sink : forall (f lvl : nat) (elem n : bytes) (e : expr) (g : Gen.gst),
  Gen.write_attrs (S f) lvl elem [AExpr n e] g =
    replay ([OL ([x20] ++ Gen.hesc n ++ bs "="); OL (bs "\""")] ++
            g_attr (attr_kind elem n) lvl (vname (S (Gen.vid g))) (Gen.fname g) e ++ [OL (bs "\""")])
           (Gen.set_vid (S (Gen.vid g)) g) /\
  (attr_kind elem n = KUrl <-> url_sink elem n = true) /\
  (forall (vn fn : bytes), g_attr KUrl lvl vn fn e =
     [OI lvl (bs "var " ++ vn ++ bs " templ.SafeURL = "); OE e; OR Gen.nlb;
      OI lvl (bs "_, templ_7745c5c3_Err = templ_7745c5c3_Buffer.WriteString(templ.EscapeString(string(" ++ vn ++ bs ")))"); OR Gen.nlb] ++ eh lvl).
Proof. exact (fun f lvl elem n e g => conj (attr_occurrence f lvl elem n e g) (conj (url_kind_iff elem n) (fun vn fn => eq_refl))). Qed.
Print Assumptions C04_generated_url_sink.

(* in the run on a whole file every expression attribute group is one of these (constructor S_expr of Sunk, inside the
   operations S_elem of the element whose name is the elem of attr_kind), and no Buffer.WriteString statement occurs
   outside a sink group *)
Theorem C04_gen_sinks_escaped : forall (fn : bytes) (f : file),
  exists l : list op,
    same (gen_state fn f) (replay l (g_init fn)) /\
    Sunk None 0 (Gen.vid (gen_state fn f)) l /\
    (forall (lvl : nat) (s : bytes), In (OI lvl s) l -> is_writer s = true ->
       exists pre grp post : list op, l = pre ++ grp ++ post /\ sink grp /\ In (OI lvl s) grp).
Proof. exact gen_sinks_escaped. Qed.
Print Assumptions C04_gen_sinks_escaped.

Example C04_ex_kinds :
  attr_kind (bs "a") (bs "href") = KUrl /\ attr_kind (bs "A") (bs "HREF") = KUrl /\ attr_kind (bs "form") (bs "action") = KUrl /\
  attr_kind (bs "div") (bs "href") = KDefault /\ attr_kind (bs "button") (bs "onclick") = KOn /\ attr_kind (bs "p") (bs "style") = KStyle.
Proof. exact ex_kinds. Qed.
