(* C04 - URL sanitiser admits only relative references and allow-listed schemes.
   This file holds property statements only; each is closed by [exact]. *)
From Coq.Strings Require Import Byte String.
From Coq Require Import List.
Open Scope string_scope.
From V Require Import lib.Bytes model.Url spec.Whatwg proofs.UrlProof.

(* For every byte string: the sanitiser answers the fixed failure URL, or returns the input
   unchanged and a browser resolves that input as a relative reference (no scheme) or with
   one of http, https, mailto, tel, ftp, ftps. *)
Theorem C04_url_sound : forall s : bytes, url s = failed \/ (url s = s /\ safe s).
Proof. exact url_sound. Qed.
Print Assumptions C04_url_sound.

Theorem C04_url_idempotent : forall s : bytes, url (url s) = url s.
Proof. exact url_idempotent. Qed.
Print Assumptions C04_url_idempotent.

Theorem C04_url_input_or_failed : forall s : bytes, url s = s \/ url s = failed.
Proof. exact url_input_or_failed. Qed.
Print Assumptions C04_url_input_or_failed.

(* non-vacuity: both outcomes occur, and a disguised scheme is caught *)
Example C04_ex_pass : url (bs "hTtPs://a/b") = bs "hTtPs://a/b" /\ safe (bs "hTtPs://a/b").
Proof. split; vm_compute; auto 10. Qed.
Example C04_ex_fail : url (bs "javascript:alert(1)") = failed.
Proof. vm_compute. reflexivity. Qed.

(* Dynamic href on <a> and action on <form>, in every letter case an HTML parser folds to
   those names, are written through the safe-URL attribute writer. *)
Theorem C04_url_sink_dispatch : forall elem attr : bytes,
  (map lower elem = bs "a" /\ map lower attr = bs "href") \/
  (map lower elem = bs "form" /\ map lower attr = bs "action") ->
  url_sink elem attr = true.
Proof. exact url_sink_dispatch. Qed.
Print Assumptions C04_url_sink_dispatch.

(* ---------- the URL sink in the generated code: the WHOLE generator model (model/Gen.v) ---------- *)
From V Require Import model.Ast model.Gen proofs.GenAddsProof proofs.GenFreshProof proofs.GenSinkProof.
Import ListNotations.
Local Open Scope list_scope.

(* An expression attribute name={ e } of element elem is written with the URL sink group - the value is declared as
   templ.SafeURL (so a plain string does not compile and templ.URL / templ.SafeURL must produce it) and written through
   templ.EscapeString(string(v)) between the literals ` name=` `\"` and `\"` - exactly when url_sink elem name
   (C04_url_sink_dispatch: href on a, action on form, in every letter case); otherwise the group is one of the other
   three kinds, none of which declares a templ.SafeURL. *)
Theorem C04_generated_url_sink : forall (f lvl : nat) (elem n : bytes) (e : expr) (g : Gen.gst),
  Gen.write_attrs (S f) lvl elem [AExpr n e] g =
    replay ([OL ([x20] ++ Gen.hesc n ++ bs "="); OL (bs "\""")] ++
            g_attr (attr_kind elem n) lvl (vname (S (Gen.vid g))) (Gen.fname g) e ++ [OL (bs "\""")])
           (Gen.set_vid (S (Gen.vid g)) g) /\
  (attr_kind elem n = KUrl <-> url_sink elem n = true) /\
  (forall (vn fn : bytes), g_attr KUrl lvl vn fn e =
     [OI lvl (bs "var " ++ vn ++ bs " templ.SafeURL = "); OE e; OR Gen.nlb;
      OI lvl (bs "_, templ_7745c5c3_Err = templ_7745c5c3_Buffer.WriteString(templ.EscapeString(string(" ++ vn ++ bs ")))"); OR Gen.nlb] ++ eh lvl).
Proof. exact (fun f lvl elem n e g => conj (attr_occurrence f lvl elem n e g) (conj (url_kind_iff elem n) (fun vn fn => eq_refl))). Qed.
Print Assumptions C04_generated_url_sink.

(* in the run on a whole file every expression attribute group is one of these (constructor S_expr of Sunk, inside the
   operations S_elem of the element whose name is the elem of attr_kind), and no Buffer.WriteString statement occurs
   outside a sink group *)
Theorem C04_gen_sinks_escaped : forall (fn : bytes) (f : file),
  exists l : list op,
    same (gen_state fn f) (replay l (g_init fn)) /\
    Sunk None 0 (Gen.vid (gen_state fn f)) l /\
    (forall (lvl : nat) (s : bytes), In (OI lvl s) l -> is_writer s = true ->
       exists pre grp post : list op, l = pre ++ grp ++ post /\ sink grp /\ In (OI lvl s) grp).
Proof. exact gen_sinks_escaped. Qed.
Print Assumptions C04_gen_sinks_escaped.

(* POSITION in the attribute tree.  The writer does not depend on where the attribute stands among the attributes of
   its element: attr_at d a l (proofs/UrlSinkNestedProof.v) says that a stands in l at top level (d = 0), or in the
   then-branch or the else-branch of a conditional attribute of l, recursively, under d nested if / else blocks, with
   any attributes (spreads, constants, other expressions, other conditionals) before and after it at every level.  For
   EVERY such position the operations of the whole attribute list contain the group of name={ e } with the kind decided by
   (elem, name) alone - elem being the element the list belongs to, at every depth (context Some elem of Sunk) - written
   at indentation lvl + d.  (d < f: the generator model runs the attribute writer with fuel 50, Gen.write_node.) *)
From V Require Import proofs.UrlSinkNestedProof.
Theorem C04_generated_attr_sink_nested : forall (f lvl : nat) (elem : bytes) (l : list attr) (g : Gen.gst) (d : nat) (n : bytes) (e : expr),
  attr_at d (AExpr n e) l -> d < f ->
  exists (ops pre post : list op) (v : nat) (fn : bytes),
    same (Gen.write_attrs f lvl elem l g) (replay ops g) /\
    Sunk (Some elem) (Gen.vid g) (Gen.vid (Gen.write_attrs f lvl elem l g)) ops /\
    ops = pre ++ ([OL ([x20] ++ Gen.hesc n ++ bs "="); OL (bs "\""")] ++
                  g_attr (attr_kind elem n) (lvl + d) (vname v) fn e ++ [OL (bs "\""")]) ++ post.
Proof. exact attr_sink_nested. Qed.
Print Assumptions C04_generated_attr_sink_nested.

(* ... so href on a / action on form is declared templ.SafeURL and written through templ.EscapeString(string(v)) in the
   then-branch, in the else-branch and at every depth of nesting, exactly as at top level *)
Theorem C04_generated_url_sink_nested : forall (f lvl : nat) (elem : bytes) (l : list attr) (g : Gen.gst) (d : nat) (n : bytes) (e : expr),
  attr_at d (AExpr n e) l -> d < f -> url_sink elem n = true ->
  exists (ops pre post : list op) (v : nat),
    same (Gen.write_attrs f lvl elem l g) (replay ops g) /\
    Sunk (Some elem) (Gen.vid g) (Gen.vid (Gen.write_attrs f lvl elem l g)) ops /\
    ops = pre ++ ([OL ([x20] ++ Gen.hesc n ++ bs "="); OL (bs "\""")] ++
                  [OI (lvl + d) (bs "var " ++ vname v ++ bs " templ.SafeURL = "); OE e; OR Gen.nlb;
                   OI (lvl + d) (bs "_, templ_7745c5c3_Err = templ_7745c5c3_Buffer.WriteString(templ.EscapeString(string(" ++ vname v ++ bs ")))"); OR Gen.nlb] ++
                  eh (lvl + d) ++ [OL (bs "\""")]) ++ post.
Proof. exact url_sink_nested. Qed.
Print Assumptions C04_generated_url_sink_nested.

(* non-vacuity: an href in the else-branch of a conditional that is itself in an else-branch, behind a spread *)
Example C04_ex_nested_position :
  attr_at 2 (AExpr (bs "href") (ex_e (bs "u")))
    [AConst (bs "class") (bs "k"); ACond (ex_e (bs "c1")) [AExpr (bs "title") (ex_e (bs "s"))]
       [ASpread (ex_e (bs "sp")); ACond (ex_e (bs "c2")) [] [AExpr (bs "href") (ex_e (bs "u"))]]].
Proof. exact ex_nested_at. Qed.

Example C04_ex_kinds :
  attr_kind (bs "a") (bs "href") = KUrl /\ attr_kind (bs "A") (bs "HREF") = KUrl /\ attr_kind (bs "form") (bs "action") = KUrl /\
  attr_kind (bs "div") (bs "href") = KDefault /\ attr_kind (bs "button") (bs "onclick") = KOn /\ attr_kind (bs "p") (bs "style") = KStyle.
Proof. exact ex_kinds. Qed.

(* ---------- END TO END: what the browser's URL parser receives (sanitise -> attribute escaping -> tokenizer ->
   character-reference decoding of the attribute value -> WHATWG scheme) ---------- *)
From Coq Require Import NArith.
From V Require Import spec.HtmlTok spec.HtmlRefs spec.HtmlEntities spec.UrlSink spec.DocExpect model.Escape model.DocFrag
  proofs.UrlRenderProof.

(* The sanitiser looks for a literal ':' only; a value such as javascript&colon;alert(1) passes it unchanged.  That
   is sound only because the generated code writes the value through the escaper: for ANY named-reference table
   in which ; occurs only last in a name, lookups are functional and amp; lt; gt; are present, and any code-point
   encoder that is right on ASCII, decoding the attribute value the generated code wrote gives back exactly what the
   sanitiser returned - so the URL parser receives the failure URL, or the input itself and that input has no scheme
   or an allow-listed one.  "However it is disguised with character references" is this theorem. *)
Theorem C04_rendered_value_sound : forall (named : list (bytes * bytes)) (encode_cp : N -> bytes),
  table_ok named -> encoder_ok encode_cp ->
  forall s : bytes,
    let d := decode_refs named encode_cp true (escape (url s)) in
    d = url s /\ rendered_ok s d.
Proof. exact rendered_value_sound. Qed.
Print Assumptions C04_rendered_value_sound.

(* ... in particular for the 2231 named references of the HTML standard and UTF-8 (spec/UrlSink.v decode_attr, the
   decoder the harness runs on the implementation's rendered attribute) *)
Theorem C04_rendered_value_sound_html5 : forall s : bytes,
  decode_attr (escape (url s)) = url s /\ rendered_ok s (decode_attr (escape (url s))).
Proof. exact rendered_value_sound_html5. Qed.
Print Assumptions C04_rendered_value_sound_html5.

(* ... and the value the tokenizer reports for href / action IS that escaped string: for every input and all
   well-formed children the rendered <a href={ templ.URL(s) }> / <form action={ templ.URL(s) }> is read as one start
   tag with exactly that one attribute, whatever s holds (quotes, <, >, NUL, invalid UTF-8). *)
Theorem C04_rendered_link_tokens : forall (s : bytes) (ch : list tree), forallb wf ch = true ->
  tok (render (TElem (bs "a") [ADyn (bs "href") (url s)] ch)) =
    TStart (bs "a") [(bs "href", escape (url s))] false :: flat_map expected ch ++ [TEnd (bs "a")] /\
  tok (render (TElem (bs "form") [ADyn (bs "action") (url s)] ch)) =
    TStart (bs "form") [(bs "action", escape (url s))] false :: flat_map expected ch ++ [TEnd (bs "form")].
Proof. exact (fun s ch W => conj (link_tokens s ch W) (form_tokens s ch W)). Qed.
Print Assumptions C04_rendered_link_tokens.

(* non-vacuity: the decoder does turn the disguises into a javascript: URL, and a writer that did NOT escape (or kept
   references already present in the value) would break the property on an input the sanitiser passes unchanged *)
Example C04_ex_disguise_decodes :
  decode_attr (bs "&#106;ava&Tab;script&colon;alert(1)") = bs "java" ++ [x09] ++ bs "script:alert(1)" /\
  browser_scheme (decode_attr (bs "javascript&#x3A;alert(1)")) = Some (bs "javascript").
Proof. split; vm_compute; reflexivity. Qed.
Example C04_ex_unescaped_refuted : exists s : bytes,
  url s = s /\ rendered_okb s (decode_attr s) = false /\ rendered_okb s (decode_attr (escape (url s))) = true.
Proof. exists (bs "javascript&colon;alert(1)"). repeat split; vm_compute; reflexivity. Qed.
Example C04_ex_table : length html5_entities = 2231%nat /\ table_ok html5_entities.
Proof. exact (conj html5_entities_count html5_entities_ok). Qed.
