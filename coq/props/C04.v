(* C04 - URL sanitiser admits only relative references and allow-listed schemes.
   This file holds property statements only; each is closed by [exact]. *)
From Coq.Strings Require Import Byte String.
From Coq Require Import List.
Open Scope string_scope.
From V Require Import lib.Bytes model.Url spec.Whatwg proofs.UrlProof.

(* For every byte string: the sanitiser answers the fixed failure URL, or returns the input
   unchanged and a browser resolves that input as a relative reference (no scheme) or with
   one of http, https, mailto, tel, ftp, ftps. *)
Theorem C04_url_sound : forall s : bytes, url s = failed \/ (url s = s /\ safe s).
Proof. exact url_sound. Qed.
Print Assumptions C04_url_sound.

Theorem C04_url_idempotent : forall s : bytes, url (url s) = url s.
Proof. exact url_idempotent. Qed.
Print Assumptions C04_url_idempotent.

Theorem C04_url_input_or_failed : forall s : bytes, url s = s \/ url s = failed.
Proof. exact url_input_or_failed. Qed.
Print Assumptions C04_url_input_or_failed.

(* non-vacuity: both outcomes occur, and a disguised scheme is caught *)
Example C04_ex_pass : url (bs "hTtPs://a/b") = bs "hTtPs://a/b" /\ safe (bs "hTtPs://a/b").
Proof. split; vm_compute; auto 10. Qed.
Example C04_ex_fail : url (bs "javascript:alert(1)") = failed.
Proof. vm_compute. reflexivity. Qed.

(* Dynamic href on <a> and action on <form>, in every letter case an HTML parser folds to
   those names, are written through the safe-URL attribute writer. *)
Theorem C04_url_sink_dispatch : forall elem attr : bytes,
  (map lower elem = bs "a" /\ map lower attr = bs "href") \/
  (map lower elem = bs "form" /\ map lower attr = bs "action") ->
  url_sink elem attr = true.
Proof. exact url_sink_dispatch. Qed.
Print Assumptions C04_url_sink_dispatch.
