(* C11 - the buffered HTTP handler responds all-or-nothing.
   This file holds property statements only; each is closed by [exact]. *)
From Coq.Strings Require Import Byte String.
From Coq Require Import List NArith.
Import ListNotations.
From V Require Import lib.Bytes spec.HandlerSpec spec.CompSpec model.Handler model.CompModel proofs.HandlerProof proofs.CompProof.
Open Scope N_scope.

(* For every request (any method, protocol version, target, header fields, body; context live, with a
   deadline, already cancelled or expired), every handler configuration (status set or unset, any content
   type, no error handler or any error handler whatsoever - a function of the request) with streaming off,
   and every component (any function from the state of the context it is rendered with to chunks, then
   success or failure): the response the client receives is the complete document with the configured status
   (200 if unset) and content type when rendering succeeded, and otherwise the error response - status
   500 with the fixed message as un-sniffable plain text, or exactly the response the configured error
   handler produces on its own.  (The specification [all_or_nothing] is spec/HandlerSpec.v.) *)
Theorem C11_buffered_all_or_nothing : forall (q : request) (c : cfg) (k : component),
  c_stream c = false ->
  let o := k (q_ctx q) in
  all_or_nothing (c_status c) (c_ctype c) (eh_alone q c) (document o) (fails o) (observe (serve q c k)).
Proof. exact buffered_all_or_nothing. Qed.
Print Assumptions C11_buffered_all_or_nothing.

(* The same as the client that sent the request observes it: a HEAD is answered with the status line and
   the header section of the all-or-nothing response and no body, so HEAD and GET of the same resource
   agree on status and content type; every other method gets the all-or-nothing response itself. *)
Theorem C11_buffered_all_or_nothing_on_the_wire : forall (q : request) (c : cfg) (k : component),
  c_stream c = false ->
  let o := k (q_ctx q) in
  all_or_nothing_wire (is_head q) (c_status c) (c_ctype c) (option_map (client_view q) (eh_alone q c))
    (document o) (fails o) (client_view q (observe (serve q c k))).
Proof. exact buffered_all_or_nothing_wire. Qed.
Print Assumptions C11_buffered_all_or_nothing_on_the_wire.

(* The handler itself never looks at the request: requests whose contexts are in the same state, and which
   the configured error handler (if any) does not tell apart, get the same response whatever their method,
   protocol version, target, header fields and body - buffered or streamed. *)
Theorem C11_response_independent_of_request : forall (q1 q2 : request) (c : cfg) (k : component),
  q_ctx q1 = q_ctx q2 ->
  (forall h w, c_errh c = Some h -> h q1 w = h q2 w) ->
  serve q1 c k = serve q2 c k.
Proof. exact response_independent_of_request. Qed.
Print Assumptions C11_response_independent_of_request.

(* Never document bytes with an error status: once rendering fails, the whole writer state is the same
   whatever the component had written before failing. *)
Theorem C11_error_response_independent_of_document : forall (q : request) (c : cfg) (k1 k2 : component),
  c_stream c = false -> fails (k1 (q_ctx q)) = true -> fails (k2 (q_ctx q)) = true -> serve q c k1 = serve q c k2.
Proof. exact error_response_independent. Qed.
Print Assumptions C11_error_response_independent_of_document.

(* Never a success status produced by templ with a partial or error body: with no error handler a
   failed render gives 500 and exactly the message; a successful one the whole document and the
   configured status. *)
Theorem C11_buffered_never_mixed : forall (q : request) (c : cfg) (k : component),
  c_stream c = false -> c_errh c = None ->
  let o := k (q_ctx q) in
  let r := observe (serve q c k) in
  (fails o = true -> r_status r = 500 /\ r_body r = err_body) /\
  (fails o = false -> r_body r = document o /\ r_status r = (if c_status c =? 0 then 200 else c_status c)).
Proof. exact buffered_never_mixed. Qed.
Print Assumptions C11_buffered_never_mixed.

(* The same for every response in every history of buffered requests served against the shared buffer
   pool, whichever pooled buffer each request is handed: ReleaseBuffer's reset keeps earlier renders
   (including failed, partial ones) out of later responses. *)
Theorem C11_pooled_all_or_nothing : forall (reqs : list (nat * request * cfg * component)) (n pick : nat) (q : request) (c : cfg) (k : component) (w : rw),
  nth_error reqs n = Some (pick, q, c, k) ->
  nth_error (snd (serve_seq release_buffer [] reqs)) n = Some w ->
  let o := k (q_ctx q) in
  all_or_nothing (c_status c) (c_ctype c) (eh_alone q c) (document o) (fails o) (observe w).
Proof. exact pooled_all_or_nothing. Qed.
Print Assumptions C11_pooled_all_or_nothing.

(* Overlapping requests: in every interleaving of request starts (GetBuffer) and returns (ReleaseBuffer,
   once per request, as ServeHTTPBuffered's single deferred call does), whichever buffers the pool hands
   out, no buffer is held by two in-flight requests or held while it is in the pool - each render owns its
   buffer, so its response is the sequential one above.  (What overlapping renders do to a buffer they do
   share is the subject of C14.) *)
Theorem C11_pool_discipline : forall tr : list pev,
  forallb single_release tr = true -> NoDup (p_free (prun tr) ++ p_held (prun tr)).
Proof. exact pool_discipline. Qed.
Print Assumptions C11_pool_discipline.

(* The decidable predicate the harness evaluates on real responses is the specification. *)
Theorem C11_checker_is_specification : forall st ct eh doc failed r,
  all_or_nothing_b st ct eh doc failed r = true <-> all_or_nothing st ct eh doc failed r.
Proof. exact all_or_nothing_b_spec. Qed.
Print Assumptions C11_checker_is_specification.

Theorem C11_wire_checker_is_specification : forall head st ct eh doc failed r,
  all_or_nothing_wire_b head st ct eh doc failed r = true <-> all_or_nothing_wire head st ct eh doc failed r.
Proof. exact all_or_nothing_wire_b_spec. Qed.
Print Assumptions C11_wire_checker_is_specification.

(* The contrast (documented behaviour of WithStreaming): with no error handler, a component that wrote
   anything and then failed leaves its bytes in front of the error message, under the configured or
   implicit success status ... *)
Theorem C11_streamed_partial : forall (q : request) (c : cfg) (k : component),
  let o := k (q_ctx q) in
  c_stream c = true -> c_errh c = None -> fails o = true -> (c_status c <> 0 \/ chunks o <> []) ->
  let r := observe (serve q c k) in
  r_status r = (if c_status c =? 0 then 200 else c_status c) /\
  hget h_ctype (r_hdr r) = Some (c_ctype c) /\
  r_body r = document o ++ err_body.
Proof. exact streamed_partial. Qed.
Print Assumptions C11_streamed_partial.

(* ... so the streamed handler is not all-or-nothing, whatever the request. *)
Theorem C11_streamed_may_be_partial : forall q : request, exists (c : cfg) (o : outcome),
  c_stream c = true /\ fails o = true /\
  r_status (observe (serve q c (fun _ => o))) = 200 /\
  r_body (observe (serve q c (fun _ => o))) = bs "Hello" ++ err_body /\
  ~ all_or_nothing (c_status c) (c_ctype c) (eh_alone q c) (document o) (fails o) (observe (serve q c (fun _ => o))).
Proof. exact streamed_may_be_partial. Qed.
Print Assumptions C11_streamed_may_be_partial.

(* ---- the components served: compositions of templ's own combinators and generated templates ----
   The theorems above take a component as what the handler sees of it - chunks written, then an error or
   not - i.e. they assume Render's contract: an error is returned iff something failed, and a render that
   did not fail wrote the complete document.  For components built from ComponentFunc, templ.Raw, templ.Join,
   templ.Flush with children, OnceHandle.Once (with children or WithComponent), generated templates (nested,
   with children blocks, loops, failing expressions) and writers that fail after n bytes, the contract is
   spec/CompSpec.v ([ok]: renders completely to a document, [ko]: a failure point is reached - a failing
   component or expression at any position, the writer's limit, a context already done at a generated
   template), and the model of the combinators (model/CompModel.v, compared with the real ones on every run)
   meets it: *)
Theorem C11_render_contract : forall (c : comp) (d : bool) (st : octx),
  (forall x st', run d c st = (x, false, st') <-> ok d st c x st') /\
  (snd (fst (run d c st)) = true <-> ko d st c).
Proof. intros c d st. split; [intros x st'; apply run_ok_iff | apply run_ko_iff]. Qed.
Print Assumptions C11_render_contract.

(* every composition either renders to one document or fails, never both *)
Theorem C11_render_total_exclusive : forall (c : comp) (d : bool),
  ((exists doc, renders_to d c doc) \/ render_fails d c) /\
  (forall doc, renders_to d c doc -> ~ render_fails d c) /\
  (forall doc1 doc2, renders_to d c doc1 -> renders_to d c doc2 -> doc1 = doc2).
Proof.
  intros c d. split; [apply render_total|]. split.
  - intros doc H K. exact (render_exclusive c d doc H K).
  - intros doc1 doc2 [s1 H1] [s2 H2]. exact (proj1 (ok_det _ _ _ _ _ _ _ H1 H2)).
Qed.
Print Assumptions C11_render_total_exclusive.

(* so the buffered handler serving any such composition, to any request, under any configuration, answers
   with the complete document the composition renders to, or - wherever in it the failure lies - with the
   error response *)
Theorem C11_composed_all_or_nothing : forall (q : request) (c : cfg) (t : comp),
  c_stream c = false ->
  let r := observe (serve q c (comp_component t)) in
  (forall doc, renders_to (ctx_done (q_ctx q)) t doc ->
     all_or_nothing (c_status c) (c_ctype c) (eh_alone q c) doc false r) /\
  (render_fails (ctx_done (q_ctx q)) t ->
     forall doc, all_or_nothing (c_status c) (c_ctype c) (eh_alone q c) doc true r).
Proof. exact composed_all_or_nothing. Qed.
Print Assumptions C11_composed_all_or_nothing.

Theorem C11_composed_all_or_nothing_on_the_wire : forall (q : request) (c : cfg) (t : comp),
  c_stream c = false ->
  let r := client_view q (observe (serve q c (comp_component t))) in
  let eh := option_map (client_view q) (eh_alone q c) in
  (forall doc, renders_to (ctx_done (q_ctx q)) t doc ->
     all_or_nothing_wire (is_head q) (c_status c) (c_ctype c) eh doc false r) /\
  (render_fails (ctx_done (q_ctx q)) t ->
     forall doc, all_or_nothing_wire (is_head q) (c_status c) (c_ctype c) eh doc true r).
Proof. exact composed_all_or_nothing_wire. Qed.
Print Assumptions C11_composed_all_or_nothing_on_the_wire.

(* The contract is what this rests on: were FlushComponent.Render to keep its children's error to itself
   (the model variant [run_gen true]), a generated page whose flushed list fails half-way would be sent with
   the configured success status and a hole at the failure. *)
Theorem C11_swallowed_child_error_breaks_it :
  render_fails false holed_page /\
  let r := observe (serve plain_get cfg_202 (comp_component_sw holed_page)) in
  r_status r = 202 /\ r_body r = bs "<h1>r</h1><ul><li>row</li><footer>end</footer>" /\
  forall doc, ~ all_or_nothing 202 (bs "text/html; charset=utf-8") None doc true r.
Proof. exact swallowed_error_breaks_it. Qed.
Print Assumptions C11_swallowed_child_error_breaks_it.

(* ---- non-vacuity and witnesses ---- *)
Definition ex_req (m : string) (s : ctx_state) : request :=
  {| q_method := bs m; q_major := 1; q_minor := 1; q_target := bs "a=1"; q_hdr := [(bs "Accept", bs "*/*")]; q_body := []; q_ctx := s |}.
Definition get := ex_req "GET" CtxLive.
Definition always (o : outcome) : component := fun _ => o.
Definition ex_cfg (eh : option (request -> rw -> rw)) : cfg :=
  {| c_status := 404; c_ctype := bs "text/html; charset=utf-8"; c_errh := eh; c_stream := false |}.
Definition ex_eh : request -> rw -> rw := run_ops [OSet (bs "X-Err") (bs "1"); OWriteHeader 400; OWrite (bs "custom body")].

(* success: the whole document, status 404, the configured type *)
Example C11_ex_success :
  observe (serve get (ex_cfg None) (always {| chunks := [bs "<p>"; bs "Hello"; bs "</p>"]; fails := false |}))
  = {| r_status := 404; r_hdr := [(h_ctype, bs "text/html; charset=utf-8")]; r_body := bs "<p>Hello</p>" |}.
Proof. vm_compute. reflexivity. Qed.
(* failure after two chunks, default error handling *)
Example C11_ex_default_error :
  observe (serve get (ex_cfg None) (always {| chunks := [bs "<p>"; bs "Hello"]; fails := true |}))
  = {| r_status := 500; r_hdr := [(h_ctype, text_plain); (h_nosniff, nosniff)]; r_body := err_body |}.
Proof. vm_compute. reflexivity. Qed.
(* failure with an error handler that sets a header, a status and a body *)
Example C11_ex_custom_error :
  observe (serve get (ex_cfg (Some ex_eh)) (always {| chunks := [bs "<p>"; bs "Hello"]; fails := true |}))
  = {| r_status := 400; r_hdr := [(h_ctype, bs "text/html; charset=utf-8"); (bs "X-Err", bs "1")]; r_body := bs "custom body" |}.
Proof. vm_compute. reflexivity. Qed.
(* an error handler that writes nothing: the implicit empty 200 is "exactly what it wrote" *)
Example C11_ex_silent_error_handler :
  observe (serve get (ex_cfg (Some (run_ops []))) (always {| chunks := [bs "<p>"]; fails := true |}))
  = {| r_status := 200; r_hdr := [(h_ctype, bs "text/html; charset=utf-8")]; r_body := [] |}.
Proof. vm_compute. reflexivity. Qed.
(* a history satisfying the hypotheses of the pooled theorem *)
Example C11_ex_history :
  let hi := always {| chunks := [bs "Hi"]; fails := false |} in
  let reqs := [(0%nat, ex_req "HEAD" CtxLive, ex_cfg None, always {| chunks := [bs "SECRET"]; fails := true |});
               (0%nat, get, ex_cfg None, hi)] in
  nth_error reqs 1 = Some (0%nat, get, ex_cfg None, hi) /\
  option_map (fun w => r_body (observe w)) (nth_error (snd (serve_seq release_buffer [] reqs)) 1) = Some (bs "Hi").
Proof. vm_compute. split; reflexivity. Qed.
(* the reset in ReleaseBuffer is what the pooled theorem rests on: without it the partial output of a
   failed render is sent in front of the next document *)
Example C11_ex_reset_needed :
  let reqs := [(0%nat, get, ex_cfg None, always {| chunks := [bs "SECRET"]; fails := true |});
               (0%nat, get, ex_cfg None, always {| chunks := [bs "Hi"]; fails := false |})] in
  option_map (fun w => r_body (observe w)) (nth_error (snd (serve_seq release_buffer_noreset [] reqs)) 1) = Some (bs "SECRETHi").
Proof. vm_compute. reflexivity. Qed.
(* streamed with a configured status: a success status with an error body even when nothing was written *)
Example C11_ex_streamed_status :
  observe (serve get {| c_status := 201; c_ctype := bs "text/html"; c_errh := None; c_stream := true |} (always {| chunks := []; fails := true |}))
  = {| r_status := 201; r_hdr := [(h_ctype, bs "text/html")]; r_body := err_body |}.
Proof. vm_compute. reflexivity. Qed.
(* a HEAD for a failing component, as its client sees it: 500 and the headers of the error response, no body *)
Example C11_ex_head_default_error :
  client_view (ex_req "HEAD" CtxLive) (observe (serve (ex_req "HEAD" CtxLive) (ex_cfg None) (always {| chunks := [bs "<p>"]; fails := true |})))
  = {| r_status := 500; r_hdr := [(h_ctype, text_plain); (h_nosniff, nosniff)]; r_body := [] |}.
Proof. vm_compute. reflexivity. Qed.
(* the response a handler that served HEAD through the streaming path would give (200, text/html) is rejected by the specification *)
Example C11_ex_head_success_status_rejected :
  all_or_nothing_wire_b true 404 (bs "text/html; charset=utf-8") None (bs "<p>") true
    {| r_status := 404; r_hdr := [(h_ctype, bs "text/html; charset=utf-8")]; r_body := [] |} = false.
Proof. vm_compute. reflexivity. Qed.
(* an error handler that looks at the request, and a component that honours an already cancelled context:
   nothing is rendered, the error handler answers *)
Example C11_ex_request_aware :
  let q := ex_req "PURGE" CtxCanceled in
  observe (serve q (ex_cfg (Some (run_ops [OEcho (bs "X-Req"); OWriteHeader 499])))
                 (comp_of true {| chunks := [bs "<p>never</p>"]; fails := false |}))
  = {| r_status := 499; r_hdr := [(h_ctype, bs "text/html; charset=utf-8"); (bs "X-Req", bs "PURGE a=1 HTTP/1.1")]; r_body := [] |}.
Proof. vm_compute. reflexivity. Qed.
(* two requests in flight, then both return, then two more start: all single releases *)
Example C11_ex_overlap_trace :
  let tr := [EGet 0; EGet 0; ERel 1; ERel 0; EGet 0; EGet 0]%nat in
  forallb single_release tr = true /\ p_held (prun tr) = [0; 1]%nat.
Proof. vm_compute. split; reflexivity. Qed.
(* a request that releases its buffer twice puts it into the pool twice: the next two overlapping requests
   render into the same buffer *)
Example C11_ex_double_release :
  p_held (prun [EGet 0; ERelTwice 0; EGet 0; EGet 0]%nat) = [0; 0]%nat.
Proof. vm_compute. reflexivity. Qed.
(* a composition satisfying the hypotheses of the composed theorem: a once-handle used twice inside a generated
   template renders its children once; at the top level (a context without a templ value) every time *)
Example C11_ex_once_in_template :
  renders_to false (CTempl (CSeq (COnce 0 (CRaw (bs "<s>"))) (COnce 0 (CRaw (bs "<s>"))))) (bs "<s>") /\
  renders_to false (CSeq (COnce 0 (CRaw (bs "<s>"))) (COnce 0 (CRaw (bs "<s>")))) (bs "<s><s>").
Proof. split; eexists; apply run_ok_iff; vm_compute; reflexivity. Qed.
(* failure points: a context already done at a generated template; the writer's limit *)
Example C11_ex_failure_points :
  render_fails true (CSeq (CRaw (bs "a")) (CTempl CNop)) /\ ~ render_fails true (CSeq (CRaw (bs "a")) (CRaw (bs "b"))) /\
  render_fails false (CLimit 3 (CTempl (CRaw (bs "abcd")))) /\ renders_to false (CLimit 4 (CTempl (CRaw (bs "abcd")))) (bs "abcd").
Proof.
  split; [apply run_ko_iff; vm_compute; reflexivity|]. split.
  - intros H. apply run_ko_iff in H. vm_compute in H. discriminate.
  - split; [apply run_ko_iff; vm_compute; reflexivity|]. eexists; apply run_ok_iff; vm_compute; reflexivity.
Qed.
(* with flush.go as it is, the page of the refutation gets the error response *)
Example C11_ex_holed_page_error_response :
  observe (serve plain_get cfg_202 (comp_component holed_page))
  = {| r_status := 500; r_hdr := [(h_ctype, text_plain); (h_nosniff, nosniff)]; r_body := err_body |}.
Proof. exact holed_page_error_response. Qed.
