(* C11 - the buffered HTTP handler responds all-or-nothing.
   This file holds property statements only; each is closed by [exact]. *)
From Coq.Strings Require Import Byte String.
From Coq Require Import List NArith.
Import ListNotations.
From V Require Import lib.Bytes spec.HandlerSpec model.Handler proofs.HandlerProof.
Open Scope N_scope.

(* For every handler configuration (status set or unset, any content type, no error handler or any
   error handler whatsoever) with streaming off, and every component outcome (any chunks, then success
   or failure): the response the client receives is the complete document with the configured status
   (200 if unset) and content type when rendering succeeded, and otherwise the error response - status
   500 with the fixed message as un-sniffable plain text, or exactly the response the configured error
   handler produces on its own.  (The specification [all_or_nothing] is spec/HandlerSpec.v.) *)
Theorem C11_buffered_all_or_nothing : forall (c : cfg) (o : outcome),
  c_stream c = false ->
  all_or_nothing (c_status c) (c_ctype c) (eh_alone c) (document o) (fails o) (observe (serve c o)).
Proof. exact buffered_all_or_nothing. Qed.
Print Assumptions C11_buffered_all_or_nothing.

(* Never document bytes with an error status: once rendering fails, the whole writer state is the same
   whatever the component had written before failing. *)
Theorem C11_error_response_independent_of_document : forall (c : cfg) (o1 o2 : outcome),
  c_stream c = false -> fails o1 = true -> fails o2 = true -> serve c o1 = serve c o2.
Proof. exact error_response_independent. Qed.
Print Assumptions C11_error_response_independent_of_document.

(* Never a success status produced by templ with a partial or error body: with no error handler a
   failed render gives 500 and exactly the message; a successful one the whole document and the
   configured status. *)
Theorem C11_buffered_never_mixed : forall (c : cfg) (o : outcome),
  c_stream c = false -> c_errh c = None ->
  let r := observe (serve c o) in
  (fails o = true -> r_status r = 500 /\ r_body r = err_body) /\
  (fails o = false -> r_body r = document o /\ r_status r = (if c_status c =? 0 then 200 else c_status c)).
Proof. exact buffered_never_mixed. Qed.
Print Assumptions C11_buffered_never_mixed.

(* The same for every response in every history of buffered requests served against the shared buffer
   pool, whichever pooled buffer each request is handed: ReleaseBuffer's reset keeps earlier renders
   (including failed, partial ones) out of later responses. *)
Theorem C11_pooled_all_or_nothing : forall (reqs : list (nat * cfg * outcome)) (n pick : nat) (c : cfg) (o : outcome) (w : rw),
  nth_error reqs n = Some (pick, c, o) ->
  nth_error (snd (serve_seq release_buffer [] reqs)) n = Some w ->
  all_or_nothing (c_status c) (c_ctype c) (eh_alone c) (document o) (fails o) (observe w).
Proof. exact pooled_all_or_nothing. Qed.
Print Assumptions C11_pooled_all_or_nothing.

(* Overlapping requests: in every interleaving of request starts (GetBuffer) and returns (ReleaseBuffer,
   once per request, as ServeHTTPBuffered's single deferred call does), whichever buffers the pool hands
   out, no buffer is held by two in-flight requests or held while it is in the pool - each render owns its
   buffer, so its response is the sequential one above.  (What overlapping renders do to a buffer they do
   share is the subject of C14.) *)
Theorem C11_pool_discipline : forall tr : list pev,
  forallb single_release tr = true -> NoDup (p_free (prun tr) ++ p_held (prun tr)).
Proof. exact pool_discipline. Qed.
Print Assumptions C11_pool_discipline.

(* The decidable predicate the harness evaluates on real responses is the specification. *)
Theorem C11_checker_is_specification : forall st ct eh doc failed r,
  all_or_nothing_b st ct eh doc failed r = true <-> all_or_nothing st ct eh doc failed r.
Proof. exact all_or_nothing_b_spec. Qed.
Print Assumptions C11_checker_is_specification.

(* The contrast (documented behaviour of WithStreaming): with no error handler, a component that wrote
   anything and then failed leaves its bytes in front of the error message, under the configured or
   implicit success status ... *)
Theorem C11_streamed_partial : forall (c : cfg) (o : outcome),
  c_stream c = true -> c_errh c = None -> fails o = true -> (c_status c <> 0 \/ chunks o <> []) ->
  let r := observe (serve c o) in
  r_status r = (if c_status c =? 0 then 200 else c_status c) /\
  hget h_ctype (r_hdr r) = Some (c_ctype c) /\
  r_body r = document o ++ err_body.
Proof. exact streamed_partial. Qed.
Print Assumptions C11_streamed_partial.

(* ... so the streamed handler is not all-or-nothing. *)
Theorem C11_streamed_may_be_partial : exists (c : cfg) (o : outcome),
  c_stream c = true /\ fails o = true /\
  r_status (observe (serve c o)) = 200 /\
  r_body (observe (serve c o)) = bs "Hello" ++ err_body /\
  ~ all_or_nothing (c_status c) (c_ctype c) (eh_alone c) (document o) (fails o) (observe (serve c o)).
Proof. exact streamed_may_be_partial. Qed.
Print Assumptions C11_streamed_may_be_partial.

(* ---- non-vacuity and witnesses ---- *)
Definition ex_cfg (eh : option (rw -> rw)) : cfg :=
  {| c_status := 404; c_ctype := bs "text/html; charset=utf-8"; c_errh := eh; c_stream := false |}.
Definition ex_eh : rw -> rw := run_ops [OSet (bs "X-Err") (bs "1"); OWriteHeader 400; OWrite (bs "custom body")].

(* success: the whole document, status 404, the configured type *)
Example C11_ex_success :
  observe (serve (ex_cfg None) {| chunks := [bs "<p>"; bs "Hello"; bs "</p>"]; fails := false |})
  = {| r_status := 404; r_hdr := [(h_ctype, bs "text/html; charset=utf-8")]; r_body := bs "<p>Hello</p>" |}.
Proof. vm_compute. reflexivity. Qed.
(* failure after two chunks, default error handling *)
Example C11_ex_default_error :
  observe (serve (ex_cfg None) {| chunks := [bs "<p>"; bs "Hello"]; fails := true |})
  = {| r_status := 500; r_hdr := [(h_ctype, text_plain); (h_nosniff, nosniff)]; r_body := err_body |}.
Proof. vm_compute. reflexivity. Qed.
(* failure with an error handler that sets a header, a status and a body *)
Example C11_ex_custom_error :
  observe (serve (ex_cfg (Some ex_eh)) {| chunks := [bs "<p>"; bs "Hello"]; fails := true |})
  = {| r_status := 400; r_hdr := [(h_ctype, bs "text/html; charset=utf-8"); (bs "X-Err", bs "1")]; r_body := bs "custom body" |}.
Proof. vm_compute. reflexivity. Qed.
(* an error handler that writes nothing: the implicit empty 200 is "exactly what it wrote" *)
Example C11_ex_silent_error_handler :
  observe (serve (ex_cfg (Some (run_ops []))) {| chunks := [bs "<p>"]; fails := true |})
  = {| r_status := 200; r_hdr := [(h_ctype, bs "text/html; charset=utf-8")]; r_body := [] |}.
Proof. vm_compute. reflexivity. Qed.
(* a history satisfying the hypotheses of the pooled theorem *)
Example C11_ex_history :
  let reqs := [(0%nat, ex_cfg None, {| chunks := [bs "SECRET"]; fails := true |});
               (0%nat, ex_cfg None, {| chunks := [bs "Hi"]; fails := false |})] in
  nth_error reqs 1 = Some (0%nat, ex_cfg None, {| chunks := [bs "Hi"]; fails := false |}) /\
  option_map (fun w => r_body (observe w)) (nth_error (snd (serve_seq release_buffer [] reqs)) 1) = Some (bs "Hi").
Proof. vm_compute. split; reflexivity. Qed.
(* the reset in ReleaseBuffer is what the pooled theorem rests on: without it the partial output of a
   failed render is sent in front of the next document *)
Example C11_ex_reset_needed :
  let reqs := [(0%nat, ex_cfg None, {| chunks := [bs "SECRET"]; fails := true |});
               (0%nat, ex_cfg None, {| chunks := [bs "Hi"]; fails := false |})] in
  option_map (fun w => r_body (observe w)) (nth_error (snd (serve_seq release_buffer_noreset [] reqs)) 1) = Some (bs "SECRETHi").
Proof. vm_compute. reflexivity. Qed.
(* streamed with a configured status: a success status with an error body even when nothing was written *)
Example C11_ex_streamed_status :
  observe (serve {| c_status := 201; c_ctype := bs "text/html"; c_errh := None; c_stream := true |} {| chunks := []; fails := true |})
  = {| r_status := 201; r_hdr := [(h_ctype, bs "text/html")]; r_body := err_body |}.
Proof. vm_compute. reflexivity. Qed.
(* two requests in flight, then both return, then two more start: all single releases *)
Example C11_ex_overlap_trace :
  let tr := [EGet 0; EGet 0; ERel 1; ERel 0; EGet 0; EGet 0]%nat in
  forallb single_release tr = true /\ p_held (prun tr) = [0; 1]%nat.
Proof. vm_compute. split; reflexivity. Qed.
(* a request that releases its buffer twice puts it into the pool twice: the next two overlapping requests
   render into the same buffer *)
Example C11_ex_double_release :
  p_held (prun [EGet 0; ERelTwice 0; EGet 0; EGet 0]%nat) = [0; 0]%nat.
Proof. vm_compute. reflexivity. Qed.
