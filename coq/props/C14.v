(* C14 - concurrent renders are isolated and race-free (partial, DESIGN 10: the theorems are over ALL interleavings
   of the modelled atomic actions; that those actions are atomic in the binary - no data race - is what the
   -race stress runs of the harness validate).
   This file holds property statements only; each is closed by [exact]. *)
From Coq.Strings Require Import Byte String.
From Coq Require Import List Arith NArith Bool.
Import ListNotations.
From V Require Import lib.Bytes spec.Isolated model.Pool proofs.PoolProof.
Local Open Scope nat_scope.

(* In every state reachable under any schedule, from any heap of old Buffers with any of them pooled:
   the pool holds no Buffer twice; a Buffer a goroutine holds is not in the pool; no two goroutines hold the same
   Buffer; and a step of goroutine t changes no existing Buffer other than the one t holds - so nothing is touched
   after its Put, and nothing that another goroutine holds. *)
Theorem C14_ownership_inv : forall fs hp pa pb ca cn ms progs sch w',
  start_ok fs hp pa pb ca -> exec real fs (start hp pa pb ca cn ms progs) sch = Some w' ->
  ownership w' /\
  forall t pick now w'', step real fs w' (t, pick, now) = Some w'' ->
    forall j, j < length (heap w') -> nth_error (heap w'') j <> nth_error (heap w') j -> owns w' t j.
Proof. exact ownership_inv. Qed.
Print Assumptions C14_ownership_inv.

(* For every schedule (which goroutine moves, which pooled object a pool Get returns, what the clock says at a cache
   lookup) and every goroutine t: what t can observe of the world - its writer's bytes, the bytes its own bufio.Writer
   holds, its buffer, its context value (once handles rendered, classes and scripts emitted or registered by the CSS
   middleware), its remaining program - is exactly the state of t's program run ALONE (spec/Isolated.v: private fresh
   buffer, private context value, direct file reads, no pools, no cache, no other goroutine) for as many steps as t has
   taken. *)
Theorem C14_isolation : forall fs hp pa pb ca cn ms progs sch w',
  start_ok fs hp pa pb ca -> exec real fs (start hp pa pb ca cn ms progs) sch = Some w' ->
  forall t p cap, nth_error progs t = Some (p, cap) ->
  exists v', view w' t = Some v' /\ lrun fs (steps_of t sch) (linit cap p) = Some v'.
Proof. exact isolation. Qed.
Print Assumptions C14_isolation.

(* A goroutine that has finished all its renders has written byte for byte what its renders write alone. *)
Theorem C14_finished_outputs : forall fs hp pa pb ca cn ms progs sch w',
  start_ok fs hp pa pb ca -> exec real fs (start hp pa pb ca cn ms progs) sch = Some w' ->
  forall t p cap th s, nth_error progs t = Some (p, cap) ->
  nth_error (threads w') t = Some th -> nth_error (sinks w') t = Some s ->
  prog th = [] -> own th = None -> bown th = None ->
  forall fuel, steps_of t sch <= fuel -> sout s = l_out (lfinal fs fuel (linit cap p)).
Proof. exact finished_outputs. Qed.
Print Assumptions C14_finished_outputs.

(* In every reachable state, a step of goroutine t leaves every other goroutine's private state (its context value with
   the once handles rendered and the classes and scripts emitted, its handle ids, its program) and every other
   goroutine's writer (bytes received, bytes held by its own bufio.Writer, the bytes.Buffer it holds) as they were:
   nothing one goroutine does reaches another's document or another's request context. *)
Theorem C14_others_untouched : forall fs hp pa pb ca cn ms progs sch w',
  start_ok fs hp pa pb ca -> exec real fs (start hp pa pb ca cn ms progs) sch = Some w' ->
  forall t pick now w'', step real fs w' (t, pick, now) = Some w'' ->
  forall u, u <> t -> nth_error (threads w'') u = nth_error (threads w') u /\ nth_error (sinks w'') u = nth_error (sinks w') u.
Proof. exact others_untouched. Qed.
Print Assumptions C14_others_untouched.

(* In every reachable state, a development-mode lookup by any goroutine at any clock value returns what one
   sequential lookup with an empty cache returns for the same files. *)
Theorem C14_cache_linear : forall fs hp pa pb ca cn ms progs sch w',
  start_ok fs hp pa pb ca -> exec real fs (start hp pa pb ca cn ms progs) sch = Some w' ->
  forall now f, fst (cache_lookup fs now (cache w') f) = fst (cache_lookup fs 0%N [] f).
Proof. exact cache_linear. Qed.
Print Assumptions C14_cache_linear.

(* After the text file is rewritten with a later modification time, a lookup made at least 100 ms after the cached
   modification time returns the new lines, whatever the cache holds. *)
Theorem C14_cache_refresh : forall fs now ca f e fi,
  assoc f ca = Some e -> assoc f fs = Some fi -> (cmt e < mtime fi)%N -> (cmt e + 100 <= now)%N ->
  fst (cache_lookup fs now ca f) = Some (flines fi).
Proof. exact cache_refresh. Qed.
Print Assumptions C14_cache_refresh.

(* Once-handle ids (atomic.AddInt64 on the shared counter: one atomic action) are pairwise distinct across all
   goroutines under every interleaving. *)
Theorem C14_once_handles_distinct : forall fs hp pa pb ca cn ms progs sch w',
  start_ok fs hp pa pb ca -> exec real fs (start hp pa pb ca cn ms progs) sch = Some w' ->
  forall t1 t2 th1 th2 i j x, nth_error (threads w') t1 = Some th1 -> nth_error (threads w') t2 = Some th2 ->
  nth_error (ids th1) i = Some x -> nth_error (ids th2) j = Some x -> t1 = t2 /\ i = j.
Proof. exact once_handles_distinct. Qed.
Print Assumptions C14_once_handles_distinct.

(* ---- non-vacuity: a start state with a stale pooled Buffer (unflushed bytes, sticky error, somebody else's
   writer) satisfies the hypotheses, and three goroutines (once handles, development-mode lookups, a handler with
   the bytes.Buffer pool, a failing writer) interleaved round-robin finish with their stand-alone outputs ---- *)
Example C14_ex_start_ok : start_ok demo_fs stale_heap [0] [[]] [].
Proof. exact demo_start_ok. Qed.
Example C14_ex_run : exists sch w',
  exec real demo_fs (start stale_heap [0] [[]] [] 41 [] demo_progs) sch = Some w' /\
  souts w' = [ [x3c; x70; x3e; x61; x3c; x2f; x70; x3e]; [x62; x3c; x70; x3e]; [x63; x63] ] /\
  map ids (threads w') = [[43%N]; [42%N]; []] /\
  map (fun pc => alone_out demo_fs (snd pc) (fst pc)) demo_progs = souts w'.
Proof. exact demo_run. Qed.

(* requests behind the CSS middleware (class 1 registered) whose pages emit an unregistered class, and a goroutine that
   renders into its own bufio.Writer between a header and a trailer it writes itself, interleaved step by step *)
Example C14_ex_run2 : exists sch w',
  exec real [] (start stale_heap [0] [[]] [] 0 [] demo_progs2) sch = Some w' /\ all_done w' = true /\
  souts w' = [ [x68; x73; x74]; [x73]; [x73] ] /\
  map (fun pc => alone_out [] (snd pc) (fst pc)) demo_progs2 = souts w'.
Proof. exact demo_run2. Qed.

(* ---- the leaks when the resets are removed or the release is reordered ---- *)
(* no Buffer.Reset(w) after bufferPool.Get(): goroutine 0's bytes land in goroutine 1's response *)
Lemma C14_isolation_needs_reset_on_get : exists sch w',
  exec no_reset_on_get [] (start [] [] [] [] 0 [] two_renders) sch = Some w' /\ all_done w' = true /\
  souts w' = [[]; [x62; x61]] /\ alone_out [] 100 (render [Write [x61]]) = [x61].
Proof. exact isolation_needs_reset_on_get. Qed.
(* no Reset before Put of the bytes.Buffer: the next handler's response starts with the previous one *)
Lemma C14_isolation_needs_reset_on_put : exists sch w',
  exec no_reset_on_put [] (start [] [] [] [] 0 [] two_handlers) sch = Some w' /\ all_done w' = true /\
  souts w' = [[x62; x61]; [x62]] /\ alone_out [] 100 (handler_render [Write [x61]]) = [x61].
Proof. exact isolation_needs_reset_on_put. Qed.
(* Put before Flush: two goroutines hold the same Buffer, and goroutine 0's bytes are lost *)
Lemma C14_ownership_needs_flush_before_put : exists sch1 sch2 w1 w2,
  exec put_then_flush [] (start [] [] [] [] 0 [] two_renders) sch1 = Some w1 /\ owns w1 0 0 /\ owns w1 1 0 /\
  exec put_then_flush [] w1 sch2 = Some w2 /\ all_done w2 = true /\ souts w2 = [[]; [x62]].
Proof. exact ownership_needs_flush_before_put. Qed.
(* the middleware hands every request ONE map of its registered classes instead of adding them to the request's own
   context value: with two requests past the middleware, the class request 0 emits is missing from request 1's document *)
Lemma C14_isolation_needs_fresh_registry : exists sch w',
  exec shared_registry [] (start [] [] [] [] 0 [1%N] two_mw_requests) sch = Some w' /\ all_done w' = true /\
  souts w' = [[x73]; []] /\ alone_out [] 100 (mw_render [1%N] [EmitOnce 2 [x73]]) = [x73].
Proof. exact isolation_needs_fresh_registry. Qed.
