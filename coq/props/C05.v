(* C05 - dynamic CSS values cannot escape their declaration.
   This file holds property statements only; each is closed by [exact].
   [parse] stands for net/url's url.Parse (None = error, Some sc = URL.Scheme); [parse_contract] is the only
   thing assumed of it and is checked against the real library by the harness. *)
From Coq.Strings Require Import Byte String.
From Coq Require Import List.
Import ListNotations.
From V Require Import lib.Bytes spec.Whatwg spec.CssScan gen.Tables05 model.Css proofs.CssProof.

(* safehtml.SanitizeCSS, for every property name and every value, on every sanitiser path (regular, enum,
   font-family, background-image, unlisted and invalid names): the returned name is a non-empty run of ASCII
   letters and '-'; the returned value, scanned per CSS Syntax 3 from just after "name:", stays inside its
   declaration (no top-level ';', no '{' '}', no comment opener, no unterminated or bad string, no dangling
   escape, no function other than url(, every block closed, no '<'); and every url(...) it references is
   written without escapes and has no scheme or one of http, https, mailto for a WHATWG URL parser. *)
Theorem C05_css_confined : forall parse, parse_contract parse -> forall p v : bytes,
  let (p', v') := sanitize_css parse p v in
  name_ok p' = true /\ confined v' = true /\ urls_ok v' = true.
Proof. exact css_confined. Qed.
Print Assumptions C05_css_confined.

(* ... and what is not returned as it was given is replaced by the fixed innocuous name or value. *)
Theorem C05_css_input_or_innocuous : forall parse (p v : bytes),
  let (p', v') := sanitize_css parse p v in
  (p' = map lower p \/ p' = css_innocuous_name) /\ (v' = v \/ v' = css_innocuous_value).
Proof. exact css_input_or_innocuous. Qed.
Print Assumptions C05_css_input_or_innocuous.

(* templ.SanitizeCSS[string] (css component expressions): the text "name:value;" it writes reads back, with the
   specification's scanner, as exactly one declaration - the sanitiser's name and value. *)
Theorem C05_templ_css_one_declaration : forall parse, parse_contract parse -> forall p v : bytes,
  let (p', v') := sanitize_css parse p v in
  templ_sanitize_css parse false p v = p' ++ [x3a] ++ v' ++ [x3b] /\
  decl_list (templ_sanitize_css parse false p v) = Some [(p', v')].
Proof. exact templ_css_reads_back. Qed.
Print Assumptions C05_templ_css_one_declaration.

(* any list of declarations with such names and confined values, written "n1:v1;n2:v2;...", reads back as
   exactly that list: the ';' the emitter writes after a confined value is the one that ends its declaration *)
Theorem C05_decl_list_roundtrip : forall ds : list (bytes * bytes),
  Forall (fun d => name_ok (fst d) = true /\ confined (snd d) = true) ds ->
  decl_list (render_decls ds) = Some ds.
Proof. exact decl_list_roundtrip. Qed.
Print Assumptions C05_decl_list_roundtrip.

(* runtime.SanitizeStyleAttributeValues, every value form (maps, key/value pairs, SafeCSSProperty maps, funcs,
   slices, nested arbitrarily): each declaration emitted for a map[string]string entry or a KeyValue[string,string]
   satisfies the three predicates; for a map[string]SafeCSSProperty entry the name does (its value is trusted
   by type). *)
Theorem C05_style_attr_confined : forall parse, parse_contract parse ->
  forall (vals : list sval) (ps : list piece), sa_values parse vals = Some ps -> Forall piece_ok ps.
Proof. exact style_attr_confined. Qed.
Print Assumptions C05_style_attr_confined.

(* ... and the attribute value it returns contains no quote, apostrophe, '<' or '>' byte on any path, so it
   cannot end the style attribute it is written into. *)
Theorem C05_style_attr_closed : forall parse (vals : list sval) (out : bytes),
  style_attr parse vals = Some out -> forallb attr_safe out = true.
Proof. exact style_attr_closed. Qed.
Print Assumptions C05_style_attr_closed.

(* ---- non-vacuity and witnesses ---- *)
(* the contract on url.Parse is satisfiable *)
Example C05_ex_contract : parse_contract parse_example.
Proof. exact parse_example_contract. Qed.
(* values are accepted on every path ... *)
Example C05_ex_accept_bg :
  sanitize_css parse_example (bs "Background-Image") (bs "url(""/a.png""), url(https://h/p) ,url('x')")
  = (bs "background-image", bs "url(""/a.png""), url(https://h/p) ,url('x')").
Proof. vm_compute. reflexivity. Qed.
Example C05_ex_accept_font :
  sanitize_css parse_example (bs "font-family") (bs """a;b{c}"", Times New Roman") = (bs "font-family", bs """a;b{c}"", Times New Roman").
Proof. vm_compute. reflexivity. Qed.
Example C05_ex_accept_regular : sanitize_css parse_example (bs "margin") (bs "1px 2% !important") = (bs "margin", bs "1px 2% !important").
Proof. vm_compute. reflexivity. Qed.
(* ... and the two break-outs that the code before commit b30a3a2 let through are now replaced *)
Example C05_ex_reject_font :
  sanitize_css parse_example (bs "font-family") (bs """</style><script>alert(1)</script>""") = (bs "font-family", css_innocuous_value).
Proof. vm_compute. reflexivity. Qed.
Example C05_ex_reject_bg :
  sanitize_css parse_example (bs "background-image") (bs "url(""/x"");}*{color:red;y:url(""z"")") = (bs "background-image", css_innocuous_value).
Proof. vm_compute. reflexivity. Qed.
Example C05_ex_reject_scheme :
  sanitize_css parse_example (bs "background-image") (bs "url(JavaScript:alert)") = (bs "background-image", css_innocuous_value).
Proof. vm_compute. reflexivity. Qed.
(* the specification does reject those texts (it is not trivially true) *)
Example C05_ex_spec_rejects :
  confined (bs """</style><script>alert(1)</script>""") = false /\
  confined (bs "url(""/x"");}*{color:red;y:url(""z"")") = false /\
  confined (bs "red;color:blue") = false /\ confined (bs "a/*") = false /\ confined (bs "expression(1)") = false /\
  confined (bs "a\") = false /\ confined (bs """a") = false /\ confined (bs "url(a") = false /\
  urls_ok (bs "url(javascript:x)") = false /\ urls_ok (bs "url("" data:x"")") = false.
Proof. vm_compute. repeat split; reflexivity. Qed.
