(* C05 - dynamic CSS values cannot escape their declaration.
   This file holds property statements only; each is closed by [exact].
   [parse] stands for net/url's url.Parse (None = error, Some sc = URL.Scheme); [parse_contract] is the only
   thing assumed of it and is checked against the real library by the harness. *)
From Coq.Strings Require Import Byte String.
From Coq Require Import List.
Import ListNotations.
From V Require Import lib.Bytes spec.Whatwg spec.CssScan gen.Tables05 model.Css proofs.CssProof.
From V Require Import spec.HtmlTok spec.CssSink spec.DocExpect model.DocFrag model.CssRender proofs.CssRenderProof proofs.CssDocProof.

(* safehtml.SanitizeCSS, for every property name and every value, on every sanitiser path (regular, enum,
   font-family, background-image, unlisted and invalid names): the returned name is a non-empty run of ASCII
   letters and '-'; the returned value, scanned per CSS Syntax 3 from just after "name:", stays inside its
   declaration (no top-level ';', no '{' '}', no comment opener, no unterminated or bad string, no dangling
   escape, no function other than url(, every block closed, no '<'); and every url(...) it references is
   written without escapes and has no scheme or one of http, https, mailto for a WHATWG URL parser. *)
Theorem C05_css_confined : forall parse, parse_contract parse -> forall p v : bytes,
  let (p', v') := sanitize_css parse p v in
  name_ok p' = true /\ confined v' = true /\ urls_ok v' = true.
Proof. exact css_confined. Qed.
Print Assumptions C05_css_confined.

(* ... and what is not returned as it was given is replaced by the fixed innocuous name or value. *)
Theorem C05_css_input_or_innocuous : forall parse (p v : bytes),
  let (p', v') := sanitize_css parse p v in
  (p' = map lower p \/ p' = css_innocuous_name) /\ (v' = v \/ v' = css_innocuous_value).
Proof. exact css_input_or_innocuous. Qed.
Print Assumptions C05_css_input_or_innocuous.

(* templ.SanitizeCSS[string] (css component expressions): the text "name:value;" it writes reads back, with the
   specification's scanner, as exactly one declaration - the sanitiser's name and value. *)
Theorem C05_templ_css_one_declaration : forall parse, parse_contract parse -> forall p v : bytes,
  let (p', v') := sanitize_css parse p v in
  templ_sanitize_css parse false p v = p' ++ [x3a] ++ v' ++ [x3b] /\
  decl_list (templ_sanitize_css parse false p v) = Some [(p', v')].
Proof. exact templ_css_reads_back. Qed.
Print Assumptions C05_templ_css_one_declaration.

(* any list of declarations with such names and confined values, written "n1:v1;n2:v2;...", reads back as
   exactly that list: the ';' the emitter writes after a confined value is the one that ends its declaration *)
Theorem C05_decl_list_roundtrip : forall ds : list (bytes * bytes),
  Forall (fun d => name_ok (fst d) = true /\ confined (snd d) = true) ds ->
  decl_list (render_decls ds) = Some ds.
Proof. exact decl_list_roundtrip. Qed.
Print Assumptions C05_decl_list_roundtrip.

(* runtime.SanitizeStyleAttributeValues, every value form (maps, key/value pairs, SafeCSSProperty maps, funcs,
   slices, nested arbitrarily): each declaration emitted for a map[string]string entry or a KeyValue[string,string]
   satisfies the three predicates; for a map[string]SafeCSSProperty entry the name does (its value is trusted
   by type). *)
Theorem C05_style_attr_confined : forall parse, parse_contract parse ->
  forall (vals : list sval) (ps : list piece), sa_values parse vals = Some ps -> Forall piece_ok ps.
Proof. exact style_attr_confined. Qed.
Print Assumptions C05_style_attr_confined.

(* ... and the attribute value it returns contains no quote, apostrophe, '<' or '>' byte on any path, so it
   cannot end the style attribute it is written into. *)
Theorem C05_style_attr_closed : forall parse (vals : list sval) (out : bytes),
  style_attr parse vals = Some out -> forallb attr_safe out = true.
Proof. exact style_attr_closed. Qed.
Print Assumptions C05_style_attr_closed.

(* ---- END TO END: the CSS a browser reads out of the rendered document (spec/CssSink.v) ---- *)

(* a value that stays inside its declaration holds no '<' at all: it cannot spell "</style" *)
Theorem C05_confined_no_lt : forall v : bytes, confined v = true -> nolt v = true.
Proof. exact confined_nolt. Qed.
Print Assumptions C05_confined_no_lt.

(* sanitise -> html.EscapeString -> ATTRIBUTE DECODING (character references, the standard's 2231 names, attribute
   mode) -> CSS scanner.  The string SanitizeStyleAttributeValues returns is the escaped form of the declaration
   text; decoded as a browser decodes an attribute value it is that text again, and it reads back as exactly the
   declarations the pieces stand for (values trusted by type are asked to be confined, as the developer's). *)
Theorem C05_style_attr_end_to_end : forall parse, parse_contract parse ->
  forall (vals : list sval) (ps : list piece) (out : bytes) (ds : list (bytes * bytes)),
  sa_values parse vals = Some ps -> style_attr parse vals = Some out ->
  pieces_decls ps = Some ds -> safe_values_confined ps ->
  css_decode_attr out = render_decls ds /\ decl_list (css_decode_attr out) = Some ds /\ Forall piece_ok ps.
Proof. exact style_attr_end_to_end. Qed.
Print Assumptions C05_style_attr_end_to_end.

(* ... in the document: generated code writes  <elem style="out">children</elem>  (out unescaped between the
   quotes).  The tokenizer reports exactly one style attribute whose raw value is out - the value cannot end the
   attribute or the tag - the CSS parser receives the declaration text, and when every piece is a sanitised
   declaration (string maps and key/value pairs, nested in funcs and slices) the END-TO-END predicate holds: exactly
   as many declarations as pairs written, each with a letters-and-hyphen name, a confined value and allow-listed URLs. *)
Theorem C05_style_attr_document : forall parse, parse_contract parse ->
  forall (elem : bytes) (vals : list sval) (ps : list piece) (out : bytes) (ch : list tree),
  elem_name elem = true -> text_kind (map lower elem) = XData -> forallb wf ch = true ->
  sa_values parse vals = Some ps -> style_attr parse vals = Some out -> all_sanitised ps = true ->
  let doc := style_attr_elem elem out (flat_map render ch) in
  tok doc = TStart (map lower elem) [(bs "style", out)] false :: flat_map expected ch ++ [TEnd (map lower elem)] /\
  style_attr_css doc (map lower elem) = Some (raw_text ps) /\
  style_attr_okb doc (map lower elem) (length ps) = true.
Proof. exact style_attr_document. Qed.
Print Assumptions C05_style_attr_document.

(* css components as generated code writes them: a constant property is the author's text; an EXPRESSION property
   is templ.SanitizeCSS(name, value of the expression) whatever the Go expression looks like.  The text of the
   classes reads back, with the style-sheet scanner, as exactly one rule per class, selector ".id", holding exactly
   the component's declarations - an expression property as the sanitiser's (name, value) - each acceptable. *)
Theorem C05_style_sheet_reads_back : forall parse, parse_contract parse ->
  forall cs : list (bytes * list cprop), classes_ok cs ->
  rule_list (style_text parse cs) = Some (map (class_rule parse) cs) /\
  rules_match (map (class_rule parse) cs) (map (fun c => length (snd c)) cs) = true.
Proof. exact style_sheet_reads_back. Qed.
Print Assumptions C05_style_sheet_reads_back.

(* ... in the document: templ.RenderCSSItems writes  <style type="text/css">classes</style>  before the element
   that uses the classes.  The tokenizer (RAWTEXT inside <style>: nothing is decoded, the element ends at the first
   "</style") reports the start tag, the classes' text as character data, the end tag, and then the rest of the
   document as written: no dynamic value ends the style element.  The element's text satisfies the END-TO-END
   predicate. *)
Theorem C05_style_element_document : forall parse, parse_contract parse ->
  forall (cs : list (bytes * list cprop)) (rest : list tree), cs <> [] -> classes_ok cs -> forallb wf rest = true ->
  let doc := style_element parse cs ++ flat_map render rest in
  tok doc = TStart (bs "style") [(bs "type", bs "text/css")] false :: chars (style_text parse cs) ++ TEnd (bs "style") :: flat_map expected rest /\
  style_scan (tok doc) None [] = style_scan (flat_map expected rest) None [style_text parse cs] /\
  style_elem_okb (style_text parse cs) (map (fun c => length (snd c)) cs) = true.
Proof. exact style_element_document. Qed.
Print Assumptions C05_style_element_document.

(* ---- non-vacuity and witnesses ---- *)
(* the contract on url.Parse is satisfiable *)
Example C05_ex_contract : parse_contract parse_example.
Proof. exact parse_example_contract. Qed.
(* values are accepted on every path ... *)
Example C05_ex_accept_bg :
  sanitize_css parse_example (bs "Background-Image") (bs "url(""/a.png""), url(https://h/p) ,url('x')")
  = (bs "background-image", bs "url(""/a.png""), url(https://h/p) ,url('x')").
Proof. vm_compute. reflexivity. Qed.
Example C05_ex_accept_font :
  sanitize_css parse_example (bs "font-family") (bs """a;b{c}"", Times New Roman") = (bs "font-family", bs """a;b{c}"", Times New Roman").
Proof. vm_compute. reflexivity. Qed.
Example C05_ex_accept_regular : sanitize_css parse_example (bs "margin") (bs "1px 2% !important") = (bs "margin", bs "1px 2% !important").
Proof. vm_compute. reflexivity. Qed.
(* ... and the two break-outs that the code before commit b30a3a2 let through are now replaced *)
Example C05_ex_reject_font :
  sanitize_css parse_example (bs "font-family") (bs """</style><script>alert(1)</script>""") = (bs "font-family", css_innocuous_value).
Proof. vm_compute. reflexivity. Qed.
Example C05_ex_reject_bg :
  sanitize_css parse_example (bs "background-image") (bs "url(""/x"");}*{color:red;y:url(""z"")") = (bs "background-image", css_innocuous_value).
Proof. vm_compute. reflexivity. Qed.
Example C05_ex_reject_scheme :
  sanitize_css parse_example (bs "background-image") (bs "url(JavaScript:alert)") = (bs "background-image", css_innocuous_value).
Proof. vm_compute. reflexivity. Qed.
(* the specification does reject those texts (it is not trivially true) *)
Example C05_ex_spec_rejects :
  confined (bs """</style><script>alert(1)</script>""") = false /\
  confined (bs "url(""/x"");}*{color:red;y:url(""z"")") = false /\
  confined (bs "red;color:blue") = false /\ confined (bs "a/*") = false /\ confined (bs "expression(1)") = false /\
  confined (bs "a\") = false /\ confined (bs """a") = false /\ confined (bs "url(a") = false /\
  urls_ok (bs "url(javascript:x)") = false /\ urls_ok (bs "url("" data:x"")") = false.
Proof. vm_compute. repeat split; reflexivity. Qed.

(* the end-to-end predicates are not trivially true: a style attribute whose escaper copies a character reference
   of the value through reads, after attribute decoding, as three declarations where one was written; a class whose
   expression value was not sanitised reads as two rules *)
Example C05_ex_sink_rejects :
  css_decode_attr (bs "font-family:&#34;x&#34;;color:red;y:&#34;z&#34;;") = bs "font-family:""x"";color:red;y:""z"";" /\
  decls_okb (css_decode_attr (bs "font-family:&#34;x&#34;;color:red;y:&#34;z&#34;;")) 1 = false /\
  decls_okb (css_decode_attr (bs "font-family:&#34;x&amp;#34;;color:red;y:&amp;#34;z&#34;;")) 1 = true /\
  style_elem_okb (bs ".c_1a2b{background-image:url('x');}*{color:red;y:url('z');}") [1%nat] = false /\
  style_elem_okb (bs ".c_1a2b{background-image:url('x');}") [1%nat] = true /\
  style_elem_okb (bs ".c_1a2b{font-family:""</style><script>alert(1)</script>"";}") [1%nat] = false /\
  confined (bs "a\<b") = false.
Proof. vm_compute. repeat split; reflexivity. Qed.
(* and their hypotheses are satisfiable: a class with a constant and two expression properties *)
Example C05_ex_classes_ok :
  classes_ok [(bs "c_1a2b", [CConst (bs "width") (bs "1px"); CDyn (bs "color") (bs "red;x"); CDyn (bs "font-family") (bs """a;b""")])] /\
  style_text parse_example [(bs "c_1a2b", [CConst (bs "width") (bs "1px"); CDyn (bs "color") (bs "red;x"); CDyn (bs "font-family") (bs """a;b""")])]
  = bs ".c_1a2b{width:1px;color:zTemplUnsafeCSSPropertyValue;font-family:""a;b"";}".
Proof.
  split; [|vm_compute; reflexivity]. repeat constructor; try discriminate; vm_compute; reflexivity.
Qed.
