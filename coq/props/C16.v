(* C16 - Watch-mode rendering equals a fresh build.
   Property statements only; each is closed by [exact].  Models: model/Quote.v (strconv.Quote without outer
   quotes / strconv.Unquote), model/WatchMode.v (text file, development-mode lookup, HasChanged, a compiled
   template as a list of statements), model/QuoteGo.v (strconv.IsPrint from gen/Tables16.v). *)
From Coq.Strings Require Import Byte String.
From Coq Require Import List NArith Bool.
Import ListNotations.
From V Require Import lib.Bytes model.Quote model.QuoteGo model.WatchMode
  proofs.QuoteProof proofs.QuoteLitProof proofs.QuoteGoProof proofs.WatchModeProof.
Open Scope N_scope.

(* ---------- the codec ---------- *)

(* For every printable-rune oracle that does not call the newline printable and EVERY byte string (valid UTF-8
   or not): strconv.Unquote - fast path and escape loop - returns exactly the bytes strconv.Quote was given. *)
Theorem C16_unquote_quote : forall (is_print : N -> bool), is_print 10 = false ->
  forall s : bytes, unquote (quote is_print s) = Some s.
Proof. exact unquote_quote. Qed.
Print Assumptions C16_unquote_quote.

(* the same with Go's own table *)
Theorem C16_unquote_quote_go : forall s : bytes, unquote (go_quote s) = Some s.
Proof. exact go_unquote_quote. Qed.
Print Assumptions C16_unquote_quote_go.

(* the escape loop alone, with any fuel above the length (the design-phase statement) *)
Theorem C16_unquote_quote_loop : forall (is_print : N -> bool), is_print 10 = false ->
  forall s : bytes, exists fuel, unq fuel (quote is_print s) = Some s.
Proof. exact unquote_quote_exists. Qed.
Print Assumptions C16_unquote_quote_loop.

(* Quote's output contains no raw newline and no double quote that is not preceded by an escaping backslash,
   and does not end inside an escape: it stays one line of the text file and one Go string literal. *)
Theorem C16_quote_no_lf_no_quote : forall (is_print : N -> bool), is_print 10 = false ->
  forall s : bytes, scan_ok (quote is_print s) = true /\ no_byte x0a (quote is_print s) = true.
Proof. exact quote_no_lf_no_quote. Qed.
Print Assumptions C16_quote_no_lf_no_quote.

(* a whole literal as the generator assembles it - escaped static text, plain format-string text, and the
   backslash-quote attribute delimiters - reads back as the bytes the author wrote, and scans as one literal *)
Theorem C16_literal_roundtrip : forall (is_print : N -> bool), is_print 10 = false ->
  forall ps : list piece, forallb piece_ok ps = true ->
  unquote (lit_text is_print ps) = Some (lit_value ps) /\ scan_ok (lit_text is_print ps) = true.
Proof. exact literal_roundtrip. Qed.
Print Assumptions C16_literal_roundtrip.

Example C16_ex_quote : go_quote (bs "a""b\c" ++ [x0a; x01; xff; xc3; xa9]) = bs "a\""b\\c\n\x01\xff" ++ [xc3; xa9]
  /\ unquote (go_quote (bs "a""b\c" ++ [x0a; x01; xff; xc3; xa9])) = Some (bs "a""b\c" ++ [x0a; x01; xff; xc3; xa9]).
Proof. split; vm_compute; reflexivity. Qed.
Example C16_ex_literal : lit_text go_is_print [PF (bs " title="); PE; PQ (bs "x\y"); PE] = bs " title=\""x\\y\"""
  /\ lit_value [PF (bs " title="); PE; PQ (bs "x\y"); PE] = bs " title=""x\y""".
Proof. split; vm_compute; reflexivity. Qed.
Example C16_ex_oracle : go_is_print 10 = false /\ go_is_print 233 = true /\ go_is_print 8232 = false.
Proof. repeat split; vm_compute; reflexivity. Qed.

(* ---------- the text file ---------- *)

(* for every non-empty list of literals none of which contains a raw newline: reading the written file gives
   the same list (the empty list is written as an empty file, which reads as one empty line: split_join_nil) *)
Theorem C16_textfile_roundtrip : forall literals : list bytes, literals <> [] -> forallb no_lf literals = true ->
  split_lf (text_file literals) = literals.
Proof. exact split_join. Qed.
Print Assumptions C16_textfile_roundtrip.

(* for every list of generator-built literals: the file splits back into the same list *)
Theorem C16_textfile_roundtrip_generated : forall (is_print : N -> bool), is_print 10 = false ->
  forall pss : list (list piece), pss <> [] -> forallb (forallb piece_ok) pss = true ->
  split_lf (text_file (map (lit_text is_print) pss)) = map (lit_text is_print) pss.
Proof. exact generated_file_roundtrip. Qed.
Print Assumptions C16_textfile_roundtrip_generated.

(* index i+1 of the file yields literal i, for every i: the string a development-mode WriteString writes is the
   string the compiled-in literal denotes, and both are the author's bytes *)
Theorem C16_dev_lookup_equals_literal : forall (is_print : N -> bool), is_print 10 = false ->
  forall (pss : list (list piece)) (i : nat), forallb (forallb piece_ok) pss = true -> (i < length pss)%nat ->
  dev_write (text_file (map (lit_text is_print) pss)) (S i) = Some (lit_value (nth i pss [])) /\
  normal_write (lit_text is_print (nth i pss [])) = Some (lit_value (nth i pss [])).
Proof. exact dev_lookup_lit. Qed.
Print Assumptions C16_dev_lookup_equals_literal.

Example C16_ex_file : split_lf (text_file [bs "<p title=\"""; bs "\"">"; bs "</p>"]) = [bs "<p title=\"""; bs "\"">"; bs "</p>"]
  /\ dev_write (text_file [bs "<p title=\"""; bs "\"">"; bs "</p>"]) 2 = Some (bs """>")
  /\ dev_write (text_file [bs "<p title=\"""; bs "\"">"; bs "</p>"]) 4 = None.
Proof. repeat split; vm_compute; reflexivity. Qed.

(* ---------- first half of the property: development mode on the template's own text file ---------- *)

(* for every compiled template (statement list), every writer semantics and every valuation of its Go
   expressions: rendering with the text file written for it = rendering the normally generated code *)
Theorem C16_dev_equals_normal : forall (sem : sink -> bytes -> bytes) (ev_str : bytes -> bytes) (ev_bool : bytes -> bool) (u : list uop),
  lits_ok u = true ->
  run sem ev_str ev_bool (lk_dev (text_file (lits u))) (compile u) 0 = run sem ev_str ev_bool lk_normal (compile u) 0.
Proof. exact dev_equals_normal. Qed.
Print Assumptions C16_dev_equals_normal.

(* ---------- second half: edits classified as needing no recompilation ---------- *)

(* a sound criterion: generated code equal up to the contents of string literals *)
Theorem C16_skeleton_sound : forall (sem : sink -> bytes -> bytes) (ev_str : bytes -> bytes) (ev_bool : bytes -> bool) (u u' : list uop),
  skeleton u = skeleton u' -> lits_ok u' = true ->
  run sem ev_str ev_bool (lk_dev (text_file (lits u'))) (compile u) 0 = run sem ev_str ev_bool lk_normal (compile u') 0.
Proof. exact skeleton_sound. Qed.
Print Assumptions C16_skeleton_sound.

(* what the coded criterion compares *)
Theorem C16_has_changed_false_iff : forall p u : gen_output, has_changed p u = false <->
  o_version (g_opts p) = o_version (g_opts u) /\ o_file (g_opts p) = o_file (g_opts u) /\ o_skip (g_opts p) = o_skip (g_opts u) /\
  length (g_literals p) = length (g_literals u) /\ g_exprs p = g_exprs u.
Proof. exact has_changed_false. Qed.
Print Assumptions C16_has_changed_false_iff.

(* sequences of edits: the negative answer is an equivalence, so a chain of text-only edits is a text-only edit *)
Theorem C16_has_changed_equivalence :
  (forall a, has_changed a a = false) /\
  (forall a b, has_changed a b = false -> has_changed b a = false) /\
  (forall a b c, has_changed a b = false -> has_changed b c = false -> has_changed a c = false).
Proof. exact has_changed_equivalence. Qed.
Print Assumptions C16_has_changed_equivalence.

(* The coded criterion is NOT sound.  For every writer semantics:
   (a) if the attribute escaper and the style sanitiser differ on some value, title={ c } -> style={ c };
   (b) if some value is written non-empty in text position, moving { s } into the preceding if-body;
   (c) if some value is written non-empty in text position, swapping a literal and an expression
   are answered "no recompilation" while the compiled old program reading the new text file renders other
   bytes than the newly generated program. *)
Theorem C16_has_changed_refuted : forall sem : sink -> bytes -> bytes,
  (forall x, sem SAttr x <> sem SStyle x ->
     has_changed (gen_out o0 wa) (gen_out o0 wa') = false /\ lits_ok wa' = true /\
     run sem (fun _ => x) (fun _ => true) (lk_dev (text_file (lits wa'))) (compile wa) 0 <>
     run sem (fun _ => x) (fun _ => true) lk_normal (compile wa') 0) /\
  (forall x, sem SText x <> [] ->
     has_changed (gen_out o0 wb) (gen_out o0 wb') = false /\ lits_ok wb' = true /\
     run sem (fun _ => x) (fun _ => false) (lk_dev (text_file (lits wb'))) (compile wb) 0 <>
     run sem (fun _ => x) (fun _ => false) lk_normal (compile wb') 0) /\
  (forall x c0 rest, sem SText x = c0 :: rest -> exists l : byte,
     has_changed (gen_out o0 (wc l)) (gen_out o0 (wc' l)) = false /\ lits_ok (wc' l) = true /\
     run sem (fun _ => x) (fun _ => true) (lk_dev (text_file (lits (wc' l)))) (compile (wc l)) 0 <>
     run sem (fun _ => x) (fun _ => true) lk_normal (compile (wc' l)) 0).
Proof. exact has_changed_refuted. Qed.
Print Assumptions C16_has_changed_refuted.

(* the hypotheses of the refutation are satisfiable: a toy semantics in which the style writer answers a fixed
   string; the two renderings are computed *)
Example C16_ex_refuted :
  let sem := fun k v => match k with SStyle => bs "zTemplz" | _ => v end in
  run sem (fun _ => bs "red") (fun _ => true) (lk_dev (text_file (lits wa'))) (compile wa) 0 = Some (bs "<p style=""red""></p>") /\
  run sem (fun _ => bs "red") (fun _ => true) lk_normal (compile wa') 0 = Some (bs "<p style=""zTemplz""></p>") /\
  run sem (fun _ => bs "S") (fun _ => false) (lk_dev (text_file (lits wb'))) (compile wb) 0 = Some (bs "S<hr>") /\
  run sem (fun _ => bs "S") (fun _ => false) lk_normal (compile wb') 0 = Some (bs "<hr>").
Proof. repeat split; vm_compute; reflexivity. Qed.

(* The coded criterion IS sound on templates whose statements alternate literal, text expression, literal, ...
   with no control flow (each expression between two literals, all in text position). *)
Theorem C16_has_changed_partial : forall (sem : sink -> bytes -> bytes) (ev_str : bytes -> bytes) (ev_bool : bytes -> bool)
  (o o' : gen_opts) (u u' : list uop),
  alternating u = true -> alternating u' = true -> lits_ok u' = true ->
  has_changed (gen_out o u) (gen_out o' u') = false ->
  run sem ev_str ev_bool (lk_dev (text_file (lits u'))) (compile u) 0 = run sem ev_str ev_bool lk_normal (compile u') 0.
Proof. exact has_changed_partial. Qed.
Print Assumptions C16_has_changed_partial.

Example C16_ex_partial :
  alternating [ULit (bs "<p>"); UExpr SText (bs "s"); ULit (bs "</p>")] = true /\
  has_changed (gen_out o0 [ULit (bs "<p>"); UExpr SText (bs "s"); ULit (bs "</p>")])
              (gen_out o0 [ULit (bs "<b>\""x\"""); UExpr SText (bs "s"); ULit (bs "</b>")]) = false /\
  lits_ok [ULit (bs "<b>\""x\"""); UExpr SText (bs "s"); ULit (bs "</b>")] = true.
Proof. repeat split; vm_compute; reflexivity. Qed.

(* ---------- the literals of the WHOLE generator model (model/Gen.v: generate = generator.Generate, tied to the
   real generator byte for byte by the C02/C07 harness) ---------- *)
From V Require Import model.Ast model.Gen proofs.RangeWriterProof proofs.GenAddsProof proofs.GenLitProof.

(* For every file name and EVERY template file: the literal counter ends at the number of literals handed to the
   text file, no literal is left pending, and the generated Go text is
       gap_1 ++ WriteString-call(1, literal_1) ++ gap_2 ++ WriteString-call(2, literal_2) ++ ... ++ tail
   in emission order: the i-th call carries index i and the i-th literal - what the watch-mode text file relies on. *)
Theorem C16_literal_indices : forall (fn : bytes) (f : file),
  Gen.index (Gen.w (gen_state fn f)) = length (snd (Gen.generate fn f)) /\
  Gen.inlit (Gen.w (gen_state fn f)) = false /\
  exists (segs : list (bytes * nat * bytes)) (tail : bytes),
    fst (Gen.generate fn f) = calls_text 0 segs ++ tail /\ map snd segs = snd (Gen.generate fn f).
Proof. exact literal_indices. Qed.
Print Assumptions C16_literal_indices.

(* the writer: the counter and the literal list change in closeLiteral only - by one, recording the pending
   literal and writing the call line with the new index; Write/WriteIndent text and WriteStringLiteral keep them *)
Theorem C16_writer_literal_steps :
  (forall (lvl : nat) (w : Gen.rw),
     Gen.index (Gen.close_literal lvl w) = S (Gen.index w) /\
     Gen.lits (Gen.close_literal lvl w) = concat (rev (Gen.builder w)) :: Gen.lits w /\
     outtext (Gen.close_literal lvl w) = outtext w ++ ws_line lvl (S (Gen.index w)) (concat (rev (Gen.builder w))) ++ Gen.err_handler_text lvl) /\
  (forall (s : bytes) (w : Gen.rw), Gen.index (Gen.raw s w) = Gen.index w /\ Gen.lits (Gen.raw s w) = Gen.lits w) /\
  (forall (s : bytes) (w : Gen.rw), Gen.index (Gen.wl_ s w) = Gen.index w /\ Gen.lits (Gen.wl_ s w) = Gen.lits w /\ Gen.out (Gen.wl_ s w) = Gen.out w).
Proof. exact writer_literal_steps. Qed.
Print Assumptions C16_writer_literal_steps.

(* For every file whose element and attribute names are plain after html.EscapeString (the parser allows only
   ASCII letters, digits and - . : _ @ * in names): every literal is a concatenation of pieces, each of which is
   escapeQuotes (Gen.qesc) of some bytes, plain ASCII text without double quote, backslash and LF, or the two bytes
   backslash double-quote.  Hence it scans as one Go string literal and holds no raw LF (one line of the text file). *)
Theorem C16_literals_are_quoted : forall (fn : bytes) (f : file), file_named pl any_bytes f ->
  Forall (fun lit : bytes => (exists ps : list piece, forallb piece_ok ps = true /\ lit = glit_text ps) /\
                             scan_ok lit = true /\ no_byte x0a lit = true) (snd (Gen.generate fn f)).
Proof.
  exact (fun fn f H => Forall_impl _ (fun a Ha => conj Ha (built_scan_ok a Ha)) (literals_are_quoted fn f H)).
Qed.
Print Assumptions C16_literals_are_quoted.

(* Gen.qesc (non-ASCII bytes pass through) and strconv.Quote (model/Quote.v, parametric in IsPrint) agree on valid
   UTF-8 whose non-ASCII runes are printable - in particular on ASCII text - for every oracle that is right on ASCII *)
Theorem C16_qesc_is_quote : forall (is_print : N -> bool), ascii_print_ok is_print ->
  (forall s : bytes, printable is_print s = true -> quote is_print s = Gen.qesc s) /\
  (forall s : bytes, ascii s = true -> quote is_print s = Gen.qesc s).
Proof. exact (fun ip H => conj (qesc_quote ip H) (qesc_quote_ascii ip H)). Qed.
Print Assumptions C16_qesc_is_quote.

(* ... so for files with plain names and printable static text every generator literal is a literal of
   C16_literal_roundtrip: it reads back through strconv.Unquote as the bytes the author wrote *)
Theorem C16_generated_literals_roundtrip : forall (is_print : N -> bool), ascii_print_ok is_print -> is_print 10 = false ->
  forall (fn : bytes) (f : file), file_named pl (printable is_print) f ->
  Forall (fun lit : bytes => exists ps : list piece, forallb piece_ok ps = true /\ lit = lit_text is_print ps /\
                             unquote lit = Some (lit_value ps) /\ scan_ok lit = true) (snd (Gen.generate fn f)).
Proof. exact (fun ip H1 H2 fn f H => generated_literals_roundtrip ip H1 fn f H2 H). Qed.
Print Assumptions C16_generated_literals_roundtrip.

(* non-vacuity: Go's own table is right on ASCII; a file with a constant attribute holding a quote and a backslash,
   a URL attribute, text with a quote and a newline, and a string expression: its three literals *)
Example C16_ex_go_oracle : ascii_print_ok go_is_print /\ go_is_print 10 = false.
Proof. split; [exact go_ascii_print_ok|vm_compute; reflexivity]. Qed.
Example C16_ex_generated_literals :
  file_named pl (printable go_is_print) lit_file /\
  snd (Gen.generate (bs "t.templ") lit_file) = [bs "<a title=\""x\\&#34;y\"" href=\"""; bs "\"">a\""b\n"; bs "</a>"] /\
  Gen.index (Gen.w (gen_state (bs "t.templ") lit_file)) = 3%nat.
Proof. split; [exact lit_file_named|split; vm_compute; reflexivity]. Qed.
