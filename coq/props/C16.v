(* C16 - Watch-mode rendering equals a fresh build.
   Property statements only; each is closed by [exact].  Models: model/Quote.v (strconv.Quote without outer
   quotes / strconv.Unquote), model/WatchMode.v (text file, development-mode lookup, HasChanged with the skeleton
   comparison of commit 75525d5, a compiled template as a list of statements run by a machine with arbitrary
   opaque statements, the skeleton of generated text and the generated file as a program of lines),
   model/QuoteGo.v (strconv.IsPrint from gen/Tables16.v), model/WatchHandler.v (what the event handler remembers
   between the events of a watch session - the hash guarding the write of the text file, the previous generator
   output - and the text file on disk). *)
From Coq.Strings Require Import Byte String.
From Coq Require Import List Arith NArith Bool.
Import ListNotations.
From V Require Import lib.Bytes model.Quote model.QuoteGo model.WatchMode
  proofs.QuoteProof proofs.QuoteLitProof proofs.QuoteGoProof proofs.WatchModeProof.
Open Scope N_scope.

(* ---------- the codec ---------- *)

(* For every printable-rune oracle that does not call the newline printable and EVERY byte string (valid UTF-8
   or not): strconv.Unquote - fast path and escape loop - returns exactly the bytes strconv.Quote was given. *)
Theorem C16_unquote_quote : forall (is_print : N -> bool), is_print 10 = false ->
  forall s : bytes, unquote (quote is_print s) = Some s.
Proof. exact unquote_quote. Qed.
Print Assumptions C16_unquote_quote.

(* the same with Go's own table *)
Theorem C16_unquote_quote_go : forall s : bytes, unquote (go_quote s) = Some s.
Proof. exact go_unquote_quote. Qed.
Print Assumptions C16_unquote_quote_go.

(* the escape loop alone, with any fuel above the length (the design-phase statement) *)
Theorem C16_unquote_quote_loop : forall (is_print : N -> bool), is_print 10 = false ->
  forall s : bytes, exists fuel, unq fuel (quote is_print s) = Some s.
Proof. exact unquote_quote_exists. Qed.
Print Assumptions C16_unquote_quote_loop.

(* Quote's output contains no raw newline and no double quote that is not preceded by an escaping backslash,
   and does not end inside an escape: it stays one line of the text file and one Go string literal. *)
Theorem C16_quote_no_lf_no_quote : forall (is_print : N -> bool), is_print 10 = false ->
  forall s : bytes, scan_ok (quote is_print s) = true /\ no_byte x0a (quote is_print s) = true.
Proof. exact quote_no_lf_no_quote. Qed.
Print Assumptions C16_quote_no_lf_no_quote.

(* a whole literal as the generator assembles it - escaped static text, plain format-string text, and the
   backslash-quote attribute delimiters - reads back as the bytes the author wrote, and scans as one literal *)
Theorem C16_literal_roundtrip : forall (is_print : N -> bool), is_print 10 = false ->
  forall ps : list piece, forallb piece_ok ps = true ->
  unquote (lit_text is_print ps) = Some (lit_value ps) /\ scan_ok (lit_text is_print ps) = true.
Proof. exact literal_roundtrip. Qed.
Print Assumptions C16_literal_roundtrip.

Example C16_ex_quote : go_quote (bs "a""b\c" ++ [x0a; x01; xff; xc3; xa9]) = bs "a\""b\\c\n\x01\xff" ++ [xc3; xa9]
  /\ unquote (go_quote (bs "a""b\c" ++ [x0a; x01; xff; xc3; xa9])) = Some (bs "a""b\c" ++ [x0a; x01; xff; xc3; xa9]).
Proof. split; vm_compute; reflexivity. Qed.
Example C16_ex_literal : lit_text go_is_print [PF (bs " title="); PE; PQ (bs "x\y"); PE] = bs " title=\""x\\y\"""
  /\ lit_value [PF (bs " title="); PE; PQ (bs "x\y"); PE] = bs " title=""x\y""".
Proof. split; vm_compute; reflexivity. Qed.
Example C16_ex_oracle : go_is_print 10 = false /\ go_is_print 233 = true /\ go_is_print 8232 = false.
Proof. repeat split; vm_compute; reflexivity. Qed.

(* ---------- the text file ---------- *)

(* for every non-empty list of literals none of which contains a raw newline: reading the written file gives
   the same list (the empty list is written as an empty file, which reads as one empty line: split_join_nil) *)
Theorem C16_textfile_roundtrip : forall literals : list bytes, literals <> [] -> forallb no_lf literals = true ->
  split_lf (text_file literals) = literals.
Proof. exact split_join. Qed.
Print Assumptions C16_textfile_roundtrip.

(* for every list of generator-built literals: the file splits back into the same list *)
Theorem C16_textfile_roundtrip_generated : forall (is_print : N -> bool), is_print 10 = false ->
  forall pss : list (list piece), pss <> [] -> forallb (forallb piece_ok) pss = true ->
  split_lf (text_file (map (lit_text is_print) pss)) = map (lit_text is_print) pss.
Proof. exact generated_file_roundtrip. Qed.
Print Assumptions C16_textfile_roundtrip_generated.

(* index i+1 of the file yields literal i, for every i: the string a development-mode WriteString writes is the
   string the compiled-in literal denotes, and both are the author's bytes *)
Theorem C16_dev_lookup_equals_literal : forall (is_print : N -> bool), is_print 10 = false ->
  forall (pss : list (list piece)) (i : nat), forallb (forallb piece_ok) pss = true -> (i < length pss)%nat ->
  dev_write (text_file (map (lit_text is_print) pss)) (S i) = Some (lit_value (nth i pss [])) /\
  normal_write (lit_text is_print (nth i pss [])) = Some (lit_value (nth i pss [])).
Proof. exact dev_lookup_lit. Qed.
Print Assumptions C16_dev_lookup_equals_literal.

Example C16_ex_file : split_lf (text_file [bs "<p title=\"""; bs "\"">"; bs "</p>"]) = [bs "<p title=\"""; bs "\"">"; bs "</p>"]
  /\ dev_write (text_file [bs "<p title=\"""; bs "\"">"; bs "</p>"]) 2 = Some (bs """>")
  /\ dev_write (text_file [bs "<p title=\"""; bs "\"">"; bs "</p>"]) 4 = None.
Proof. repeat split; vm_compute; reflexivity. Qed.

(* ---------- first half of the property: development mode on the template's own text file ---------- *)

(* for every compiled template (statement list: literals, expressions, ifs and ANY other statements - loops,
   switches, calls, raw Go - with an arbitrary meaning [code]), every writer semantics, every valuation, every
   state, every position and every fuel: rendering with the text file written for it = rendering the normally
   generated code *)
Theorem C16_dev_equals_normal : forall (St : Type) (sem : sink -> bytes -> bytes) (ev_str : St -> bytes -> bytes)
  (ev_bool : St -> bytes -> bool) (code : bytes -> nat -> St -> option (St * bytes * nat)) (u : list uop),
  lits_ok u = true ->
  forall (fuel pc : nat) (s : St),
  exec St sem ev_str ev_bool code (lk_dev (text_file (lits u))) fuel (compile u) pc s =
  exec St sem ev_str ev_bool code lk_normal fuel (compile u) pc s.
Proof. exact dev_equals_normal. Qed.
Print Assumptions C16_dev_equals_normal.

(* ---------- second half: edits classified as needing no recompilation ---------- *)

(* generated code equal up to the contents of string literals: the old program reading the new file renders like
   the new program *)
Theorem C16_skeleton_sound : forall (St : Type) (sem : sink -> bytes -> bytes) (ev_str : St -> bytes -> bytes)
  (ev_bool : St -> bytes -> bool) (code : bytes -> nat -> St -> option (St * bytes * nat)) (u u' : list uop),
  skeleton u = skeleton u' -> lits_ok u' = true ->
  forall (fuel pc : nat) (s : St),
  exec St sem ev_str ev_bool code (lk_dev (text_file (lits u'))) fuel (compile u) pc s =
  exec St sem ev_str ev_bool code lk_normal fuel (compile u') pc s.
Proof. exact skeleton_sound. Qed.
Print Assumptions C16_skeleton_sound.

(* what generator.HasChanged compares since 75525d5, whatever the skeletons are made of: a negative answer means
   equal version, file name and skip flag, equally many literals, the same list of Go expressions AND EQUAL SKELETONS *)
Theorem C16_has_changed_false_iff : forall (S : Type) (eqb : S -> S -> bool), (forall a b, eqb a b = true <-> a = b) ->
  forall p u : gen_output S, has_changed eqb p u = false <->
  (o_version (g_opts p) = o_version (g_opts u) /\ o_file (g_opts p) = o_file (g_opts u) /\ o_skip (g_opts p) = o_skip (g_opts u) /\
   length (g_literals p) = length (g_literals u) /\ g_exprs p = g_exprs u) /\ g_skel p = g_skel u.
Proof. exact has_changed_false. Qed.
Print Assumptions C16_has_changed_false_iff.

(* sequences of edits: the negative answer is still an equivalence, so comparing each generation with the one before
   (what the event handler does) is comparing with the generation that was compiled *)
Theorem C16_has_changed_equivalence : forall (S : Type) (eqb : S -> S -> bool), (forall a b, eqb a b = true <-> a = b) ->
  (forall a : gen_output S, has_changed eqb a a = false) /\
  (forall a b : gen_output S, has_changed eqb a b = false -> has_changed eqb b a = false) /\
  (forall a b c : gen_output S, has_changed eqb a b = false -> has_changed eqb b c = false -> has_changed eqb a c = false).
Proof. exact has_changed_equivalence. Qed.
Print Assumptions C16_has_changed_equivalence.

(* on compiled templates the answer is EXACTLY "same options and same skeleton": a different skeleton always asks
   for recompilation (nothing unsound is let through), equal options and skeleton never do (no needless rebuild);
   literal count and expression list are functions of the skeleton *)
Theorem C16_has_changed_iff_skeleton : forall (o o' : gen_opts) (u u' : list uop),
  has_changed skel_eqb (gen_out o u) (gen_out o' u') = false <->
  o_version o = o_version o' /\ o_file o = o_file o' /\ o_skip o = o_skip o' /\ skeleton u = skeleton u'.
Proof. exact has_changed_iff_skeleton. Qed.
Print Assumptions C16_has_changed_iff_skeleton.

(* THE RECOMPILE DECISION IS SOUND, without any guard on the shape of the template: whenever HasChanged answers
   false for an edit u -> u' (the new literals are lines of the text file: C16_literals_are_quoted), then for every
   writer semantics, valuation, meaning of the other statements, state, position and fuel the program compiled from
   u reading the text file of u' renders exactly what the program compiled from u' renders.
   (A render that fails is None on both sides: the Line/Col numbers carried by templ.Error VALUES stay those of the
   compiled version after a text-only edit - they are not rendered bytes and not part of the property.) *)
Theorem C16_recompile_decision_sound : forall (St : Type) (sem : sink -> bytes -> bytes) (ev_str : St -> bytes -> bytes)
  (ev_bool : St -> bytes -> bool) (code : bytes -> nat -> St -> option (St * bytes * nat))
  (o o' : gen_opts) (u u' : list uop),
  lits_ok u' = true ->
  has_changed skel_eqb (gen_out o u) (gen_out o' u') = false ->
  forall (fuel pc : nat) (s : St),
  exec St sem ev_str ev_bool code (lk_dev (text_file (lits u'))) fuel (compile u) pc s =
  exec St sem ev_str ev_bool code lk_normal fuel (compile u') pc s.
Proof. exact recompile_decision_sound. Qed.
Print Assumptions C16_recompile_decision_sound.

(* ... and for a whole session: if every edit of a chain is answered "text only" (each generation compared with the
   previous one), the program compiled BEFORE THE FIRST edit reading the text file of the LAST version renders what a
   fresh build of the last version renders *)
Theorem C16_text_only_chain_sound : forall (St : Type) (sem : sink -> bytes -> bytes) (ev_str : St -> bytes -> bytes)
  (ev_bool : St -> bytes -> bool) (code : bytes -> nat -> St -> option (St * bytes * nat))
  (o : gen_opts) (u : list uop) (rest : list (gen_opts * list uop)),
  text_only_chain o u rest = true -> lits_ok (snd (last rest (o, u))) = true ->
  forall (fuel pc : nat) (s : St),
  exec St sem ev_str ev_bool code (lk_dev (text_file (lits (snd (last rest (o, u)))))) fuel (compile u) pc s =
  exec St sem ev_str ev_bool code lk_normal fuel (compile (snd (last rest (o, u)))) pc s.
Proof. exact text_only_chain_sound. Qed.
Print Assumptions C16_text_only_chain_sound.

(* non-vacuity: a text-only edit (HasChanged = false) that does change what is rendered; the old program shows the
   new text through the file *)
Example C16_ex_text_only :
  let u  := [ULit (bs "<p>"); UExpr SText (bs "s"); ULit (bs "</p>")] in
  let u' := [ULit (bs "<b>\""x\"""); UExpr SText (bs "s"); ULit (bs "</b>")] in
  let run := exec unit (fun _ v => v) (fun _ _ => bs "S") (fun _ _ => true) (fun _ _ _ => None) in
  has_changed skel_eqb (gen_out o0 u) (gen_out o0 u') = false /\ lits_ok u' = true /\
  run lk_normal 8%nat (compile u) 0%nat tt = Some (bs "<p>S</p>") /\
  run (lk_dev (text_file (lits u'))) 8%nat (compile u) 0%nat tt = Some (bs "<b>""x""S</b>") /\
  run lk_normal 8%nat (compile u') 0%nat tt = Some (bs "<b>""x""S</b>").
Proof. repeat split; vm_compute; reflexivity. Qed.

(* non-vacuity of the opaque statements: a loop (state = iteration count; "for" enters the body twice, then leaves;
   the closing brace jumps back), text edited inside and after the body, an if inside the body *)
Example C16_ex_loop :
  let u  := [UCode (bs "for") [bs "xs"]; ULit (bs "<li>"); UIf (bs "b") 1; UExpr SText (bs "x"); UCode (bs "}") []; ULit (bs "end")] in
  let u' := [UCode (bs "for") [bs "xs"]; ULit (bs "<dd>"); UIf (bs "b") 1; UExpr SText (bs "x"); UCode (bs "}") []; ULit (bs "END\n")] in
  let code := fun (c : bytes) (pc : nat) (s : nat) =>
                if bytes_eqb c (bs "for") then Some (s, [], if (s <? 2)%nat then S pc else (pc + 5)%nat)
                else Some (S s, bs ";", (pc - 4)%nat) in
  let run := exec nat (fun _ v => v) (fun s _ => [x30; x31; x32] ) (fun s _ => (s =? 0)%nat) code in
  has_changed skel_eqb (gen_out o0 u) (gen_out o0 u') = false /\ lits_ok u' = true /\
  exprs u = [bs "xs"; bs "b"; bs "x"] /\
  run lk_normal 50%nat (compile u) 0%nat 0%nat = Some (bs "<li>012;<li>;end") /\
  run (lk_dev (text_file (lits u'))) 50%nat (compile u) 0%nat 0%nat = Some (bs "<dd>012;<dd>;END" ++ [x0a]) /\
  run lk_normal 50%nat (compile u') 0%nat 0%nat = Some (bs "<dd>012;<dd>;END" ++ [x0a]).
Proof. repeat split; vm_compute; reflexivity. Qed.

(* REGRESSION: the criterion of before 75525d5 (options, literal count, expression list) is NOT sound, and the
   repaired HasChanged answers "recompile" on each witness.  For every writer semantics, meaning of other statements
   and state:
   (a) if the attribute escaper and the style sanitiser differ on some value, title={ c } -> style={ c };
   (b) if some value is written non-empty in text position, moving { s } into the preceding if-body;
   (c) if some value is written non-empty in text position, swapping a literal and an expression
   pass the old criterion while the compiled old program reading the new text file renders other bytes than the
   newly generated program (fuel 8 exceeds the number of statements: both runs complete). *)
Theorem C16_expression_list_criterion_refuted : forall (St : Type) (sem : sink -> bytes -> bytes)
  (code : bytes -> nat -> St -> option (St * bytes * nat)) (s : St),
  (forall x, sem SAttr x <> sem SStyle x ->
     expr_list_criterion (gen_out o0 wa) (gen_out o0 wa') = false /\
     has_changed skel_eqb (gen_out o0 wa) (gen_out o0 wa') = true /\ lits_ok wa' = true /\
     exec St sem (fun _ _ => x) (fun _ _ => true) code (lk_dev (text_file (lits wa'))) 8 (compile wa) 0 s <>
     exec St sem (fun _ _ => x) (fun _ _ => true) code lk_normal 8 (compile wa') 0 s) /\
  (forall x, sem SText x <> [] ->
     expr_list_criterion (gen_out o0 wb) (gen_out o0 wb') = false /\
     has_changed skel_eqb (gen_out o0 wb) (gen_out o0 wb') = true /\ lits_ok wb' = true /\
     exec St sem (fun _ _ => x) (fun _ _ => false) code (lk_dev (text_file (lits wb'))) 8 (compile wb) 0 s <>
     exec St sem (fun _ _ => x) (fun _ _ => false) code lk_normal 8 (compile wb') 0 s) /\
  (forall x c0 rest, sem SText x = c0 :: rest -> exists l : byte,
     expr_list_criterion (gen_out o0 (wc l)) (gen_out o0 (wc' l)) = false /\
     has_changed skel_eqb (gen_out o0 (wc l)) (gen_out o0 (wc' l)) = true /\ lits_ok (wc' l) = true /\
     exec St sem (fun _ _ => x) (fun _ _ => true) code (lk_dev (text_file (lits (wc' l)))) 8 (compile (wc l)) 0 s <>
     exec St sem (fun _ _ => x) (fun _ _ => true) code lk_normal 8 (compile (wc' l)) 0 s).
Proof. exact expr_list_criterion_refuted. Qed.
Print Assumptions C16_expression_list_criterion_refuted.

(* the hypotheses of the regression are satisfiable: a toy semantics in which the style writer answers a fixed
   string; the two renderings are computed *)
Example C16_ex_regression :
  let sem := fun k v => match k with SStyle => bs "zTemplz" | _ => v end in
  let run := fun (x : bytes) (b : bool) => exec unit sem (fun _ _ => x) (fun _ _ => b) (fun _ _ _ => None) in
  run (bs "red") true (lk_dev (text_file (lits wa'))) 8%nat (compile wa) 0%nat tt = Some (bs "<p style=""red""></p>") /\
  run (bs "red") true lk_normal 8%nat (compile wa') 0%nat tt = Some (bs "<p style=""zTemplz""></p>") /\
  run (bs "S") false (lk_dev (text_file (lits wb'))) 8%nat (compile wb) 0%nat tt = Some (bs "S<hr>") /\
  run (bs "S") false lk_normal 8%nat (compile wb') 0%nat tt = Some (bs "<hr>").
Proof. repeat split; vm_compute; reflexivity. Qed.

(* ---------- the same decision on the generated FILES (text level) ----------
   skel_of_code computes RangeWriter.Skeleton() from the generated text: the literal of every WriteString line, the
   generated-date line and the Line/Col numbers of templ.Error lines are left out (compared with the real field byte
   for byte on every generated file by the harness).  The file is read as a program of LINES: a WriteString line is
   what precedes the call (an opaque statement) and the call with the index written in it, every other line is an
   opaque statement with an arbitrary meaning (state change, output, jump) - any semantics of the Go text in which
   WriteString does what the runtime does. *)

(* ws_parse recognises exactly the lines  PRE call-text DIGITS, "LIT")  in which the call text first occurs where PRE
   ends (PRE is the indentation, on the first line of a case body preceded by the case clause; in particular every
   line TABS call); the skeleton of such a line is the line with an empty literal; the skeleton of any other line is
   the line without its error position, which is never mistaken for a WriteString line *)
Theorem C16_ws_line_recognised :
  (forall l pre ds lit, ws_parse l = Some (pre, ds, lit) ->
     l = ws_line pre ds lit /\ (forall t, find_sub ws_prefix (pre ++ ws_prefix ++ t) = Some (pre, t)) /\
     forallb is_digit ds = true /\ ds <> []) /\
  (forall pre ds lit, (forallb is_tab pre = true \/ forall t, find_sub ws_prefix (pre ++ ws_prefix ++ t) = Some (pre, t)) ->
     forallb is_digit ds = true -> ds <> [] ->
     ws_parse (ws_line pre ds lit) = Some (pre, ds, lit) /\ skel_line (ws_line pre ds lit) = ws_line pre ds []) /\
  (forall l, ws_parse l = None -> skel_line l = erase_pos l /\ ws_parse (erase_pos l) = None).
Proof. exact ws_recognition. Qed.
Print Assumptions C16_ws_line_recognised.

(* Both files are generator outputs (they have a line; their WriteString calls are numbered 1, 2, ... in order:
   C16_literal_indices for the generator model, checked on every real file) and the text file is written from the
   literals that are in the new code.  If HasChanged - with the skeletons computed from the two texts - answers
   false, then under every semantics of the other lines that does not look at the Line/Col numbers of templ.Error
   values, the OLD file as a program, looking its strings up in the NEW text file, renders from every line, in every
   state, with every fuel, what the NEW file as a program renders. *)
Theorem C16_code_decision_sound : forall (St : Type) (sem : sink -> bytes -> bytes) (ev_str : St -> bytes -> bytes)
  (ev_bool : St -> bytes -> bool) (code : bytes -> nat -> St -> option (St * bytes * nat)),
  (forall l pc s, code l pc s = code (erase_pos l) pc s) ->
  forall (o o' : gen_opts) (ls es ls' es' : list bytes) (c c' : bytes),
  wf_code c = true -> wf_code c' = true -> ls' = op_lits (ops_of_code c') ->
  has_changed bytes_eqb (gen_out_code o ls es c) (gen_out_code o' ls' es' c') = false ->
  forall (fuel pc : nat) (s : St),
  exec St sem ev_str ev_bool code (lk_dev (text_file ls')) fuel (ops_of_code c) pc s =
  exec St sem ev_str ev_bool code lk_normal fuel (ops_of_code c') pc s.
Proof. exact code_decision_sound. Qed.
Print Assumptions C16_code_decision_sound.

(* ---------- the event handler over a whole watch session (model/WatchHandler.v) ----------
   The theorems above read the text file of the LAST version.  Which file is on disk is decided by the handler: it
   writes the file only when the sha256 of strings.Join(Literals, LF) differs from the hash it remembers for that
   file name, and it lives as long as the session.  hfile = (remembered hash, remembered generator output, file on
   disk); handle = one generation; run1 = a session on one template; run = events of several templates interleaved.
   The hash is an arbitrary function.  collision_free H hash zero ts says: on the texts ts it has no collision and
   is never the zero array (the value the map answers for a new name); text_of g = text_file (g_literals g). *)
From V Require Import model.WatchHandler proofs.WatchHandlerProof.

(* after EVERY non-empty session, whatever edits it consists of (edit-and-revert chains included): the file on disk
   is the text file of the latest generation, and the handler remembers that generation and the hash of that file *)
Theorem C16_handler_disk_current : forall (H : Type) (hash : bytes -> H) (zero : H) (heqb : H -> H -> bool),
  (forall a b, heqb a b = true <-> a = b) ->
  forall (S : Type) (skel_eqb : S -> S -> bool) (gs : list (gen_output S)) (d : gen_output S), gs <> [] ->
  collision_free H hash zero (map (text_of S) gs) ->
  let st := fst (run1 H hash heqb S skel_eqb (h_new H zero S) gs) in
  h_prev st = Some (last gs d) /\ h_disk st = Some (text_file (g_literals (last gs d))) /\
  h_hash st = hash (text_file (g_literals (last gs d))).
Proof. exact handler_disk_current. Qed.
Print Assumptions C16_handler_disk_current.

(* GenerateResult.TextUpdated of the last event of a session: true for the first generation, afterwards true exactly
   when the text file differs from the one of the generation before - a file that has to change is never left as it is *)
Theorem C16_text_updated_iff : forall (H : Type) (hash : bytes -> H) (zero : H) (heqb : H -> H -> bool),
  (forall a b, heqb a b = true <-> a = b) ->
  forall (S : Type) (skel_eqb : S -> S -> bool) (pre : list (gen_output S)) (g d : gen_output S) (a0 : hresult),
  collision_free H hash zero (map (text_of S) (pre ++ [g])) ->
  r_text (last (snd (run1 H hash heqb S skel_eqb (h_new H zero S) (pre ++ [g]))) a0) = true <->
  (pre = [] \/ text_file (g_literals (last pre d)) <> text_file (g_literals g)).
Proof. exact text_updated_iff. Qed.
Print Assumptions C16_text_updated_iff.

(* several templates through one handler, events interleaved in any order: what the handler holds for template k, k's
   file on disk and the answers to k's events are those of k's own events alone *)
Theorem C16_handler_files_independent : forall (H : Type) (hash : bytes -> H) (heqb : H -> H -> bool)
  (S : Type) (skel_eqb : S -> S -> bool) (K : Type) (keqb : K -> K -> bool), (forall a b, keqb a b = true <-> a = b) ->
  forall (evs : list (K * gen_output S)) (m : hmap H S K) (k : K),
  fst (run H hash heqb S skel_eqb K keqb m evs) k = fst (run1 H hash heqb S skel_eqb (m k) (events_of S K keqb k evs)) /\
  answers_of S K keqb k evs (snd (run H hash heqb S skel_eqb K keqb m evs)) =
  snd (run1 H hash heqb S skel_eqb (m k) (events_of S K keqb k evs)).
Proof. exact run_frame. Qed.
Print Assumptions C16_handler_files_independent.

(* SESSION SOUNDNESS, with the file that is really on disk.  Generations pre, then (o, u), then rest, through a fresh
   handler.  If every answer AFTER the one for (o, u) is "no recompilation" - the program that is running was compiled
   from u, at the handler's last recompile request (or at the start) - then at the end of the session there is a text
   file on disk, and reading it the running program renders, from every position, in every state, with every fuel,
   exactly what a fresh build of the last version renders. *)
Theorem C16_session_sound : forall (H : Type) (hash : bytes -> H) (zero : H) (heqb : H -> H -> bool),
  (forall a b, heqb a b = true <-> a = b) ->
  forall (St : Type) (sem : sink -> bytes -> bytes) (ev_str : St -> bytes -> bytes) (ev_bool : St -> bytes -> bool)
  (code : bytes -> nat -> St -> option (St * bytes * nat))
  (pre : list (gen_opts * list uop)) (o : gen_opts) (u : list uop) (rest : list (gen_opts * list uop)),
  let gs := gen_outs (pre ++ (o, u) :: rest) in
  let r := run1 H hash heqb (list uop) skel_eqb (h_new H zero (list uop)) gs in
  collision_free H hash zero (map (text_of (list uop)) gs) ->
  forallb (fun a => negb (r_go a)) (skipn (Datatypes.S (length pre)) (snd r)) = true ->
  lits_ok (snd (last rest (o, u))) = true ->
  exists file, h_disk (fst r) = Some file /\
    forall (fuel pc : nat) (s : St),
    exec St sem ev_str ev_bool code (lk_dev file) fuel (compile u) pc s =
    exec St sem ev_str ev_bool code lk_normal fuel (compile (snd (last rest (o, u)))) pc s.
Proof. exact session_sound. Qed.
Print Assumptions C16_session_sound.

(* REGRESSION: the write must be guarded by a hash of the JOINED text.  With the hash taken of the literals streamed
   one after another (handle_by concat), moving an expression through static text -  p l { s } q  ->  p { s } l q  -
   keeps the concatenation, the literal count, the expression list and the skeleton: the second generation is answered
   (GoUpdated, TextUpdated) = (false, false), the file on disk stays the FIRST version's, differs from the second
   version's, and the running program renders other bytes than a fresh build.  For every hash function that is never
   the zero array, every writer semantics that writes some value non-empty, every meaning of other statements. *)
Theorem C16_unseparated_hash_refuted : forall (H : Type) (hash : bytes -> H) (zero : H) (heqb : H -> H -> bool),
  (forall a b, heqb a b = true <-> a = b) ->
  forall (St : Type) (sem : sink -> bytes -> bytes) (ev_bool : St -> bytes -> bool)
  (code : bytes -> nat -> St -> option (St * bytes * nat)),
  (forall t, hash t <> zero) ->
  forall (x : bytes) (c0 : byte) (rest : bytes) (s : St), sem SText x = c0 :: rest -> exists l : byte,
  let r := run1_by H hash heqb (list uop) skel_eqb (@concat byte) (h_new H zero (list uop)) [gen_out o0 (wm l); gen_out o0 (wm' l)] in
  map r_go (snd r) = [true; false] /\ map r_text (snd r) = [true; false] /\ lits_ok (wm' l) = true /\
  h_disk (fst r) = Some (text_file (lits (wm l))) /\ text_file (lits (wm l)) <> text_file (lits (wm' l)) /\
  exec St sem (fun _ _ => x) ev_bool code (lk_dev (text_file (lits (wm l)))) 8 (compile (wm l)) 0 s <>
  exec St sem (fun _ _ => x) ev_bool code lk_normal 8 (compile (wm' l)) 0 s.
Proof. exact unseparated_hash_refuted. Qed.
Print Assumptions C16_unseparated_hash_refuted.

(* non-vacuity, with the instance the extracted model runs (the hash of a text is the text; zero = None): an edit
   that moves { name } into the next list item and its revert.  No recompilation, the file is rewritten both times
   and ends as the first version's; the hypotheses on the hash hold; with the unseparated hash nothing is rewritten *)
Example C16_ex_session :
  let A := [ULit (bs "<li>Logged in as "); UExpr SText (bs "name"); ULit (bs "</li><li></li>")] in
  let B := [ULit (bs "<li>Logged in as </li><li>"); UExpr SText (bs "name"); ULit (bs "</li>")] in
  let gs := gen_outs [(o0, A); (o0, B); (o0, A)] in
  let r := run1 (option bytes) id_hash oeqb (list uop) skel_eqb (h_new (option bytes) None (list uop)) gs in
  map r_go (snd r) = [true; false; false] /\ map r_text (snd r) = [true; true; true] /\
  h_disk (fst r) = Some (bs "<li>Logged in as " ++ [x0a] ++ bs "</li><li></li>") /\
  h_disk (fst (run1 (option bytes) id_hash oeqb (list uop) skel_eqb (h_new (option bytes) None (list uop)) (gen_outs [(o0, A); (o0, B)])))
    = Some (bs "<li>Logged in as </li><li>" ++ [x0a] ++ bs "</li>") /\
  map r_text (snd (run1_by (option bytes) id_hash oeqb (list uop) skel_eqb (@concat byte) (h_new (option bytes) None (list uop)) gs)) = [true; false; false] /\
  collision_free (option bytes) id_hash None (map (text_of (list uop)) gs) /\
  (forall a b, oeqb a b = true <-> a = b) /\ (forall t, id_hash t <> None).
Proof.
  split; [vm_compute; reflexivity|]. split; [vm_compute; reflexivity|]. split; [vm_compute; reflexivity|].
  split; [vm_compute; reflexivity|]. split; [vm_compute; reflexivity|].
  split; [apply id_hash_collision_free|]. split; [exact oeqb_spec|discriminate].
Qed.

(* ---------- the literals of the WHOLE generator model (model/Gen.v: generate = generator.Generate, tied to the
   real generator byte for byte by the C02/C07 harness) ---------- *)
From V Require Import model.Ast model.Gen proofs.RangeWriterProof proofs.GenAddsProof proofs.GenLitProof.

(* For every file name and EVERY template file: the literal counter ends at the number of literals handed to the
   text file, no literal is left pending, and the generated Go text is
       gap_1 ++ WriteString-call(1, literal_1) ++ gap_2 ++ WriteString-call(2, literal_2) ++ ... ++ tail
   in emission order: the i-th call carries index i and the i-th literal - what the watch-mode text file relies on. *)
Theorem C16_literal_indices : forall (fn : bytes) (f : file),
  Gen.index (Gen.w (gen_state fn f)) = length (snd (Gen.generate fn f)) /\
  Gen.inlit (Gen.w (gen_state fn f)) = false /\
  exists (segs : list (bytes * nat * bytes)) (tail : bytes),
    fst (Gen.generate fn f) = calls_text 0 segs ++ tail /\ map snd segs = snd (Gen.generate fn f).
Proof. exact literal_indices. Qed.
Print Assumptions C16_literal_indices.

(* the writer: the counter and the literal list change in closeLiteral only - by one, recording the pending
   literal and writing the call line with the new index; Write/WriteIndent text and WriteStringLiteral keep them *)
Theorem C16_writer_literal_steps :
  (forall (lvl : nat) (w : Gen.rw),
     Gen.index (Gen.close_literal lvl w) = S (Gen.index w) /\
     Gen.lits (Gen.close_literal lvl w) = concat (rev (Gen.builder w)) :: Gen.lits w /\
     outtext (Gen.close_literal lvl w) = outtext w ++ ws_line lvl (S (Gen.index w)) (concat (rev (Gen.builder w))) ++ Gen.err_handler_text lvl) /\
  (forall (s : bytes) (w : Gen.rw), Gen.index (Gen.raw s w) = Gen.index w /\ Gen.lits (Gen.raw s w) = Gen.lits w) /\
  (forall (s : bytes) (w : Gen.rw), Gen.index (Gen.wl_ s w) = Gen.index w /\ Gen.lits (Gen.wl_ s w) = Gen.lits w /\ Gen.out (Gen.wl_ s w) = Gen.out w).
Proof. exact writer_literal_steps. Qed.
Print Assumptions C16_writer_literal_steps.

(* For every file whose element and attribute names are plain after html.EscapeString (the parser allows only
   ASCII letters, digits and - . : _ @ * in names): every literal is a concatenation of pieces, each of which is
   escapeQuotes (Gen.qesc) of some bytes, plain ASCII text without double quote, backslash and LF, or the two bytes
   backslash double-quote.  Hence it scans as one Go string literal and holds no raw LF (one line of the text file). *)
Theorem C16_literals_are_quoted : forall (fn : bytes) (f : file), file_named pl any_bytes f ->
  Forall (fun lit : bytes => (exists ps : list piece, forallb piece_ok ps = true /\ lit = glit_text ps) /\
                             scan_ok lit = true /\ no_byte x0a lit = true) (snd (Gen.generate fn f)).
Proof.
  exact (fun fn f H => Forall_impl _ (fun a Ha => conj Ha (built_scan_ok a Ha)) (literals_are_quoted fn f H)).
Qed.
Print Assumptions C16_literals_are_quoted.

(* Gen.qesc (non-ASCII bytes pass through) and strconv.Quote (model/Quote.v, parametric in IsPrint) agree on valid
   UTF-8 whose non-ASCII runes are printable - in particular on ASCII text - for every oracle that is right on ASCII *)
Theorem C16_qesc_is_quote : forall (is_print : N -> bool), ascii_print_ok is_print ->
  (forall s : bytes, printable is_print s = true -> quote is_print s = Gen.qesc s) /\
  (forall s : bytes, ascii s = true -> quote is_print s = Gen.qesc s).
Proof. exact (fun ip H => conj (qesc_quote ip H) (qesc_quote_ascii ip H)). Qed.
Print Assumptions C16_qesc_is_quote.

(* ... so for files with plain names and printable static text every generator literal is a literal of
   C16_literal_roundtrip: it reads back through strconv.Unquote as the bytes the author wrote *)
Theorem C16_generated_literals_roundtrip : forall (is_print : N -> bool), ascii_print_ok is_print -> is_print 10 = false ->
  forall (fn : bytes) (f : file), file_named pl (printable is_print) f ->
  Forall (fun lit : bytes => exists ps : list piece, forallb piece_ok ps = true /\ lit = lit_text is_print ps /\
                             unquote lit = Some (lit_value ps) /\ scan_ok lit = true) (snd (Gen.generate fn f)).
Proof. exact (fun ip H1 H2 fn f H => generated_literals_roundtrip ip H1 fn f H2 H). Qed.
Print Assumptions C16_generated_literals_roundtrip.

(* non-vacuity: Go's own table is right on ASCII; a file with a constant attribute holding a quote and a backslash,
   a URL attribute, text with a quote and a newline, and a string expression: its three literals *)
Example C16_ex_go_oracle : ascii_print_ok go_is_print /\ go_is_print 10 = false.
Proof. split; [exact go_ascii_print_ok|vm_compute; reflexivity]. Qed.
Example C16_ex_generated_literals :
  file_named pl (printable go_is_print) lit_file /\
  snd (Gen.generate (bs "t.templ") lit_file) = [bs "<a title=\""x\\&#34;y\"" href=\"""; bs "\"">a\""b\n"; bs "</a>"] /\
  Gen.index (Gen.w (gen_state (bs "t.templ") lit_file)) = 3%nat.
Proof. split; [exact lit_file_named|split; vm_compute; reflexivity]. Qed.

(* ---------- the repaired decision on the generator model's own output (proofs/WatchGenProof.v) ----------
   lit_file, the same file after a text-only edit (constant attribute, text and the positions of both expressions
   change) and after moving the expression u from href (URL writer) to title (attribute writer). *)
From V Require Import proofs.WatchGenProof.
Example C16_ex_generator_skeleton :
  let c  := fst (Gen.generate (bs "t.templ") lit_file) in
  let c' := fst (Gen.generate (bs "t.templ") lit_file_text) in
  let es := [bs "u"; bs "s"] in
  (* both are well-formed programs of lines whose literals are the generator's literal list *)
  wf_code c = true /\ wf_code c' = true /\ op_lits (ops_of_code c') = snd (Gen.generate (bs "t.templ") lit_file_text) /\
  (* the text-only edit changes the code (literals, Line, Col) but not the skeleton: no recompilation *)
  bytes_eqb c c' = false /\ has_changed bytes_eqb (gen_output_of ot es lit_file) (gen_output_of ot es lit_file_text) = false /\
  (* the moved expression passes the old criterion and is caught by the skeleton *)
  expr_list_criterion (gen_output_of ot es lit_file) (gen_output_of ot es lit_file_sink) = false /\
  has_changed bytes_eqb (gen_output_of ot es lit_file) (gen_output_of ot es lit_file_sink) = true /\
  (* the old file run as a program of lines (every other line a no-op) on the new text file shows the new text *)
  exec unit (fun _ v => v) (fun _ _ => []) (fun _ _ => true) (fun _ pc _ => Some (tt, [], S pc))
       (lk_dev (text_file (snd (Gen.generate (bs "t.templ") lit_file_text)))) 100%nat (ops_of_code c) 0%nat tt =
  Some (bs "<a title=""other \ title"" href="""">c" ++ [x0a] ++ bs "d</a>").
Proof. repeat split; vm_compute; reflexivity. Qed.
