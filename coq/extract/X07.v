(* Extraction entry point for C07 (and the generator text tie shared with C02). *)
From Coq.Strings Require Import Byte String.
From Coq Require Import List Arith NArith Bool.
Import ListNotations.
From V Require Import lib.Bytes lib.Sexp model.Ast model.Gen model.SourceMap spec.SmSpec model.ProxyCache model.GenOpts.
Require Extraction.
Require Import ExtrOcamlBasic.

Definition isf (f : bytes) (s : string) : bool := bytes_eqb f (bs s).
Definition arg (n : nat) (a : list bytes) : bytes := nth n a [].

(* "proxy": four arguments per notification: didOpen|didChange|didClose, uri, text (didOpen: the opened text; didChange:
   the held text after Document.Apply), AST wire of that text (empty = parseTemplate / Generate rejects it).
   reply: three fields per notification for the touched uri: held text, cached tables (dumped), Go text at gopls; each
   "-" when absent, else "+" followed by the value. *)
Fixpoint proxy_events (a : list bytes) : list pev * list (bytes * file) :=
  match a with
  | op :: u :: t :: enc :: r =>
      let '(evs, tbl) := proxy_events r in
      let tbl' := match enc with
                  | [] => tbl
                  | _ => match parse_all enc with
                         | Some x => match dfile x with Some fl => (t, fl) :: tbl | None => tbl end
                         | None => tbl end
                  end in
      ((if isf op "didOpen" then Open u t else if isf op "didClose" then Close u else Change u t) :: evs, tbl')
  | _ => ([], [])
  end.
Definition show_opt (o : option bytes) : bytes := match o with Some v => x2b :: v | None => [x2d] end.
Definition show_tables (m : smap * smap) : bytes :=
  flat_map (show_entry "S") (fst m) ++ flat_map (show_entry "T") (snd m).
Definition proxy_reply (a : list bytes) : list bytes :=
  let '(evs, tbl) := proxy_events a in
  flat_map (fun o => let '(h, c, g) := o in [show_opt h; show_opt (option_map show_tables c); show_opt g])
           (trace (fun t => lookup t tbl) pinit evs).

(* "geno": the options given to generator.Generate, in order, as (constructor name, value) pairs after the AST wire:
   WithVersion v | WithTimestamp d (d = the formatted date) | WithFileName n | WithSkipCodeGeneratedComment (value unused).
   A name that is not one of the modelled constructors makes the whole request fail. *)
Fixpoint opts_of (a : list bytes) : option (list gopt) :=
  match a with
  | k :: v :: r =>
      match opts_of r with
      | None => None
      | Some l =>
          if isf k "WithVersion" then Some (OVersion v :: l)
          else if isf k "WithTimestamp" then Some (OTimestamp v :: l)
          else if isf k "WithFileName" then Some (OFileName v :: l)
          else if isf k "WithSkipCodeGeneratedComment" then Some (OSkipComment :: l)
          else None
      end
  | [] => Some []
  | _ => None
  end.
Definition show_bool (b : bool) : bytes := if b then bs "true" else bs "false".

Definition dispatch (f : bytes) (a : list bytes) : list bytes :=
  if isf f "geno" then
    (* args: AST wire, then the option pairs.  reply: status, code, source map dump, literals (joined by LF), and the
       GeneratorOptions record the options leave: Version, FileName, SkipCodeGeneratedComment, GeneratedDate *)
    match parse_all (arg 0 a), opts_of (tl a) with
    | Some x, Some os => match dfile x with
                | Some fl => let '(code, lits, sm) := generate_all_o os fl in
                             let o := apply_opts os in
                             [bs "ok"; code; sm; join_with [x0a] lits; o_version o; o_fname o; show_bool (o_skip o); o_date o]
                | None => [bs "decode-ast"] end
    | None, _ => [bs "decode-sexp"]
    | _, None => [bs "bad-option"] end
  else
  if isf f "gen" then
    (* args: file name, AST wire.  reply: status, code, source map dump, literals (joined by LF) *)
    match parse_all (arg 1 a) with
    | Some x => match dfile x with
                | Some fl => let '(code, lits, sm) := generate_all (arg 0 a) fl in
                             [bs "ok"; code; sm; join_with [x0a] lits]
                | None => [bs "decode-ast"] end
    | None => [bs "decode-sexp"] end
  else if isf f "faithful" then
    (* args: source text, generated text, source map dump (as printed by the implementation), AST wire.
       reply: number of (expression, offset) pairs checked; list of failures (empty = the add_faithful predicate holds) *)
    match parse_all (arg 3 a) with
    | Some x => match dfile x with
                | Some fl => let r := check_faithful (arg 0 a) (arg 1 a) (parse_dump (arg 2 a)) fl in
                             [bs "ok"; show_nat (fst r); snd r]
                | None => [bs "decode-ast"] end
    | None => [bs "decode-sexp"] end
  else if isf f "proxy" then proxy_reply a
  else [bs "?"].

Extraction "model.ml" dispatch.
