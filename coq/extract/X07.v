(* Extraction entry point for C07 (and the generator text tie shared with C02). *)
From Coq.Strings Require Import Byte String.
From Coq Require Import List Arith NArith Bool.
Import ListNotations.
From V Require Import lib.Bytes lib.Sexp model.Ast model.Gen model.SourceMap spec.SmSpec.
Require Extraction.
Require Import ExtrOcamlBasic.

Definition isf (f : bytes) (s : string) : bool := bytes_eqb f (bs s).
Definition arg (n : nat) (a : list bytes) : bytes := nth n a [].

Definition dispatch (f : bytes) (a : list bytes) : list bytes :=
  if isf f "gen" then
    (* args: file name, AST wire.  reply: status, code, source map dump, literals (joined by LF) *)
    match parse_all (arg 1 a) with
    | Some x => match dfile x with
                | Some fl => let '(code, lits, sm) := generate_all (arg 0 a) fl in
                             [bs "ok"; code; sm; join_with [x0a] lits]
                | None => [bs "decode-ast"] end
    | None => [bs "decode-sexp"] end
  else if isf f "faithful" then
    (* args: source text, generated text, source map dump (as printed by the implementation), AST wire.
       reply: number of (expression, offset) pairs checked; list of failures (empty = the add_faithful predicate holds) *)
    match parse_all (arg 3 a) with
    | Some x => match dfile x with
                | Some fl => let r := check_faithful (arg 0 a) (arg 1 a) (parse_dump (arg 2 a)) fl in
                             [bs "ok"; show_nat (fst r); snd r]
                | None => [bs "decode-ast"] end
    | None => [bs "decode-sexp"] end
  else [bs "?"].

Extraction "model.ml" dispatch.
