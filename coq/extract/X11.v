(* Extraction entry point for C11: one generic [dispatch] over byte strings.
   Requests
     serve  MODE STATUS CTYPE FAILS NCHUNKS chunk*  EHFLAG NOPS (kind a b)*  RESP_real  RESP_eh
       MODE "b" buffered / "s" streamed; STATUS, NCHUNKS, NOPS decimal; FAILS, EHFLAG "0"/"1";
       op kinds: S k v | D k - | H code - | W p - | E msg code;
       RESP = status nheaders (k v)* body   (headers sorted by key)
       RESP_real: what the real handler answered; RESP_eh: what the real error handler answers on its own.
       reply: model=real?  all_or_nothing_b on the real response?  model's eh_alone = RESP_eh?
              model status, model headers ("k: v\n" each), model body length
     rw     NOPS (kind a b)*  RESP_real
       reply: model=real?  model status, headers, body length *)
From Coq.Strings Require Import Byte String.
From Coq Require Import List NArith Bool.
Import ListNotations.
From V Require Import lib.Bytes spec.HandlerSpec model.Handler.
Require Extraction.
Require Import ExtrOcamlBasic.
Open Scope N_scope.

Definition is (f : bytes) (s : string) : bool := bytes_eqb f (bs s).
Definition num (b : bytes) : N := match undec b with Some n => n | None => 0 end.
Definition flag (b : bytes) : bool := bytes_eqb b [x31].

Fixpoint take (n : nat) (a : list bytes) : list bytes * list bytes :=
  match n with
  | O => ([], a)
  | S n' => match a with
            | x :: r => let '(l, r') := take n' r in (x :: l, r')
            | [] => ([], [])
            end
  end.
Fixpoint take_pairs (n : nat) (a : list bytes) : headers * list bytes :=
  match n with
  | O => ([], a)
  | S n' => match a with
            | k :: v :: r => let '(l, r') := take_pairs n' r in ((k, v) :: l, r')
            | _ => ([], [])
            end
  end.
Definition mkop (kind x y : bytes) : eh_op :=
  if is kind "S" then OSet x y
  else if is kind "D" then ODel x
  else if is kind "H" then OWriteHeader (num x)
  else if is kind "W" then OWrite x
  else OError x (num y).
Fixpoint take_ops (n : nat) (a : list bytes) : list eh_op * list bytes :=
  match n with
  | O => ([], a)
  | S n' => match a with
            | kind :: x :: y :: r => let '(l, r') := take_ops n' r in (mkop kind x y :: l, r')
            | _ => ([], [])
            end
  end.
Definition bad_resp : resp := {| r_status := 0; r_hdr := []; r_body := [] |}.
Definition take_resp (a : list bytes) : resp * list bytes :=
  match a with
  | st :: nh :: r =>
      let '(h, r1) := take_pairs (N.to_nat (num nh)) r in
      match r1 with
      | body :: r2 => ({| r_status := num st; r_hdr := h; r_body := body |}, r2)
      | [] => (bad_resp, [])
      end
  | _ => (bad_resp, [])
  end.

Definition show_hdr (h : headers) : bytes :=
  concat (map (fun kv => fst kv ++ [x3a; x20] ++ snd kv ++ [x0a]) h).
Definition show (r : resp) : list bytes :=
  [dec (r_status r); show_hdr (r_hdr r); dec (N.of_nat (length (r_body r)))].

Definition do_serve (a : list bytes) : list bytes :=
  match a with
  | mode :: st :: ct :: fl :: nch :: r =>
      let '(chs, r1) := take (N.to_nat (num nch)) r in
      match r1 with
      | ehf :: nops :: r2 =>
          let '(ops, r3) := take_ops (N.to_nat (num nops)) r2 in
          let '(real, r4) := take_resp r3 in
          let '(ehr, _) := take_resp r4 in
          let c := {| c_status := num st; c_ctype := ct;
                      c_errh := if flag ehf then Some (run_ops ops) else None;
                      c_stream := is mode "s" |} in
          let o := {| chunks := chs; fails := flag fl |} in
          let m := observe (serve c o) in
          let ehtie := match eh_alone c with Some e => resp_eqb e ehr | None => true end in
          let spec := all_or_nothing_b (num st) ct (if flag ehf then Some ehr else None) (document o) (flag fl) real in
          b2 (resp_eqb m real) :: b2 spec :: b2 ehtie :: show m
      | _ => [bs "?args"]
      end
  | _ => [bs "?args"]
  end.

Definition do_rw (a : list bytes) : list bytes :=
  match a with
  | nops :: r =>
      let '(ops, r1) := take_ops (N.to_nat (num nops)) r in
      let '(real, _) := take_resp r1 in
      let m := observe (run_ops ops fresh) in
      b2 (resp_eqb m real) :: show m
  | _ => [bs "?args"]
  end.

Definition dispatch (f : bytes) (a : list bytes) : list bytes :=
  if is f "serve" then do_serve a
  else if is f "rw" then do_rw a
  else [bs "?"].

Extraction "model.ml" dispatch.
