(* Extraction entry point for C11: one generic [dispatch] over byte strings.
   Requests
     serve  VIA REQ  MODE STATUS CTYPE AWARE FAILS NCHUNKS chunk*  EHFLAG NOPS (kind a b)*  RESP_real  RESP_eh
       VIA "r": responses observed at the ResponseWriter (recorder) / "s": by the HTTP client of the request;
       REQ = METHOD MAJOR MINOR TARGET CTX NHEADERS (k v)* BODY, CTX "live" | "ahead" | "canceled" | "exceeded";
       MODE "b" buffered / "s" streamed; STATUS, NCHUNKS, NOPS decimal; AWARE, FAILS, EHFLAG "0"/"1"
       (AWARE: the component returns ctx.Err() before writing anything if the context is done);
       op kinds: S k v | D k - | H code - | W p - | E msg code | R k - (echo of the request);
       RESP = status nheaders (k v)* body   (headers sorted by key)
       RESP_real: what the real handler answered; RESP_eh: what the real error handler answers on its own
       to the same request.
       reply: model=real?  specification predicate on the real response (all_or_nothing_b; for VIA "s"
              all_or_nothing_wire_b with head = the method is HEAD)?  model's eh_alone = RESP_eh?
              model status, model headers ("k: v\n" each), model body length
     rw     VIA REQ  NOPS (kind a b)*  RESP_real
       reply: model=real?  model status, headers, body length
     compose VIA REQ  MODE STATUS CTYPE  NTOK tok*  EHFLAG NOPS (kind a b)*  RESP_real  RESP_eh  RERR ROUT
       the component is a composition of templ's combinators (spec/CompSpec.v), in prefix form:
         N | L fail nchunks chunk* | R bytes | S a b | F c | O h c | P h c | T c | M n c
       RERR/ROUT: whether the real composition's Render returned an error and what it wrote, rendered directly
       with a context in the state of REQ's.
       reply: model=real (response)?  specification predicate on the real response, with the document and
              "failed" of the composition (all_or_nothing_wire_b)?  model's eh_alone = RESP_eh?
              Render contract: RERR = the model's verdict and ROUT = the model's bytes?
              model fails ("1"/"0"), length of the model's bytes, model status, headers, body length *)
From Coq.Strings Require Import Byte String.
From Coq Require Import List NArith Bool.
Import ListNotations.
From V Require Import lib.Bytes spec.HandlerSpec spec.CompSpec model.Handler model.CompModel.
Require Extraction.
Require Import ExtrOcamlBasic.
Open Scope N_scope.

Definition is (f : bytes) (s : string) : bool := bytes_eqb f (bs s).
Definition num (b : bytes) : N := match undec b with Some n => n | None => 0 end.
Definition flag (b : bytes) : bool := bytes_eqb b [x31].

Fixpoint take (n : nat) (a : list bytes) : list bytes * list bytes :=
  match n with
  | O => ([], a)
  | S n' => match a with
            | x :: r => let '(l, r') := take n' r in (x :: l, r')
            | [] => ([], [])
            end
  end.
Fixpoint take_pairs (n : nat) (a : list bytes) : headers * list bytes :=
  match n with
  | O => ([], a)
  | S n' => match a with
            | k :: v :: r => let '(l, r') := take_pairs n' r in ((k, v) :: l, r')
            | _ => ([], [])
            end
  end.
Definition mkop (kind x y : bytes) : eh_op :=
  if is kind "S" then OSet x y
  else if is kind "D" then ODel x
  else if is kind "H" then OWriteHeader (num x)
  else if is kind "W" then OWrite x
  else if is kind "R" then OEcho x
  else OError x (num y).
Fixpoint take_ops (n : nat) (a : list bytes) : list eh_op * list bytes :=
  match n with
  | O => ([], a)
  | S n' => match a with
            | kind :: x :: y :: r => let '(l, r') := take_ops n' r in (mkop kind x y :: l, r')
            | _ => ([], [])
            end
  end.
Definition bad_resp : resp := {| r_status := 0; r_hdr := []; r_body := [] |}.
Definition take_resp (a : list bytes) : resp * list bytes :=
  match a with
  | st :: nh :: r =>
      let '(h, r1) := take_pairs (N.to_nat (num nh)) r in
      match r1 with
      | body :: r2 => ({| r_status := num st; r_hdr := h; r_body := body |}, r2)
      | [] => (bad_resp, [])
      end
  | _ => (bad_resp, [])
  end.

Definition mkctx (b : bytes) : ctx_state :=
  if is b "ahead" then CtxDeadlineAhead else if is b "canceled" then CtxCanceled
  else if is b "exceeded" then CtxDeadlineExceeded else CtxLive.
Definition bad_req : request :=
  {| q_method := []; q_major := 0; q_minor := 0; q_target := []; q_hdr := []; q_body := []; q_ctx := CtxLive |}.
Definition take_req (a : list bytes) : request * list bytes :=
  match a with
  | m :: ma :: mi :: tg :: cx :: nh :: r =>
      let '(h, r1) := take_pairs (N.to_nat (num nh)) r in
      match r1 with
      | body :: r2 => ({| q_method := m; q_major := num ma; q_minor := num mi; q_target := tg; q_hdr := h;
                          q_body := body; q_ctx := mkctx cx |}, r2)
      | [] => (bad_req, [])
      end
  | _ => (bad_req, [])
  end.
(* how the response was observed *)
Definition view (via : bytes) (q : request) (r : resp) : resp := if is via "s" then client_view q r else r.

Definition show_hdr (h : headers) : bytes :=
  concat (map (fun kv => fst kv ++ [x3a; x20] ++ snd kv ++ [x0a]) h).
Definition show (r : resp) : list bytes :=
  [dec (r_status r); show_hdr (r_hdr r); dec (N.of_nat (length (r_body r)))].

Definition do_serve (a0 : list bytes) : list bytes :=
  match a0 with [] => [bs "?args"] | via :: a1 =>
  let '(q, a) := take_req a1 in
  match a with
  | mode :: st :: ct :: aw :: fl :: nch :: r =>
      let '(chs, r1) := take (N.to_nat (num nch)) r in
      match r1 with
      | ehf :: nops :: r2 =>
          let '(ops, r3) := take_ops (N.to_nat (num nops)) r2 in
          let '(real, r4) := take_resp r3 in
          let '(ehr, _) := take_resp r4 in
          let c := {| c_status := num st; c_ctype := ct;
                      c_errh := if flag ehf then Some (run_ops ops) else None;
                      c_stream := is mode "s" |} in
          let k := comp_of (flag aw) {| chunks := chs; fails := flag fl |} in
          let o := k (q_ctx q) in
          let m := view via q (observe (serve q c k)) in
          let ehtie := match eh_alone q c with Some e => resp_eqb (view via q e) ehr | None => true end in
          let spec := all_or_nothing_wire_b (is via "s" && is_head q) (num st) ct (if flag ehf then Some ehr else None)
                        (document o) (fails o) real in
          b2 (resp_eqb m real) :: b2 spec :: b2 ehtie :: show m
      | _ => [bs "?args"]
      end
  | _ => [bs "?args"]
  end end.

Definition do_rw (a0 : list bytes) : list bytes :=
  match a0 with [] => [bs "?args"] | via :: a1 =>
  let '(q, a) := take_req a1 in
  match a with
  | nops :: r =>
      let '(ops, r1) := take_ops (N.to_nat (num nops)) r in
      let '(real, _) := take_resp r1 in
      let m := view via q (observe (run_ops ops q fresh)) in
      b2 (resp_eqb m real) :: show m
  | _ => [bs "?args"]
  end end.

(* a composition in prefix form *)
Fixpoint parse_comp (fuel : nat) (a : list bytes) : comp * list bytes :=
  match fuel with
  | O => (CNop, a)
  | S k =>
    match a with
    | [] => (CNop, [])
    | t :: r =>
      if is t "L" then
        match r with
        | fl :: n :: r1 => let '(chs, r2) := take (N.to_nat (num n)) r1 in (CLeaf chs (flag fl), r2)
        | _ => (CNop, [])
        end
      else if is t "R" then match r with b :: r1 => (CRaw b, r1) | [] => (CNop, []) end
      else if is t "S" then
        let '(x, r1) := parse_comp k r in let '(y, r2) := parse_comp k r1 in (CSeq x y, r2)
      else if is t "F" then let '(x, r1) := parse_comp k r in (CFlush x, r1)
      else if is t "T" then let '(x, r1) := parse_comp k r in (CTempl x, r1)
      else if is t "O" then
        match r with h :: r0 => let '(x, r1) := parse_comp k r0 in (COnce (N.to_nat (num h)) x, r1) | [] => (CNop, []) end
      else if is t "P" then
        match r with h :: r0 => let '(x, r1) := parse_comp k r0 in (COnceC (N.to_nat (num h)) x, r1) | [] => (CNop, []) end
      else if is t "M" then
        match r with n :: r0 => let '(x, r1) := parse_comp k r0 in (CLimit (num n) x, r1) | [] => (CNop, []) end
      else (CNop, r)
    end
  end.

Definition do_compose (a0 : list bytes) : list bytes :=
  match a0 with [] => [bs "?args"] | via :: a1 =>
  let '(q, a) := take_req a1 in
  match a with
  | mode :: st :: ct :: ntok :: r =>
      let '(toks, r1) := take (N.to_nat (num ntok)) r in
      let t := fst (parse_comp (S (length toks)) toks) in
      match r1 with
      | ehf :: nops :: r2 =>
          let '(ops, r3) := take_ops (N.to_nat (num nops)) r2 in
          let '(real, r4) := take_resp r3 in
          let '(ehr, r5) := take_resp r4 in
          match r5 with
          | rerr :: rout :: _ =>
              let c := {| c_status := num st; c_ctype := ct;
                          c_errh := if flag ehf then Some (run_ops ops) else None;
                          c_stream := is mode "s" |} in
              let '(x, f, _) := run (ctx_done (q_ctx q)) t None in
              let m := view via q (observe (serve q c (comp_component t))) in
              let ehtie := match eh_alone q c with Some e => resp_eqb (view via q e) ehr | None => true end in
              let spec := all_or_nothing_wire_b (is via "s" && is_head q) (num st) ct (if flag ehf then Some ehr else None)
                            x f real in
              let contract := Bool.eqb (flag rerr) f && bytes_eqb rout x in
              b2 (resp_eqb m real) :: b2 spec :: b2 ehtie :: b2 contract :: b2 f :: dec (N.of_nat (length x)) :: show m
          | _ => [bs "?args"]
          end
      | _ => [bs "?args"]
      end
  | _ => [bs "?args"]
  end end.

Definition dispatch (f : bytes) (a : list bytes) : list bytes :=
  if is f "serve" then do_serve a
  else if is f "rw" then do_rw a
  else if is f "compose" then do_compose a
  else [bs "?"].

Extraction "model.ml" dispatch.
