(* Extraction entry point for C05: one generic [dispatch] over byte strings. *)
From Coq.Strings Require Import Byte String.
From Coq Require Import List NArith Bool.
Import ListNotations.
From V Require Import lib.Bytes spec.Whatwg spec.CssScan gen.Tables05 model.Css.
From V Require Import spec.HtmlTok spec.HtmlRefs spec.HtmlEntities spec.CssSink model.CssRender.
Require Extraction.
Require Import ExtrOcamlBasic.

Definition is (f : bytes) (s : string) : bool := bytes_eqb f (bs s).
Definition arg (n : nat) (a : list bytes) : bytes := nth n a [].

(* the url.Parse oracle is supplied by the harness as answers of the real net/url:
   pairs (argument, answer) with answer = "0" for an error, "1" ++ scheme otherwise *)
Fixpoint oracle (t : list bytes) (s : bytes) : option bytes :=
  match t with
  | k :: r :: t' => if bytes_eqb k s then match r with x31 :: sc => Some sc | _ => None end else oracle t' s
  | _ => None
  end.

(* the bodies sanitizeBackgroundImage passes to urlIsSafe (every item that matches a url( form) *)
Definition bodies (v : bytes) : list bytes :=
  flat_map (fun item => match find_form url_forms (trim_css item) with Some b => [b] | None => [] end) (split_comma v).

Definition spec_reply (v : bytes) : list bytes := [b2 (confined v); b2 (urls_ok v)].

(* style-attribute values, prefix-coded as a token list:
   N | V | Z | T text | M n k1 v1 .. kn vn | S n k1 v1 .. | K k v | F value | E | L n value1 .. valuen | O *)
Fixpoint take_pairs (n : nat) (t : list bytes) : option (list (bytes * bytes) * list bytes) :=
  match n with
  | O => Some ([], t)
  | S n' => match t with
            | k :: v :: t' => match take_pairs n' t' with Some (l, r) => Some ((k, v) :: l, r) | None => None end
            | _ => None
            end
  end.
Definition count (b : bytes) : nat := match undec b with Some n => N.to_nat n | None => O end.
Fixpoint parse_sval (fuel : nat) (t : list bytes) : option (sval * list bytes) :=
  match fuel with O => None | S f =>
  match t with
  | [] => None
  | tag :: t' =>
      if is tag "N" then Some (VNil, t')
      else if is tag "O" then Some (VOther, t')
      else if is tag "V" then Some (VErrVal, t')
      else if is tag "E" then Some (VFuncErr, t')
      else if is tag "Z" then Some (VEmpty, t')
      else if is tag "T" then match t' with e :: r => Some (VText e, r) | [] => None end
      else if is tag "K" then match t' with k :: v :: r => Some (VKV k v, r) | _ => None end
      else if is tag "M" then match t' with n :: r => match take_pairs (count n) r with Some (l, r') => Some (VMap l, r') | None => None end | [] => None end
      else if is tag "S" then match t' with n :: r => match take_pairs (count n) r with Some (l, r') => Some (VSafeMap l, r') | None => None end | [] => None end
      else if is tag "F" then match parse_sval f t' with Some (v, r) => Some (VFunc v, r) | None => None end
      else if is tag "L" then
        match t' with
        | n :: r =>
            match (fix go (k : nat) (r : list bytes) : option (list sval * list bytes) :=
               match k with
               | O => Some ([], r)
               | S k' => match parse_sval f r with
                         | Some (v, r') => match go k' r' with Some (l, r'') => Some (v :: l, r'') | None => None end
                         | None => None
                         end
               end) (count n) r with
            | Some (l, r') => Some (VSlice l, r')
            | None => None
            end
        | [] => None
        end
      else None
  end end.
Fixpoint parse_svals (fuel : nat) (t : list bytes) : option (list sval) :=
  match fuel with O => None | S f =>
  match t with
  | [] => Some []
  | _ => match parse_sval (length t) t with
         | Some (v, r) => match parse_svals f r with Some l => Some (v :: l) | None => None end
         | None => None
         end
  end end.

Fixpoint flat_pairs (l : list (bytes * bytes)) : list bytes :=
  match l with [] => [] | (a, b) :: r => a :: b :: flat_pairs r end.

Definition decls_ok (t : bytes) (n : nat) : bool :=
  match decl_list t with
  | None => false
  | Some ds => Nat.eqb (length ds) n && forallb (fun d => name_ok (fst d) && confined (snd d) && urls_ok (snd d)) ds
  end.


(* ---- rendered documents, read as a browser reads them (spec/CssSink.v) ---- *)
(* structure signature: every token except attribute VALUES and the text inside <style> elements *)
Fixpoint tsig (ts : list token) (in_style : bool) : bytes :=
  match ts with
  | [] => []
  | TChar b :: r => if in_style then tsig r in_style else b :: tsig r in_style
  | TStart n a sc :: r => [x00; x3c] ++ n ++ flat_map (fun kv => x00 :: fst kv) a ++ (if sc then [x2f] else []) ++ [x00; x3e] ++ tsig r (isn n "style")
  | TEnd n :: r => [x00; x3c; x2f] ++ n ++ [x00; x3e] ++ tsig r false
  | TComment d :: r => [x00; x21] ++ d ++ [x00; x3e] ++ tsig r in_style
  | TDoctype d :: r => [x00; x44] ++ d ++ [x00; x3e] ++ tsig r in_style
  end.
(* css component properties, prefix-coded: C name value | D name expression-value *)
Fixpoint parse_cprops (fuel : nat) (t : list bytes) : list cprop :=
  match fuel with O => [] | S f =>
  match t with
  | tag :: n :: v :: r => if is tag "C" then CConst n v :: parse_cprops f r else if is tag "D" then CDyn n v :: parse_cprops f r else []
  | _ => []
  end end.

Definition dispatch (f : bytes) (a : list bytes) : list bytes :=
  if is f "css" then
    (* args: property, value, oracle pairs.  reply: model output; the specification predicates on it *)
    let '(p, v) := sanitize_css (oracle (skipn 2 a)) (arg 0 a) (arg 1 a) in
    [p; v; b2 (name_ok p); b2 (confined v); b2 (urls_ok v)]
  else if is f "bodies" then bodies (arg 0 a)
  else if is f "spec" then spec_reply (arg 0 a)
  else if is f "urls" then urls_of (arg 0 a)
  else if is f "name_ok" then [b2 (name_ok (arg 0 a))]
  else if is f "property" then [sanitize_property (arg 0 a)]
  else if is f "templ_css" then
    [templ_sanitize_css (oracle (skipn 3 a)) (bytes_eqb (arg 0 a) [x31]) (arg 1 a) (arg 2 a)]
  else if is f "go_scheme" then [go_scheme (arg 0 a); b2 (existsb ctl_byte (pre_hash (arg 0 a)))]
  else if is f "trim_space" then [trim_space (arg 0 a)]
  else if is f "space_runes" then space_runes
  else if is f "decl_list" then
    match decl_list (arg 0 a) with
    | None => [[x30]]
    | Some ds => [x31] :: flat_pairs ds
    end
  else if is f "decls_ok" then [b2 (decls_ok (arg 0 a) (count (arg 1 a)))]
  else if is f "style_attr" then
    (* args: number of oracle pairs n, the 2n oracle tokens, then the value tokens *)
    let n := count (arg 0 a) in
    let o := firstn (2 * n) (skipn 1 a) in
    let t := skipn (1 + 2 * n) a in
    match parse_svals (S (length t)) t with
    | None => [bs "?parse"]
    | Some vals => match style_attr (oracle o) vals with None => [[x30]] | Some out => [[x31]; out] end
    end
  else if is f "attr_doc" then
    (* args: the rendered document, element name, number of (name, value) pairs written.
       reply: style attribute found?; its raw value as tokenized; the CSS the browser's CSS parser receives
              (character references decoded); the END-TO-END predicate style_attr_okb; the structure signature *)
    let ts := tok (arg 0 a) in
    match find_style (arg 1 a) ts with
    | Some raw => let d := css_decode_attr raw in [[x31]; raw; d; b2 (decls_okb d (count (arg 2 a))); tsig ts false]
    | None => [[x30]; []; []; [x30]; tsig ts false]
    end
  else if is f "attr_value" then
    (* args: raw attribute value, number of pairs.  reply: decoded; decls_okb *)
    let d := css_decode_attr (arg 0 a) in [d; b2 (decls_okb d (count (arg 1 a)))]
  else if is f "style_doc" then
    (* args: the rendered document, then the number of properties of each class written.
       reply: number of style elements ("?" when one is not closed); text of the first; the END-TO-END predicate
              style_elem_okb on it; the structure signature *)
    let ts := tok (arg 0 a) in
    match style_scan ts None [] with
    | Some (t :: more) => [dec (N.of_nat (S (length more))); t; b2 (style_elem_okb t (map count (skipn 1 a))); tsig ts false]
    | Some [] => [[x30]; []; [x30]; tsig ts false]
    | None => [[x3f]; []; [x30]; tsig ts false]
    end
  else if is f "style_text_ok" then [b2 (style_elem_okb (arg 0 a) (map count (skipn 1 a)))]
  else if is f "css_body" then
    (* args: number of oracle pairs n, the 2n oracle tokens, then the property tokens.  reply: model css_body *)
    let n := count (arg 0 a) in
    let o := firstn (2 * n) (skipn 1 a) in
    let t := skipn (1 + 2 * n) a in
    [css_body (oracle o) (parse_cprops (length t) t)]
  else if is f "decode_attr" then [css_decode_attr (arg 0 a)]
  else [bs "?"].

Extraction "model.ml" dispatch.
