(* Extraction entry point for C03: one generic [dispatch] over byte strings.
   Everything structured (values, parameters, verdict bits) is encoded and decoded here, in Gallina. *)
From Coq.Strings Require Import Byte String.
From Coq Require Import List NArith Bool.
Import ListNotations.
From V Require Import lib.Bytes lib.Utf8 spec.JsLex spec.JsScript model.JsEsc model.JsTrack.
Require Extraction.
Require Import ExtrOcamlBasic.
Open Scope N_scope.

Definition is (f : bytes) (s : string) : bool := bytes_eqb f (bs s).
Definition arg (n : nat) (a : list bytes) : bytes := nth n a [].

(* ---- wire format for values:  n | t | f | #<len>:<token> | s<len>:<bytes> | [<count>:<v>... | {<count>:(<len>:<key><v>)... ---- *)
Fixpoint take_num (s : bytes) (acc : N) : option (N * bytes) :=
  match s with
  | [] => None
  | c :: r => if Byte.eqb c x3a then Some (acc, r)
              else if inr 48 57 c then take_num r (acc * 10 + (bN c - 48)) else None
  end.
Definition take_str (s : bytes) : option (bytes * bytes) :=
  match take_num s 0 with
  | Some (n, r) => Some (firstn (N.to_nat n) r, skipn (N.to_nat n) r)
  | None => None
  end.

Fixpoint dec_v (fuel : nat) (s : bytes) : option (jv * bytes) :=
  match fuel with
  | O => None
  | S f =>
      match s with
      | [] => None
      | c :: r =>
          if Byte.eqb c x6e then Some (JNull, r)
          else if Byte.eqb c x74 then Some (JBool true, r)
          else if Byte.eqb c x66 then Some (JBool false, r)
          else if Byte.eqb c x23 then
            match take_str r with Some (t, r') => Some (JNum t, r') | None => None end
          else if Byte.eqb c x73 then
            match take_str r with Some (t, r') => Some (JStr t, r') | None => None end
          else if Byte.eqb c x5b then
            match take_num r 0 with
            | Some (n, r') =>
                match (fix items (k : nat) (s : bytes) : option (list jv * bytes) :=
                         match k with
                         | O => Some ([], s)
                         | S k' => match dec_v f s with
                                   | Some (x, s') => match items k' s' with
                                                     | Some (l, s'') => Some (x :: l, s'')
                                                     | None => None
                                                     end
                                   | None => None
                                   end
                         end) (N.to_nat n) r' with
                | Some (l, r'') => Some (JArr l, r'')
                | None => None
                end
            | None => None
            end
          else if Byte.eqb c x7b then
            match take_num r 0 with
            | Some (n, r') =>
                match (fix items (k : nat) (s : bytes) : option (list (bytes * jv) * bytes) :=
                         match k with
                         | O => Some ([], s)
                         | S k' => match take_str s with
                                   | Some (key, s0) =>
                                       match dec_v f s0 with
                                       | Some (x, s') => match items k' s' with
                                                         | Some (l, s'') => Some ((key, x) :: l, s'')
                                                         | None => None
                                                         end
                                       | None => None
                                       end
                                   | None => None
                                   end
                         end) (N.to_nat n) r' with
                | Some (l, r'') => Some (JObj l, r'')
                | None => None
                end
            | None => None
            end
          else None
      end
  end.
Definition dec_value (s : bytes) : jv :=
  match dec_v (S (length s)) s with Some (v, _) => v | None => JNum (bs "!undecodable") end.

(* parameter:  e<js>  = templ.JSExpression,  v<value> = anything else *)
Definition dec_param (s : bytes) : param :=
  match s with
  | c :: r => if Byte.eqb c x65 then PExpr r else PVal (dec_value r)
  | [] => PVal JNull
  end.

Definition opt_eqb (o : option bytes) (s : bytes) : bool :=
  match o with Some x => bytes_eqb x s | None => false end.
Definition closes_at (q : quote) (out : bytes) : bool :=
  match lex_string q (out ++ qbyte q :: [x3b; x58]) with LClosed n => Nat.eqb n (length out) | _ => false end.

(* verdict of the in-literal specification on emitted bytes [out] for the intended string value [want]:
   one byte '1'/'0' per clause: clean, no raw U+2028/9, no script end,
   then per quote kind (single, double, backtick): literal closes at the author's quote, value = want *)
Definition inlit_bits (want out : bytes) : bytes :=
  map (fun b : bool => if b then x31 else x30)
    [ clean out; negb (has_lsps out); negb (has_script_end out);
      closes_at QSingle out; opt_eqb (js_unescape QSingle out) want;
      closes_at QDouble out; opt_eqb (js_unescape QDouble out) want;
      closes_at QBacktick out; opt_eqb (js_unescape QBacktick out) want ].

(* verdict of the bare-position specification on emitted bytes: cool, no raw U+2028/9, no script end *)
Definition bare_bits (out : bytes) : bytes :=
  map (fun b : bool => if b then x31 else x30)
    [ cool out; negb (has_lsps out); negb (has_script_end out) ].

(* a JSON string literal read as a JavaScript double-quoted literal: closes at its last byte and its value is [want] *)
Definition jstr_bits (want out : bytes) : bytes :=
  match out with
  | c :: body_q =>
      let body := removelast body_q in
      map (fun b : bool => if b then x31 else x30)
        [ Byte.eqb c x22;
          match lex_string QDouble body_q with LClosed n => Nat.eqb (S n) (length body_q) | _ => false end;
          opt_eqb (js_unescape QDouble body) want ]
  | [] => [x30; x30; x30]
  end.

(* ---- script level: a template is sent as  segment, hole's value index, segment, ..., segment ---- *)
Fixpoint dec_tpl (l : list bytes) : list sym :=
  match l with
  | [] => []
  | [seg] => map SB seg
  | seg :: idx :: rest => map SB seg ++ SH (match undec idx with Some n => N.to_nat n | None => O end) :: dec_tpl rest
  end.
Definition ser_tok (t : tok) : bytes :=
  match t with
  | TCode c => x43 :: c            (* C<text> *)
  | TStr (Some v) => x53 :: v      (* S<value> *)
  | TStr None => [x73]             (* s = literal whose body is ill-formed *)
  | TCom c => x4b :: c             (* K<text> *)
  | TStop w => [x58; w]            (* X<why> *)
  end.
Fixpoint ser_fevs (l : list fev) : bytes :=
  match l with
  | [] => []
  | FHole true :: r => x31 :: ser_fevs r
  | FHole false :: r => x30 :: ser_fevs r
  | FSwallowed :: r => x78 :: ser_fevs r
  | FEnd _ :: _ => [x45]
  end.
Fixpoint end_of (l : list fev) : bytes :=
  match l with [] => [x2d] | FEnd n :: _ => dec (N.of_nat n) | _ :: r => end_of r end.
(* args: number of values k, the k values, the implementation's rendering, then the template.
   reply: verdict bits (same tokens, same script-end places); lexical positions of the holes by the specification;
          the model tracker's verdicts on template ++ "</script>"; where the model says the contents end;
          the model's rendering; is the template in the fragment of C03_script_structure_partial;
          the specification's tokens of the template, "|", its tokens of the rendering *)
Definition script_reply (a : list bytes) : list bytes :=
  let k := match undec (arg 0 a) with Some n => N.to_nat n | None => O end in
  let vals := firstn k (skipn 1 a) in
  let out := nth (S k) a [] in
  let tpl := dec_tpl (skipn (S (S k)) a) in
  let tr := track (tpl ++ map SB end_tag) in
  [ [if same_tokens vals tpl out then x31 else x30; if same_ends tpl out then x31 else x30];
    map (fun b : bool => if b then x31 else x30) (positions (lex_script vals tpl));
    ser_fevs tr; end_of tr;
    render (flags tr) vals tpl;
    b2 (fragment vals tpl) ]
  ++ map ser_tok (toks_of (lex_script vals tpl)) ++ [[x7c]] ++ map ser_tok (toks_of (lex_script [] (bytes_syms out))).

Definition rune_reply (rw : N * nat) : list bytes := [dec (fst rw); dec (N.of_nat (snd rw))].

Definition dispatch (f : bytes) (a : list bytes) : list bytes :=
  if is f "replace" then [replace (arg 0 a)]
  else if is f "inlit" then
    (* args: intended string value, implementation output.  reply: verdict bits *)
    [inlit_bits (arg 0 a) (arg 1 a)]
  else if is f "inside_str" then
    (* args: Go string s, implementation output of ScriptContentInsideStringLiteral(s) *)
    [script_content_inside (JStr (arg 0 a)); inlit_bits (arg 0 a) (arg 1 a)]
  else if is f "str_all" then
    (* args: Go string s, ScriptContentInsideStringLiteral(s), ScriptContentOutsideStringLiteral(s).
       reply: model inside, in-literal verdict, model outside, bare verdict, JSON-string-as-JS verdict *)
    let s := arg 0 a in
    [replace s; inlit_bits s (arg 1 a); json_string s; bare_bits (arg 2 a); jstr_bits (scrub s) (arg 2 a)]
  else if is f "inside_val" then
    (* args: encoded value, flag ("1" = the Go value is not of dynamic type string) *)
    let v := dec_value (arg 0 a) in
    [if bytes_eqb (arg 1 a) [x31] then script_content_inside_marshalled v else script_content_inside v]
  else if is f "outside" then
    (* args: encoded value, implementation output.  reply: model output, verdict bits *)
    [script_content_outside (dec_value (arg 0 a)); bare_bits (arg 1 a)]
  else if is f "bare" then [bare_bits (arg 0 a)]
  else if is f "json_string" then [json_string (arg 0 a)]
  else if is f "jstr" then [jstr_bits (arg 0 a) (arg 1 a)]
  else if is f "scrub" then [scrub (arg 0 a)]
  else if is f "fn_name" then
    [b2 (fn_name_ok (arg 0 a)); b2 (forallb name_byte (arg 0 a))]
  else if is f "safe_script" then
    match a with
    | name :: ps =>
        let ps' := map dec_param ps in
        let call := safe_script name ps' in
        [call; safe_script_inline name ps'; b2 (attr_inert call)]
    | [] => [bs "?"]
    end
  else if is f "attr_inert" then [b2 (attr_inert (arg 0 a))]
  else if is f "json_script" then
    [json_script (arg 0 a) (arg 1 a) (arg 2 a) (dec_value (arg 3 a))]
  else if is f "html_escape" then [html_escape (arg 0 a)]
  else if is f "decode_rune" then rune_reply (decode_rune (arg 0 a))
  else if is f "encode_rune" then
    match undec (arg 0 a) with
    | Some cp => [encode_rune cp; dec (N.of_nat (rune_len cp))]
    | None => [bs "?"]
    end
  else if is f "runes" then
    [flat_map (fun rw : N * nat => dec (fst rw) ++ [x2f] ++ dec (N.of_nat (snd rw)) ++ [x20]) (runes (arg 0 a))]
  else if is f "valid_utf8" then [b2 (valid_utf8 (arg 0 a))]
  else if is f "script" then script_reply a
  else if is f "lex" then
    (* args: quote kind byte, text after the opening quote.  reply: kind letter, offset *)
    let q := if bytes_eqb (arg 0 a) [x27] then QSingle else if bytes_eqb (arg 0 a) [x22] then QDouble else QBacktick in
    match lex_string q (arg 1 a) with
    | LClosed n => [bs "C"; dec (N.of_nat n)]
    | LInterp n => [bs "I"; dec (N.of_nat n)]
    | LBadLine n => [bs "B"; dec (N.of_nat n)]
    | LUnterminated => [bs "U"; dec 0]
    end
  else if is f "unescape" then
    let q := if bytes_eqb (arg 0 a) [x27] then QSingle else if bytes_eqb (arg 0 a) [x22] then QDouble else QBacktick in
    match js_unescape q (arg 1 a) with Some v => [[x31]; v] | None => [[x30]; []] end
  else [bs "?"].

Extraction "model.ml" dispatch.
