(* Extraction entry point for C12: histories arrive as a token stream (one byte string per token),
   are decoded here, run through model/Registry.v, and the decidable specification
   (spec/RegistrySpec.v: check_log) is evaluated on what the implementation wrote. *)
From Coq.Strings Require Import Byte String.
From Coq Require Import List NArith Bool.
Import ListNotations.
From V Require Import lib.Bytes spec.RegistrySpec model.Registry.
Require Extraction.
Require Import ExtrOcamlBasic.

Notation toks := (list bytes).
Definition is (t : bytes) (s : string) : bool := bytes_eqb t (bs s).
Definition num (t : bytes) : N := match undec t with Some n => n | None => 0%N end.
Definition tbool (t : bytes) : bool := is t "1".

(* n raw strings *)
Fixpoint take_strs (n : nat) (ts : toks) : option (list bytes * toks) :=
  match n with
  | O => Some ([], ts)
  | S k => match ts with
           | [] => None
           | t :: r => match take_strs k r with Some (l, r') => Some (t :: l, r') | None => None end
           end
  end.
(* n (name, bool) pairs *)
Fixpoint take_kvs (n : nat) (ts : toks) : option (list (bytes * bool) * toks) :=
  match n with
  | O => Some ([], ts)
  | S k => match ts with
           | a :: b :: r => match take_kvs k r with Some (l, r') => Some ((a, tbool b) :: l, r') | None => None end
           | _ => None
           end
  end.

Definition p_class (ts : toks) : option (cssclass * toks) :=
  match ts with
  | t :: r =>
      if is t "K" then match r with i :: ru :: r' => Some (KComp (mkCls i ru), r') | _ => None end
      else if is t "L" then match r with n :: r' => Some (KConst n, r') | _ => None end
      else if is t "M" then match r with n :: r' => Some (KOther n, r') | _ => None end
      else None
  | [] => None
  end.

(* tagged items up to the closing "." *)
Fixpoint p_until {A} (fuel : nat) (p : toks -> option (A * toks)) (ts : toks) : option (list A * toks) :=
  match fuel with
  | O => None
  | S k => match ts with
           | [] => None
           | t :: r => if is t "." then Some ([], r)
                       else match p ts with
                            | Some (x, r1) => match p_until k p r1 with Some (l, r2) => Some (x :: l, r2) | None => None end
                            | None => None
                            end
           end
  end.

Definition p_class_b (ts : toks) : option ((cssclass * bool) * toks) :=
  match p_class ts with
  | Some (k, b :: r) => Some ((k, tbool b), r)
  | _ => None
  end.

Fixpoint p_form (fuel : nat) (ts : toks) : option (cform * toks) :=
  match fuel with
  | O => None
  | S k =>
    match ts with
    | [] => None
    | t :: r =>
      if is t "a" then match r with c :: r1 => match take_strs (N.to_nat (num c)) r1 with Some (l, r2) => Some (FStrings l, r2) | None => None end | _ => None end
      else if is t "b" then match r with n :: r1 => Some (FString n, r1) | _ => None end
      else if is t "c" then match r with n :: r1 => Some (FConst n, r1) | _ => None end
      else if is t "d" then match r with i :: ru :: r1 => Some (FComp (mkCls i ru), r1) | _ => None end
      else if is t "e" then match r with c :: r1 => match take_kvs (N.to_nat (num c)) r1 with Some (l, r2) => Some (FMap l, r2) | None => None end | _ => None end
      else if is t "f" then match r with c :: r1 => match take_kvs (N.to_nat (num c)) r1 with Some (l, r2) => Some (FListKVString l, r2) | None => None end | _ => None end
      else if is t "g" then match r with n :: b :: r1 => Some (FKVString n (tbool b), r1) | _ => None end
      else if is t "h" then match p_until k p_class_b r with Some (l, r1) => Some (FListKVClass l, r1) | None => None end
      else if is t "i" then match p_class_b r with Some ((c, b), r1) => Some (FKVClass c b, r1) | None => None end
      else if is t "j" then match r with i :: ru :: b :: r1 => Some (FKVComp (mkCls i ru) (tbool b), r1) | _ => None end
      else if is t "k" then match p_until k (p_form k) r with Some (l, r1) => Some (FNested l, r1) | None => None end
      else if is t "l" then match p_until k p_class r with Some (l, r1) => Some (FListClass l, r1) | None => None end
      else if is t "m" then match p_class r with Some (c, r1) => Some (FFunc c, r1) | None => None end
      else if is t "n" then match r with n :: b :: r1 => Some (FKVConst n (tbool b), r1) | _ => None end
      else if is t "o" then match r with c :: r1 => match take_kvs (N.to_nat (num c)) r1 with Some (l, r2) => Some (FListKVConst l, r2) | None => None end | _ => None end
      else if is t "p" then match r with n :: r1 => Some (FOther n, r1) | _ => None end
      else if is t "q" then Some (FUnknown, r)
      else None
    end
  end.

Definition p_script (ts : toks) : option (script * toks) :=
  match ts with
  | t :: n :: f :: c :: i :: r => if is t "s" then Some (mkScript n f c i, r) else None
  | _ => None
  end.

Fixpoint p_op (fuel : nat) (ts : toks) : option (op * toks) :=
  match fuel with
  | O => None
  | S k =>
    match ts with
    | [] => None
    | t :: r =>
      if is t "T" then match r with x :: r1 => Some (OText x, r1) | _ => None end
      else if is t "W" then match r with x :: r1 => Some (ONonce x, r1) | _ => None end
      else if is t "M" then match p_until k p_class r with Some (l, r1) => Some (OMiddleware l, r1) | None => None end
      else if is t "R" then match p_script r with Some (s, r1) => Some (ORender s, r1) | None => None end
      else if is t "I" then match p_until k p_script r with Some (l, r1) => Some (OScriptItems l, r1) | None => None end
      else if is t "C" then match p_until k (p_form k) r with Some (l, r1) => Some (OCSSItems l, r1) | None => None end
      else if is t "E" then
        match p_until k (p_form k) r with
        | Some (fs, r1) => match p_until k p_script r1 with Some (sl, r2) => Some (OElem fs sl, r2) | None => None end
        | None => None
        end
      else if is t "O" then
        match r with
        | h :: r1 => match p_until k (p_op k) r1 with Some (body, r2) => Some (OOnce (num h) body, r2) | None => None end
        | _ => None
        end
      else if is t "F" then
        match r with
        | h :: r1 => match p_until k (p_op k) r1 with Some (body, r2) => Some (OOnceC (num h) body, r2) | None => None end
        | _ => None
        end
      else if is t "Z" then match r with h :: r1 => Some (OOnceSelf (num h), r1) | _ => None end
      else if is t "S" then
        match r with
        | slot :: r1 =>
            match p_until k (p_op k) r1 with
            | Some (pre, blk :: r2) =>
                match p_until k (p_op k) r2 with
                | Some (block, r3) =>
                    match p_until k (p_op k) r3 with
                    | Some (post, r4) => Some (OCall (tbool slot) pre (tbool blk) block post, r4)
                    | None => None
                    end
                | None => None
                end
            | _ => None
            end
        | _ => None
        end
      else None
    end
  end.

Definition p_cfg (fuel : nat) (ts : toks) : option (cfg * toks) :=
  match ts with
  | nonce :: m :: r =>
      if tbool m then match p_until fuel p_class r with Some (l, r1) => Some (mkCfg nonce (Some l), r1) | None => None end
      else Some (mkCfg nonce None, r)
  | _ => None
  end.
Fixpoint p_cfgs (fuel n : nat) (ts : toks) : option (list cfg * toks) :=
  match n with
  | O => Some ([], ts)
  | S k => match p_cfg fuel ts with
           | Some (c, r) => match p_cfgs fuel k r with Some (l, r') => Some (c :: l, r') | None => None end
           | None => None
           end
  end.
Definition p_cop (fuel : nat) (ts : toks) : option ((nat * op) * toks) :=
  match ts with
  | c :: r => match p_op fuel r with Some (o, r1) => Some ((N.to_nat (num c), o), r1) | None => None end
  | [] => None
  end.

(* what the implementation wrote, as read back by the harness *)
Definition p_id (k n : bytes) : id :=
  if is k "s" then Script n else if is k "c" then Class n else Handle (num n).
Definition p_iev (ts : toks) : option (iev * toks) :=
  match ts with
  | t :: r =>
      if is t "D" then match r with k :: n :: r1 => Some (IDef (p_id k n), r1) | _ => None end
      else if is t "I" then match r with c :: r1 => Some (ICallInline c, r1) | _ => None end
      else if is t "A" then match r with c :: r1 => Some (ICallAttr c, r1) | _ => None end
      else if is t "G" then match r with k :: n :: r1 => Some (IReg (p_id k n), r1) | _ => None end
      else if is t "N" then match r with c :: r1 => match take_strs (N.to_nat (num c)) r1 with Some (l, r2) => Some (INames l, r2) | None => None end | _ => None end
      else None
  | [] => None
  end.
Fixpoint p_ilogs (fuel n : nat) (ts : toks) : option (list (list iev)) :=
  match n with
  | O => Some []
  | S k => match p_until fuel p_iev ts with
           | Some (l, r) => match p_ilogs fuel k r with Some ls => Some (l :: ls) | None => None end
           | None => None
           end
  end.

(* the model's log, one event per line *)
Definition enc_id (i : id) : bytes :=
  match i with
  | Script n => bs "s " ++ n
  | Class c => bs "c " ++ c
  | Handle h => bs "h " ++ dec h
  end.
Definition enc_ev (e : ev) : bytes :=
  match e with
  | Def i => bs "D " ++ enc_id i ++ [x0a]
  | Use i => bs "U " ++ enc_id i ++ [x0a]
  | Reg i => bs "G " ++ enc_id i ++ [x0a]
  end.
Definition enc_want (w : want) : bytes :=
  match w with
  | WCallInline s => bs "I " ++ sinline s ++ [x0a]
  | WCallAttr s => bs "A " ++ scall s ++ [x0a]
  | WAttr fs => bs "N " ++ join_sp (class_attr fs) ++ [x0a]
  end.

Definition init_st (cfgs : list cfg) : nat -> reg :=
  fun c => init_reg (nth c cfgs (mkCfg [] None)).

(* the stylesheet endpoints of the further middlewares context c passes through, one per line *)
Definition later_sheets (ops : list op) : bytes :=
  flat_map (fun o => match o with OMiddleware l => sheet_of l ++ [x0a] | _ => [] end) ops.

(* a first render of a handle that has neither component nor children leaves nothing in the document to read back *)
Definition visible (k : chunk) : bool := match k with KOnceNone _ => false | _ => true end.

(* reply for context c: bytes, stylesheet, log (of what leaves a trace in the bytes), uses served, stylesheets of the
   later middlewares *)
Definition ctx_reply (cfgs : list cfg) (h : list (nat * op)) (out : list (nat * chunk)) (c : nat) : list bytes :=
  let cs := proj c out in
  [render cs; stylesheet (nth c cfgs (mkCfg [] None)); flat_map enc_ev (log (filter visible cs)); flat_map enc_want (wants cs);
   later_sheets (proj c h)].

Definition parse (ts : toks) : option (list cfg * list (nat * op) * toks) :=
  match ts with
  | n :: r =>
      let fuel := S (length ts) in
      match p_cfgs fuel (N.to_nat (num n)) r with
      | Some (cfgs, r1) => match p_until fuel (p_cop fuel) r1 with
                           | Some (h, r2) => Some (cfgs, h, r2)
                           | None => None
                           end
      | None => None
      end
  | [] => None
  end.

Definition dispatch (f : bytes) (a : list bytes) : list bytes :=
  if is f "run" then
    (* tokens: nctx cfg* (ctx op)* "."   reply: per context [bytes; stylesheet; log; wants; later sheets] *)
    match parse a with
    | Some (cfgs, h, _) =>
        let '(_, out) := run_multi (init_st cfgs) h in
        bs "ok" :: flat_map (ctx_reply cfgs h out) (seq 0 (length cfgs))
    | None => [bs "!parse"]
    end
  else if is f "check" then
    (* tokens: as for run, then per context the implementation's log closed by "."
       reply: per context, does the specification hold of what the implementation wrote in that context,
       given the uses the history makes in that context *)
    match parse a with
    | Some (cfgs, h, rest) =>
        match p_ilogs (S (length rest)) (length cfgs) rest with
        | Some logs =>
            bs "ok" :: map (fun c =>
              let cf := nth c cfgs (mkCfg [] None) in
              b2 (check_log (map clid (mw_comps cf)) (snd (wanted [] (proj c h))) (nth c logs [])))
              (seq 0 (length cfgs))
        | None => [bs "!ilog"]
        end
    | None => [bs "!parse"]
    end
  else if is f "names" then
    (* tokens: form* "."   reply: class attribute; ids of the rules considered *)
    match p_until (S (length a)) (p_form (S (length a))) a with
    | Some (fs, _) => [join_sp (class_attr fs); join_sp (map cid (rules_l fs))]
    | None => [bs "!parse"]
    end
  else [bs "?"].

Extraction "model.ml" dispatch.
