(* Extraction entry point for C01: one generic [dispatch] over byte strings. *)
From Coq.Strings Require Import Byte String.
From Coq Require Import List NArith Bool.
Import ListNotations.
(* the generator model first, so that the C01 models' short names win; its definitions are used qualified *)
From V Require Import lib.Sexp model.Ast model.Gen model.SourceMap.
From V Require Import lib.Bytes spec.HtmlTok spec.HtmlRefs model.Escape model.StyleAttr model.DocFrag spec.DocExpect
  model.ScriptCtx spec.ScriptExpect.
Require Extraction.
Require Import ExtrOcamlBasic.

Definition is (f : bytes) (s : string) : bool := bytes_eqb f (bs s).
Definition arg (n : nat) (a : list bytes) : bytes := nth n a [].
Definition tb (b : byte) : bool := Byte.eqb b x31.
Definition num (n : nat) : bytes := dec (N.of_nat n).

(* ---- tokens -> flat list of byte strings; character tokens coalesced into runs; values raw and decoded ---- *)
Definition enc_attrs (l : list (bytes * bytes)) : list bytes :=
  flat_map (fun kv => [fst kv; snd kv; decode_min true (snd kv)]) l.
Definition flush (acc : bytes) : list bytes :=
  match acc with [] => [] | _ => let r := rev acc in [bs "T"; r; decode_min false r] end.
Fixpoint enc_tokens (ts : list token) (acc : bytes) : list bytes :=
  match ts with
  | [] => flush acc
  | TChar b :: r => enc_tokens r (b :: acc)
  | TStart n a sc :: r => flush acc ++ [bs "S"; n; num (length a)] ++ enc_attrs a ++ [b2 sc] ++ enc_tokens r []
  | TEnd n :: r => flush acc ++ [bs "E"; n] ++ enc_tokens r []
  | TComment d :: r => flush acc ++ [bs "C"; d] ++ enc_tokens r []
  | TDoctype d :: r => flush acc ++ [bs "D"; d] ++ enc_tokens r []
  end.

(* ---- attribute maps: arguments come in pairs (key, encoded value) ---- *)
Definition dec_val (v : bytes) : aval :=
  match v with
  | x73 :: s => VString s                                        (* s string *)
  | x70 :: s => VStringPtr (Some s)                              (* p *string *)
  | x6e :: _ => VStringPtr None                                  (* n nil *string *)
  | x62 :: c :: _ => VBool (tb c)                                (* b bool *)
  | x71 :: c :: _ => if Byte.eqb c x6e then VBoolPtr None else VBoolPtr (Some (tb c))   (* q *bool *)
  | x6b :: c :: s => VKVStringBool s (tb c)                      (* k KeyValue[string,bool] *)
  | x4b :: c :: d :: _ => VKVBoolBool (tb c) (tb d)              (* K KeyValue[bool,bool] *)
  | x66 :: c :: _ => VFuncBool (tb c)                            (* f func() bool *)
  | _ => VOther
  end.
Fixpoint dec_map (a : list bytes) : list (bytes * aval) :=
  match a with
  | k :: v :: r => (k, dec_val v) :: dec_map r
  | _ => []
  end.
Fixpoint dec_pairs (a : list bytes) : list (bytes * bytes) :=
  match a with
  | k :: v :: r => (k, v) :: dec_pairs r
  | _ => []
  end.
Fixpoint dec_classes (a : list bytes) : list (bytes * bool) :=
  match a with
  | k :: v :: r => (k, match v with c :: _ => tb c | [] => false end) :: dec_classes r
  | _ => []
  end.

(* ---- style values: prefix encoding over the argument list
        s z 0/1(empty) | c v | m n (k v)* | M n (k v)* | k n v | b z 0/1(empty) 0/1 | B v 0/1 | f val | l n val* | n | o ---- *)
Definition unum (b : bytes) : nat := match undec b with Some n => N.to_nat n | None => 0 end.
Definition tb1 (v : bytes) : bool := match v with c :: _ => tb c | [] => false end.
Fixpoint take_bpairs (n : nat) (a : list bytes) : list (bytes * bytes) * list bytes :=
  match n with
  | O => ([], a)
  | S n' => match a with
            | k :: v :: r => let '(l, rest) := take_bpairs n' r in ((k, v) :: l, rest)
            | _ => ([], [])
            end
  end.
Fixpoint dec_sval (fuel : nat) (a : list bytes) : option (sval * list bytes) :=
  match fuel with
  | O => None
  | S f =>
      match a with
      | tg :: r =>
          if is tg "s" then match r with z :: e :: r' => Some (SString z (tb1 e), r') | _ => None end
          else if is tg "c" then match r with v :: r' => Some (SSafeCSS v, r') | _ => None end
          else if is tg "m" then match r with n :: r' => let '(l, rest) := take_bpairs (unum n) r' in Some (SMapSS l, rest) | _ => None end
          else if is tg "M" then match r with n :: r' => let '(l, rest) := take_bpairs (unum n) r' in Some (SMapSP l, rest) | _ => None end
          else if is tg "k" then match r with n :: v :: r' => Some (SKVss n v, r') | _ => None end
          else if is tg "b" then match r with z :: e :: b :: r' => Some (SKVsb z (tb1 e) (tb1 b), r') | _ => None end
          else if is tg "B" then match r with v :: b :: r' => Some (SKVcb v (tb1 b), r') | _ => None end
          else if is tg "f" then match dec_sval f r with Some (v, r') => Some (SFunc v, r') | None => None end
          else if is tg "l" then
            match r with
            | n :: r' =>
                let items := (fix items (k : nat) (a : list bytes) : option (list sval * list bytes) :=
                   match k with
                   | O => Some ([], a)
                   | S k' => match dec_sval f a with
                             | Some (c, a') => match items k' a' with Some (l, a'') => Some (c :: l, a'') | None => None end
                             | None => None
                             end
                   end) in
                match items (unum n) r' with Some (l, rest) => Some (SSlice l, rest) | None => None end
            | _ => None
            end
          else if is tg "n" then Some (SNil, r)
          else if is tg "o" then Some (SOther, r)
          else None
      | [] => None
      end
  end.
Fixpoint dec_svals (fuel : nat) (n : nat) (a : list bytes) : option (list sval * list bytes) :=
  match n with
  | O => Some ([], a)
  | S n' => match dec_sval fuel a with
            | Some (v, r) => match dec_svals fuel n' r with Some (l, r') => Some (v :: l, r') | None => None end
            | None => None
            end
  end.

(* ---- trees: prefix encoding over the argument list; "N x*" is a count followed by that many items
        tree: T v | S s | E name N attr* N tree* | V name N attr* | C d | D d | R name N attr* v | J N attr* N part*
              | I 0/1 N tree* N tree* | F N list-of-(N tree..) | W i N list-of-(N tree..) | K N tree* | H N tree*
        part: s v | d v
        attr: c k v | b k | d k s | e k 0/1 | m N (k val)* | y N sval* | i 0/1 N attr* N attr*            ---- *)
Fixpoint take_pairs (n : nat) (a : list bytes) : list (bytes * aval) * list bytes :=
  match n with
  | O => ([], a)
  | S n' => match a with
            | k :: v :: r => let '(l, rest) := take_pairs n' r in ((k, dec_val v) :: l, rest)
            | _ => ([], [])
            end
  end.
Notation "'bind' x r <- e ; k" := (match e with Some (x, r) => k | None => None end) (at level 200, x name, r name, e at level 100, k at level 200).
Fixpoint rep {A : Type} (f : list bytes -> option (A * list bytes)) (n : nat) (a : list bytes) : option (list A * list bytes) :=
  match n with
  | O => Some ([], a)
  | S n' => bind x r <- f a; bind l r' <- rep f n' r; Some (x :: l, r')
  end.
Definition counted {A : Type} (f : list bytes -> option (A * list bytes)) (a : list bytes) : option (list A * list bytes) :=
  match a with n :: r => rep f (unum n) r | [] => None end.

Fixpoint dec_attr (fuel : nat) (a : list bytes) : option (attr * list bytes) :=
  match fuel with
  | O => None
  | S f =>
  match a with
  | tg :: r =>
      if is tg "c" then match r with k :: v :: r' => Some (AConst k v, r') | _ => None end
      else if is tg "b" then match r with k :: r' => Some (ABool k, r') | _ => None end
      else if is tg "d" then match r with k :: v :: r' => Some (ADyn k v, r') | _ => None end
      else if is tg "e" then match r with k :: v :: r' => Some (ABoolExpr k (tb1 v), r') | _ => None end
      else if is tg "m" then match r with n :: r' => let '(l, rest) := take_pairs (unum n) r' in Some (ASpread l, rest) | _ => None end
      else if is tg "y" then match r with n :: r' => bind l rest <- dec_svals (S (length r')) (unum n) r'; Some (AStyle l, rest) | _ => None end
      else if is tg "i" then match r with c :: r1 => bind th r2 <- counted (dec_attr f) r1; bind el r3 <- counted (dec_attr f) r2; Some (ACond (tb1 c) th el, r3) | _ => None end
      else None
  | [] => None
  end
  end.
Definition dec_attrs (a : list bytes) : option (list attr * list bytes) := counted (dec_attr (S (length a))) a.
Definition dec_part (a : list bytes) : option (spart * list bytes) :=
  match a with
  | tg :: v :: r => if is tg "s" then Some (PStatic v, r) else if is tg "d" then Some (PDyn v, r) else None
  | _ => None
  end.
Fixpoint dec_tree (fuel : nat) (a : list bytes) : option (tree * list bytes) :=
  match fuel with
  | O => None
  | S f =>
      match a with
      | tg :: r =>
          if is tg "T" then match r with v :: r' => Some (TText v, r') | _ => None end
          else if is tg "S" then match r with v :: r' => Some (TStr v, r') | _ => None end
          else if is tg "C" then match r with v :: r' => Some (TCmt v, r') | _ => None end
          else if is tg "D" then match r with v :: r' => Some (TDoc v, r') | _ => None end
          else if is tg "V" then match r with n :: r1 => bind al r2 <- dec_attrs r1; Some (TVoid n al, r2) | _ => None end
          else if is tg "E" then match r with n :: r1 => bind al r2 <- dec_attrs r1; bind ch r3 <- counted (dec_tree f) r2; Some (TElem n al ch, r3) | _ => None end
          else if is tg "R" then match r with n :: r1 => bind al r2 <- dec_attrs r1; match r2 with v :: r3 => Some (TRaw n al v, r3) | [] => None end | _ => None end
          else if is tg "J" then bind al r2 <- dec_attrs r; bind ps r3 <- counted dec_part r2; Some (TScript al ps, r3)
          else if is tg "I" then match r with c :: r1 => bind th r2 <- counted (dec_tree f) r1; bind el r3 <- counted (dec_tree f) r2; Some (TIf (tb1 c) th el, r3) | _ => None end
          else if is tg "F" then bind its r2 <- counted (counted (dec_tree f)) r; Some (TFor its, r2)
          else if is tg "W" then match r with i :: r1 => bind cs r2 <- counted (counted (dec_tree f)) r1; Some (TSwitch (unum i) cs, r2) | _ => None end
          else if is tg "K" then bind b r2 <- counted (dec_tree f) r; Some (TCall b, r2)
          else if is tg "H" then bind b r2 <- counted (dec_tree f) r; Some (TChildren b, r2)
          else None
      | [] => None
      end
  end.

Fixpoint dec_trees (fuel : nat) (a : list bytes) : option (list tree) :=
  match fuel with
  | O => None
  | S f => match a with
           | [] => Some []
           | _ => match dec_tree (S (length a)) a with
                  | Some (t, r) => match dec_trees f r with Some l => Some (t :: l) | None => None end
                  | None => None
                  end
           end
  end.

(* ---- script operations on one context: prefix encoding
        op: I N (name fn call inline)* | R name fn call inline | J id ty 0/1 own body ---- *)
Definition dec_cs (a : list bytes) : option (cscript * list bytes) :=
  match a with n :: f :: c :: i :: r => Some (CS n f c i, r) | _ => None end.
Definition dec_sop (a : list bytes) : option (sop * list bytes) :=
  match a with
  | tg :: r =>
      if is tg "I" then bind l r' <- counted dec_cs r; Some (OItems l, r')
      else if is tg "R" then bind s r' <- dec_cs r; Some (ORender s, r')
      else if is tg "J" then match r with id :: ty :: o :: own :: body :: r' => Some (OJson id ty (if tb1 o then Some own else None) body, r') | _ => None end
      else None
  | [] => None
  end.
Definition dec_name (a : list bytes) : option (bytes * list bytes) := match a with n :: r => Some (n, r) | [] => None end.

Definition dispatch (f : bytes) (a : list bytes) : list bytes :=
  if is f "escape" then [escape (arg 0 a)]
  else if is f "esc_check" then
    (* args: s, implementation output o.  reply: model output; hole_safe(o);
       o decoded as text; o decoded as an attribute value *)
    let s := arg 0 a in let o := arg 1 a in
    [escape s; b2 (hole_safe o); decode_min false o; decode_min true o]
  else if is f "tok" then enc_tokens (tok (arg 0 a)) []
  else if is f "decode" then
    (* args: in_attr (0/1), s, then an optional named-reference table as (name, value) pairs *)
    let t := match dec_pairs (skipn 2 a) with [] => min_table | t => t end in
    [decode_refs t utf8_cp (tb (hd x30 (arg 0 a))) (arg 1 a)]
  else if is f "attrs" then
    (* args: (key, encoded value)*.  reply: RenderAttributes' bytes; are all keys name-shaped?; then the
       expected attribute list as (name, raw value) pairs *)
    let m := dec_map a in
    [render_attrs m; b2 (forallb (fun kv => name_shaped (fst kv)) m)] ++ flat_map (fun kv => [fst kv; snd kv]) (expected_attrs m)
  else if is f "json_header" then [json_script_header (arg 0 a) (arg 1 a) (arg 2 a)]
  else if is f "script_header" then [script_header (arg 0 a)]
  else if is f "style" then
    (* args: count, then that many style values.  reply: ok?, SanitizeStyleAttributeValues' result *)
    match dec_svals (S (length a)) (unum (arg 0 a)) (tl a) with
    | Some (vs, []) => [b2 true; style_attr vs]
    | _ => [b2 false]
    end
  else if is f "inert" then [b2 (hole_safe (arg 0 a))]
  else if is f "css" then [css_string (dec_classes a)]
  else if is f "doc" then
    (* args: a tree.  reply: ok?, wf?, render t, then the expected tokens *)
    match dec_tree (S (length a)) a with
    | Some (t, []) => [b2 true; b2 (wf t); render t] ++ enc_tokens (expected t) []
    | _ => [b2 false]
    end
  else if is f "docs" then
    (* args: a sequence of trees (a fragment).  reply: ok?, all wf?, the concatenated rendering, the expected tokens *)
    match dec_trees (S (length a)) a with
    | Some l => [b2 true; b2 (forallb wf l); flat_map render l] ++ enc_tokens (flat_map expected l) []
    | None => [b2 false]
    end
  else if is f "script_ops" then
    (* args: keep (0/1), nonce, N already-rendered names, N operations.  reply: ok?, ops_wf?, render_ops' bytes, then the
       expected tokens (spec/ScriptExpect.v) *)
    match a with
    | k :: nonce :: r =>
        match counted dec_name r with
        | Some (seen, r1) =>
            match counted dec_sop r1 with
            | Some (ops, []) => [b2 true; b2 (ops_wf (tb1 k) nonce seen ops); render_ops (tb1 k) nonce seen ops]
                                ++ enc_tokens (ops_expected (tb1 k) nonce seen ops) []
            | _ => [b2 false]
            end
        | None => [b2 false]
        end
    | _ => [b2 false]
    end
  else if is f "gen" then
    (* the generator model on a parsed template file (same request as extract/X07.v).
       args: file name, AST wire.  reply: status, code, source map dump, literals (joined by LF) *)
    match Sexp.parse_all (arg 1 a) with
    | Some x => match Ast.dfile x with
                | Some fl => let '(code, lits, sm) := SourceMap.generate_all (arg 0 a) fl in
                             [bs "ok"; code; sm; Gen.join_with [x0a] lits]
                | None => [bs "decode-ast"] end
    | None => [bs "decode-sexp"] end
  else [bs "?"].

Extraction "model.ml" dispatch.
