(* Extraction entry point for C08 (shares the formatter model with C09). *)
From Coq.Strings Require Import Byte String.
From Coq Require Import List Arith NArith Bool.
Import ListNotations.
From V Require Import lib.Bytes lib.Sexp model.Fmt model.FmtReasons spec.FmtSpec.
From V Require model.Ast spec.Denote.
From V Require Import spec.FmtEmbed.
Require Extraction.
Require Import ExtrOcamlBasic.

Definition isf (f : bytes) (s : string) : bool := bytes_eqb f (bs s).
Definition arg (n : nat) (a : list bytes) : bytes := nth n a [].

Definition dispatch (f : bytes) (a : list bytes) : list bytes :=
  if isf f "fmt" then
    (* arg: formatter AST wire.  reply: first pass; predicted second pass; predicted third pass; reasons (LF separated) *)
    match parse_all (arg 0 a) with
    | Some x => match dfile x with
                | Some fl => let f2 := reparse fl in
                             [bs "ok"; fmt_write fl; fmt_write f2; fmt_write (reparse f2); unstable_reasons fl]
                | None => [bs "decode-ast"] end
    | None => [bs "decode-sexp"] end
  else if isf f "embed" then
    (* args: formatter wire and generator wire of the SAME top-level node of a parsed file (one request per node: the
       wire parser is quadratic in the message length).
       reply: embed agrees exactly (positions aside); agrees with expression texts compared without white space *)
    match parse_all (arg 0 a), parse_all (arg 1 a) with
    | Some x, Some y =>
        match dfnode x, Ast.dfnode y with
        | Some fl, Some af =>
            let e := embed_fnode fl in
            if fnode_agrees false false e af then [bs "ok"; b2 true; b2 true]
            else [bs "ok"; b2 false; b2 (fnode_agrees true false e af)]
        | _, _ => [bs "decode-ast"] end
    | _, _ => [bs "decode-sexp"] end
  else if isf f "reparsed" then
    (* args: formatter wire of a top-level node of the original file; generator wire of the same node of parse(format(original)).
       reply: embed (reparse_ws original) agrees with the real re-parsed tree (expressions without white space; Whitespace
       nodes as the renderer reads them); the three guards; reasons (when it does not agree) *)
    match parse_all (arg 0 a), parse_all (arg 1 a) with
    | Some x, Some y =>
        match dfnode x, Ast.dfnode y with
        | Some fl, Some af =>
            let one := {| f_header := []; f_pkg := []; f_nodes := [fl] |} in
            let ok := match Ast.f_nodes (embed (reparse_ws one)) with [r] => fnode_agrees true true r af | _ => false end in
            [bs "ok"; b2 ok; b2 (trailing_semantics_preserved one); b2 (parser_shaped one); b2 (shallow one);
             (if ok then [] else unstable_reasons one)]
        | _, _ => [bs "decode-ast"] end
    | _, _ => [bs "decode-sexp"] end
  else [bs "?"].

Extraction "model.ml" dispatch.
