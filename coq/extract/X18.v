(* Extraction entry point for C18: framing functions and the connection acceptor. *)
From Coq.Strings Require Import Byte String.
From Coq Require Import List NArith Bool Arith.
Import ListNotations.
From V Require Import lib.Bytes model.Rpc spec.RpcWire spec.RpcCall.
Require Extraction.
Require Import ExtrOcamlBasic.

Definition is (f : bytes) (s : string) : bool := bytes_eqb f (bs s).
Definition arg (n : nat) (a : list bytes) : bytes := nth n a [].
Definition dn (n : nat) : bytes := dec (N.of_nat n).

Definition err_code (e : rerr) : bytes :=
  match e with
  | EInvalidLine => bs "invalid-line"
  | EParse => bs "parse"
  | ENonPositive => bs "non-positive"
  | EMissing => bs "missing"
  end.
Definition end_code (e : rend) : bytes :=
  match e with
  | EndEof => bs "eof"
  | EndTrunc => bs "trunc"
  | EndErr e => err_code e
  | EndFuel => bs "fuel"
  end.

(* ---------- decoding a program and a schedule ---------- *)
Definition n2 (hi lo : byte) : nat := N.to_nat (bN hi * 256 + bN lo).
Fixpoint dec_prog (s : bytes) : list (kind * bytes) :=
  match s with
  | [] => []
  | b :: r => (if Byte.eqb b x43 then KCall else KWrite, [b]) :: dec_prog r
  end.
(* a schedule entry: a model action, or "the loop reads this response and, if somebody waits for its id,
   sends it" (ARead followed by ASend when the lookup succeeded) *)
(* XHFail / XBFail: the header's / body's conn.Write fails after taking min(k, given-1) bytes *)
Inductive xaction := XA (a : action) | XDeliver (r : resp) | XHFail (t k : nat) | XBFail (t k : nat).
Definition dec_action (tag : byte) (a b : nat) : option xaction :=
  if Byte.eqb tag x78 then Some (XA (ACtx a))                (* x *)
  else if Byte.eqb tag x71 then Some (XA (ASeq a))           (* q *)
  else if Byte.eqb tag x72 then Some (XA (AReg a))           (* r *)
  else if Byte.eqb tag x6c then Some (XA (ALock a))          (* l *)
  else if Byte.eqb tag x77 then Some (XA (AWriteCancelled a))(* w *)
  else if Byte.eqb tag x68 then Some (XA (AHeader a))        (* h *)
  else if Byte.eqb tag x62 then Some (XA (ABody a))          (* b *)
  else if Byte.eqb tag x75 then Some (XA (AUnlock a))        (* u *)
  else if Byte.eqb tag x74 then Some (XA (ATake a))          (* t *)
  else if Byte.eqb tag x63 then Some (XA (ACancel a))        (* c *)
  else if Byte.eqb tag x64 then Some (XA (ACleanup a))       (* d *)
  else if Byte.eqb tag x52 then Some (XA (ARead (a, b)))     (* R *)
  else if Byte.eqb tag x53 then Some (XA ASend)              (* S *)
  else if Byte.eqb tag x44 then Some (XDeliver (a, b))       (* D *)
  else if Byte.eqb tag x48 then Some (XHFail a b)            (* H *)
  else if Byte.eqb tag x42 then Some (XBFail a b)            (* B *)
  else if Byte.eqb tag x45 then Some (XA AEof)               (* E *)
  else None.
Fixpoint dec_trace (fuel : nat) (s : bytes) : option (list xaction) :=
  match fuel with
  | O => None
  | S f =>
      match s with
      | [] => Some []
      | tag :: a1 :: a0 :: b1 :: b0 :: r =>
          match dec_action tag (n2 a1 a0) (n2 b1 b0), dec_trace f r with
          | Some a, Some l => Some (a :: l)
          | _, _ => None
          end
      | _ => None
      end
  end.

Definition xstep (s : state) (x : xaction) : option state :=
  match x with
  | XA a => step s a
  | XDeliver r =>
      match step s (ARead r) with
      | Some s1 => match run s1 with Some _ => step s1 ASend | None => Some s1 end
      | None => None
      end
  | XHFail t k => step s (AHeaderFail t (Nat.min k (pred (length (frame_header (t_payload (threads s t)))))))
  | XBFail t k => step s (ABodyFail t (Nat.min k (pred (length (t_payload (threads s t))))))
  end.

(* run the schedule; on a disabled step report its index *)
Fixpoint exec_idx (s : state) (tr : list xaction) (i : nat) : state * option nat :=
  match tr with
  | [] => (s, None)
  | a :: r => match xstep s a with Some s' => exec_idx s' r (S i) | None => (s, Some i) end
  end.

Definition pc_code (p : pc) : nat :=
  match p with PStart => 0 | PIdd => 1 | PReady => 2 | PLocked => 3 | PHeader => 4 | PBody => 5
             | PWait => 6 | PSel => 7 | PDone => 8 end.
Definition sp : bytes := [x20].
Definition ret_code (o : option result) : bytes :=
  match o with
  | None => bs "none"
  | Some (Got r) => bs "got " ++ dn (fst r) ++ sp ++ dn (snd r)
  | Some Cancelled => bs "cancelled"
  | Some WriteFailed => bs "write-failed"
  | Some Sent => bs "sent"
  | Some TransportErr => bs "transport-error"
  end.
Definition thread_code (th : thread) : bytes :=
  dn (pc_code (t_pc th)) ++ sp ++ dn (t_id th) ++ sp ++ ret_code (t_ret th).

Definition conn (progb trb : bytes) : list bytes :=
  let prog := dec_prog progb in
  match dec_trace (S (length trb)) trb with
  | None => [bs "bad-trace"]
  | Some tr =>
      let '(s, stuck) := exec_idx (init prog) tr 0 in
      (match stuck with None => bs "ok" | Some i => bs "stuck " ++ dn i end)
      :: dn (length (pending s))
      :: (match lock s with None => bs "free" | Some t => dn t end)
      :: (match run s with None => if closed s then bs "ended" else bs "idle" | Some _ => bs "sending" end)
      :: dn (length (sent s))
      :: map (fun t => thread_code (threads s t)) (seq 0 (length prog))
  end.

(* ---------- sequences of writes over a connection that can fail: every thread is a notifier ---------- *)
(* a schedule entry of 8 bytes: tag, thread (2 bytes), number (5 bytes, base 256) *)
Definition n5 (a b c d e : byte) : nat :=
  N.to_nat ((((bN a * 256 + bN b) * 256 + bN c) * 256 + bN d) * 256 + bN e).
Fixpoint dec_trace8 (fuel : nat) (s : bytes) : option (list xaction) :=
  match fuel with
  | O => None
  | S f =>
      match s with
      | [] => Some []
      | tag :: a1 :: a0 :: b4 :: b3 :: b2 :: b1 :: b0 :: r =>
          match dec_action tag (n2 a1 a0) (n5 b4 b3 b2 b1 b0), dec_trace8 f r with
          | Some a, Some l => Some (a :: l)
          | _, _ => None
          end
      | _ => None
      end
  end.
Definition writes (trb : bytes) (payloads : list bytes) : list bytes :=
  let prog := map (fun p => (KWrite, p)) payloads in
  match dec_trace8 (S (length trb)) trb with
  | None => [bs "bad-trace"]
  | Some tr =>
      let '(s, stuck) := exec_idx (init prog) tr 0 in
      (match stuck with None => bs "ok" | Some i => bs "stuck " ++ dn i end)
      :: b2 (down s)
      :: (match lock s with None => bs "free" | Some t => dn t end)
      :: wire s
      :: map (fun t => ret_code (t_ret (threads s t))) (seq 0 (length prog))
  end.


(* ---------- the specification of a call's outcome (spec/RpcCall.v) on an observed call ---------- *)
(* id: 2 bytes; flags: three '0'/'1' bytes (context cancelled, a connection Write failed, the stream ended);
   outcome: 'g' id(2) value(2) | 'c' | 'w' | 'e' | anything else; reads: 4 bytes (id, value) per response *)
Fixpoint dec_reads (fuel : nat) (s : bytes) : list (nat * nat) :=
  match fuel with
  | O => []
  | S f => match s with
           | a1 :: a0 :: b1 :: b0 :: r => (n2 a1 a0, n2 b1 b0) :: dec_reads f r
           | _ => []
           end
  end.
Definition flag (n : nat) (s : bytes) : bool := Byte.eqb (nth n s x30) x31.
Definition dec_outcome (s : bytes) : outcome :=
  match s with
  | tag :: r =>
      if Byte.eqb tag x67 then
        match r with a1 :: a0 :: b1 :: b0 :: _ => OGot (n2 a1 a0) (n2 b1 b0) | _ => OOther end
      else if Byte.eqb tag x63 then OCancelled
      else if Byte.eqb tag x77 then OWriteError
      else if Byte.eqb tag x65 then OClosed
      else OOther
  | [] => OOther
  end.
Definition callspec (a : list bytes) : list bytes :=
  let idb := arg 0 a in
  let fl := arg 1 a in
  let rd := arg 3 a in
  [b2 (call_ok (mkFacts (n2 (nth 0 idb x00) (nth 1 idb x00)) (dec_reads (S (length rd)) rd)
                        (flag 0 fl) (flag 1 fl) (flag 2 fl))
               (dec_outcome (arg 2 a)))].

(* length of the remaining input after each successive frame (space separated decimals) *)
Fixpoint rests (fuel : nat) (s : bytes) : bytes :=
  match fuel with
  | O => []
  | S f => match read_frame s with
           | ROk _ rest => dn (length rest) ++ sp ++ rests f rest
           | _ => []
           end
  end.

Definition dispatch (f : bytes) (a : list bytes) : list bytes :=
  if is f "frame" then [frame (arg 0 a)]
  else if is f "read" then
    (* whole stream: how it ends, the length of what is left after each frame, then the payloads *)
    let s := arg 0 a in
    let '(l, e) := read_stream s in end_code e :: rests (S (length s)) s :: l
  else if is f "read1" then
    match read_frame (arg 0 a) with
    | ROk p rest => [bs "ok"; p; rest]
    | RNeedMore => [bs "need"]
    | RErr e => [err_code e]
    | RFuel => [bs "fuel"]
    end
  else if is f "trim" then [trim (arg 0 a)]
  else if is f "conn" then conn (arg 0 a) (arg 1 a)
  else if is f "writes" then writes (arg 0 a) (tl a)
  else if is f "callspec" then callspec a
  else if is f "wirespec" then
    (* broken flag ("1"/"0"), the bytes on the connection, the delivered payloads *)
    [b2 (wire_spec (tl (tl a)) (is (arg 0 a) "1") (arg 1 a))]
  else [bs "?"].

Extraction "model.ml" dispatch.
