(* Extraction entry point for C20: one generic [dispatch] over byte strings.
   The library oracles of model/Proxy.v are instantiated with one-point tables filled by the harness from the
   real libraries (compress/gzip, andybalholm/brotli, x/net/html); a query outside the table answers "!miss",
   which can never equal what the implementation produced. *)
From Coq.Strings Require Import Byte String.
From Coq Require Import List NArith Bool.
Import ListNotations.
From V Require Import lib.Bytes lib.HNode spec.Csp spec.ProxyDom model.Proxy.
Require Extraction.
Require Import ExtrOcamlBasic.
Open Scope N_scope.

Definition is (f : bytes) (s : string) : bool := bytes_eqb f (bs s).
Definition arg (n : nat) (a : list bytes) : bytes := nth n a [].
Definition miss : bytes := bs "!miss".
Definition miss_node : node := Node 0 miss [] [] [].

Definition opt_reply (o : option bytes) : list bytes := match o with None => [[x30]] | Some v => [[x31]; v] end.
Definition tree_reply (o : option node) : list bytes := match o with None => [[x30]] | Some t => [x31] :: ser t end.
Definition tree_arg (l : list bytes) : node := match deser l with Some t => t | None => miss_node end.

(* flag "1" = answer, "2" = the library returned an error, anything else = not in the table *)
Definition table1 (key : bytes) (flag out : bytes) (x : bytes) : option bytes :=
  if bytes_eqb x key then
    (if is flag "1" then Some out else if is flag "2" then None else Some miss)
  else Some miss.
Definition table1t (key : bytes) (out : bytes) (x : bytes) : bytes :=
  if bytes_eqb x key then out else miss.

Definition resp_of (a : list bytes) (i : nat) : response :=
  {| status := num (arg i a); skip_hdr := arg (i+1)%nat a; ctype := arg (i+2)%nat a; cenc := arg (i+3)%nat a;
     csp := arg (i+4)%nat a; clen := arg (i+5)%nat a; others := arg (i+6)%nat a; body := arg (i+7)%nat a |}.
Definition resp_reply (r : response) : list bytes :=
  [dec (status r); skip_hdr r; ctype r; cenc r; csp r; clen r; others r; body r].

Definition resp_same_but_skip (x y : response) : bool :=
  (status x =? status y) && bytes_eqb (ctype x) (ctype y) && bytes_eqb (cenc x) (cenc y) &&
  bytes_eqb (csp x) (csp y) && bytes_eqb (clen x) (clen y) && bytes_eqb (others x) (others y) &&
  bytes_eqb (body x) (body y).

(* The property predicate, evaluated on the implementation's own behaviour.
   r = what the backend sent, r' = what the client of the proxy received (bad = it received 502 instead),
   dflag/d and dflag'/d' = the real decoder applied to body r / body r' under the label cenc r / cenc r',
   t0 = html.Parse d, t2 = html.Parse d', domok = the Parse/Render contract holds for this document,
   implnonce = the implementation's own parseNonce answer, used only for policies outside csp_regular
   (for those the theorem does not say which nonce the script carries).
   Reply: verdict bit, reason, whether the CSP guard held. *)
Definition check (hx : bytes) (r r' : response) (bad : bool) (dflag d dflag' d' : bytes) (domok : bool)
           (implnonce : bytes) (t0 t2 : node) : list bytes :=
  let passthrough :=
      bytes_eqb hx (bs "true") || bytes_eqb (skip_hdr r) (bs "true") ||
      negb (has_prefix (bs "text/html") (ctype r)) ||
      negb (bytes_eqb (cenc r) [] || bytes_eqb (cenc r) (bs "gzip") || bytes_eqb (cenc r) (bs "br")) in
  let regular := csp_regular (csp r) in
  if passthrough then
    if bad then [b2 false; bs "pass-through response answered with an error"; b2 regular]
    else if negb (resp_same_but_skip r r') then [b2 false; bs "pass-through response altered"; b2 regular]
    else if negb (bytes_eqb (skip_hdr r') (if bytes_eqb hx (bs "true") then bs "true" else skip_hdr r))
    then [b2 false; bs "marker header wrong"; b2 regular]
    else [b2 true; bs "pass-through"; b2 regular]
  else if negb (is dflag "1") then [b2 true; bs "body does not decode under its label: outside the property"; b2 regular]
  else if bad then [b2 false; bs "decodable HTML response answered with an error"; b2 regular]
  else if negb ((status r =? status r') && bytes_eqb (ctype r) (ctype r') && bytes_eqb (csp r) (csp r') &&
                bytes_eqb (others r) (others r') && bytes_eqb (skip_hdr r) (skip_hdr r'))
  then [b2 false; bs "status or headers altered"; b2 regular]
  else if negb (bytes_eqb (cenc r) (cenc r')) then [b2 false; bs "Content-Encoding altered"; b2 regular]
  else if negb (bytes_eqb (clen r') (dec (len_acc (body r') 0)))
  then [b2 false; bs "Content-Length differs from the bytes sent"; b2 regular]
  else if negb (is dflag' "1") then [b2 false; bs "Content-Encoding does not describe the bytes sent"; b2 regular]
  else if negb domok then [b2 true; bs "document outside the Parse/Render contract: DOM not compared"; b2 regular]
  else
    let nonce := if regular then script_src_nonce (csp r)
                 else match implnonce with [] => None | n => Some n end in
    let expect := match append_to_document_body (reload_script_elem nonce) t0 with
                  | Some e => e
                  | None => t0
                  end in
    if ser_eqb t2 expect then [b2 true; bs "modified"; b2 regular]
    else [b2 false; bs "decoded document is not the original with the reload script appended to body"; b2 regular].

Definition dispatch (f : bytes) (a : list bytes) : list bytes :=
  if is f "parse_nonce" then [parse_nonce (arg 0 a)]
  else if is f "nonce" then
    (* reply: model nonce; spec nonce (flag, value); guard *)
    parse_nonce (arg 0 a) :: opt_reply (script_src_nonce (arg 0 a)) ++
      match script_src_nonce (arg 0 a) with None => [[]] | Some _ => [] end ++ [b2 (csp_regular (arg 0 a))]
  else if is f "fields" then fields (arg 0 a)
  else if is f "equal_fold" then [b2 (equal_fold_const (arg 0 a) (arg 1 a))]
  else if is f "append" then
    tree_reply (append_first is_body (reload_script (arg 0 a)) (tree_arg (tl a)))
  else if is f "spec_append" then
    (* the specification's rewritten document; a document without body stays as it is *)
    let t := tree_arg (tl a) in
    let nonce := match arg 0 a with [] => None | n => Some n end in
    tree_reply (Some (match append_to_document_body (reload_script_elem nonce) t with Some e => e | None => t end))
  else if is f "shape" then
    let t := tree_arg a in
    [b2 (doc_shaped t); b2 (doc_bodyless t); dec (N.of_nat (length (find_all is_body t)))]
  else if is f "echo" then ser (tree_arg a)
  else if is f "proxy" then
    (* 0 hx; 1..8 response; 9 gunzip flag; 10 gunzip out; 11 unbr flag; 12 unbr out; 13 parse key;
       14 render flag; 15 render out; 16 encoder key; 17 gzip out; 18 br out; 19 n0; then n0 items of T0; then T1 *)
    let r := resp_of a 1 in
    let n0 := N.to_nat (num (arg 19 a)) in
    let rest := skipn 20 a in
    let t0 := tree_arg (firstn n0 rest) in
    let t1 := tree_arg (skipn n0 rest) in
    let o := proxy (table1 (body r) (arg 9 a) (arg 10 a)) (table1t (arg 16 a) (arg 17 a))
                   (table1 (body r) (arg 11 a) (arg 12 a)) (table1t (arg 16 a) (arg 18 a))
                   (fun x => if bytes_eqb x (arg 13 a) then t0 else miss_node)
                   (fun t => if ser_eqb t t1
                             then (if is (arg 14 a) "1" then Some (arg 15 a) else if is (arg 14 a) "2" then None else Some miss)
                             else Some miss)
                   (arg 0 a) r in
    match o with
    | BadGateway => [bs "B"]
    | Forward r' => bs "F" :: resp_reply r'
    end
  else if is f "check" then
    (* 0 hx; 1..8 backend response; 9..16 client response; 17 bad; 18 dflag; 19 d; 20 dflag'; 21 d'; 22 domok;
       23 implementation's nonce; 24 n0; then T0; then T2 *)
    let n0 := N.to_nat (num (arg 24 a)) in
    let rest := skipn 25 a in
    check (arg 0 a) (resp_of a 1) (resp_of a 9) (is (arg 17 a) "1") (arg 18 a) (arg 19 a) (arg 20 a) (arg 21 a)
          (is (arg 22 a) "1") (arg 23 a) (tree_arg (firstn n0 rest)) (tree_arg (skipn n0 rest))
  else [bs "?"].

Extraction "model.ml" dispatch.
