(* Extraction entry point for C10.
   dispatch "run" (cap :: sw :: flusher :: instructions): a small stack machine (one instruction per argument,
   first byte = opcode) builds programs, environments, render jobs and - optionally - the real implementation's
   observation of each job; the reply holds, per job: the model's result, output, destination call record and
   flush marks, and the specification predicate [spec_okb] evaluated on the implementation's observation. *)
From Coq.Strings Require Import Byte String.
From Coq Require Import List NArith Bool Arith.
Import ListNotations.
From V Require Import lib.Bytes spec.RenderSpec spec.RenderDestSpec model.Bufio model.RenderSkel model.RenderDest.
Require Extraction.
Require Import ExtrOcamlBasic.

Definition is (f : bytes) (s : string) : bool := bytes_eqb f (bs s).
Definition num (b : bytes) : N := match undec b with Some n => n | None => 0%N end.
Definition numn (b : bytes) : nat := N.to_nat (num b).
Definition optn (b : bytes) : option N := match b with [] => None | _ => Some (num b) end.
Definition flag (b : bytes) : bool := bytes_eqb b [x31].

Record impl_obs := { i_res : bytes; i_got : bytes; i_log : list logent;
                     (* a destination that is the caller's bufio.Writer: the caller's Flush result, how many of the
                        calls in i_log happened during Render, calls seen by the caller's other destinations *)
                     i_fres : bytes; i_nrender : nat; i_foreign : nat }.
Record mach := { vals : list bytes; nodes : list node; ops : list fop;
                 envl : list (bytes * N * (bytes * option N));      (* (loop path key, oracle id) -> value *)
                 jobsr : list (job fsink * nat * option impl_obs); (* newest first; the nat: size of the caller's bufio.Writer, 0 = none *)
                 curlog : list logent }.

(* the enclosing iteration indices, innermost first, as the harness writes them: "2.0." *)
Definition path_key (p : list nat) : bytes := concat (map (fun k => dec (N.of_nat k) ++ [x2e]) p).
Definition env_of (l : list (bytes * N * (bytes * option N))) : list nat -> N -> bytes * option N :=
  fun path i => let key := path_key path in
                match find (fun p => N.eqb (snd (fst p)) i && bytes_eqb (fst (fst p)) key) l with
                | Some (_, r) => r
                | None => ([], None)
                end.
Definition benv_of l : list nat -> N -> bool := fun path i => flag (fst (env_of l path i)).
Definition nenv_of l : list nat -> N -> nat := fun path i => numn (fst (env_of l path i)).

Definition v (n : nat) (m : mach) : bytes := nth n (vals m) [].
Definition dropv (n : nat) (m : mach) : list bytes := skipn n (vals m).
Definition set_vals (m : mach) (vs : list bytes) : mach :=
  {| vals := vs; nodes := nodes m; ops := ops m; envl := envl m; jobsr := jobsr m; curlog := curlog m |}.
Definition push_node (m : mach) (vs : list bytes) (k : nat) (n : node) : mach :=
  {| vals := vs; nodes := n :: skipn k (nodes m); ops := ops m; envl := envl m; jobsr := jobsr m; curlog := curlog m |}.
Definition popn (k : nat) (m : mach) : list node := rev (firstn k (nodes m)).

Definition step (m : mach) (ins : bytes) : mach :=
  match ins with
  | [] => m
  | op :: payload =>
      if Byte.eqb op x62 (* b *) then set_vals m (payload :: vals m)
      else if Byte.eqb op x4c (* L  lit *) then push_node m (dropv 1 m) 0 (Lit (v 0 m))
      else if Byte.eqb op x45 (* E  id file line col *) then
        push_node m (dropv 4 m) 0 (Expr (num (v 3 m)) (v 2 m) (num (v 1 m)) (num (v 0 m)))
      else if Byte.eqb op x54 (* T  guard count *) then
        let k := numn (v 0 m) in push_node m (dropv 2 m) k (Templ (flag (v 1 m)) (popn k m))
      else if Byte.eqb op x4a (* J  count *) then
        let k := numn (v 0 m) in push_node m (dropv 1 m) k (Join (popn k m))
      else if Byte.eqb op x46 (* F  count *) then
        let k := numn (v 0 m) in push_node m (dropv 1 m) k (Flush (popn k m))
      else if Byte.eqb op x52 (* R  html err *) then push_node m (dropv 2 m) 0 (Raw (v 1 m) (optn (v 0 m)))
      else if Byte.eqb op x4e (* N *) then push_node m (vals m) 0 Nop
      else if Byte.eqb op x49 (* I  kind id k nThen nElse : the then-statements, then the else-statements, are on the stack *) then
        let nt := numn (v 1 m) in let ne := numn (v 0 m) in
        let c := if flag (v 4 m) then CCase (num (v 3 m)) (numn (v 2 m)) else CBool (num (v 3 m)) in
        {| vals := dropv 5 m;
           nodes := If c (rev (firstn nt (skipn ne (nodes m)))) (rev (firstn ne (nodes m))) :: skipn (nt + ne) (nodes m);
           ops := ops m; envl := envl m; jobsr := jobsr m; curlog := curlog m |}
      else if Byte.eqb op x4f (* O  id count *) then
        let k := numn (v 0 m) in push_node m (dropv 2 m) k (For (num (v 1 m)) (popn k m))
      else if Byte.eqb op x48 (* H  kind limit errid own times count : a hand-written component that is passed the block of the
                                      top `count` statements; kind p = into the writer it was given, f = through a forwarding writer of its
                                      own (limit: empty = none), c = into a bytes.Buffer of its own *) then
        let k := numn (v 0 m) in
        let kind := if is (v 5 m) "f" then HFwd (match v 4 m with [] => None | l => Some (numn l) end) (num (v 3 m)) (flag (v 2 m))
                    else if is (v 5 m) "c" then HCapture else HPass in
        push_node m (dropv 6 m) k (Host kind (numn (v 1 m)) (popn k m))
      else if Byte.eqb op x57 (* W  bytes *) then
        {| vals := dropv 1 m; nodes := nodes m; ops := FWrite (v 0 m) :: ops m; envl := envl m; jobsr := jobsr m; curlog := curlog m |}
      else if Byte.eqb op x53 (* S  bytes *) then
        {| vals := dropv 1 m; nodes := nodes m; ops := FWriteString (v 0 m) :: ops m; envl := envl m; jobsr := jobsr m; curlog := curlog m |}
      else if Byte.eqb op x58 (* X  err *) then
        {| vals := dropv 1 m; nodes := nodes m; ops := FFail (num (v 0 m)) :: ops m; envl := envl m; jobsr := jobsr m; curlog := curlog m |}
      else if Byte.eqb op x55 (* U  : all pending ops become one hand-written component *) then
        {| vals := vals m; nodes := Func (rev (ops m)) :: nodes m; ops := []; envl := envl m; jobsr := jobsr m; curlog := curlog m |}
      else if Byte.eqb op x56 (* V  pathkey id value err *) then
        {| vals := dropv 4 m; nodes := nodes m; ops := ops m;
           envl := (v 3 m, num (v 2 m), (v 1 m, optn (v 0 m))) :: envl m; jobsr := jobsr m; curlog := curlog m |}
      else if Byte.eqb op x7a (* z  : forget the environment *) then
        {| vals := vals m; nodes := nodes m; ops := ops m; envl := []; jobsr := jobsr m; curlog := curlog m |}
      else if Byte.eqb op x70 (* p  : drop the top program *) then
        {| vals := vals m; nodes := skipn 1 (nodes m); ops := ops m; envl := envl m; jobsr := jobsr m; curlog := curlog m |}
      else if Byte.eqb op x47 (* G  cancel html mode limit errid choice choice2 : a render of the top program (a Templ) *) then
        let j := match nodes m with
                 | Templ g body :: _ =>
                     {| j_env := env_of (envl m); j_benv := benv_of (envl m); j_senv := nenv_of (envl m); j_cnt := nenv_of (envl m);
                        j_cancel := optn (v 6 m); j_guard := g; j_body := body;
                        j_html := flag (v 5 m);
                        j_sink0 := {| f_mode := num (v 4 m); f_limit := numn (v 3 m); f_tripped := false; f_err := num (v 2 m) |};
                        j_choice := numn (v 1 m); j_choice2 := numn (v 0 m) |}
                 | _ =>
                     {| j_env := env_of []; j_benv := benv_of []; j_senv := nenv_of []; j_cnt := nenv_of []; j_cancel := None; j_guard := false; j_body := []; j_html := false;
                        j_sink0 := {| f_mode := 0%N; f_limit := 0; f_tripped := false; f_err := 0%N |};
                        j_choice := 0; j_choice2 := 0 |}
                 end in
        {| vals := dropv 7 m; nodes := nodes m; ops := ops m; envl := envl m; jobsr := (j, O, None) :: jobsr m; curlog := [] |}
      else if Byte.eqb op x67 (* g  wrapsize cancel html mode limit errid choice choice2 : the same into the caller's bufio.Writer of that size *) then
        let j := match nodes m with
                 | Templ g body :: _ =>
                     {| j_env := env_of (envl m); j_benv := benv_of (envl m); j_senv := nenv_of (envl m); j_cnt := nenv_of (envl m);
                        j_cancel := optn (v 6 m); j_guard := g; j_body := body;
                        j_html := flag (v 5 m);
                        j_sink0 := {| f_mode := num (v 4 m); f_limit := numn (v 3 m); f_tripped := false; f_err := num (v 2 m) |};
                        j_choice := numn (v 1 m); j_choice2 := numn (v 0 m) |}
                 | _ =>
                     {| j_env := env_of []; j_benv := benv_of []; j_senv := nenv_of []; j_cnt := nenv_of []; j_cancel := None; j_guard := false; j_body := []; j_html := false;
                        j_sink0 := {| f_mode := 0%N; f_limit := 0; f_tripped := false; f_err := 0%N |};
                        j_choice := 0; j_choice2 := 0 |}
                 end in
        {| vals := dropv 8 m; nodes := nodes m; ops := ops m; envl := envl m; jobsr := (j, numn (v 7 m), None) :: jobsr m; curlog := [] |}
      else if Byte.eqb op x63 (* c  direct offered accepted errid : one call the real destination saw *) then
        {| vals := dropv 4 m; nodes := nodes m; ops := ops m; envl := envl m; jobsr := jobsr m;
           curlog := curlog m ++ [LCall (flag (v 3 m)) (numn (v 2 m)) (numn (v 1 m))
                                        (match optn (v 0 m) with Some n => Some (ESink n) | None => None end)] |}
      else if Byte.eqb op x73 (* s  : the real call never returned *) then
        {| vals := vals m; nodes := nodes m; ops := ops m; envl := envl m; jobsr := jobsr m; curlog := curlog m ++ [LSpin] |}
      else if Byte.eqb op x4b (* K  res got : the implementation's observation of the newest job *) then
        {| vals := dropv 2 m; nodes := nodes m; ops := ops m; envl := envl m;
           jobsr := match jobsr m with
                    | (j, x, _) :: r => (j, x, Some {| i_res := v 1 m; i_got := v 0 m; i_log := curlog m; i_fres := []; i_nrender := 0; i_foreign := 0 |}) :: r
                    | [] => []
                    end;
           curlog := [] |}
      else if Byte.eqb op x6b (* k  res got fres nrender foreign : the same for a render into the caller's bufio.Writer *) then
        {| vals := dropv 5 m; nodes := nodes m; ops := ops m; envl := envl m;
           jobsr := match jobsr m with
                    | (j, x, _) :: r => (j, x, Some {| i_res := v 4 m; i_got := v 3 m; i_log := curlog m; i_fres := v 2 m;
                                                      i_nrender := numn (v 1 m); i_foreign := numn (v 0 m) |}) :: r
                    | [] => []
                    end;
           curlog := [] |}
      else m
  end.

Definition enc_log (l : list logent) : bytes :=
  concat (map (fun e => match e with
                        | LCall d off acc e => b2 d ++ bs ":" ++ dec (N.of_nat off) ++ bs ":" ++ dec (N.of_nat acc) ++ bs ":" ++ enc_res e ++ bs ";"
                        | LSpin => bs "spin;"
                        end) l).
Definition enc_marks (l : list nat) : bytes := concat (map (fun n => dec (N.of_nat n) ++ bs ";") l).

Definition run_all (cap : nat) (sw flusher : bool) (instrs : list bytes) : list bytes :=
  let m := fold_left step instrs {| vals := []; nodes := []; ops := []; envl := []; jobsr := []; curlog := [] |} in
  let js := rev (jobsr m) in
  let obs := run_jobs fsink fsink_step cap sw flusher html_escape true true ([], []) (map (fun p => fst (fst p)) js) in
  concat (map (fun p => let '(o, (j, _, io)) := p in
                        (* the specification: the document and the program's own first failure *)
                        let '(d, de) := denote html_escape (j_env _ j) (j_benv _ j) (j_senv _ j) (j_cnt _ j) (j_cancel _ j) (Templ (j_guard _ j) (j_body _ j)) [] in
                        [enc_res (o_err o); o_out o; enc_log (o_log o); enc_marks (o_marks o);
                         (* the specification predicate, evaluated on what the implementation did *)
                         match io with Some i => b2 (spec_okb d de (host_errs (Templ (j_guard _ j) (j_body _ j))) (i_res i) (i_got i) (i_log i)) | None => bs "-" end;
                         d; enc_res de])
              (combine obs js)).


(* renders into the caller's bufio.Writer, each computed on its own (RenderDestProof.wrapped_pool_irrelevant and
   wrapped_spec: the pool is irrelevant and the caller's writer is clean again after the caller's epilogue) *)
Definition run_allw (cap : nat) (instrs : list bytes) : list bytes :=
  let m := fold_left step instrs {| vals := []; nodes := []; ops := []; envl := []; jobsr := []; curlog := [] |} in
  concat (map (fun p => let '(j, size, io) := p in
                        let o := render_wrapped fsink fsink_step size cap html_escape (j_env _ j) (j_benv _ j) (j_senv _ j) (j_cnt _ j)
                                                (j_cancel _ j) [] 0 (j_guard _ j) (j_body _ j) (j_sink0 _ j) in
                        let '(d, de) := denote html_escape (j_env _ j) (j_benv _ j) (j_senv _ j) (j_cnt _ j) (j_cancel _ j) (Templ (j_guard _ j) (j_body _ j)) [] in
                        [enc_res (wo_res o); enc_res (wo_fres o); wo_got o; enc_log (wo_log1 o ++ wo_log2 o);
                         dec (N.of_nat (length (wo_log1 o))); dec (N.of_nat (wo_thru o));
                         match io with
                         | Some i => b2 (spec_wrap_okb d de (host_errs (Templ (j_guard _ j) (j_body _ j))) (i_res i) (i_fres i) (i_got i) (firstn (i_nrender i) (i_log i))
                                                       (skipn (i_nrender i) (i_log i)) (i_foreign i))
                         | None => bs "-"
                         end;
                         d; enc_res de])
              (rev (jobsr m))).

Definition dispatch (f : bytes) (a : list bytes) : list bytes :=
  if is f "run" then
    match a with
    | c :: s :: fl :: instrs => run_all (numn c) (flag s) (flag fl) instrs
    | _ => [bs "?"]
    end
  else if is f "runw" then
    match a with
    | c :: instrs => run_allw (numn c) instrs
    | _ => [bs "?"]
    end
  else if is f "escape" then [html_escape (nth 0 a [])]
  else [bs "?"].

Extraction "model.ml" dispatch.
