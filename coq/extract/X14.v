(* Extraction entry point for C14: one generic [dispatch] over byte strings. *)
From Coq.Strings Require Import Byte String.
From Coq Require Import List Arith NArith Bool.
Import ListNotations.
From V Require Import lib.Bytes spec.Isolated model.Pool.
Require Extraction.
Require Import ExtrOcamlBasic.
Local Open Scope nat_scope.

Definition is (f : bytes) (s : string) : bool := bytes_eqb f (bs s).
Definition arg (n : nat) (a : list bytes) : bytes := nth n a [].
Definition num (s : bytes) : N := match undec s with Some n => n | None => 0%N end.
Definition numn (s : bytes) : nat := N.to_nat (num s).

Fixpoint split_on (sep : byte) (s : bytes) (cur : bytes) : list bytes :=
  match s with
  | [] => [rev cur]
  | b :: r => if Byte.eqb b sep then rev cur :: split_on sep r [] else split_on sep r (b :: cur)
  end.

(* the part before the first sep, and the rest *)
Fixpoint split_first (sep : byte) (s : bytes) (cur : bytes) : bytes * bytes :=
  match s with
  | [] => (rev cur, [])
  | b :: r => if Byte.eqb b sep then (rev cur, r) else split_first sep r (b :: cur)
  end.
Definition nums (s : bytes) : list N := match s with [] => [] | _ => map num (split_on x2c s []) end.

(* actions: one argument each; first byte is the tag *)
Definition dec_act (a : bytes) : act :=
  match a with
  | [] => Err
  | t :: r =>
    if Byte.eqb t x42 (* B *) then Begin
    else if Byte.eqb t x47 (* G *) then Get
    else if Byte.eqb t x57 (* W *) then Write r
    else if Byte.eqb t x4c (* L *) then
      match split_on x2c r [] with f :: i :: _ => Lookup (num f) (numn i) | _ => Err end
    else if Byte.eqb t x4f (* O *) then
      match split_on x2c r [] with h :: n :: _ => Once (numn h) (numn n) | _ => Err end
    else if Byte.eqb t x4e (* N *) then NewHandle
    else if Byte.eqb t x45 (* E *) then Err
    else if Byte.eqb t x46 (* F *) then Flush
    else if Byte.eqb t x52 (* R *) then Release
    else if Byte.eqb t x62 (* b *) then BGet
    else if Byte.eqb t x64 (* d *) then BDrain
    else if Byte.eqb t x72 (* r *) then BRelease
    else if Byte.eqb t x4d (* M *) then Mid (nums r)
    else if Byte.eqb t x53 (* S *) then let '(k, s) := split_first x2c r [] in EmitOnce (num k) s
    else if Byte.eqb t x77 (* w *) then OwnWrap
    else if Byte.eqb t x6f (* o *) then OwnWrite r
    else if Byte.eqb t x66 (* f *) then OwnFlush
    else Err
  end.

(* files: separated by byte 0; file k's lines separated by newline; modification times do not matter to a lone run *)
Fixpoint files_from (k : N) (l : list bytes) : fsys :=
  match l with [] => [] | c :: r => (k, {| mtime := 0%N; flines := split_on x0a c [] |}) :: files_from (k + 1)%N r end.
Definition dec_fs (s : bytes) : fsys := match s with [] => [] | _ => files_from 0%N (split_on x00 s []) end.

Definition quiescent (v : lstate) : bool :=
  match l_buf v with Some LGot => false | Some (LBuf _ _ _ true) => false | _ => match l_bb v with Some true => false | _ => true end end.
Definition record (v : lstate) : bytes :=
  dec (N.of_nat (length (l_out v))) ++ [x2c] ++
  match l_buf v with Some (LBuf c _ _ _) => dec (N.of_nat (length c)) | _ => [x2d] end.
Fixpoint trace (fs : fsys) (fuel : nat) (v : lstate) (last : bytes) : list bytes :=
  match fuel with
  | O => []
  | S f => match lstep fs v with
           | None => []
           | Some v' => if quiescent v' then
                          let r := record v' in
                          if bytes_eqb r last then trace fs f v' last else r :: trace fs f v' r
                        else trace fs f v' last
           end
  end.

(* offsets at which the writer's http.Flusher is called: after every successful Buffer.Flush towards the writer
   (a bufio.Writer the goroutine put in front of it is not an http.Flusher) *)
Definition flush_step (v : lstate) : bool :=
  negb (is_some (l_pend v)) &&
  match l_buf v, l_bb v, l_prog v with
  | Some (LBuf _ false false false), Some true, _ => false
  | Some (LBuf _ false false false), _, Flush :: _ => negb (l_failed v)
  | Some (LBuf _ false false false), _, Release :: _ => true
  | _, _, _ => false
  end.
Definition flush_ok (v : lstate) : bool := match l_buf v with Some (LBuf _ false _ _) => true | _ => false end.
Fixpoint marks (fs : fsys) (fuel : nat) (v : lstate) : list bytes :=
  match fuel with
  | O => []
  | S f => match lstep fs v with
           | None => []
           | Some v' => (if flush_step v && flush_ok v' then [dec (N.of_nat (length (l_out v')))] else []) ++ marks fs f v'
           end
  end.

Definition finished (fs : fsys) (v : lstate) : bool :=
  nilb (l_prog v) && negb (is_some (l_buf v)) && negb (is_some (l_bb v)).

(* the cache against a changing file system: events W<file>,<mtime>,<lines..>  D<file>  K<file>,<now> *)
Fixpoint fs_del (f : N) (fs : fsys) : fsys :=
  match fs with [] => [] | (k, v) :: r => if N.eqb k f then fs_del f r else (k, v) :: fs_del f r end.
Definition join_lines (ls : list bytes) : bytes := concat (map (fun l => l ++ [x0a]) ls).
Fixpoint cache_events (fs : fsys) (ca : list (N * centry)) (evs : list bytes) : list bytes :=
  match evs with
  | [] => []
  | e :: r =>
    match e with
    | [] => cache_events fs ca r
    | t :: body =>
      let parts := split_on x2c body [] in
      if Byte.eqb t x57 then
        match parts with
        | f :: m :: ls => cache_events ((num f, {| mtime := num m; flines := ls |}) :: fs_del (num f) fs) ca r
        | _ => cache_events fs ca r end
      else if Byte.eqb t x44 then
        match parts with f :: _ => cache_events (fs_del (num f) fs) ca r | _ => cache_events fs ca r end
      else
        match parts with
        | f :: now :: _ =>
            let '(res, ca') := cache_lookup fs (num now) ca (num f) in
            (match res with Some ls => x2b :: join_lines ls | None => [x21] end) :: cache_events fs ca' r
        | _ => cache_events fs ca r end
    end
  end.

Definition dispatch (f : bytes) (a : list bytes) : list bytes :=
  if is f "alone" then
    (* args: cap, files, actions...  reply: output, finished?, handles created, failed?, steps taken *)
    let cap := numn (arg 0 a) in let fs := dec_fs (arg 1 a) in let p := map dec_act (skipn 2 a) in
    let v := lfinal fs (2 * length p + 2) (linit cap p) in
    [l_out v; b2 (finished fs v); dec (N.of_nat (l_nids v)); b2 (l_failed v);
     concat (map (fun m => m ++ [x2c]) (marks fs (2 * length p + 2) (linit cap p)))]
  else if is f "trace" then
    let cap := numn (arg 0 a) in let fs := dec_fs (arg 1 a) in let p := map dec_act (skipn 2 a) in
    trace fs (2 * length p + 2) (linit cap p) []
  else if is f "cache" then cache_events [] [] a
  else [bs "?"].

Extraction "model.ml" dispatch.
