(* Extraction entry point for C17.
   A content change is six arguments: kind, startLine, startChar, endLine, endChar, text
     kind "0" = no range (full replace), "1" = ranged change, "2" = didOpen with text (numbers ignored),
     "a" / "b" = like "0" / "1" but not the last change of its didChange notification (the implementation's
     text is not observable after it, so [hist] records '-' instead of a comparison)
   numbers are decimal. *)
From Coq.Strings Require Import Byte String.
From Coq Require Import List NArith Bool.
Import ListNotations.
From V Require Import lib.Bytes lib.Lsp lib.LspWire spec.Splice spec.SpliceWire model.DocEdit model.DocWire.
Require Extraction.
Require Import ExtrOcamlBasic.

Definition is (f : bytes) (s : string) : bool := bytes_eqb f (bs s).
Definition arg (n : nat) (a : list bytes) : bytes := nth n a [].
Definition num (s : bytes) : N := match undec s with Some n => n | None => 0%N end.

Definition mk_range (a b c d : bytes) : range :=
  {| start := {| line := num a; char := num b |}; stop := {| line := num c; char := num d |} |}.

(* decode one event from six arguments *)
Definition ev_of (k a b c d t : bytes) : event :=
  if is k "2" then Open t
  else if is k "0" || is k "a" then Change [{| crange := None; ctext := t |}]
  else Change [{| crange := Some (mk_range a b c d); ctext := t |}].

Definition ev_validb (e : event) : bool :=
  match e with Open _ => true | Change cs => forallb (fun c => range_validb (crange c)) cs end.

(* step: text, change -> model result, specification result, is the range valid *)
Definition step (a : list bytes) : list bytes :=
  let s := arg 0 a in
  let e := ev_of (arg 1 a) (arg 2 a) (arg 3 a) (arg 4 a) (arg 5 a) (arg 6 a) in
  [doc_string (server_step (new_document s) e); editor_step s e; b2 (ev_validb e)].

(* check: text, change, implementation's result ->
     does the model agree with the implementation; does the specification predicate hold of the implementation's result *)
Definition check (a : list bytes) : list bytes :=
  let s := arg 0 a in
  let e := ev_of (arg 1 a) (arg 2 a) (arg 3 a) (arg 4 a) (arg 5 a) (arg 6 a) in
  let o := arg 7 a in
  [b2 (bytes_eqb o (doc_string (server_step (new_document s) e))); b2 (bytes_eqb o (editor_step s e))].

(* hist: s0, then seven arguments per event: the six of the change and the implementation's text after it.
   The model's line array and the editor's text are carried through the whole history independently of the
   implementation.  Reply: per-event flags "model = implementation", per-event flags "editor = implementation",
   the model's final text, the editor's final text. *)
Fixpoint hist_go (fuel : nat) (d : list bytes) (s : bytes) (a : list bytes) (t1 t2 : bytes) : list bytes :=
  match fuel with
  | O => [rev t1; rev t2; doc_string d; s]
  | S f =>
      match a with
      | k :: x1 :: x2 :: x3 :: x4 :: t :: o :: rest =>
          let e := ev_of k x1 x2 x3 x4 t in
          let d' := server_step d e in
          let s' := editor_step s e in
          hist_go f d' s' rest
                  ((if is k "a" || is k "b" then x2d else if bytes_eqb o (doc_string d') then x31 else x30) :: t1)
                  ((if is k "a" || is k "b" then x2d else if bytes_eqb o s' then x31 else x30) :: t2)
      | _ => [rev t1; rev t2; doc_string d; s]
      end
  end.
Definition hist (a : list bytes) : list bytes :=
  match a with
  | s0 :: rest => hist_go (length rest) (new_document s0) s0 rest [] []
  | [] => [bs "?"]
  end.

(* the predicate before commit 9226857, for the harness's self-test of its own sensitivity *)
Definition step_old (a : list bytes) : list bytes :=
  let s := arg 0 a in
  let r := mk_range (arg 2 a) (arg 3 a) (arg 4 a) (arg 5 a) in
  [doc_string (apply_with is_whole_document_old (new_document s) (Some r) (arg 6 a)); edit s (Some r) (arg 6 a)].

(* ---- the wire: a stream of notifications about several URIs ----
   wire: u1, u2 (the URIs that are observed), then per notification
     "O" uri text o1 o2                      didOpen
     "X" uri o1 o2                           didClose
     "C" uri n  (rk a b c d rl text) x n  o1 o2     didChange with n content changes;
            rk = "-" range member absent | "n" null | "r" present (a b c d decimal);
            rl = ""  rangeLength absent  | "n" null | decimal
   o1 / o2: what the implementation holds for u1 / u2 after the notification: "M" nothing, "T" ++ text.
   Reply: per-notification flags "model = implementation", per-notification flags "editor = implementation"
   ('1' / '0'), both at u1 and u2. *)
Definition mem_range (rk a b c d : bytes) : member range :=
  if is rk "r" then Present (mk_range a b c d) else if is rk "n" then Null else Absent.
Definition mem_num (s : bytes) : member N :=
  match s with [] => Absent | _ => if is s "n" then Null else Present (num s) end.

Fixpoint take_changes (n : nat) (a : list bytes) : list wchange * list bytes :=
  match n with
  | O => ([], a)
  | S n' =>
      match a with
      | rk :: x1 :: x2 :: x3 :: x4 :: rl :: t :: rest =>
          let (cs, rest') := take_changes n' rest in
          ({| wrange := mem_range rk x1 x2 x3 x4; wrange_length := mem_num rl; wtext := t |} :: cs, rest')
      | _ => ([], [])
      end
  end.

Definition obs_eq (o : bytes) (x : option bytes) : bool :=
  match x with None => is o "M" | Some s => bytes_eqb o (x54 :: s) end.

Fixpoint wire_go (fuel : nat) (u1 u2 : bytes) (ms : bytes -> option (list bytes)) (me : bytes -> option bytes)
                 (a : list bytes) (t1 t2 : bytes) : list bytes :=
  let fin := [rev t1; rev t2] in
  let next f n o1 o2 rest :=
    let ms' := server_note ms n in
    let me' := editor_note me n in
    wire_go f u1 u2 ms' me' rest
      ((if obs_eq o1 (option_map doc_string (ms' u1)) && obs_eq o2 (option_map doc_string (ms' u2)) then x31 else x30) :: t1)
      ((if obs_eq o1 (me' u1) && obs_eq o2 (me' u2) then x31 else x30) :: t2) in
  match fuel with
  | O => fin
  | S f =>
      match a with
      | k :: u :: rest =>
          if is k "O" then
            match rest with s :: o1 :: o2 :: rest' => next f (DidOpen u s) o1 o2 rest' | _ => fin end
          else if is k "X" then
            match rest with o1 :: o2 :: rest' => next f (DidClose u) o1 o2 rest' | _ => fin end
          else if is k "C" then
            match rest with
            | n :: rest1 =>
                let (cs, rest2) := take_changes (N.to_nat (num n)) rest1 in
                match rest2 with o1 :: o2 :: rest' => next f (DidChange u cs) o1 o2 rest' | _ => fin end
            | _ => fin
            end
          else fin
      | _ => fin
      end
  end.
Definition wire (a : list bytes) : list bytes :=
  match a with
  | u1 :: u2 :: rest => wire_go (length rest) u1 u2 no_contents no_buffers rest [] []
  | _ => [bs "?"]
  end.

(* the reused-slot decoder, for the harness's self-test: text, previous slot's range, new text ->
   document after decoding "text only" into that slot and applying; the editor's text *)
Definition wire_stale (a : list bytes) : list bytes :=
  let s := arg 0 a in
  let prev := {| crange := Some (mk_range (arg 1 a) (arg 2 a) (arg 3 a) (arg 4 a)); ctext := [] |} in
  let w := {| wrange := Absent; wrange_length := Absent; wtext := arg 5 a |} in
  [doc_string (apply_change (new_document s) (decode_into (Some prev) w)); wire_edit s w].

Definition dispatch (f : bytes) (a : list bytes) : list bytes :=
  if is f "step" then step a
  else if is f "check" then check a
  else if is f "hist" then hist a
  else if is f "step_old" then step_old a
  else if is f "wire" then wire a
  else if is f "wire_stale" then wire_stale a
  else [bs "?"].

Extraction "model.ml" dispatch.
