(* Extraction entry point for C04: one generic [dispatch] over byte strings. *)
From Coq.Strings Require Import Byte String.
From Coq Require Import List NArith Bool.
Import ListNotations.
(* the generator model first, so that the C04 models' short names win; its definitions are used qualified *)
From V Require Import lib.Sexp model.Ast model.Gen model.SourceMap.
From V Require Import lib.Bytes model.Url model.Escape spec.Whatwg spec.HtmlTok spec.HtmlRefs spec.HtmlEntities spec.UrlSink.
Require Extraction.
Require Import ExtrOcamlBasic.

Definition is (f : bytes) (s : string) : bool := bytes_eqb f (bs s).
Definition arg (n : nat) (a : list bytes) : bytes := nth n a [].

(* ---- the rendered document, read as a browser reads it ---- *)
(* first start tag named elem that carries attribute attr: its raw value *)
Fixpoint find_attr (elem attr : bytes) (ts : list token) : option bytes :=
  match ts with
  | [] => None
  | TStart n a _ :: r =>
      if bytes_eqb n elem then match attr_value attr a with Some v => Some v | None => find_attr elem attr r end
      else find_attr elem attr r
  | _ :: r => find_attr elem attr r
  end.
(* structure signature: every token except attribute VALUES (tags, attribute names, text, comments) *)
Fixpoint tsig (ts : list token) : bytes :=
  match ts with
  | [] => []
  | TChar b :: r => b :: tsig r
  | TStart n a sc :: r => [x00; x3c] ++ n ++ flat_map (fun kv => x00 :: fst kv) a ++ (if sc then [x2f] else []) ++ [x00; x3e] ++ tsig r
  | TEnd n :: r => [x00; x3c; x2f] ++ n ++ [x00; x3e] ++ tsig r
  | TComment d :: r => [x00; x21] ++ d ++ [x00; x3e] ++ tsig r
  | TDoctype d :: r => [x00; x44] ++ d ++ [x00; x3e] ++ tsig r
  end.
Definition scheme_reply (d : bytes) : bytes :=
  match browser_scheme d with None => [x2d] | Some sc => x3a :: sc end.
Fixpoint flat_pairs (l : list (bytes * bytes)) : list bytes :=
  match l with [] => [] | (a, b) :: r => a :: b :: flat_pairs r end.

Definition dispatch (f : bytes) (a : list bytes) : list bytes :=
  if is f "url" then [url (arg 0 a)]
  else if is f "safeb" then [b2 (safeb (arg 0 a))]
  else if is f "scheme" then
    match browser_scheme (arg 0 a) with None => [[x30]] | Some sc => [[x31]; sc] end
  else if is f "url_sink" then [b2 (url_sink (arg 0 a) (arg 1 a))]
  else if is f "failed" then [failed]
  else if is f "check" then
    (* args: input, implementation output.  reply: model output; does the property predicate hold of the implementation's output? *)
    let s := arg 0 a in let o := arg 1 a in
    [url s; b2 (bytes_eqb o failed || (bytes_eqb o s && safeb s))]
  else if is f "rendered" then
    (* args: input s, the document the implementation rendered, element name, attribute name.
       reply: found?; raw attribute value as tokenized; its decoded form d (what the URL parser receives);
              the END-TO-END specification predicate rendered_okb s d; the model's raw value escape (url s);
              the scheme a browser extracts from d ("-" none, ":"scheme); the structure signature of the document;
              the scheme half of the predicate alone: d is the failure URL or safeb d *)
    let s := arg 0 a in let ts := tok (arg 1 a) in
    match find_attr (arg 2 a) (arg 3 a) ts with
    | Some raw => let d := decode_attr raw in
                  [[x31]; raw; d; b2 (rendered_okb s d); escape (url s); scheme_reply d; tsig ts; b2 (bytes_eqb d failure_url || safeb d)]
    | None => [[x30]; []; []; [x30]; escape (url s); [x2d]; tsig ts; [x30]]
    end
  else if is f "decode_attr" then [decode_attr (arg 0 a)]
  else if is f "entities" then flat_pairs html5_entities
  else if is f "gen" then
    (* the generator model on a parsed template file (same request as extract/X07.v).
       args: file name, AST wire.  reply: status, code, source map dump, literals (joined by LF) *)
    match Sexp.parse_all (arg 1 a) with
    | Some x => match Ast.dfile x with
                | Some fl => let '(code, lits, sm) := SourceMap.generate_all (arg 0 a) fl in
                             [bs "ok"; code; sm; Gen.join_with [x0a] lits]
                | None => [bs "decode-ast"] end
    | None => [bs "decode-sexp"] end
  else [bs "?"].

Extraction "model.ml" dispatch.
