(* Extraction entry point for C04: one generic [dispatch] over byte strings. *)
From Coq.Strings Require Import Byte String.
From Coq Require Import List NArith Bool.
Import ListNotations.
From V Require Import lib.Bytes model.Url spec.Whatwg.
Require Extraction.
Require Import ExtrOcamlBasic.

Definition is (f : bytes) (s : string) : bool := bytes_eqb f (bs s).
Definition arg (n : nat) (a : list bytes) : bytes := nth n a [].

Definition dispatch (f : bytes) (a : list bytes) : list bytes :=
  if is f "url" then [url (arg 0 a)]
  else if is f "safeb" then [b2 (safeb (arg 0 a))]
  else if is f "scheme" then
    match browser_scheme (arg 0 a) with None => [[x30]] | Some sc => [[x31]; sc] end
  else if is f "url_sink" then [b2 (url_sink (arg 0 a) (arg 1 a))]
  else if is f "failed" then [failed]
  else if is f "check" then
    (* args: input, implementation output.  reply: model output; does the property predicate hold of the implementation's output? *)
    let s := arg 0 a in let o := arg 1 a in
    [url s; b2 (bytes_eqb o failed || (bytes_eqb o s && safeb s))]
  else [bs "?"].

Extraction "model.ml" dispatch.
