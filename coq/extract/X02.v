(* Extraction entry point for C02: generator model (text) and the denotational renderer. *)
From Coq.Strings Require Import Byte String.
From Coq Require Import List Arith NArith Bool.
Import ListNotations.
From V Require Import lib.Bytes lib.Sexp model.Ast model.Gen model.SourceMap spec.Denote model.IrFrag model.IrFragPrint model.IrFragEnv.
From V Require spec.SrcText model.SrcTextParse.
Require Extraction.
Require Import ExtrOcamlBasic.

(* The wire decoder of lib/Sexp.v re-measures the remaining input at every atom (quadratic: seconds for the 64 KiB static runs of
   the long-run family).  Same format, same results, one pass: the atom is taken by counting down its length. *)
Fixpoint take_rev (n : nat) (s acc : bytes) : option (bytes * bytes) :=
  match n with
  | O => Some (rev_append acc [], s)
  | S k => match s with [] => None | b :: r => take_rev k r (b :: acc) end
  end.
Fixpoint fparse (fuel : nat) (s : bytes) {struct fuel} : option (sexp * bytes) :=
  match fuel with
  | O => None
  | S f =>
      match s with
      | x61 :: r => match read_num 0 r with
                    | Some (n, r') => match take_rev n r' [] with Some (a, t) => Some (Atom a, t) | None => None end
                    | None => None end
      | x6c :: r => match read_num 0 r with
                    | Some (n, r') =>
                        (fix items (k : nat) (s : bytes) (acc : list sexp) {struct k} : option (sexp * bytes) :=
                           match k with
                           | O => Some (SList (rev_append acc []), s)
                           | S k' => match fparse f s with Some (x, s') => items k' s' (x :: acc) | None => None end
                           end) n r' []
                    | None => None end
      | _ => None
      end
  end.
Definition parse_all (s : bytes) : option sexp :=
  match fparse (S (length s)) s with Some (x, []) => Some x | _ => None end.

Definition isf (f : bytes) (s : string) : bool := bytes_eqb f (bs s).
Definition arg (n : nat) (a : list bytes) : bytes := nth n a [].

Definition show_kind (k : evk) : bytes :=
  match k with KStr => bs "str" | KBool => bs "bool" | KFor => bs "for" | KSwitch => bs "switch" | KCall => bs "call" | KGo => bs "go" | KClass => bs "class"
             | KUrl => bs "url" | KStyle => bs "style" | KScript => bs "script" | KSpread => bs "spread" | KJs => bs "js" end.
Definition show_trace (t : list event) : bytes :=
  flat_map (fun ke => let '(k, e) := ke in show_kind k ++ bs " " ++ dec (e_fi e) ++ bs " " ++ e_val e ++ [x0a]) t.
Definition show_res (r : res) : bytes :=
  let '(o, _, p) := r in
  match p with
  | None => bs "OK:" ++ o
  | Some (l, c) => bs "ERR:" ++ dec l ++ bs ":" ++ dec c ++ bs ":" ++ o end.
Definition frag_run (denot : bool) (fl : file) (name : bytes) (ev : Denote.env) : list bytes :=
  match to_frag_file fr_known fl with
  | None => [bs "not-fragment"]
  | Some l =>
      let tbl := frag_table l in
      match IrFrag.find tbl name with
      | None => [bs "no-template"]
      | Some body =>
          let r := if denot
                   then denote_f fr_orc true tbl 300 ev None body None
                   else exec_f fr_orc true (compile fr_orc tbl) 300 ev None (coalesce (gens fr_orc body None)) in
          [bs "ok"; show_res (resolve_res r); show_trace (trace_of r); b2 (tbl_hoist_free tbl)]
      end
  end.

Definition dispatch (f : bytes) (a : list bytes) : list bytes :=
  if isf f "frag_gen" then
    (* args: file name, AST wire.  reply: ok, Go text, literals | not-fragment *)
    match parse_all (arg 1 a) with
    | Some x => match dfile x with
                | Some fl => match frag_generate (arg 0 a) fl with
                             | Some (code, lits) => [bs "ok"; code; join_with [x0a] lits]
                             | None => [bs "not-fragment"] end
                | None => [bs "decode-ast"] end
    | None => [bs "decode-sexp"] end
  else if isf f "frag_exec" || isf f "frag_denote" then
    (* args: AST wire, template name, environment wire[, more environment].  reply: ok, OK:<bytes> | ERR:<line>:<col>:<bytes>, trace, hoist-free flag;
       the bytes are the finished document: script definitions resolved once per render context (spec/ScriptOnce.v) *)
    match parse_all (arg 0 a), parse_all (arg 2 a) with
    | Some x, Some ev => match dfile x with
                         | Some fl => frag_run (isf f "frag_denote") fl (arg 1 a)
                                        (match parse_all (arg 3 a) with Some ev2 => denv ev2 | None => [] end ++ denv ev)
                         | None => [bs "decode-ast"] end
    | _, _ => [bs "decode-sexp"] end
  else if isf f "gen" then
    match parse_all (arg 1 a) with
    | Some x => match dfile x with
                | Some fl => let '(code, lits, sm) := generate_all (arg 0 a) fl in
                             [bs "ok"; code; sm; join_with [x0a] lits]
                | None => [bs "decode-ast"] end
    | None => [bs "decode-sexp"] end
  else if isf f "denote" then
    (* args: AST wire, template name, environment wire.  reply: OK:<bytes> | ERR:<line>:<col>:<bytes> *)
    match parse_all (arg 0 a), parse_all (arg 2 a) with
    | Some x, Some ev => match dfile x with
                         | Some fl => [bs "ok"; denote_case fl (arg 1 a) (denv ev)]
                         | None => [bs "decode-ast"] end
    | _, _ => [bs "decode-sexp"] end
  else if isf f "classify" then
    (* args: element name.  reply: block / void as spec/Denote.v classifies the name, block / void as the generator model (model/Gen.v)
       does - the harness compares them with the live parser's IsBlockElement / IsVoidElement for every name of the vocabulary *)
    [b2 (Denote.block_name (arg 0 a)); b2 (Denote.void_name (arg 0 a)); b2 (Gen.is_block_name (arg 0 a)); b2 (Gen.is_void_name (arg 0 a))]
  else if isf f "srctext" then
    (* args: the content T of `<p>T</p>`.  reply: in the fragment?, guard, document by model/SrcTextParse.v, document by spec/SrcText.v *)
    [b2 (SrcTextParse.in_frag (arg 0 a)); b2 (SrcTextParse.no_byte_space_lead (arg 0 a)); SrcTextParse.doc_code (arg 0 a); SrcText.doc_spec (arg 0 a)]
  else if isf f "srclines" then
    (* args: the lines L1..Ln.  reply: every line in the fragment?, every line passes the guard?, document by model, document by spec *)
    [b2 (forallb SrcTextParse.in_frag a); b2 (forallb SrcTextParse.no_byte_space_lead a); SrcTextParse.doc_code_lines a; SrcText.doc_spec_lines a]
  else if isf f "srcctx" then
    (* args: pre, post, then the lines.  reply as srclines, the documents in the static context pre ... post *)
    let ls := skipn 2 a in
    [b2 (forallb SrcTextParse.in_frag ls); b2 (forallb SrcTextParse.no_byte_space_lead ls);
     SrcTextParse.ctx_code_lines (arg 0 a) (arg 1 a) ls; SrcText.ctx_spec_lines (arg 0 a) (arg 1 a) ls]
  else [bs "?"].

Extraction "model.ml" dispatch.
