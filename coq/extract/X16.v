(* Extraction entry point for C16: one generic [dispatch] over byte strings. *)
From Coq.Strings Require Import Byte String.
From Coq Require Import List NArith Bool.
Import ListNotations.
From V Require Import lib.Bytes model.Quote model.QuoteGo model.WatchMode model.WatchHandler.
Require Extraction.
Require Import ExtrOcamlBasic.

Definition is (f : bytes) (s : string) : bool := bytes_eqb f (bs s).
Definition arg (n : nat) (a : list bytes) : bytes := nth n a [].
Definition num (s : bytes) : nat := match undec s with Some n => N.to_nat n | None => 0%nat end.
Definition opt (o : option bytes) : list bytes := match o with Some v => [[x31]; v] | None => [[x30]] end.

Definition opts (v f k : bytes) : gen_opts := {| o_version := v; o_file := f; o_skip := bytes_eqb k [x31]; o_date := [] |}.

(* per literal i of the list: "true:" ++ value when index i+1 of the written file reads back and the literal scans, else "false:" *)
Fixpoint litcheck (file : bytes) (i : nat) (ls : list bytes) : list bytes :=
  match ls with
  | [] => []
  | l :: r => (match dev_write file (S i) with
               | Some v => if scan_ok l then bs "true:" ++ v else bs "false:"
               | None => bs "false:" end) :: litcheck file (S i) r
  end.

(* a watch session: n events, each  key v f k nlit nexp skel lits.. exprs..  (key = the template) *)
Fixpoint session_events (n : nat) (a : list bytes) : list (bytes * gen_output bytes) :=
  match n with
  | O => []
  | S n' =>
      let nl := num (arg 4 a) in let ne := num (arg 5 a) in
      let rest := skipn 7 a in
      (arg 0 a, {| g_opts := opts (arg 1 a) (arg 2 a) (arg 3 a); g_literals := firstn nl rest;
                   g_exprs := firstn ne (skipn nl rest); g_skel := arg 6 a |})
      :: session_events n' (skipn (nl + ne) rest)
  end.
(* the model handler (model/WatchHandler.v: handle_event, the hash of a text being the text) run over the events;
   per event two replies: the bits GoUpdated, TextUpdated, "the template's text file exists"; the file on disk *)
Fixpoint session_replies (m : hmap (option bytes) bytes bytes) (evs : list (bytes * gen_output bytes)) : list bytes :=
  match evs with
  | [] => []
  | ev :: r =>
      let '(m1, a) := handle_event (option bytes) id_hash oeqb bytes bytes_eqb bytes bytes_eqb m ev in
      let d := h_disk (m1 (fst ev)) in
      (b2 (r_go a) ++ b2 (r_text a) ++ b2 (match d with Some _ => true | None => false end))
      :: (match d with Some x => x | None => [] end) :: session_replies m1 r
  end.

Definition dispatch (f : bytes) (a : list bytes) : list bytes :=
  if is f "quote" then [go_quote (arg 0 a)]
  else if is f "qcheck" then
    (* args: input, the implementation's escaped form.  reply: model quote; does Unquote restore the input from the
       implementation's output; does the implementation's output scan as one literal on one line *)
    let s := arg 0 a in let q := arg 1 a in
    [go_quote s; b2 (match unquote q with Some v => bytes_eqb v s | None => false end); b2 (scan_ok q && no_byte x0a q)]
  else if is f "unquote" then opt (unquote (arg 0 a))
  else if is f "scan" then [b2 (scan_ok (arg 0 a))]
  else if is f "isprint" then [b2 (go_is_print (match undec (arg 0 a) with Some n => n | None => 0%N end))]
  else if is f "file" then [text_file a]
  else if is f "split" then split_lf (arg 0 a)
  else if is f "lookup" then opt (dev_write (arg 0 a) (num (arg 1 a)))
  else if is f "litcheck" then litcheck (text_file a) 0 a
  else if is f "haschanged" then
    (* v1 f1 k1 v2 f2 k2 nlit1 nexp1 nlit2 nexp2 skel1 skel2 lits1.. exprs1.. lits2.. exprs2..
       reply: HasChanged (with the skeleton comparison); the criterion of before 75525d5 *)
    let rest := skipn 12 a in
    let nl1 := num (arg 6 a) in let ne1 := num (arg 7 a) in let nl2 := num (arg 8 a) in let ne2 := num (arg 9 a) in
    let p := {| g_opts := opts (arg 0 a) (arg 1 a) (arg 2 a); g_literals := firstn nl1 rest; g_exprs := firstn ne1 (skipn nl1 rest); g_skel := arg 10 a |} in
    let rest2 := skipn (nl1 + ne1) rest in
    let u := {| g_opts := opts (arg 3 a) (arg 4 a) (arg 5 a); g_literals := firstn nl2 rest2; g_exprs := firstn ne2 (skipn nl2 rest2); g_skel := arg 11 a |} in
    [b2 (has_changed bytes_eqb p u); b2 (expr_list_criterion p u)]
  else if is f "skeleton" then
    (* the generated code.  reply: skel_of_code; is the file a well-formed program of lines (wf_code);
       then the literals of its WriteString lines in order *)
    let c := arg 0 a in
    skel_of_code c :: b2 (wf_code c) :: op_lits (ops_of_code c)
  else if is f "session" then
    session_replies (h_empty (option bytes) None bytes bytes) (session_events (num (arg 0 a)) (skipn 1 a))
  else [bs "?"].

Extraction "model.ml" dispatch.
