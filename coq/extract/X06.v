(* Extraction entry point for C06: one generic [dispatch] over byte strings. *)
From Coq.Strings Require Import Byte String.
From Coq Require Import List NArith ZArith Bool.
Import ListNotations.
From V Require Import lib.Bytes lib.SrcPos spec.PosOf model.ParseInput model.GoExprScan.
Require Extraction.
Require Import ExtrOcamlBasic.

Definition is (f : bytes) (s : string) : bool := bytes_eqb f (bs s).
Definition arg (n : nat) (a : list bytes) : bytes := nth n a [].

(* numbers travel as decimal ASCII, negative ones with a leading '-' *)
Definition num (s : bytes) : nat := match undec s with Some n => N.to_nat n | None => O end.
Definition znum (s : bytes) : Z :=
  match s with
  | b :: r => if Byte.eqb b x2d then Z.opp (Z.of_N (match undec r with Some n => n | None => 0%N end))
              else Z.of_N (match undec s with Some n => n | None => 0%N end)
  | [] => 0%Z
  end.
(* a recorded index / line / column, cut off at n + 1 while still a binary number (C06_checked_predicates_saturate:
   with n = length src no verdict changes); negative or malformed numbers are n + 1 as well - never faithful *)
Definition numc_ (n : nat) (nn : N) (s : bytes) : nat :=    (* nn = N.of_nat n, converted once per request *)
  match s with
  | [] => S n
  | b :: _ =>
      if Byte.eqb b x2d then S n
      else match undec s with
           | Some v => if (nn <? v)%N then S n else N.to_nat v
           | None => S n
           end
  end.
Definition ndec (n : nat) : bytes := dec (N.of_nat n).
Definition zdec (z : Z) : bytes := if (z <? 0)%Z then x2d :: dec (Z.to_N (Z.opp z)) else dec (Z.to_N z).
Definition pos3 (p : position) : list bytes := [ndec (p_index p); ndec (p_line p); ndec (p_col p)].
Definition mk3 (a : list bytes) (k : nat) : position := mkpos (num (arg k a)) (num (arg (S k) a)) (num (arg (S (S k)) a)).
Definition expr_out (e : expression) : list bytes := e_value e :: pos3 (e_from e) ++ pos3 (e_to e).

(* items of 8 arguments: kind, text, from(index line col), to(index line col);
   evaluated with the one-pass position table (= the specification predicates, C06_checked_predicates_decide_spec) *)
Fixpoint check_items (fuel : nat) (tbl : list position) (n : nat) (nn : N) (src : bytes) (a : list bytes) : list bytes :=
  let numc := numc_ n nn in
  match fuel with
  | O => []
  | S f =>
    match a with
    | kind :: text :: fi :: fl :: fc :: ti :: tl :: tc :: r =>
        let from := mkpos (numc fi) (numc fl) (numc fc) in   (* = sat_pos n of the recorded position *)
        let to := mkpos (numc ti) (numc tl) (numc tc) in
        let ok := if is kind "E" then range_okb_tbl tbl n src (mkexpr text from to)
                  else if is kind "N" then name_range_okb_tbl tbl n src text from to
                  else plain_range_okb_tbl tbl n from to in
        b2 ok :: check_items f tbl n nn src r
    | _ => []
    end
  end.

(* a script of Input operations: t<n> Take, p<n> Peek, s<z> Seek, q<n> PositionAt; one reply per operation *)
Fixpoint run_ops (pi : input) (ops : list bytes) : list bytes :=
  match ops with
  | [] => [ndec (in_idx pi)]
  | op :: r =>
    match op with
    | [] => run_ops pi r
    | c :: d =>
      if Byte.eqb c x74 then
        match take pi (num d) with
        | (None, pi') => [x30] :: run_ops pi' r
        | (Some t, pi') => (x31 :: t) :: run_ops pi' r
        end
      else if Byte.eqb c x70 then
        match peek pi (num d) with
        | None => [x30] :: run_ops pi r
        | Some t => (x31 :: t) :: run_ops pi r
        end
      else if Byte.eqb c x73 then
        let '(ok, pi') := seek pi (znum d) in b2 ok :: run_ops pi' r
      else if Byte.eqb c x71 then
        let p := position_at pi (num d) in
        (ndec (p_index p) ++ [x2c] ++ ndec (p_line p) ++ [x2c] ++ ndec (p_col p)) :: run_ops pi r
      else run_ops pi r
    end
  end.

Definition zpair (r : option (Z * Z)) : list bytes :=
  match r with None => [bs "none"] | Some (s, e) => [zdec s; zdec e] end.

(* token streams of go/scanner: triples position, class, length of the token string *)
Definition gclass (s : bytes) : gtok :=
  if is s "eof" then GEof else if is s "func" then GFunc
  else if is s "o0" then GOpen 0 else if is s "o1" then GOpen 1 else if is s "o2" then GOpen 2
  else if is s "c0" then GClose 0 else if is s "c1" then GClose 1 else if is s "c2" then GClose 2
  else if is s "ident" then GIdent else if is s "period" then GPeriod
  else if is s "semi" then GSemi else if is s "illegal" then GIllegal else GOther.
Fixpoint gtoks (a : list bytes) : list gtoken :=
  match a with
  | p :: c :: l :: r => (znum p, gclass c, num l) :: gtoks r
  | _ => []
  end.
Definition scan_out (r : option (option (Z * Z))) : list bytes :=
  match r with
  | None => [bs "none"]
  | Some None => [bs "error"]
  | Some (Some (s, e)) => [zdec s; zdec e]
  end.

Definition dispatch (f : bytes) (a : list bytes) : list bytes :=
  if is f "posat" then                                   (* src, index -> model PositionAt and spec pos_of *)
    let s := arg 0 a in let i := num (arg 1 a) in
    pos3 (position_at (new_input s) i) ++ pos3 (pos_of s i)
  else if is f "ops" then run_ops (new_input (arg 0 a)) (tl a)
  else if is f "check" then
    let src := arg 0 a in check_items (length a) (pos_table src) (length src) (N.of_nat (length src)) src (tl a)
  else if is f "check_slow" then                         (* the specification predicates as written *)
    let src := arg 0 a in
    match tl a with
    | kind :: text :: fi :: fl :: fc :: ti :: tl_ :: tc :: _ =>
        let from := mkpos (num fi) (num fl) (num fc) in
        let to := mkpos (num ti) (num tl_) (num tc) in
        [b2 (if is kind "E" then range_okb src (mkexpr text from to)
             else if is kind "N" then name_range_okb src text from to
             else plain_range_okb src from to)]
    | _ => []
    end
  else if is f "parse_go" then                           (* src, index, start, end *)
    match parse_go (take_ (new_input (arg 0 a)) (num (arg 1 a))) (num (arg 2 a)) (num (arg 3 a)) with
    | None => [bs "panic"]
    | Some (e, pi') =>
        if is (arg 4 a) "spread" then                      (* spreadAttributesParser's adjustment on top *)
          match spread_fix e with None => [bs "nospread"] | Some e' => expr_out e' ++ [ndec (in_idx pi')] end
        else expr_out e ++ [ndec (in_idx pi')]
    end
  else if is f "name_range" then                         (* src, index after the name, name *)
    let '(from, to) := name_range (take_ (new_input (arg 0 a)) (num (arg 1 a))) (arg 2 a) in pos3 from ++ pos3 to
  else if is f "spread" then                             (* value, from x3, to x3 *)
    match spread_fix (mkexpr (arg 0 a) (mk3 a 1) (mk3 a 4)) with
    | None => [bs "none"]
    | Some e => expr_out e
    end
  else if is f "extract" then                            (* content, start0, end0: a constant extractor *)
    zpair (extract (fun _ => Some (znum (arg 1 a), znum (arg 2 a))) (arg 0 a))
  else if is f "case_extract" then
    zpair (case_extract (fun _ => Some (znum (arg 1 a), znum (arg 2 a))) (arg 0 a))
  else if is f "latest_end" then [zdec (latest_end (znum (arg 0 a)) (map znum (tl a)))]
  else if is f "trim" then [trim_space (arg 0 a)]
  else if is f "slice_args" then                         (* content, lbrace, rbrace, element ends... *)
    match slice_args (fun b => negb (Nat.eqb (length (trim_space b)) 0)) (arg 0 a) (znum (arg 1 a)) (znum (arg 2 a))
                     (map znum (skipn 3 a)) with
    | None => [bs "panic"]
    | Some e => [bs "ok"; e]
    end
  else if is f "func_expr" then                          (* content, fn.Pos(), Params.End() *)
    match func_expr (arg 0 a) (znum (arg 1 a)) (znum (arg 2 a)) with
    | None => [bs "panic"]
    | Some None => [bs "error"]
    | Some (Some e) => [bs "ok"; e]
    end
  else if is f "templ_expr" then                         (* len(src), tokens: TemplExpression since 906dd9d *)
    scan_out (templ_expression (gtoks (tl a)) (num (arg 0 a)))
  else if is f "templ_expr_unclamped" then
    scan_out (templ_expression_unclamped (gtoks (tl a)))
  else if is f "expr_scan" then                          (* len(src), tokens: Expression *)
    scan_out (expression_scan (gtoks (tl a)))
  else [bs "?"].

Extraction "model.ml" dispatch.
