(* Extraction entry point for C15: one generic [dispatch] over byte strings.
   Trees travel as flat argument lists, five byte strings per entry:
     path ('/'-joined, relative to the root) ; kind "F"|"D" ; contents ; mtime (signed decimal: nanoseconds relative
     to the Unix epoch, "-" first when before it, any number of digits) ; oracle ("" = generation
     fails or not a template, "S" ++ code = generation + gofmt of this file alone gives code) *)
From Coq.Strings Require Import Byte String.
From Coq Require Import List NArith ZArith Bool.
Import ListNotations.
From V Require Import lib.Bytes model.Walk spec.WalkSpec model.RootPath.
Require Extraction.
Require Import ExtrOcamlBasic.

Definition is (f : bytes) (s : string) : bool := bytes_eqb f (bs s).
Definition arg (n : nat) (a : list bytes) : bytes := nth n a [].

(* split_slash, join_slash, of_path: model/RootPath.v *)
Definition to_path (s : bytes) : path :=
  let cs := split_slash [] s in (removelast cs, last cs []).
(* an absolute path from its components *)
Definition abs_string (cs : list bytes) : bytes := x2f :: join_slash cs.
Definition num (s : bytes) : N := match undec s with Some n => n | None => 0%N end.
(* signed decimal <-> Z *)
Definition znum (s : bytes) : Z :=
  match s with
  | x2d :: r => Z.opp (Z.of_N (num r))
  | _ => Z.of_N (num s)
  end.
Definition zdec (z : Z) : bytes :=
  if Z.ltb z 0 then x2d :: dec (Z.abs_N z) else dec (Z.abs_N z).

(* n entries, then the rest of the arguments *)
Fixpoint dec_entries (n : nat) (a : list bytes) : list (path * entry) * list (path * bytes) * list bytes :=
  match n with
  | O => ([], [], a)
  | S k =>
      match a with
      | p :: kd :: c :: m :: g :: rest =>
          let '(es, os, tl) := dec_entries k rest in
          let pa := to_path p in
          let e := if is kd "D" then Dir else File c (znum m) in
          let os' := match g with x53 :: code => (pa, code) :: os | _ => os end in
          ((pa, e) :: es, os', tl)
      | _ => ([], [], [])
      end
  end.
Fixpoint olookup (os : list (path * bytes)) (p : path) : option bytes :=
  match os with [] => None | (q, c) :: r => if path_eqb p q then Some c else olookup r p end.
Definition oracle (os : list (path * bytes)) : path -> bytes -> option bytes := fun p _ => olookup os p.

Definition enc_entry (p : path) (o : option entry) : list bytes :=
  match o with
  | None => [of_path p; bs "A"; []; bs "0"]
  | Some Dir => [of_path p; bs "D"; []; bs "0"]
  | Some (File c m) => [of_path p; bs "F"; c; zdec m]
  end.
Definition flag (s : bytes) : bool := bytes_eqb s (bs "1").

Definition dispatch (f : bytes) (a : list bytes) : list bytes :=
  if is f "skip" then [b2 (should_skip_name (arg 0 a)); b2 (skipped_name (arg 0 a)); b2 (matches_pattern (arg 0 a))]
  else if is f "run" then
    (* args: root, keep, lazy, now, n, entries.
       reply: wf, failed, number of events, events in walk order, then (path, kind, contents, mtime) of every path
       of the listing and every sibling, after the sequential run of the walk's events *)
    let root := arg 0 a in let keep := flag (arg 1 a) in let lazy := flag (arg 2 a) in let now := znum (arg 3 a) in
    let '(l, os, _) := dec_entries (N.to_nat (num (arg 4 a))) (skipn 5 a) in
    let g := oracle os in
    let es := walk l in
    let st := run g keep lazy now (init (lookup l)) es in
    [b2 (wf_tree g lazy root l); b2 (exit_fail (errs st)); dec (N.of_nat (length es))]
    ++ map of_path es
    ++ flat_map (fun p => enc_entry p (tree st p)) (map fst l ++ siblings l)
  else if is f "check" then
    (* args: keep, failed, n, before entries, n', after entries.  reply: spec_check *)
    let keep := flag (arg 0 a) in let failed := flag (arg 1 a) in
    let '(l, os, rest) := dec_entries (N.to_nat (num (arg 2 a))) (skipn 3 a) in
    let '(l', _, _) := dec_entries (N.to_nat (num (arg 0 rest))) (skipn 1 rest) in
    [b2 (spec_check (oracle os) keep l l' failed)]
  else if is f "name" then
    (* args: -path argument as spelled, working directory, root-relative slash path of a template.
       reply: the file name the handler gives the generator (name_given), the root-relative slash path (what the
       specification's oracle receives), Clean of the stored root, the event name WalkFiles sends *)
    let root := stored_root (arg 0 a) (arg 1 a) in let p := to_path (arg 2 a) in
    [name_given (arg 0 a) (arg 1 a) p; of_path p; abs_string (clean root); abs_string (event_name root p)]
  else if is f "clean" then [abs_string (clean (split_slash [] (arg 0 a)))]   (* filepath.Clean of an absolute path *)
  else if is f "rel" then [join_slash (rel (split_slash [] (arg 0 a)) (split_slash [] (arg 1 a)))]   (* filepath.Rel, absolute paths *)
  else if is f "wfn" then [with_file_name (arg 0 a)]   (* generator.WithFileName *)
  else [bs "?"].

Extraction "model.ml" dispatch.
