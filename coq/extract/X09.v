(* Extraction entry point for C08/C09: the formatter model. *)
From Coq.Strings Require Import Byte String.
From Coq Require Import List Arith NArith Bool.
Import ListNotations.
From V Require Import lib.Bytes lib.Sexp model.Fmt model.FmtReasons.
Require Extraction.
Require Import ExtrOcamlBasic.

Definition isf (f : bytes) (s : string) : bool := bytes_eqb f (bs s).
Definition arg (n : nat) (a : list bytes) : bytes := nth n a [].

Definition dispatch (f : bytes) (a : list bytes) : list bytes :=
  if isf f "fmt" then
    (* arg: formatter AST wire.  reply: first pass; predicted second pass; predicted third pass; reasons (LF separated) *)
    match parse_all (arg 0 a) with
    | Some x => match dfile x with
                | Some fl => let f2 := reparse fl in
                             [bs "ok"; fmt_write fl; fmt_write f2; fmt_write (reparse f2); unstable_reasons fl]
                | None => [bs "decode-ast"] end
    | None => [bs "decode-sexp"] end
  else [bs "?"].

Extraction "model.ml" dispatch.
