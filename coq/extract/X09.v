(* Extraction entry point for C08/C09: the formatter model. *)
From Coq.Strings Require Import Byte String.
From Coq Require Import List Arith NArith Bool.
Import ListNotations.
From V Require Import lib.Bytes lib.Sexp model.Fmt model.FmtReasons spec.FmtHist.
Require Extraction.
Require Import ExtrOcamlBasic.

Definition isf (f : bytes) (s : string) : bool := bytes_eqb f (bs s).
Definition arg (n : nat) (a : list bytes) : bytes := nth n a [].

(* an outcome on the wire: "S" ++ the text written back, or "N" (the file was rejected) *)
Definition outcome (b : bytes) : option bytes := match b with c :: r => if Byte.eqb c "S"%byte then Some r else None | [] => None end.

Definition dispatch (f : bytes) (a : list bytes) : list bytes :=
  if isf f "histjudge" then
    (* args: the outcomes of one run in one process, then (same number) the outcome of each of its files in a process of
       its own.  reply: the specification's judgement (spec/FmtHist.v run_judged_fresh) and the first differing file *)
    let n := Nat.div2 (length a) in
    let obs := map outcome (firstn n a) in
    let ref := map outcome (skipn n a) in
    [bs "ok"; if run_judged_fresh obs ref then bs "fresh" else bs "depends-on-history";
     match first_difference 0 obs ref with Some k => dec (N.of_nat k) | None => bs "-" end]
  else if isf f "fmt" then
    (* arg: formatter AST wire.  reply: first pass; predicted second pass; predicted third pass; reasons (LF separated) *)
    match parse_all (arg 0 a) with
    | Some x => match dfile x with
                | Some fl => let f2 := reparse fl in
                             [bs "ok"; fmt_write fl; fmt_write f2; fmt_write (reparse f2); unstable_reasons fl]
                | None => [bs "decode-ast"] end
    | None => [bs "decode-sexp"] end
  else [bs "?"].

Extraction "model.ml" dispatch.
