(* Extraction entry point for C13: the denotational renderer with the coded children-slot semantics. *)
From Coq.Strings Require Import Byte String.
From Coq Require Import List Arith NArith Bool.
Import ListNotations.
From V Require Import lib.Bytes lib.Sexp model.Ast spec.Denote.
Require Extraction.
Require Import ExtrOcamlBasic.

Definition isf (f : bytes) (s : string) : bool := bytes_eqb f (bs s).
Definition arg (n : nat) (a : list bytes) : bytes := nth n a [].

Definition dispatch (f : bytes) (a : list bytes) : list bytes :=
  if isf f "denote" then
    match parse_all (arg 0 a), parse_all (arg 2 a) with
    | Some x, Some ev => match dfile x with
                         | Some fl => [bs "ok"; denote_case fl (arg 1 a) (denv ev)]
                         | None => [bs "decode-ast"] end
    | _, _ => [bs "decode-sexp"] end
  else [bs "?"].

Extraction "model.ml" dispatch.
