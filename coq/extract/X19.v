(* Extraction entry point for C19: the observation monitor (acceptor) and a schedule runner. *)
From Coq.Strings Require Import Byte String.
From Coq Require Import List NArith Bool.
Import ListNotations.
From V Require Import lib.Bytes model.Sse model.SseTransport spec.Browser.
Require Extraction.
Require Import ExtrOcamlBasic.
Local Open Scope nat_scope.

Definition is (f : bytes) (s : string) : bool := bytes_eqb f (bs s).
Definition arg (n : nat) (a : list bytes) : bytes := nth n a [].
Definition nb (b : byte) : nat := N.to_nat (bN b).
Definition bn (n : nat) : byte := Nb (N.of_nat n).
Definition decn (n : nat) : bytes := dec (N.of_nat n).

(* observations: three bytes each  [op; a; b] *)
Fixpoint dec_obs (s : bytes) : list obs :=
  match s with
  | op :: a :: b :: r =>
      let o := match nb op with
               | 0 => OSub (nb a)
               | 1 => OWrite (nb a) (nb b)
               | 2 => ORelease (nb a) (negb (Nat.eqb (nb b) 0))
               | 3 => OCancel (nb a)
               | 4 => OExited (nb a)
               | 5 => OSend (nb a)
               | 6 => OSendEnd (nb a)
               | 8 => OSettled
               | _ => ORegCount (nb a)
               end in
      o :: dec_obs r
  | _ => []
  end.

(* timed observations: three bytes each; op 9 = the clock advances by 256*a + b ticks *)
Fixpoint dec_tobs (s : bytes) : list tobs :=
  match s with
  | op :: a :: b :: r =>
      (if Nat.eqb (nb op) 9 then TAdv (256 * nb a + nb b)
       else match dec_obs [op; a; b] with o :: _ => TO o | [] => TAdv 0 end) :: dec_tobs r
  | _ => []
  end.
(* write deadline: empty = none, else two bytes *)
Definition dec_cfg (s : bytes) : tconfig :=
  match s with a :: b :: _ => {| wdl := Some (256 * nb a + nb b) |} | _ => {| wdl := None |} end.

(* browser-side history: three bytes each  [op; c; e] *)
Fixpoint dec_bevs (s : bytes) : list bev :=
  match s with
  | op :: a :: b :: r =>
      let x := match nb op with
               | 0 => BOpen (nb a) | 1 => BLeave (nb a) | 2 => BBroadcast (nb b) | 3 => BRecv (nb a) (nb b)
               | _ => BCut (nb a)
               end in
      x :: dec_bevs r
  | _ => []
  end.

(* actions: three bytes each  [op; a; b] *)
Fixpoint dec_acts (s : bytes) : list action :=
  match s with
  | op :: a :: b :: r =>
      let x := match nb op with
               | 0 => Subscribe | 1 => SendCall | 2 => SendLock (nb a) | 3 => SendSpawn | 4 => SendUnlock
               | 5 => Deliver (nb a) (nb b) | 6 => Drop (nb a) (nb b) | 7 => Tick (nb a) | 8 => WriteOK (nb a)
               | 9 => WriteErr (nb a) | 10 => Cancel (nb a) | 11 => SeeDone (nb a) | _ => Exit (nb a)
               end in
      x :: dec_acts r
  | _ => []
  end.

Definition enc_pairs (l : list (nat * nat)) : bytes := flat_map (fun p => [bn (fst p); bn (snd p)]) l.
Definition enc_nats (l : list nat) : bytes := map bn l.
Fixpoint ids (n : nat) : list nat := match n with 0 => [] | S k => ids k ++ [S k] end.
Definition pcb (p : pc) : byte :=
  match p with PNone => x30 | PLoop => x31 | PBusy => x32 | PExiting => x33 | PGone => x34 end.
(* per client: id, pc, number of events, the events *)
Definition enc_clients (s : state) : bytes :=
  flat_map (fun c => let x := cl s c in [bn c; pcb (cpc x); bn (length (got x))] ++ enc_nats (got x))
           (ids (pred (next_id s))).

(* run a schedule; stop at the first action that is not enabled *)
Fixpoint run (old : bool) (s : state) (n : nat) (tr : list action) : state * nat * bool :=
  match tr with
  | [] => (s, n, true)
  | a :: r => match step old s a with Some s' => run old s' (S n) r | None => (s, n, false) end
  end.

Definition dispatch (f : bytes) (a : list bytes) : list bytes :=
  if is f "monitor" then
    (* arg: observations.  reply: accepted?; #observations followed; quiescent?; pending (c,e) pairs;
       |registered|; clients (id, pc, events received); panicked? *)
    let h := dec_obs (arg 0 a) in
    match monitor init 0 h with
    | inl s => [b2 true; decn (length h); b2 (quiescentb s); enc_pairs (pending s); decn (length (registered s));
                enc_clients s; b2 (panicked s)]
    | inr i => [b2 false; decn i]
    end
  else if is f "audit" then
    (* arg: observations.  reply: #settle points reached; #settle points at which the model state is not at rest
       ([stableb] false); then, for the first such point: its observation index; held_up (c,e) pairs;
       those of them whose client sits in its select (PLoop: a healthy client not served); clients stalled
       in a write; clients (id, pc, events received); a Send call still in progress?;
       all pending (c,e) pairs *)
    let pts := audit init 0 (dec_obs (arg 0 a)) in
    let bad := filter (fun p => negb (stableb (snd p))) pts in
    [decn (length pts); decn (length bad)] ++
    match bad with
    | [] => []
    | (i, s) :: _ =>
        [decn i; enc_pairs (held_up s);
         enc_pairs (filter (fun q => pc_eqb (cpc (cl s (fst q))) PLoop) (held_up s));
         enc_nats (filter (stalledb s) (ids (pred (next_id s))));
         enc_clients s;
         b2 (match holder s, waiting s with None, [] => false | _, _ => true end);
         enc_pairs (pending s)]
    end
  else if is f "browser" then
    (* arg: browser-side history (spec/Browser.v).  reply: every browser served?; #events of the history;
       owed (browser, event) pairs; browsers present; browsers whose stream was cut by the server side *)
    let h := dec_bevs (arg 0 a) in
    let b := brun h in
    [b2 (browsers_servedb h); decn (length h); enc_pairs (owed b); enc_nats (present b); enc_nats (cut b)]
  else if is f "tmonitor" then
    (* args: write deadline of the transport (empty = none); timed observations.  reply: accepted?;
       #observations followed; quiescent?; every browser that has not left served?; unserved (browser, event) pairs;
       clients (id, pc, events received by the handler) *)
    let h := dec_tobs (arg 1 a) in
    match tmonitor (dec_cfg (arg 0 a)) tinit 0 h with
    | inl ts => [b2 true; decn (length h); b2 (quiescentb (base ts)); b2 (match unserved ts with [] => true | _ => false end);
                 enc_pairs (unserved ts); enc_clients (base ts)]
    | inr i => [b2 false; decn i]
    end
  else if is f "run" then
    (* args: variant (1 = old code), schedule.  reply: all enabled?; steps done; panicked?; pending; registered *)
    let old := bytes_eqb (arg 0 a) [x31] in
    match run old init 0 (dec_acts (arg 1 a)) with
    | (s, n, ok) => [b2 ok; decn n; b2 (panicked s); enc_pairs (pending s); enc_nats (registered s); enc_clients s]
    end
  else [bs "?"].

Extraction "model.ml" dispatch.
