(* Proofs for C20: decision logic of modifyResponse under library contracts, the DOM insertion against
   the document.body specification, and parseNonce against the CSP grammar on regular policies. *)
From Coq.Strings Require Import Byte String.
From Coq Require Import List NArith Bool Lia.
Import ListNotations.
From V Require Import lib.Bytes lib.HNode spec.Csp spec.ProxyDom model.Proxy.
Open Scope N_scope.

(* ------------------------------------------------------------------------------------------- *)
(* small facts *)

Lemma len_acc_spec s a : len_acc s a = a + N.of_nat (length s).
Proof.
  revert a; induction s as [|b s IH]; intros a; cbn [len_acc length].
  - cbn. lia.
  - rewrite IH. lia.
Qed.

Lemma bytes_eqb_neq a b : a <> b -> bytes_eqb a b = false.
Proof.
  intros H. destruct (bytes_eqb a b) eqn:E; [|reflexivity]. apply bytes_eqb_eq in E. contradiction.
Qed.

Lemma enc_of_other ce : ce <> [] -> ce <> bs "gzip" -> ce <> bs "br" -> enc_of ce = EOther.
Proof.
  intros H0 H1 H2. unfold enc_of. rewrite (bytes_eqb_neq _ _ H1), (bytes_eqb_neq _ _ H2).
  destruct ce; [contradiction|reflexivity].
Qed.

Lemma enc_of_cases ce :
  (enc_of ce = EGzip /\ ce = bs "gzip") \/ (enc_of ce = EBr /\ ce = bs "br") \/ (enc_of ce = EId /\ ce = []) \/
  (enc_of ce = EOther /\ ce <> [] /\ ce <> bs "gzip" /\ ce <> bs "br").
Proof.
  unfold enc_of.
  destruct (bytes_eqb ce (bs "gzip")) eqn:E1.
  - left. apply bytes_eqb_eq in E1. auto.
  - destruct (bytes_eqb ce (bs "br")) eqn:E2.
    + right; left. apply bytes_eqb_eq in E2. auto.
    + destruct ce as [|c ce'].
      * right; right; left. auto.
      * right; right; right. repeat split; try discriminate.
        -- intros H. rewrite H in E1. vm_compute in E1. discriminate.
        -- intros H. rewrite H in E2. vm_compute in E2. discriminate.
Qed.

(* ------------------------------------------------------------------------------------------- *)
(* decision logic *)

Section Decision.
  Variable gunzip : bytes -> option bytes.
  Variable gzip : bytes -> bytes.
  Variable unbr : bytes -> option bytes.
  Variable br : bytes -> bytes.
  Variable parse : bytes -> node.
  Variable render : node -> option bytes.

  Notation modify := (modify_response gunzip gzip unbr br parse render).
  Notation prox := (proxy gunzip gzip unbr br parse render).
  Notation dec_body := (decoded gunzip unbr).
  Notation insert := (insert_script parse render).

  (* every observable except the marker header *)
  Definition same_payload (r r' : response) : Prop :=
    status r' = status r /\ ctype r' = ctype r /\ cenc r' = cenc r /\ csp r' = csp r /\
    clen r' = clen r /\ others r' = others r /\ body r' = body r.

  Lemma same_payload_refl r : same_payload r r.
  Proof. repeat split. Qed.

  Lemma passthrough_identical hx r :
    hx = bs "true" \/ skip_hdr r = bs "true" \/ has_prefix (bs "text/html") (ctype r) = false \/
    (cenc r <> [] /\ cenc r <> bs "gzip" /\ cenc r <> bs "br") ->
    exists r', prox hx r = Forward r' /\ same_payload r r' /\
               skip_hdr r' = (if bytes_eqb hx (bs "true") then bs "true" else skip_hdr r).
  Proof.
    intros H. unfold proxy, mark.
    destruct (bytes_eqb hx (bs "true")) eqn:Ehx.
    - exists (set_skip r (bs "true")). unfold modify_response. cbn [skip_hdr set_skip].
      rewrite bytes_eqb_refl. repeat split.
    - exists r. split; [|split; [apply same_payload_refl|reflexivity]].
      unfold modify_response.
      destruct (bytes_eqb (skip_hdr r) (bs "true")) eqn:Es; [reflexivity|].
      destruct (has_prefix (bs "text/html") (ctype r)) eqn:Ep; [|reflexivity]. cbn [negb].
      destruct H as [H|[H|[H|[H0 [H1 H2]]]]].
      + subst hx. rewrite bytes_eqb_refl in Ehx. discriminate.
      + rewrite H, bytes_eqb_refl in Es. discriminate.
      + discriminate.
      + rewrite (enc_of_other _ H0 H1 H2). reflexivity.
  Qed.

  Hypothesis gzip_rt : forall b, gunzip (gzip b) = Some b.
  Hypothesis br_rt : forall b, unbr (br b) = Some b.

  Definition updated_doc (r : response) (d : bytes) : bytes :=
    match insert (parse_nonce (csp r)) d with Some u => u | None => d end.

  Lemma modified_correct hx r d :
    hx <> bs "true" -> skip_hdr r <> bs "true" -> has_prefix (bs "text/html") (ctype r) = true ->
    (cenc r = [] \/ cenc r = bs "gzip" \/ cenc r = bs "br") ->
    dec_body r = Some d ->
    exists r', prox hx r = Forward r' /\
      dec_body r' = Some (updated_doc r d) /\
      clen r' = dec (N.of_nat (length (body r'))) /\
      cenc r' = cenc r /\ ctype r' = ctype r /\ status r' = status r /\ csp r' = csp r /\
      others r' = others r /\ skip_hdr r' = skip_hdr r.
  Proof.
    intros Hhx Hs Hp Hc Hd. unfold proxy, mark.
    rewrite (bytes_eqb_neq _ _ Hhx). unfold modify_response.
    rewrite (bytes_eqb_neq _ _ Hs), Hp. cbn [negb].
    unfold decoded in Hd.
    destruct Hc as [Hc|[Hc|Hc]]; rewrite Hc in *.
    - change (enc_of []) with EId in *. cbn [decode] in *. injection Hd as Hd. subst d.
      eexists. split; [reflexivity|]. unfold decoded. cbn [cenc set_body body clen ctype status csp others skip_hdr].
      rewrite Hc. change (enc_of []) with EId. cbn [decode encode].
      rewrite len_acc_spec. repeat split.
    - change (enc_of (bs "gzip")) with EGzip in *. cbn [decode] in *. rewrite Hd.
      eexists. split; [reflexivity|]. unfold decoded. cbn [cenc set_body body clen ctype status csp others skip_hdr].
      rewrite Hc. change (enc_of (bs "gzip")) with EGzip. cbn [decode encode].
      rewrite gzip_rt, len_acc_spec. repeat split.
    - change (enc_of (bs "br")) with EBr in *. cbn [decode] in *. rewrite Hd.
      eexists. split; [reflexivity|]. unfold decoded. cbn [cenc set_body body clen ctype status csp others skip_hdr].
      rewrite Hc. change (enc_of (bs "br")) with EBr. cbn [decode encode].
      rewrite br_rt, len_acc_spec. repeat split.
  Qed.

  (* a labelled body that the decoder rejects is answered with 502, never forwarded in part *)
  Lemma undecodable_is_bad_gateway hx r :
    hx <> bs "true" -> skip_hdr r <> bs "true" -> has_prefix (bs "text/html") (ctype r) = true ->
    (cenc r = bs "gzip" \/ cenc r = bs "br") -> dec_body r = None -> prox hx r = BadGateway.
  Proof.
    intros Hhx Hs Hp Hc Hd. unfold proxy, mark.
    rewrite (bytes_eqb_neq _ _ Hhx). unfold modify_response.
    rewrite (bytes_eqb_neq _ _ Hs), Hp. cbn [negb]. unfold decoded in Hd.
    destruct Hc as [Hc|Hc]; rewrite Hc in *.
    - change (enc_of (bs "gzip")) with EGzip in *. cbn [decode] in *. rewrite Hd. reflexivity.
    - change (enc_of (bs "br")) with EBr in *. cbn [decode] in *. rewrite Hd. reflexivity.
  Qed.
End Decision.

(* ------------------------------------------------------------------------------------------- *)
(* DOM: the preorder search of htmlfind.All finds document.body *)

Section NodeInd.
  Variable P : node -> Prop.
  Hypothesis H : forall k d n a c, Forall P c -> P (Node k d n a c).
  Fixpoint node_ind' (t : node) : P t :=
    match t with
    | Node k d n a c =>
        H k d n a c
          ((fix go (l : list node) : Forall P l :=
              match l with
              | [] => Forall_nil P
              | x :: r => Forall_cons x (node_ind' x) (go r)
              end) c)
    end.
End NodeInd.

Definition afl (p : node -> bool) (s : node) :=
  fix go (l : list node) : option (list node) :=
    match l with
    | [] => None
    | x :: r => match append_first p s x with
                | Some x' => Some (x' :: r)
                | None => option_map (cons x) (go r)
                end
    end.
Lemma append_first_eq p s k d n a c :
  append_first p s (Node k d n a c) =
  if p (Node k d n a c) then Some (append_child s (Node k d n a c)) else option_map (Node k d n a) (afl p s c).
Proof. reflexivity. Qed.

Definition nml (p : node -> bool) :=
  fix go (l : list node) : bool := match l with [] => true | x :: r => no_match p x && go r end.
Lemma no_match_eq p k d n a c : no_match p (Node k d n a c) = negb (p (Node k d n a c)) && nml p c.
Proof. reflexivity. Qed.

Lemma no_match_head p t : no_match p t = true -> p t = false.
Proof.
  destruct t as [k d n a c]. rewrite no_match_eq. intros H. apply andb_prop in H as [H _].
  destruct (p (Node k d n a c)); [discriminate|reflexivity].
Qed.

Lemma no_match_none p s t : no_match p t = true -> append_first p s t = None.
Proof.
  induction t as [k d n a c IH] using node_ind'.
  rewrite no_match_eq, append_first_eq. intros H. apply andb_prop in H as [H1 H2].
  destruct (p (Node k d n a c)); [discriminate|].
  replace (afl p s c) with (@None (list node)); [reflexivity|].
  symmetry. clear H1. induction IH as [|x r Hx Hr IHr]; [reflexivity|].
  cbn [nml] in H2. apply andb_prop in H2 as [Hx2 Hr2].
  cbn [afl]. rewrite (Hx Hx2). fold (afl p s). rewrite (IHr Hr2). reflexivity.
Qed.

Lemma is_body_named : is_body = named (bs "body").
Proof. reflexivity. Qed.

Lemma no_match_none_body s t : no_match (named (bs "body")) t = true -> append_first is_body s t = None.
Proof. exact (no_match_none is_body s t). Qed.

Lemma is_body_eq t : is_body t = named (bs "body") t.
Proof. reflexivity. Qed.

Lemma append_child_add s x : append_child s x = add_last_child s x.
Proof. destruct x; reflexivity. Qed.

Lemma afl_body_kids s l :
  clean_until (named (bs "body")) (named (bs "body")) l = true ->
  afl is_body s l = map_first (named (bs "body")) (fun b => Some (add_last_child s b)) l.
Proof.
  induction l as [|x r IH]; [discriminate|].
  cbn [clean_until afl map_first]. fold (afl is_body s).
  destruct (named (bs "body") x) eqn:E.
  - intros _. destruct x as [k d n a c]. rewrite append_first_eq. rewrite is_body_eq, E.
    cbn [option_map]. rewrite append_child_add. reflexivity.
  - intros H. apply andb_prop in H as [H1 H2].
    rewrite (no_match_none_body s x H1).
    rewrite (IH H2). reflexivity.
Qed.

Lemma clean_until_found p (g : node -> node) l :
  clean_until p p l = true -> exists y, map_first p (fun b => Some (g b)) l = Some y.
Proof.
  induction l as [|x r IH]; [discriminate|]. cbn [clean_until map_first].
  destruct (p x).
  - intros _. eexists. reflexivity.
  - intros H. apply andb_prop in H as [_ H]. destruct (IH H) as [y Hy]. rewrite Hy. eexists. reflexivity.
Qed.

Lemma named_html_not_body x : named (bs "html") x = true -> named (bs "body") x = false.
Proof.
  unfold named. intros H. apply andb_prop in H as [H1 H2]. apply bytes_eqb_eq in H2. rewrite H1, H2. reflexivity.
Qed.

Definition html_step (s : node) (h : node) : option node :=
  if named (bs "html") h
  then option_map (with_kids h)
         (map_first (named (bs "body")) (fun b => Some (add_last_child s b)) (kids_of h))
  else None.

Lemma afl_doc_kids s l :
  shaped_kids l = true -> afl is_body s l = map_first is_element (html_step s) l.
Proof.
  induction l as [|x r IH]; [discriminate|].
  cbn [shaped_kids afl map_first]. fold (afl is_body s).
  destruct (is_element x) eqn:E.
  - intros H. apply andb_prop in H as [H1 H2].
    unfold html_step. rewrite H1.
    destruct x as [k d n a c]. rewrite append_first_eq. rewrite is_body_eq.
    rewrite (named_html_not_body _ H1). cbn [kids_of] in *.
    rewrite (afl_body_kids s c H2).
    destruct (clean_until_found _ (add_last_child s) _ H2) as [y Hy]. rewrite Hy. reflexivity.
  - intros H. apply andb_prop in H as [H1 H2].
    rewrite (no_match_none_body s x H1). rewrite (IH H2). reflexivity.
Qed.

Lemma nml_no_named p (g : node -> option node) l : nml p l = true -> map_first p g l = None.
Proof.
  induction l as [|x r IH]; [reflexivity|]. cbn [nml map_first]. intros H. apply andb_prop in H as [H1 H2].
  rewrite (no_match_head _ _ H1), (IH H2). reflexivity.
Qed.

Lemma nml_doc_kids s l : nml (named (bs "body")) l = true -> map_first is_element (html_step s) l = None.
Proof.
  induction l as [|x r IH]; [reflexivity|]. cbn [nml map_first]. intros H. apply andb_prop in H as [H1 H2].
  rewrite (IH H2). destruct (is_element x); [|reflexivity].
  unfold html_step. destruct (named (bs "html") x); [|reflexivity].
  destruct x as [k d n a c]. rewrite no_match_eq in H1. apply andb_prop in H1 as [_ H1]. cbn [kids_of].
  rewrite (nml_no_named _ _ _ H1). reflexivity.
Qed.

Theorem script_appended_to_document_body s doc :
  doc_shaped doc || doc_bodyless doc = true ->
  append_first is_body s doc = append_to_document_body s doc.
Proof.
  intros H. apply orb_prop in H as [H|H].
  - destruct doc as [k d n a c]. unfold doc_shaped in H. cbn [kind_of kids_of] in H.
    apply andb_prop in H as [Hk Hs]. apply N.eqb_eq in Hk. subst k.
    rewrite append_first_eq. unfold append_to_document_body. cbn [kind_of kids_of].
    change (is_body (Node K_document d n a c)) with false.
    change (negb (K_document =? K_document)) with false. cbv iota.
    rewrite (afl_doc_kids s c Hs). reflexivity.
  - unfold doc_bodyless in H. rewrite (no_match_none_body s doc H).
    destruct doc as [k d n a c]. unfold append_to_document_body. cbn [kind_of kids_of].
    destruct (negb (k =? K_document)); [reflexivity|].
    rewrite no_match_eq in H. apply andb_prop in H as [_ H].
    change (fun h : node => if named (bs "html") h then _ else None) with (html_step s).
    rewrite (nml_doc_kids s c H). reflexivity.
Qed.

Lemma reload_script_spec nonce :
  reload_script nonce = reload_script_elem (match nonce with [] => None | _ => Some nonce end).
Proof. destruct nonce; reflexivity. Qed.

(* ------------------------------------------------------------------------------------------- *)
(* parseNonce against the CSP grammar *)

Lemma ha_is_ascii b : http_ascii b = true -> is_ascii b = true.
Proof. destruct b; vm_compute; intros H; first [reflexivity | discriminate H]. Qed.
Lemma ha_space b : http_ascii b = true -> go_ascii_space b = csp_ws b.
Proof. destruct b; vm_compute; intros H; first [reflexivity | discriminate H]. Qed.
Lemma ha_nolead b : http_ascii b = true ->
  Byte.eqb b xc2 = false /\ Byte.eqb b xe1 = false /\ Byte.eqb b xe2 = false /\ Byte.eqb b xe3 = false.
Proof. destruct b; vm_compute; intros H; first [discriminate H | repeat split]. Qed.
Lemma ha_nofold b : http_ascii b = true -> Byte.eqb xe2 b = false /\ Byte.eqb xc5 b = false.
Proof. destruct b; vm_compute; intros H; first [discriminate H | repeat split]. Qed.
Lemma lower_quote b : lower b = x27 -> b = x27.
Proof. destruct b; vm_compute; intros H; first [reflexivity | discriminate H]. Qed.

Lemma split_byte_strict sep s cur : split_byte sep s cur = strict_split sep s cur.
Proof.
  revert cur; induction s as [|a s IH]; intros cur; cbn [split_byte strict_split]; [reflexivity|].
  destruct (Byte.eqb a sep); rewrite IH; reflexivity.
Qed.

Lemma forallb_rev {A} (f : A -> bool) l : forallb f (rev l) = forallb f l.
Proof.
  induction l as [|a l IH]; [reflexivity|]. cbn [rev forallb]. rewrite forallb_app, IH. cbn [forallb].
  rewrite andb_true_r. apply andb_comm.
Qed.

Lemma forallb_impl {A} (f g : A -> bool) l :
  (forall x, f x = true -> g x = true) -> forallb f l = true -> forallb g l = true.
Proof.
  intros H. induction l as [|a l IH]; [reflexivity|]. cbn [forallb]. intros E. apply andb_prop in E as [E1 E2].
  rewrite (H _ E1), (IH E2). reflexivity.
Qed.

Lemma strict_split_all (P : byte -> bool) sep s cur :
  forallb P s = true -> forallb P cur = true -> forallb (forallb P) (strict_split sep s cur) = true.
Proof.
  revert cur; induction s as [|a s IH]; intros cur Hs Hc; cbn [strict_split].
  - cbn [forallb]. rewrite forallb_rev, Hc. reflexivity.
  - cbn [forallb] in Hs. apply andb_prop in Hs as [Ha Hs]. destruct (Byte.eqb a sep).
    + cbn [forallb]. rewrite forallb_rev, Hc. cbn [andb]. apply IH; auto.
    + apply IH; auto. cbn [forallb]. rewrite Ha, Hc. reflexivity.
Qed.

Lemma push_all (P : byte -> bool) cur acc :
  forallb P cur = true -> forallb (forallb P) acc = true -> forallb (forallb P) (push cur acc) = true.
Proof.
  intros Hc Ha. unfold push. destruct cur as [|b cur']; [exact Ha|].
  cbn [forallb]. rewrite Ha, andb_true_r. rewrite forallb_rev. exact Hc.
Qed.

Lemma ws_split_all (P : byte -> bool) s cur acc :
  forallb P s = true -> forallb P cur = true -> forallb (forallb P) acc = true ->
  forallb (forallb P) (ws_split s cur acc) = true.
Proof.
  revert cur acc; induction s as [|a s IH]; intros cur acc Hs Hc Ha; cbn [ws_split].
  - rewrite forallb_rev. apply push_all; auto.
  - cbn [forallb] in Hs. apply andb_prop in Hs as [Hx Hs]. destruct (csp_ws a).
    + apply IH; auto. apply push_all; auto.
    + apply IH; auto. cbn [forallb]. rewrite Hx, Hc. reflexivity.
Qed.

Lemma space_len_space a s : go_ascii_space a = true -> space_len (a :: s) = 1%nat.
Proof. intros H. unfold space_len. rewrite H. reflexivity. Qed.

Lemma space_len_ascii a s : http_ascii a = true -> go_ascii_space a = false -> space_len (a :: s) = 0%nat.
Proof.
  intros H G. unfold space_len. rewrite G. destruct (ha_nolead a H) as [E1 [E2 [E3 E4]]].
  rewrite E1, E2, E3, E4. reflexivity.
Qed.

Lemma fields_ws s : forall cur acc, forallb http_ascii s = true -> fields_aux s 0 cur acc = ws_split s cur acc.
Proof.
  induction s as [|a s IH]; intros cur acc H; [reflexivity|].
  cbn [forallb] in H. apply andb_prop in H as [Ha Hs].
  cbn [fields_aux ws_split]. rewrite <- (ha_space a Ha).
  destruct (go_ascii_space a) eqn:G.
  - rewrite (space_len_space a s G). apply IH; auto.
  - rewrite (space_len_ascii a s Ha G). apply IH; auto.
Qed.

Lemma fold_ascii t : forall s, forallb http_ascii s = true -> equal_fold_const s t = bytes_eqb (map lower s) t.
Proof.
  induction t as [|c t IH]; intros s H; destruct s as [|b s]; try reflexivity.
  cbn [forallb] in H. apply andb_prop in H as [Hb Hs].
  cbn [equal_fold_const map bytes_eqb].
  destruct (Byte.eqb (lower b) c) eqn:E.
  - rewrite (IH s Hs). reflexivity.
  - destruct (ha_nofold b Hb) as [E1 E2]. cbn [has_prefix]. rewrite E1, E2. cbn [andb].
    rewrite !andb_false_r. reflexivity.
Qed.

(* --- one source expression --- *)

Lemma has_prefix_app p x : has_prefix p (p ++ x) = true.
Proof. induction p as [|a p IH]; [reflexivity|]. cbn [app has_prefix]. rewrite byte_eqb_refl, IH. reflexivity. Qed.

Lemma has_prefix_same_len p m x : has_prefix p (m ++ x) = true -> length m = length p -> m = p.
Proof.
  revert m; induction p as [|a p IH]; intros m H L; destruct m as [|b m]; try discriminate L; [reflexivity|].
  cbn [app has_prefix] in H. apply andb_prop in H as [H1 H2]. apply byte_eqb_eq in H1. subst b.
  f_equal. apply IH; auto.
Qed.

Lemma has_prefix_lower p t : map lower p = p -> has_prefix p t = true -> has_prefix p (map lower t) = true.
Proof.
  revert t; induction p as [|a p IH]; intros t L H; [reflexivity|]. destruct t as [|b t]; [discriminate H|].
  cbn [map] in L. injection L as La Lp.
  cbn [has_prefix] in H. apply andb_prop in H as [H1 H2]. apply byte_eqb_eq in H1. subst b.
  cbn [map has_prefix]. rewrite La, byte_eqb_refl. cbn [andb]. apply IH; auto.
Qed.

Lemma has_prefix_firstn (f : byte -> byte) p s :
  has_prefix p (map f (firstn (length p) s)) = true -> map f (firstn (length p) s) = p.
Proof.
  revert s; induction p as [|a p IH]; intros s H; [reflexivity|]. destruct s as [|b s]; [discriminate H|].
  cbn [length firstn map has_prefix] in *. apply andb_prop in H as [H1 H2]. apply byte_eqb_eq in H1.
  rewrite <- H1. f_equal. apply IH; auto.
Qed.

Lemma unquote1_shape m v : unquote1 (x27 :: m ++ v ++ [x27]) = m ++ v.
Proof.
  unfold unquote1. cbn [unquote_l]. change (Byte.eqb x27 x27) with true. cbv iota.
  rewrite !rev_app_distr. cbn [rev app unquote_l]. change (Byte.eqb x27 x27) with true. cbv iota.
  rewrite rev_app_distr, !rev_involutive. reflexivity.
Qed.

Lemma nonce_of_source_shape s v :
  nonce_of_source s = Some v ->
  exists m, s = x27 :: m ++ v ++ [x27] /\ map lower m = bs "nonce-".
Proof.
  unfold nonce_of_source. destruct (has_prefix _ _) eqn:HP; [|discriminate].
  destruct (rev (skipn 7 s)) as [|q rv] eqn:R; [discriminate|].
  destruct (Byte.eqb q x27 && is_base64_value (rev rv)) eqn:C; [|discriminate].
  intros E. injection E as E. subst v. apply andb_prop in C as [Cq _]. apply byte_eqb_eq in Cq. subst q.
  change 7%nat with (length (bs "'nonce-")) in HP. apply has_prefix_firstn in HP.
  change (length (bs "'nonce-")) with 7%nat in HP.
  assert (S : skipn 7 s = rev rv ++ [x27]).
  { rewrite <- (rev_involutive (skipn 7 s)), R. reflexivity. }
  rewrite <- (firstn_skipn 7 s), S.
  destruct (firstn 7 s) as [|c0 m]; [discriminate HP|].
  cbn [map] in HP. injection HP as H0 Hm. apply lower_quote in H0. subst c0.
  exists m. split; [reflexivity|exact Hm].
Qed.

(* the model's test of one source: TrimPrefix, TrimSuffix, HasPrefix "nonce-", source[6:] *)
Definition msrc (s : bytes) : option bytes :=
  let t := trim_quote_r (trim_quote_l s) in if has_prefix (bs "nonce-") t then Some (skipn 6 t) else None.

Lemma trim_unquote s : trim_quote_r (trim_quote_l s) = unquote1 s.
Proof. reflexivity. Qed.

Lemma src_agree s : regular_source s = true -> msrc s = nonce_of_source s.
Proof.
  unfold regular_source. intros H. apply orb_prop in H as [H|H].
  - unfold proper_nonce_source in H. apply andb_prop in H as [HP HN].
    destruct (nonce_of_source s) as [v|] eqn:N; [|discriminate].
    destruct (nonce_of_source_shape s v N) as [m [Es Lm]]. subst s.
    cbn [has_prefix] in HP. change (bs "'nonce-") with (x27 :: bs "nonce-") in HP.
    cbn [has_prefix] in HP. apply andb_prop in HP as [_ HP].
    assert (m = bs "nonce-").
    { apply (has_prefix_same_len _ _ _ HP). rewrite <- Lm, map_length. reflexivity. }
    subst m. unfold msrc. rewrite trim_unquote, unquote1_shape. rewrite has_prefix_app. reflexivity.
  - unfold looks_like_nonce in H. apply negb_true_iff in H.
    assert (M : msrc s = None).
    { unfold msrc. rewrite trim_unquote.
      destruct (has_prefix (bs "nonce-") (unquote1 s)) eqn:P; [|reflexivity].
      rewrite (has_prefix_lower _ _ eq_refl P) in H. discriminate. }
    rewrite M. destruct (nonce_of_source s) as [v|] eqn:N; [|reflexivity].
    destruct (nonce_of_source_shape s v N) as [m [Es Lm]]. subst s.
    rewrite unquote1_shape, map_app, Lm, has_prefix_app in H. discriminate.
Qed.

Lemma first_nonce_agree srcs :
  forallb regular_source srcs = true -> first_nonce srcs = first_nonce_source srcs.
Proof.
  induction srcs as [|s r IH]; [reflexivity|]. cbn [forallb]. intros H. apply andb_prop in H as [H1 H2].
  cbn [first_nonce first_nonce_source]. rewrite <- (src_agree s H1). unfold msrc.
  destruct (has_prefix (bs "nonce-") (trim_quote_r (trim_quote_l s))); [reflexivity|]. apply IH; auto.
Qed.

(* --- one directive --- *)

Definition ss : bytes := bs "script-src".

Lemma per_token tok :
  forallb http_ascii tok = true ->
  fields tok = ws_split tok [] [] /\
  directive_of tok = match ws_split tok [] [] with [] => None | name :: value => Some (map lower name, value) end /\
  forallb (forallb http_ascii) (ws_split tok [] []) = true.
Proof.
  intros H. split; [|split].
  - unfold fields. apply fields_ws. exact H.
  - unfold directive_of. rewrite (forallb_impl _ _ _ ha_is_ascii H). reflexivity.
  - apply ws_split_all; auto.
Qed.

(* the outcome of the specification on a list of raw directives *)
Definition spec_on (toks : list bytes) : option bytes :=
  match effective ss toks with None => None | Some srcs => first_nonce_source srcs end.
Definition dflt (o : option bytes) : bytes := match o with Some n => n | None => [] end.

Lemma no_script_src toks :
  forallb (forallb http_ascii) toks = true -> filter is_script_src toks = [] ->
  parse_nonce_dirs toks = [] /\ effective ss toks = None.
Proof.
  induction toks as [|t r IH]; intros HA HF; [split; reflexivity|].
  cbn [forallb] in HA. apply andb_prop in HA as [Ht Hr].
  destruct (per_token t Ht) as [Ef [Ed Ew]].
  cbn [filter] in HF. destruct (is_script_src t) eqn:Es; [discriminate|].
  destruct (IH Hr HF) as [IH1 IH2].
  cbn [parse_nonce_dirs effective]. rewrite Ef. unfold is_script_src in Es. rewrite Ed in *.
  destruct (ws_split t [] []) as [|name value]; [split; assumption|].
  fold ss in Es. rewrite Es. split; [|assumption].
  cbn [forallb] in Ew. apply andb_prop in Ew as [En _].
  destruct value as [|s1 more]; [assumption|].
  rewrite (fold_ascii _ name En). fold ss. rewrite Es. assumption.
Qed.

Lemma parse_nonce_dirs_spec toks :
  forallb (forallb http_ascii) toks = true ->
  Nat.leb (length (filter is_script_src toks)) 1 = true ->
  match effective ss toks with Some srcs => forallb regular_source srcs | None => true end = true ->
  parse_nonce_dirs toks = dflt (spec_on toks).
Proof.
  induction toks as [|t r IH]; intros HA HC HR; [reflexivity|].
  cbn [forallb] in HA. apply andb_prop in HA as [Ht Hr].
  destruct (per_token t Ht) as [Ef [Ed Ew]].
  unfold spec_on in *. cbn [parse_nonce_dirs effective filter] in *. rewrite Ef.
  assert (Eiss : is_script_src t = match ws_split t [] [] with
                                   | [] => false | name :: _ => bytes_eqb (map lower name) ss end).
  { unfold is_script_src. rewrite Ed. destruct (ws_split t [] []); reflexivity. }
  rewrite Eiss in HC. clear Eiss. rewrite Ed in *.
  destruct (ws_split t [] []) as [|name value].
  - apply IH; auto.
  - cbn [forallb] in Ew. apply andb_prop in Ew as [En _].
    destruct (bytes_eqb (map lower name) ss) eqn:Es.
    + (* this is the script-src directive; no other one follows *)
      assert (HF : filter is_script_src r = []).
      { revert HC. try rewrite Es. destruct (filter is_script_src r); [reflexivity|]. cbn. discriminate. }
      destruct (no_script_src r Hr HF) as [N1 _].
      destruct value as [|s1 more]; [rewrite N1; reflexivity|].
      rewrite (fold_ascii _ name En). fold ss. rewrite Es.
      rewrite (first_nonce_agree _ HR).
      destruct (first_nonce_source (s1 :: more)); [reflexivity|exact N1].
    + assert (IH' : parse_nonce_dirs r = dflt match effective ss r with
                                              | Some srcs => first_nonce_source srcs | None => None end)
        by (apply IH; auto).
      destruct value as [|s1 more]; [exact IH'|].
      rewrite (fold_ascii _ name En). fold ss. rewrite Es. exact IH'.
Qed.

Theorem nonce_is_first_script_src_nonce csp :
  csp_regular csp = true -> parse_nonce csp = dflt (script_src_nonce csp).
Proof.
  unfold csp_regular. intros H. apply andb_prop in H as [H HR]. apply andb_prop in H as [HA HC].
  unfold parse_nonce, script_src_nonce. rewrite split_byte_strict.
  apply parse_nonce_dirs_spec; auto. apply strict_split_all; auto.
Qed.

(* ------------------------------------------------------------------------------------------- *)
(* the rewritten document, as a DOM *)

Definition nonce_opt (n : bytes) : option bytes := match n with [] => None | _ => Some n end.

Lemma updated_doc_dom (parse : bytes -> node) (render : node -> option bytes) r d :
  doc_shaped (parse d) || doc_bodyless (parse d) = true ->
  match append_to_document_body (reload_script_elem (nonce_opt (parse_nonce (csp r)))) (parse d) with
  | Some t1 => forall u, render t1 = Some u -> parse u = t1 -> parse (updated_doc parse render r d) = t1
  | None => updated_doc parse render r d = d
  end.
Proof.
  intros W. unfold updated_doc, insert_script. rewrite reload_script_spec.
  rewrite (script_appended_to_document_body _ _ W). fold (nonce_opt (parse_nonce (csp r))).
  destruct (append_to_document_body _ (parse d)) as [t1|]; [|reflexivity].
  intros u Hr Hp. rewrite Hr. exact Hp.
Qed.

Lemma modified_correct_full gunzip gzip unbr br parse render :
  (forall b, gunzip (gzip b) = Some b) -> (forall b, unbr (br b) = Some b) ->
  forall hx r d,
    hx <> bs "true" -> skip_hdr r <> bs "true" -> has_prefix (bs "text/html") (ctype r) = true ->
    (cenc r = [] \/ cenc r = bs "gzip" \/ cenc r = bs "br") ->
    decoded gunzip unbr r = Some d ->
    exists r' d',
      proxy gunzip gzip unbr br parse render hx r = Forward r' /\
      decoded gunzip unbr r' = Some d' /\
      clen r' = dec (N.of_nat (length (body r'))) /\
      cenc r' = cenc r /\ ctype r' = ctype r /\ status r' = status r /\ csp r' = csp r /\
      others r' = others r /\ skip_hdr r' = skip_hdr r /\
      d' = match insert_script parse render (parse_nonce (csp r)) d with Some u => u | None => d end /\
      (doc_shaped (parse d) || doc_bodyless (parse d) = true ->
       match append_to_document_body (reload_script_elem (nonce_opt (parse_nonce (csp r)))) (parse d) with
       | Some t1 => forall u, render t1 = Some u -> parse u = t1 -> parse d' = t1
       | None => d' = d
       end).
Proof.
  intros G B hx r d H1 H2 H3 H4 H5.
  destruct (modified_correct gunzip gzip unbr br parse render G B hx r d H1 H2 H3 H4 H5)
    as [r' [P1 [P2 [P3 [P4 [P5 [P6 [P7 [P8 P9]]]]]]]]].
  exists r', (updated_doc parse render r d). repeat (split; [assumption|]).
  split; [reflexivity|]. apply updated_doc_dom.
Qed.

Lemma passthrough_identical_full gunzip gzip unbr br parse render hx r :
  hx = bs "true" \/ skip_hdr r = bs "true" \/ has_prefix (bs "text/html") (ctype r) = false \/
  (cenc r <> [] /\ cenc r <> bs "gzip" /\ cenc r <> bs "br") ->
  exists r', proxy gunzip gzip unbr br parse render hx r = Forward r' /\
             status r' = status r /\ ctype r' = ctype r /\ cenc r' = cenc r /\ csp r' = csp r /\
             clen r' = clen r /\ others r' = others r /\ body r' = body r /\
             skip_hdr r' = (if bytes_eqb hx (bs "true") then bs "true" else skip_hdr r).
Proof.
  intros H.
  destruct (passthrough_identical gunzip gzip unbr br parse render hx r H) as [r' [A [[B1 [B2 [B3 [B4 [B5 [B6 B7]]]]]] C]]].
  exists r'. repeat split; assumption.
Qed.
