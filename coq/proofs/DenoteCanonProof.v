(* What Denote's renderer depends on (generator AST only; used by C08).
   [canon_node]: white-space nodes that the renderer strips are gone (all of them in element and template children, the
   leading and trailing ones in the bodies of if/else/case/for and in call blocks), and every trailing-space mark is
   replaced by the decision the renderer takes from it (SpHoriz: "one space is written here", SpNone: none).
   [render_canon]: rendering commutes with canon_node, for every node, environment, children block, follower, state and
   fuel; [denote_depends_on_canon]: the whole-template result is a function of the canonical template table. *)
From Coq.Strings Require Import Byte String.
From Coq Require Import List Arith NArith Bool Lia.
Import ListNotations.
From V Require Import lib.Bytes lib.Sexp model.Ast model.Url spec.Denote spec.FmtEmbed.
Local Open Scope nat_scope.

(* ================= canon ================= *)
Definition norm_t (t : trailing) (b nx : bool) : trailing :=
  match t with SpNone => SpNone | _ => if b && nx then SpHoriz else SpNone end.
Definition all_wsn (l : list node) : bool := forallb is_wsn l.
Definition head_inl (l : list node) : bool := match l with y :: _ => inline_or_text (Some y) | [] => false end.
Fixpoint first_inl (l : list node) (nxi : bool) : bool :=
  match l with [] => nxi | y :: r => if is_wsn y then first_inl r nxi else inline_or_text (Some y) end.
Definition keepw (ch l : list node) : list node :=
  match l with [] => (match ch with [] => [] | _ => [NWs [x20]] end) | _ => l end.

Section CL.
Variable C : bool -> node -> node.
(* strip_lt, then every node sees its immediate follower (the context's follower after the last one) *)
Fixpoint cbody (nxi started : bool) (l : list node) : list node :=
  match l with
  | [] => []
  | c :: r =>
      if is_wsn c then (if started && negb (all_wsn r) then c :: cbody nxi true r else cbody nxi started r)
      else C (if all_wsn r then nxi else head_inl r) c :: cbody nxi true r
  end.
(* strip_ws, then the same *)
Fixpoint cstrip (nxi : bool) (l : list node) : list node :=
  match l with
  | [] => []
  | c :: r => if is_wsn c then cstrip nxi r else C (first_inl r nxi) c :: cstrip nxi r
  end.
Fixpoint ccases (nxi : bool) (cs : list (expr * list node)) : list (expr * list node) :=
  match cs with [] => [] | (e, b) :: r => (e, cbody nxi false b) :: ccases nxi r end.
(* no stripping *)
Fixpoint cfaith (nxi : bool) (l : list node) : list node :=
  match l with
  | [] => []
  | c :: r => C (match r with y :: _ => inline_or_text (Some y) | [] => nxi end) c :: cfaith nxi r
  end.
End CL.

Fixpoint canon_node (nxi : bool) (n : node) {struct n} : node :=
  let cb := fix cb (nxi started : bool) (l : list node) {struct l} : list node :=
    match l with
    | [] => []
    | c :: r =>
        if is_wsn c then (if started && negb (all_wsn r) then c :: cb nxi true r else cb nxi started r)
        else canon_node (if all_wsn r then nxi else head_inl r) c :: cb nxi true r
    end in
  let cs := fix cs (nxi : bool) (l : list node) {struct l} : list node :=
    match l with
    | [] => []
    | c :: r => if is_wsn c then cs nxi r else canon_node (first_inl r nxi) c :: cs nxi r
    end in
  let cc := fix cc (nxi : bool) (l : list (expr * list node)) {struct l} : list (expr * list node) :=
    match l with [] => [] | (e, b) :: r => (e, cb nxi false b) :: cc nxi r end in
  match n with
  | NText v t => NText v (norm_t t true nxi)
  | NStr e t => NStr e (norm_t t true nxi)
  | NElem name attrs ch t =>
      NElem name attrs (if void_name name then keepw ch (cs false ch) else cs false ch) (norm_t t (negb (block_name name)) nxi)
  | NCall e ch => match ch with [] => NCallT e | _ => NCall e (keepw ch (cb false false ch)) end
  | NIf e th elifs el => NIf e (cb nxi false th) (cc nxi elifs) (cb nxi false el)
  | NSwitch e cases => NSwitch e (cc nxi cases)
  | NFor e b => NFor e (cb nxi false b)
  | _ => n
  end.
Lemma canon_node_eq nxi n : canon_node nxi n =
  match n with
  | NText v t => NText v (norm_t t true nxi)
  | NStr e t => NStr e (norm_t t true nxi)
  | NElem name attrs ch t =>
      NElem name attrs (if void_name name then keepw ch (cstrip canon_node false ch) else cstrip canon_node false ch) (norm_t t (negb (block_name name)) nxi)
  | NCall e ch => match ch with [] => NCallT e | _ => NCall e (keepw ch (cbody canon_node false false ch)) end
  | NIf e th elifs el => NIf e (cbody canon_node nxi false th) (ccases canon_node nxi elifs) (cbody canon_node nxi false el)
  | NSwitch e cases => NSwitch e (ccases canon_node nxi cases)
  | NFor e b => NFor e (cbody canon_node nxi false b)
  | _ => n
  end.
Proof. destruct n; reflexivity. Qed.

Definition canon_blkbody (body : list node) : list node := keepw body (cbody canon_node false false body).
Fixpoint canon_blk (b : block) : block :=
  match b with Blk body cap k => Blk (canon_blkbody body) cap (match k with Some k' => Some (canon_blk k') | None => None end) end.
Definition canon_ob (b : option block) : option block := match b with Some k => Some (canon_blk k) | None => None end.
Definition canon_st (x : st) : st := {| outp := outp x; slot := canon_ob (slot x); failed := failed x; onces := onces x |}.
Definition canon_tbl (T : list (bytes * list node)) : list (bytes * list node) :=
  map (fun kb => (fst kb, cstrip canon_node false (snd kb))) T.

(* ---------- list facts ---------- *)
Lemma all_wsn_cons c r : all_wsn (c :: r) = is_wsn c && all_wsn r. Proof. reflexivity. Qed.
Arguments all_wsn : simpl never.
Lemma is_wsn_canon nx c : is_wsn (canon_node nx c) = is_wsn c.
Proof. destruct c; try reflexivity. cbn. destruct children; reflexivity. Qed.
Lemma canon_ws nx c : is_wsn c = true -> canon_node nx c = c.
Proof. destruct c; try discriminate; reflexivity. Qed.
Lemma inl_canon nx c : inline_or_text (Some (canon_node nx c)) = inline_or_text (Some c).
Proof. destruct c; try reflexivity. cbn. destruct children; reflexivity. Qed.

Fixpoint strip_trail (l : list node) : list node :=
  match l with [] => [] | c :: r => if is_wsn c && all_wsn r then [] else c :: strip_trail r end.
Lemma all_wsn_app a b : all_wsn (a ++ b) = all_wsn a && all_wsn b.
Proof. unfold all_wsn. apply forallb_app. Qed.
Lemma all_wsn_rev a : all_wsn (rev a) = all_wsn a.
Proof. induction a; [reflexivity|]. cbn [rev]. rewrite all_wsn_app, IHa, !all_wsn_cons. unfold all_wsn at 2. cbn. rewrite andb_true_r. apply andb_comm. Qed.
Lemma strip_lead_allws l : all_wsn l = true -> strip_lead l = [].
Proof. induction l as [|y l IH]; [reflexivity|]. rewrite all_wsn_cons. intro E. apply andb_true_iff in E. destruct E as [E1 E2]. cbn [strip_lead]. rewrite E1. auto. Qed.
Lemma strip_lead_snoc a c : strip_lead (a ++ [c]) = if all_wsn a then (if is_wsn c then [] else [c]) else strip_lead a ++ [c].
Proof.
  induction a as [|y a IH]; [cbn; destruct (is_wsn c); reflexivity|].
  cbn [app strip_lead]. rewrite all_wsn_cons. destruct (is_wsn y); [exact IH|reflexivity].
Qed.
Lemma rev_strip_lead_rev m : rev (strip_lead (rev m)) = strip_trail m.
Proof.
  induction m as [|c r IH]; [reflexivity|]. cbn [rev strip_trail]. rewrite strip_lead_snoc, all_wsn_rev.
  destruct (all_wsn r) eqn:E.
  - rewrite andb_true_r. destruct (is_wsn c); [reflexivity|]. cbn [rev app]. f_equal.
    rewrite <- IH, strip_lead_allws; [reflexivity|]. rewrite all_wsn_rev. exact E.
  - rewrite andb_false_r, rev_app_distr, IH. reflexivity.
Qed.
Lemma strip_lt_eq l : strip_lt l = strip_trail (strip_lead l).
Proof. unfold strip_lt. apply rev_strip_lead_rev. Qed.
Lemma strip_trail_allws l : all_wsn l = true -> strip_trail l = [].
Proof. destruct l as [|c r]; [reflexivity|]. rewrite all_wsn_cons. cbn [strip_trail]. intro H. rewrite H. reflexivity. Qed.

Section CLFacts.
Variable C : bool -> node -> node.
Hypothesis Cws : forall nx c, is_wsn c = true -> C nx c = c.
Hypothesis Cisws : forall nx c, is_wsn (C nx c) = is_wsn c.
Lemma cbody_allws nxi : forall l st, all_wsn l = true -> cbody C nxi st l = [].
Proof.
  induction l as [|c r IH]; intros st H; [reflexivity|]. rewrite all_wsn_cons in H. apply andb_true_iff in H. destruct H as [H1 H2].
  cbn [cbody]. rewrite H1, H2. cbn [negb]. rewrite andb_false_r. apply IH. exact H2.
Qed.
Lemma cbody_not_allws nxi : forall l st, all_wsn l = false -> all_wsn (cbody C nxi st l) = false.
Proof.
  induction l as [|c r IH]; intros st H; [discriminate|]. rewrite all_wsn_cons in H. cbn [cbody]. destruct (is_wsn c) eqn:E.
  - cbn [andb] in H. rewrite H. cbn [negb]. rewrite andb_true_r. destruct st; [rewrite all_wsn_cons, E; cbn [andb]|]; apply IH; exact H.
  - rewrite all_wsn_cons, Cisws, E. reflexivity.
Qed.
Lemma cbody_true nxi : forall l, cbody C nxi true l = cfaith C nxi (strip_trail l).
Proof.
  induction l as [|c r IH]; [reflexivity|]. cbn [cbody strip_trail]. destruct (is_wsn c) eqn:E.
  - cbn [andb]. destruct (all_wsn r) eqn:A; cbn [negb].
    + apply cbody_allws. exact A.
    + cbn [cfaith]. rewrite (Cws _ _ E), IH. reflexivity.
  - cbn [andb cfaith]. rewrite IH. f_equal. destruct (all_wsn r) eqn:A.
    + rewrite (strip_trail_allws _ A). reflexivity.
    + destruct r as [|y r']; [discriminate|]. cbn [strip_trail]. rewrite all_wsn_cons in A. rewrite A. reflexivity.
Qed.
Lemma cbody_false nxi : forall l, cbody C nxi false l = cbody C nxi true (strip_lead l).
Proof.
  induction l as [|c r IH]; [reflexivity|]. cbn [cbody strip_lead]. destruct (is_wsn c) eqn:E; [cbn [andb]; exact IH|].
  cbn [cbody]. rewrite E. reflexivity.
Qed.
Lemma cbody_faith nxi l : cbody C nxi false l = cfaith C nxi (strip_lt l).
Proof. rewrite cbody_false, cbody_true, strip_lt_eq. reflexivity. Qed.
Lemma first_inl_strip nxi : forall r, first_inl r nxi = match strip_ws r with y :: _ => inline_or_text (Some y) | [] => nxi end.
Proof. induction r as [|y r IH]; [reflexivity|]. cbn [first_inl strip_ws filter]. destruct (is_wsn y); cbn [negb]; [exact IH|reflexivity]. Qed.
Lemma cstrip_faith nxi : forall l, cstrip C nxi l = cfaith C nxi (strip_ws l).
Proof.
  induction l as [|c r IH]; [reflexivity|]. cbn [cstrip strip_ws filter]. destruct (is_wsn c); cbn [negb]; [exact IH|].
  cbn [cfaith]. fold (strip_ws r). rewrite IH, first_inl_strip. reflexivity.
Qed.
Lemma strip_ws_cstrip nxi : forall l, strip_ws (cstrip C nxi l) = cstrip C nxi l.
Proof.
  induction l as [|c r IH]; [reflexivity|]. cbn [cstrip]. destruct (is_wsn c) eqn:E; [exact IH|].
  cbn [strip_ws filter]. rewrite Cisws, E. cbn [negb]. fold (strip_ws (cstrip C nxi r)). rewrite IH. reflexivity.
Qed.
(* the canonical body is already trimmed *)
Lemma strip_trail_cbody nxi : forall l st, strip_trail (cbody C nxi st l) = cbody C nxi st l.
Proof.
  induction l as [|c r IH]; intros st; [reflexivity|]. cbn [cbody]. destruct (is_wsn c) eqn:E.
  - destruct (all_wsn r) eqn:A; cbn [negb]; rewrite ?andb_false_r, ?andb_true_r; [apply IH|].
    destruct st; [|apply IH]. cbn [strip_trail]. rewrite (cbody_not_allws _ _ _ A), andb_false_r, IH. reflexivity.
  - cbn [strip_trail]. rewrite Cisws, E, IH. reflexivity.
Qed.
Lemma strip_lead_cbody nxi : forall l, strip_lead (cbody C nxi false l) = cbody C nxi false l.
Proof.
  induction l as [|c r IH]; [reflexivity|]. cbn [cbody]. destruct (is_wsn c) eqn:E; [cbn [andb]; exact IH|].
  cbn [strip_lead]. rewrite Cisws, E. reflexivity.
Qed.
Lemma strip_lt_cbody nxi l : strip_lt (cbody C nxi false l) = cbody C nxi false l.
Proof. rewrite strip_lt_eq, strip_lead_cbody, strip_trail_cbody. reflexivity. Qed.
Lemma strip_lt_keepw nxi body : strip_lt (keepw body (cbody C nxi false body)) = cbody C nxi false body.
Proof.
  unfold keepw. destruct (cbody C nxi false body) as [|y l] eqn:E.
  - destruct body; reflexivity.
  - rewrite <- E, strip_lt_eq, strip_lead_cbody, strip_trail_cbody. reflexivity.
Qed.
Lemma strip_ws_keepw nxi ch : strip_ws (keepw ch (cstrip C nxi ch)) = cstrip C nxi ch.
Proof.
  unfold keepw. destruct (cstrip C nxi ch) as [|y l] eqn:E.
  - destruct ch; reflexivity.
  - rewrite <- E. apply strip_ws_cstrip.
Qed.
End CLFacts.

(* ---------- state facts ---------- *)
Definition slotfree (g : st -> st) : Prop := forall b x, g (set_slot b x) = set_slot b (g x).
Lemma canon_st_set x : canon_st x = set_slot (canon_ob (slot x)) x. Proof. destruct x; reflexivity. Qed.
Lemma set_slot_same x : set_slot (slot x) x = x. Proof. destruct x; reflexivity. Qed.
Lemma set_slot_set a b x : set_slot a (set_slot b x) = set_slot a x. Proof. reflexivity. Qed.
Lemma slot_set_slot b x : slot (set_slot b x) = b. Proof. reflexivity. Qed.
Lemma slotfree_slot g : slotfree g -> forall x, slot (g x) = slot x.
Proof. intros H x. rewrite <- (set_slot_same x) at 1. rewrite H. reflexivity. Qed.
Lemma slotfree_canon g : slotfree g -> forall x, canon_st (g x) = g (canon_st x).
Proof. intros H x. rewrite !canon_st_set, (slotfree_slot g H), H. reflexivity. Qed.
Lemma canon_set_slot b x : canon_st (set_slot b x) = set_slot (canon_ob b) (canon_st x). Proof. reflexivity. Qed.
Lemma slot_canon x : slot (canon_st x) = canon_ob (slot x). Proof. reflexivity. Qed.
Lemma failed_canon x : failed (canon_st x) = failed x. Proof. reflexivity. Qed.
Lemma onces_canon x : onces (canon_st x) = onces x. Proof. reflexivity. Qed.
Lemma outp_canon x : outp (canon_st x) = outp x. Proof. reflexivity. Qed.

Lemma sf_emit s : slotfree (emit s). Proof. intros b x. unfold emit. cbn. destruct (failed x); reflexivity. Qed.
Lemma sf_fail_at e : slotfree (fail_at e). Proof. intros b x. unfold fail_at. cbn. destruct (failed x); reflexivity. Qed.
Lemma sf_fail0 : slotfree fail0. Proof. intros b x. unfold fail0. cbn. destruct (failed x); reflexivity. Qed.
Lemma sf_mark k : slotfree (mark_once k). Proof. intros b x. reflexivity. Qed.
Lemma sf_id : slotfree (fun x => x). Proof. intros b x. reflexivity. Qed.
Lemma sf_comp g h : slotfree g -> slotfree h -> slotfree (fun x => g (h x)).
Proof. intros G H b x. rewrite H, G. reflexivity. Qed.
Lemma sf_fold {A} (F : st -> A -> st) (l : list A) : (forall a, slotfree (fun x => F x a)) -> slotfree (fun x => fold_left F l x).
Proof. intros H. induction l as [|a l IH]; intros b x; [reflexivity|]. cbn [fold_left]. rewrite (H a b x). apply IH. Qed.
Lemma sf_attr fuel : forall elem e a, slotfree (render_attr fuel elem e a).
Proof.
  induction fuel as [|f IH]; intros elem e a; [apply sf_fail0|]. destruct a; cbn [render_attr].
  - apply sf_emit.
  - apply sf_emit.
  - destruct (lookup e (e_val e0)) as [[| |[|]| |]|]; try apply sf_fail0; [apply sf_emit|apply sf_id].
  - intros b x.
    repeat match goal with
    | |- context [if ?c then _ else _] => destruct c
    | |- context [match lookup ?a ?k with _ => _ end] => destruct (lookup a k) as [[| | | |]|]
    end; rewrite ?sf_emit, ?sf_fail_at, ?sf_fail0; reflexivity.
  - destruct (lookup e _) as [[| | | |]|]; try apply sf_fail0. apply sf_emit.
  - destruct (lookup e (e_val e0)) as [[| |[|]| |]|]; try apply sf_fail0; apply sf_fold; intro; apply IH.
Qed.
Lemma sf_attrs elem e l : slotfree (render_attrs elem e l).
Proof. unfold render_attrs. apply sf_fold. intro. apply sf_attr. Qed.
Lemma sf_open_tag name e attrs : slotfree (open_tag name e attrs).
Proof. unfold open_tag. intros b x. rewrite sf_emit, sf_attrs, sf_emit. reflexivity. Qed.
Lemma sf_spart e p : slotfree (fun x => render_spart e p x).
Proof. destruct p; cbn [render_spart]; [apply sf_emit|]. destruct (lookup e _) as [[| | | |]|]; try apply sf_fail0; [|apply sf_fail_at]. intros b x. rewrite !sf_emit. reflexivity. Qed.

(* ---------- rendering commutes with canon ---------- *)
Definition Cws := canon_ws.
Definition Cisws := is_wsn_canon.
Lemma find_templ_canon T name : find_templ (canon_tbl T) name = option_map (cstrip canon_node false) (find_templ T name).
Proof. induction T as [|[k b] T IH]; [reflexivity|]. cbn [canon_tbl map find_templ fst snd]. destruct (beq k name); [reflexivity|exact IH]. Qed.
Lemma canon_ob_some body cap k : canon_ob (Some (Blk body cap k)) = Some (Blk (canon_blkbody body) cap (canon_ob k)).
Proof. destruct k; reflexivity. Qed.

Section Sim.
Variable T : list (bytes * list node).
Variables R R' : rfun.
Hypothesis HR : forall e kids n next next' x, inline_or_text next = inline_or_text next' ->
  canon_st (R e kids n next x) = R' e (canon_ob kids) (canon_node (inline_or_text next) n) next' (canon_st x).

Lemma nodes_faith : forall l e kids next next' x, inline_or_text next = inline_or_text next' ->
  canon_st (nodes_with R e kids l next x) = nodes_with R' e (canon_ob kids) (cfaith canon_node (inline_or_text next) l) next' (canon_st x).
Proof.
  induction l as [|c r IH]; intros e kids next next' x H; [reflexivity|]. cbn [nodes_with cfaith].
  rewrite (IH _ _ _ next' _ H). f_equal.
  destruct r as [|y r'].
  - cbn [cfaith]. apply HR. exact H.
  - cbn [cfaith]. rewrite (HR _ _ _ (Some y) (Some (canon_node (match r' with y0 :: _ => inline_or_text (Some y0) | [] => inline_or_text next end) y))); [reflexivity|].
    symmetry. apply inl_canon.
Qed.
Lemma nodes_body l e kids next next' x : inline_or_text next = inline_or_text next' ->
  canon_st (nodes_with R e kids (strip_lt l) next x) = nodes_with R' e (canon_ob kids) (cbody canon_node (inline_or_text next) false l) next' (canon_st x).
Proof. intro H. rewrite (cbody_faith _ Cws). apply nodes_faith. exact H. Qed.
Lemma nodes_strip l e kids x :
  canon_st (nodes_with R e kids (strip_ws l) None x) = nodes_with R' e (canon_ob kids) (cstrip canon_node false l) None (canon_st x).
Proof. rewrite cstrip_faith. apply (nodes_faith _ _ _ None None). reflexivity. Qed.

Lemma block_sim b x : canon_st (render_block_with R b x) = render_block_with R' (canon_ob b) (canon_st x).
Proof.
  destruct b as [[body cap k]|]; [|reflexivity]. rewrite canon_ob_some. cbn [render_block_with].
  unfold canon_blkbody. rewrite (strip_lt_keepw _ Cisws). apply (nodes_body _ _ _ None None). reflexivity.
Qed.
Lemma restoring_sim x : canon_st (render_children_restoring R x) = render_children_restoring R' (canon_st x).
Proof. unfold render_children_restoring. rewrite canon_set_slot, block_sim, canon_set_slot, slot_canon. reflexivity. Qed.

Lemma comp_sim e c x : canon_st (render_comp_with T R e c x) = render_comp_with (canon_tbl T) R' e c (canon_st x).
Proof.
  destruct c; cbn [render_comp_with].
  - rewrite find_templ_canon. destruct (find_templ T name) as [body|]; cbn [option_map]; [|apply (slotfree_canon _ sf_fail0)].
    rewrite (strip_ws_cstrip _ Cisws), slot_canon, nodes_strip, canon_set_slot. reflexivity.
  - rewrite (slotfree_canon _ (sf_emit _)), block_sim, canon_set_slot, (slotfree_canon _ (sf_emit _)), slot_canon. reflexivity.
  - apply (slotfree_canon _ (sf_emit _)).
  - apply (slotfree_canon _ (sf_emit _)).
  - rewrite onces_canon. destruct (existsb (beq k) (onces x)); [reflexivity|]. rewrite restoring_sim, (slotfree_canon _ (sf_mark _)). reflexivity.
  - apply restoring_sim.
  - reflexivity.
  - apply (slotfree_canon _ sf_fail0).
  - revert x. induction args as [|a args IH]; intro x; [reflexivity|]. cbn [fold_left]. rewrite IH. f_equal.
    exact (HR e None (NCallT _) None None x eq_refl).
  - rewrite canon_set_slot, restoring_sim, canon_set_slot. reflexivity.
  - rewrite canon_set_slot, (slotfree_canon _ (sf_emit _)), (HR e None (NCallT _) None None _ eq_refl).
    rewrite (slotfree_canon _ (sf_emit _)), canon_set_slot, slot_canon. reflexivity.
Qed.

Lemma chain_sim e kids next next' el : inline_or_text next = inline_or_text next' -> forall l x,
  canon_st (chain_with R e kids next el l x) =
  chain_with R' e (canon_ob kids) next' (cbody canon_node (inline_or_text next) false el) (ccases canon_node (inline_or_text next) l) (canon_st x).
Proof.
  intros H. induction l as [|[ce cb] l IH]; intro x; cbn [chain_with ccases].
  - rewrite (strip_lt_cbody _ Cisws). apply nodes_body. exact H.
  - destruct (lookup e (e_val ce)) as [[| |[|]| |]|]; try apply (slotfree_canon _ sf_fail0).
    + rewrite (strip_lt_cbody _ Cisws). apply nodes_body. exact H.
    + apply IH.
Qed.

(* one step of render_node, with the recursive call abstracted *)
Definition core (Tb : list (bytes * list node)) (Rr : rfun) (e : env) (kids : option block) (n : node) (next : option node) (x : st) : st :=
    match n with
    | NWs v => match v with [] => x | _ => emit [x20] x end
    | NDoc v => emit (bs "<!doctype " ++ v ++ bs ">") x
    | NText v _ => emit v x
    | NStr ex _ => if forallb blank (e_val ex) then x else
                   match lookup e (e_val ex) with
                   | Some (VStr s) => emit (hesc s) x
                   | Some VErr => fail_at ex x
                   | _ => fail0 x end
    | NGoComment => x
    | NGoCode _ => x
    | NHtmlComment c => emit (bs "<!--" ++ c ++ bs "-->") x
    | NChildren => render_block_with Rr kids x
    | NCallT ex => render_comp_with Tb Rr e (comp_of (e_val ex)) x
    | NCall ex [] => render_comp_with Tb Rr e (comp_of (e_val ex)) x
    | NCall ex ch =>
        set_slot None (render_comp_with Tb Rr e (comp_of (e_val ex)) (set_slot (Some (Blk ch e kids)) x))
    | NIf ex th elifs el =>
        match lookup e (e_val ex) with
        | Some (VBool true) => nodes_with Rr e kids (strip_lt th) next x
        | Some (VBool false) => chain_with Rr e kids next el elifs x
        | _ => fail0 x end
    | NSwitch ex cases =>
        match lookup e (pre "switch:" (e_val ex) ++ bs "@" ++ dec (e_fi ex)) with
        | Some (VIdx i) => match nth_error cases i with
                           | Some (_, body) => nodes_with Rr e kids (strip_lt body) next x
                           | None => x end
        | _ => fail0 x end
    | NFor ex body =>
        match lookup e (e_val ex) with
        | Some (VIter its) => fold_left (fun x bind => nodes_with Rr (bind ++ e) kids (strip_lt body) next x) its x
        | _ => fail0 x end
    | NElem name attrs ch _ =>
        let x := open_tag name e attrs x in
        if void_name name && match ch with [] => true | _ => false end then x
        else emit (bs "</" ++ hesc name ++ bs ">") (nodes_with Rr e kids (strip_ws ch) None x)
    | NRaw name attrs c => emit (bs "</" ++ hesc name ++ bs ">") (emit c (open_tag name e attrs x))
    | NScript attrs parts => emit (bs "</script>") (fold_left (fun x p => render_spart e p x) parts (open_tag (bs "script") e attrs x))
    end.
Definition trailer (n : node) (next : option node) (x : st) : st :=
  match trail_of n with
  | Some SpNone | None => x
  | Some _ => if inline_or_text (Some n) && inline_or_text next then emit [x20] x else x
  end.
Lemma render_node_S Tb f e kids n next x : render_node Tb (S f) e kids n next x =
  match failed x with Some _ => x | None => trailer n next (core Tb (render_node Tb f) e kids n next x) end.
Proof. reflexivity. Qed.

Lemma trailer_sim n next next' x : inline_or_text next = inline_or_text next' ->
  canon_st (trailer n next x) = trailer (canon_node (inline_or_text next) n) next' (canon_st x).
Proof.
  intro H. unfold trailer. rewrite <- H. destruct n; try reflexivity; cbn [canon_node trail_of norm_t inline_or_text].
  - destruct t; try reflexivity; destruct (inline_or_text next); cbn [andb]; try reflexivity; apply (slotfree_canon _ (sf_emit _)).
  - destruct t; try reflexivity; cbn [andb negb]; destruct (block_name name); cbn [negb andb]; try reflexivity;
      destruct (inline_or_text next); cbn [andb]; try reflexivity; apply (slotfree_canon _ (sf_emit _)).
  - destruct children; reflexivity.
  - destruct t; try reflexivity; destruct (inline_or_text next); cbn [andb]; try reflexivity; apply (slotfree_canon _ (sf_emit _)).
Qed.

Lemma ccases_nth nxi : forall cases i, nth_error (ccases canon_node nxi cases) i =
  option_map (fun p : expr * list node => (fst p, cbody canon_node nxi false (snd p))) (nth_error cases i).
Proof. induction cases as [|[ce cb] cs IH]; intros [|i]; try reflexivity. cbn [ccases nth_error]. apply IH. Qed.

Lemma core_sim e kids n next next' x : inline_or_text next = inline_or_text next' ->
  canon_st (core T R e kids n next x) = core (canon_tbl T) R' e (canon_ob kids) (canon_node (inline_or_text next) n) next' (canon_st x).
Proof.
  intro H. rewrite canon_node_eq. destruct n; cbn [core].
  - destruct v; [reflexivity|apply (slotfree_canon _ (sf_emit _))].
  - apply (slotfree_canon _ (sf_emit _)).
  - apply (slotfree_canon _ (sf_emit _)).
  - (* NElem *)
    cbv zeta.
    assert (V : (void_name name && match (if void_name name then keepw children (cstrip canon_node false children) else cstrip canon_node false children) with [] => true | _ => false end)
                = (void_name name && match children with [] => true | _ => false end)).
    { destruct (void_name name); [|reflexivity]. cbn [andb]. unfold keepw. destruct children; [reflexivity|]. destruct (cstrip canon_node false (n :: children)); reflexivity. }
    rewrite V. clear V. destruct (void_name name && match children with [] => true | _ => false end); [apply (slotfree_canon _ (sf_open_tag _ _ _))|].
    rewrite (slotfree_canon _ (sf_emit _)), nodes_strip, (slotfree_canon _ (sf_open_tag _ _ _)). f_equal. f_equal.
    destruct (void_name name); [rewrite (strip_ws_keepw _ Cisws)|rewrite (strip_ws_cstrip _ Cisws)]; reflexivity.
  - rewrite (slotfree_canon _ (sf_emit _)), (slotfree_canon _ (sf_emit _)), (slotfree_canon _ (sf_open_tag _ _ _)). reflexivity.
  - rewrite (slotfree_canon _ (sf_emit _)), (slotfree_canon _ (sf_fold _ _ (sf_spart e))), (slotfree_canon _ (sf_open_tag _ _ _)). reflexivity.
  - reflexivity.
  - apply (slotfree_canon _ (sf_emit _)).
  - apply comp_sim.
  - (* NCall *)
    destruct children as [|c0 ch]; [apply comp_sim|].
    assert (K : exists y l, keepw (c0 :: ch) (cbody canon_node false false (c0 :: ch)) = y :: l).
    { unfold keepw. destruct (cbody canon_node false false (c0 :: ch)); eauto. }
    destruct K as [y [l K]]. cbv beta iota. rewrite K. cbn [core]. rewrite <- K.
    rewrite canon_set_slot, comp_sim, canon_set_slot, canon_ob_some. reflexivity.
  - apply block_sim.
  - (* NIf *)
    destruct (lookup e (e_val e0)) as [[| |[|]| |]|]; try apply (slotfree_canon _ sf_fail0).
    + rewrite (strip_lt_cbody _ Cisws). apply nodes_body. exact H.
    + apply chain_sim. exact H.
  - (* NSwitch *)
    destruct (lookup e _) as [[| | | |]|]; try apply (slotfree_canon _ sf_fail0).
    rewrite ccases_nth. destruct (nth_error cases i) as [[ce cb]|]; cbn [option_map fst snd]; [|reflexivity].
    rewrite (strip_lt_cbody _ Cisws). apply nodes_body. exact H.
  - (* NFor *)
    destruct (lookup e (e_val e0)) as [[| | | |]|]; try apply (slotfree_canon _ sf_fail0).
    revert x. induction its as [|b its IH]; intro x; [reflexivity|]. cbn [fold_left]. rewrite IH. f_equal.
    rewrite (strip_lt_cbody _ Cisws). apply nodes_body. exact H.
  - reflexivity.
  - destruct (forallb blank (e_val e0)); [reflexivity|].
    destruct (lookup e (e_val e0)) as [[| | | |]|]; try apply (slotfree_canon _ sf_fail0); [apply (slotfree_canon _ (sf_emit _))|apply (slotfree_canon _ (sf_fail_at _))].
Qed.
End Sim.

Theorem render_canon T : forall f e kids n next next' x, inline_or_text next = inline_or_text next' ->
  canon_st (render_node T f e kids n next x) =
  render_node (canon_tbl T) f e (canon_ob kids) (canon_node (inline_or_text next) n) next' (canon_st x).
Proof.
  induction f as [|f IH]; intros e kids n next next' x H; [apply (slotfree_canon _ sf_fail0)|].
  rewrite !render_node_S, failed_canon. destruct (failed x); [reflexivity|].
  rewrite (trailer_sim _ _ next' _ H), (core_sim T _ _ IH _ _ _ _ next' _ H). reflexivity.
Qed.

(* whole-template entry, for any fuel: the result is a function of the canonical table only *)
Lemma denote_case_fuel f name ev : denote_case f name ev = denote_fuel 300 f name ev.
Proof. reflexivity. Qed.
Definition denote_canon (fuel : nat) (T' : list (bytes * list node)) (name : bytes) (ev : env) : bytes :=
  match find_templ T' name with
  | Some body' => result (nodes_with (render_node T' fuel) ev None body' None st0)
  | None => bs "NO-TEMPLATE" end.
Lemma result_canon r : result (canon_st r) = result r. Proof. reflexivity. Qed.
Theorem denote_depends_on_canon fuel f name ev :
  denote_fuel fuel f name ev = denote_canon fuel (canon_tbl (templ_table f)) name ev.
Proof.
  unfold denote_fuel, denote_canon. rewrite find_templ_canon. destruct (find_templ (templ_table f) name) as [body|]; [|reflexivity].
  cbn [option_map]. rewrite <- result_canon. f_equal.
  exact (nodes_strip _ _ (fun e kids n next next' x H => render_canon (templ_table f) fuel e kids n next next' x H) body ev None st0).
Qed.
