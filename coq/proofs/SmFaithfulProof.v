(* C07 proofs, part 3: from "the entries of e are in the tables" (SourceMapProof) and "the recorded target
   position is the position of e's first byte in the generated text" (RangeWriterProof) to the executable
   predicate spec.SmSpec.add_faithful that the harness evaluates on the real source map, and to the
   byte-level statement of the property (same byte, positions are pos_of, round trip). *)
From Coq.Strings Require Import Byte String.
From Coq Require Import List Arith NArith Bool Lia ZifyN ZifyNat ZifyBool.
Import ListNotations.
From V Require Import lib.Bytes lib.Sexp model.Ast model.Gen model.SourceMap spec.SmSpec.
From V Require Import proofs.SourceMapProof proofs.RangeWriterProof.
Local Open Scope nat_scope.

Lemma pos3 (a a' b b' c c' : N) : a = a' -> b = b' -> c = c' -> (a, b, c) = (a', b', c').
Proof. intros -> -> ->. reflexivity. Qed.

(* ================= lines of a text ================= *)
Lemma split_on_lf : forall s acc, split_on x0a s acc = split_lf s acc.
Proof. induction s as [|b r IH]; intros acc; cbn [split_on split_lf]; [reflexivity|]. destruct (Byte.eqb b x0a); rewrite IH; reflexivity. Qed.

Fixpoint join_lf (ls : list bytes) : bytes :=
  match ls with [] => [] | l :: r => match r with [] => l | _ => l ++ x0a :: join_lf r end end.
Definition nolf (l : bytes) : Prop := Forall (fun b => Byte.eqb b x0a = false) l.

Lemma split_lf_ne : forall s acc, split_lf s acc <> [].
Proof. induction s as [|b r IH]; intros acc; cbn [split_lf]; [discriminate|]. destruct (Byte.eqb b x0a); [discriminate|apply IH]. Qed.
Lemma split_lf_acc : forall s acc, split_lf s acc = match split_lf s [] with h :: t => (rev acc ++ h) :: t | [] => [] end.
Proof.
  induction s as [|b r IH]; intros acc; cbn [split_lf].
  - cbn [rev]. rewrite app_nil_r. reflexivity.
  - destruct (Byte.eqb b x0a).
    + cbn [rev app]. rewrite app_nil_r. reflexivity.
    + rewrite (IH (b :: acc)), (IH [b]). destruct (split_lf r []); [reflexivity|].
      cbn [rev app]. rewrite <- app_assoc. reflexivity.
Qed.
Lemma split_lf_cons b r : split_lf (b :: r) [] =
  if Byte.eqb b x0a then [] :: split_lf r [] else match split_lf r [] with h :: t => (b :: h) :: t | [] => [] end.
Proof. cbn [split_lf]. destruct (Byte.eqb b x0a); [reflexivity|]. rewrite split_lf_acc. reflexivity. Qed.
Lemma split_lf_join : forall s, join_lf (split_lf s []) = s.
Proof.
  induction s as [|b r IH]; [reflexivity|]. rewrite split_lf_cons.
  pose proof (split_lf_ne r []) as Hne. destruct (split_lf r []) as [|h t]; [congruence|].
  destruct (Byte.eqb b x0a) eqn:E.
  - apply byte_eqb_eq in E. subst b. cbn [join_lf app] in *. rewrite IH. reflexivity.
  - cbn [join_lf] in *. destruct t; [rewrite IH; reflexivity|]. cbn [app]. rewrite IH. reflexivity.
Qed.
Lemma split_lf_nolf : forall s, Forall nolf (split_lf s []).
Proof.
  induction s as [|b r IH]; [repeat constructor|]. rewrite split_lf_cons.
  destruct (Byte.eqb b x0a) eqn:E; [constructor; [constructor|exact IH]|].
  destruct (split_lf r []) as [|h t]; [constructor|]. inversion IH; subst. constructor; [constructor; assumption|assumption].
Qed.

Lemma advance_nolf : forall l, nolf l -> forall i ln c, advance (i, ln, c) l = (i + N.of_nat (length l), ln, c + N.of_nat (length l))%N.
Proof.
  induction l as [|b r IH]; intros H i ln c; cbn [advance length].
  - cbn [N.of_nat]. rewrite !N.add_0_r. reflexivity.
  - inversion H; subst. rewrite H2. rewrite IH by assumption. apply pos3; lia.
Qed.
Local Lemma In_firstn_ A (x : A) : forall n l, In x (firstn n l) -> In x l.
Proof. induction n; intros l H; [destruct H|]. destruct l; [destruct H|]. cbn in H. destruct H; [left; auto|right; auto]. Qed.
Lemma nolf_firstn j l : nolf l -> nolf (firstn j l).
Proof. intros H. unfold nolf in *. rewrite Forall_forall in *. intros x Hx. apply H. eapply In_firstn_; eauto. Qed.

Lemma join_lf_line : forall lines i l, Forall nolf lines -> nth_error lines i = Some l ->
  exists pre suf, join_lf lines = pre ++ l ++ suf /\ length pre = line_off lines i /\
    forall pi pl pc, advance (pi, pl, pc) pre = (pi + N.of_nat (line_off lines i), pl + N.of_nat i, col0 i pc)%N.
Proof.
  induction lines as [|l0 r IH]; intros i l Hf Hn; [destruct i; discriminate|].
  inversion Hf; subst. destruct i as [|i].
  - cbn in Hn. inversion Hn; subst l0. exists [], (match r with [] => [] | _ => x0a :: join_lf r end).
    split; [cbn [join_lf app]; destruct r; [rewrite app_nil_r|]; reflexivity|]. split; [reflexivity|].
    intros. cbn [advance line_off N.of_nat col0 Nat.eqb]. rewrite !N.add_0_r. reflexivity.
  - cbn [nth_error] in Hn. destruct (IH i l H2 Hn) as (pre & suf & E & L & A).
    exists (l0 ++ x0a :: pre), suf. split; [|split].
    + cbn [join_lf]. destruct r as [|r0 r']; [destruct i; discriminate|]. rewrite E, <- app_assoc. reflexivity.
    + rewrite app_length. cbn [length line_off]. lia.
    + intros. rewrite advance_app, (advance_nolf l0 H1). cbn [advance]. change (Byte.eqb x0a x0a) with true. cbv iota.
      rewrite A. cbn [line_off]. rewrite col0_S, col0_zero. apply pos3; lia.
Qed.

(* ================= small list facts ================= *)
Lemma has_prefix_iff : forall p s, has_prefix p s = true <-> exists r, s = p ++ r.
Proof.
  induction p as [|x p IH]; intros s; cbn [has_prefix].
  - split; [intros _; exists s; reflexivity|reflexivity].
  - destruct s as [|y s]; [split; [discriminate|intros [r H]; discriminate]|].
    rewrite andb_true_iff, byte_eqb_eq, IH. split.
    + intros [-> [r ->]]. exists r. reflexivity.
    + intros [r H]. inversion H; subst. split; [reflexivity|exists r; reflexivity].
Qed.
Lemma skipn_app_len {A} (a b : list A) : skipn (length a) (a ++ b) = b.
Proof. rewrite skipn_app, skipn_all, Nat.sub_diag. reflexivity. Qed.
Lemma nth_error_skipn_hd {A} : forall n (l : list A), nth_error l n = hd_error (skipn n l).
Proof. induction n; intros l; destruct l; cbn; auto. Qed.

(* ================= a text that holds v at a recorded position ================= *)
(* p is a position of [text] (it is the pos_of of its own index) and [text] holds v there: then offset j of
   line i of v sits at index p.index + line_off i + j of [text], on line p.line + i, at column
   (p.col on the first line, 0 on later ones) + j, and the text there continues with the rest of the line *)
Lemma text_line_pos text (p : pos) v :
  p = pos_of text (fst (fst p)) -> has_prefix v (skipn (N.to_nat (fst (fst p))) text) = true ->
  forall i l j, nth_error (split_lf v []) i = Some l -> j <= length l ->
    let q := (fst (fst p) + N.of_nat (line_off (split_lf v []) i) + N.of_nat j)%N in
    pos_of text q = (q, snd (fst p) + N.of_nat i, col0 i (snd p) + N.of_nat j)%N /\
    exists rest, skipn (N.to_nat q) text = skipn j l ++ rest.
Proof.
  intros Hp Hv i l j Hn Hj. cbv zeta.
  destruct (pos_of_self text p Hp) as (P & rest & -> & Ei & Ep).
  rewrite Ei, Nat2N.id, skipn_app_len in Hv. apply has_prefix_iff in Hv. destruct Hv as [rest' ->].
  pose proof (split_lf_nolf v) as Hnl.
  destruct (join_lf_line _ i l Hnl Hn) as (pre & suf & E & L & A). rewrite split_lf_join in E.
  assert (Hl : nolf l) by (rewrite Forall_forall in Hnl; apply Hnl; eapply nth_error_In; eauto).
  set (off := line_off (split_lf v []) i) in *.
  assert (Eq : (fst (fst p) + N.of_nat off + N.of_nat j)%N = N.of_nat (length (P ++ pre ++ firstn j l))).
  { rewrite !app_length, firstn_length. lia. }
  assert (Et : P ++ v ++ rest' = (P ++ pre ++ firstn j l) ++ (skipn j l ++ suf ++ rest')).
  { rewrite E. rewrite <- (firstn_skipn j l) at 1. rewrite <- !app_assoc. reflexivity. }
  rewrite Eq, Et. split.
  - rewrite pos_of_app, !advance_app, <- Ep. destruct p as [[pi pl] pc]. cbn [fst snd] in *.
    rewrite A, (advance_nolf _ (nolf_firstn j l Hl)), firstn_length, Nat.min_l by exact Hj.
    rewrite <- Eq. apply pos3; lia.
  - exists (suf ++ rest'). rewrite Nat2N.id, skipn_app_len. reflexivity.
Qed.

(* ================= the executable predicate ================= *)
Lemma pos_eqb_refl p : pos_eqb p p = true.
Proof. destruct p as [[a b] c]. unfold pos_eqb. rewrite !N.eqb_refl. reflexivity. Qed.
Lemma pos_eqb_eq p q : pos_eqb p q = true <-> p = q.
Proof.
  destruct p as [[a b] c], q as [[a' b'] c']. unfold pos_eqb. rewrite !andb_true_iff, !N.eqb_eq.
  split; [intros [[-> ->] ->]; reflexivity|intros H; inversion H; auto].
Qed.
Lemma sget_filter ln c : forall m, sget (ln, c) (filter (fun kv : key * pos => (fst (fst kv) =? ln)%N) m) = sget (ln, c) m.
Proof.
  induction m as [|[[a b] v] r IH]; [reflexivity|]. cbn [filter fst snd].
  destruct (a =? ln)%N eqn:E; cbn [sget fst snd]; rewrite (N.eqb_sym ln a), E; cbn [andb]; [rewrite IH; reflexivity|exact IH].
Qed.
Lemma source_from_target_hit m line col p : sget (line, col) m = Some p -> source_from_target m line col = Some p.
Proof. intros H. unfold source_from_target. cbn [source_from_target_fuel]. rewrite H. reflexivity. Qed.

Lemma line_ok_intro out s2t t2s l si0 sl sc0 ti0 tl0 tc0 :
  pos_of out ti0 = (ti0, tl0, tc0) ->
  has_prefix l (skipn (N.to_nat ti0) out) = true ->
  (forall j, In j (rstarts l) ->
     sget (sl, sc0 + N.of_nat j)%N s2t = Some (ti0 + N.of_nat j, tl0, tc0 + N.of_nat j)%N /\
     sget (tl0, tc0 + N.of_nat j)%N t2s = Some (si0 + N.of_nat j, sl, sc0 + N.of_nat j)%N) ->
  line_ok out s2t t2s l si0 sl sc0 = true.
Proof.
  intros Hpos Hpre Hall. unfold line_ok. rewrite sget_filter.
  destruct (Hall 0 (rune_starts_zero _ _)) as [A0 _]. cbn [N.of_nat] in A0. rewrite !N.add_0_r in A0. rewrite A0.
  rewrite Hpos, pos_eqb_refl, Hpre. cbn [andb]. apply forallb_forall. intros j Hj.
  destruct (Hall j Hj) as [A B]. unfold target_from_source. rewrite sget_filter, A, pos_eqb_refl.
  rewrite (source_from_target_hit _ _ _ _ (eq_trans (sget_filter _ _ _) B)), pos_eqb_refl. reflexivity.
Qed.

Lemma lines_ok_intro out s2t t2s : forall lines si sl sc,
  (forall i l, nth_error lines i = Some l ->
     line_ok out s2t t2s l (si + N.of_nat (line_off lines i))%N (sl + N.of_nat i)%N (col0 i sc) = true) ->
  lines_ok out s2t t2s lines si sl sc = true.
Proof.
  induction lines as [|l r IH]; intros si sl sc H; [reflexivity|]. cbn [lines_ok]. apply andb_true_intro. split.
  - specialize (H 0 l eq_refl). cbn [line_off N.of_nat col0 Nat.eqb] in H. rewrite !N.add_0_r in H. exact H.
  - apply IH. intros i l0 Hn. specialize (H (S i) l0 Hn). cbn [line_off] in H. rewrite col0_S in H. rewrite col0_zero.
    replace (si + N.of_nat (length l) + 1 + N.of_nat (line_off r i))%N with (si + N.of_nat (length l + 1 + line_off r i))%N by lia.
    replace (N.succ sl + N.of_nat i)%N with (sl + N.of_nat (S i))%N by lia. exact H.
Qed.

(* offsets: for lines that do not end inside a multi-byte sequence Add's running index is the byte offset *)
Lemma roff_aligned : forall lines i, Forall aligned lines -> roff lines i = line_off lines i.
Proof.
  induction lines as [|l r IH]; intros i H; destruct i; cbn [roff line_off]; try reflexivity.
  inversion H; subst. rewrite IH by assumption. unfold aligned in H2. rewrite H2. reflexivity.
Qed.
Lemma rune_starts_le_end f : forall l j, In j (rune_starts f l 0) -> j <= rune_end f l 0.
Proof.
  induction f as [|f IH]; intros l j; cbn [rune_starts rune_end]; [intros [<-|[]]; lia|].
  destruct l as [|b r]; [intros [<-|[]]; lia|].
  rewrite rune_starts_shift, rune_end_shift. intros [<-|H]; [lia|].
  apply in_map_iff in H. destruct H as (j' & <- & H). apply IH in H. lia.
Qed.
Lemma alignedb_ok l : alignedb l = true <-> aligned l.
Proof. unfold alignedb, aligned. apply Nat.eqb_eq. Qed.

(* ASCII lines: every offset is a rune start, and the line is aligned *)
Definition ascii (l : bytes) : Prop := Forall (fun b => Byte.to_nat b < 128) l.
Lemma lead_width_ascii b : Byte.to_nat b < 128 -> lead_width b = 1.
Proof. intros H. unfold lead_width. cbv zeta. apply Nat.ltb_lt in H. rewrite H. reflexivity. Qed.
Lemma rune_ascii : forall l f, ascii l -> length l < f ->
  rune_end f l 0 = length l /\ forall j, j <= length l -> In j (rune_starts f l 0).
Proof.
  induction l as [|b r IH]; intros f Ha Hf; (destruct f as [|f]; [cbn in Hf; lia|]); cbn [rune_end rune_starts length].
  - split; [reflexivity|]. intros j Hj. left. lia.
  - inversion Ha; subst. rewrite (lead_width_ascii b H1). cbn [skipn].
    rewrite rune_end_shift, rune_starts_shift. destruct (IH f H2 ltac:(cbn in Hf; lia)) as [E S].
    split; [rewrite E; lia|]. intros j Hj. destruct j as [|j]; [left; reflexivity|]. right.
    apply in_map_iff. exists j. split; [lia|]. apply S. lia.
Qed.
Lemma ascii_aligned l : ascii l -> aligned l.
Proof. intros H. apply (rune_ascii l (S (length l)) H). lia. Qed.

(* ================= link ================= *)
Lemma add_faithful_link src out s2t t2s e (tp : pos) :
  Forall aligned (elines e) ->
  tp = pos_of out (fst (fst tp)) ->
  has_prefix (e_val e) (skipn (N.to_nat (fst (fst tp))) out) = true ->
  entries e tp (s2t, t2s) ->
  add_faithful src out s2t t2s e = true.
Proof.
  intros Hal Hp Hv He. unfold add_faithful. apply lines_ok_intro. intros i l Hn.
  rewrite <- split_on_lf in Hn. pose proof (text_line_pos out tp (e_val e) Hp Hv i l 0) as T.
  rewrite <- split_on_lf in T. specialize (T Hn (Nat.le_0_l _)). cbv zeta in T. cbn [N.of_nat] in T. rewrite !N.add_0_r in T.
  destruct T as [T1 [rest T2]]. rewrite <- split_on_lf.
  eapply line_ok_intro.
  - exact T1.
  - apply has_prefix_iff. exists rest. exact T2.
  - intros j Hj. destruct (He i l j Hn Hj) as [A B]. cbn [fst snd] in A, B.
    rewrite (roff_aligned _ i Hal) in A, B. split; assumption.
Qed.

(* all Adds of a file: pairwise disjoint key sets => the predicate holds of every added expression *)
Lemma sourcemap_add_faithful src out adds e (tp : pos) :
  pairwise_disj adds -> In (e, tp) adds ->
  Forall aligned (elines e) ->
  tp = pos_of out (fst (fst tp)) ->
  has_prefix (e_val e) (skipn (N.to_nat (fst (fst tp))) out) = true ->
  add_faithful src out (fst (sourcemap adds)) (snd (sourcemap adds)) e = true.
Proof.
  intros Hd Hin Hal Hp Hv. apply (add_faithful_link src out _ _ e tp Hal Hp Hv).
  rewrite <- surjective_pairing. apply adds_pairwise_disjoint; assumption.
Qed.

(* ================= the property at byte level ================= *)
(* For a parsed expression whose recorded range agrees with the source text (range_ok, C06's predicate),
   written at a target position that is a position of the generated text holding the expression, and whose
   entries are in the tables: every rune start k of every line (and one past its end)
   - the source position pos_of src (from + k) is mapped to a target position t,
   - t is a position of the generated text (t = pos_of out t.index), at index tp.index + k,
   - the generated text at t holds the same byte as the source at from + k,
   - mapping t back gives pos_of src (from + k). *)
Lemma same_byte src out m e (tp : pos) :
  range_ok src e = true ->
  Forall aligned (elines e) ->
  tp = pos_of out (fst (fst tp)) ->
  has_prefix (e_val e) (skipn (N.to_nat (fst (fst tp))) out) = true ->
  entries e tp m ->
  forall i l j, nth_error (elines e) i = Some l -> In j (rstarts l) ->
    let k := N.of_nat (line_off (elines e) i + j) in
    let sp := pos_of src (e_fi e + k) in
    let t := pos_of out (fst (fst tp) + k) in
    fst (fst sp) = (e_fi e + k)%N /\ fst (fst t) = (fst (fst tp) + k)%N /\
    target_from_source (fst m) (snd (fst sp)) (snd sp) = Some t /\
    source_from_target (snd m) (snd (fst t)) (snd t) = Some sp /\
    (j < length l -> nth_error out (N.to_nat (fst (fst tp) + k)) = nth_error src (N.to_nat (e_fi e + k))
                     /\ nth_error src (N.to_nat (e_fi e + k)) = nth_error l j).
Proof.
  intros Hr Hal Hp Hv He i l j Hn Hj. cbv zeta.
  unfold range_ok in Hr. apply andb_true_iff in Hr. destruct Hr as [Hr1 Hr2]. apply pos_eqb_eq in Hr1.
  assert (Hjl : j <= length l).
  { apply rune_starts_le_end in Hj. pose proof (nth_error_In _ _ Hn) as Hin. rewrite Forall_forall in Hal.
    specialize (Hal l Hin). unfold aligned in Hal. lia. }
  set (sp0 := (e_fi e, e_fl e, e_fc e)).
  assert (Hs0 : sp0 = pos_of src (fst (fst sp0))) by (symmetry; exact Hr1).
  pose proof (text_line_pos src sp0 (e_val e) Hs0 Hr2 i l j) as S. rewrite <- split_on_lf in S. specialize (S Hn Hjl).
  pose proof (text_line_pos out tp (e_val e) Hp Hv i l j) as T. rewrite <- split_on_lf in T. specialize (T Hn Hjl).
  cbv zeta in S, T. unfold sp0 in S. cbn [fst snd] in S.
  replace (e_fi e + N.of_nat (line_off (elines e) i + j))%N with (e_fi e + N.of_nat (line_off (elines e) i) + N.of_nat j)%N by lia.
  replace (fst (fst tp) + N.of_nat (line_off (elines e) i + j))%N with (fst (fst tp) + N.of_nat (line_off (elines e) i) + N.of_nat j)%N by lia.
  destruct S as [S1 [rs S2]]. destruct T as [T1 [rt T2]]. rewrite S1, T1. cbn [fst snd].
  destruct (He i l j Hn Hj) as [A B]. rewrite (roff_aligned _ i Hal) in A, B.
  split; [reflexivity|]. split; [reflexivity|]. split; [exact A|]. split; [apply source_from_target_hit; exact B|].
  intros Hlt. rewrite !nth_error_skipn_hd, S2, T2.
  assert (exists b r, skipn j l = b :: r) as (b & r & Es).
  { destruct (skipn j l) eqn:E; [|eauto]. pose proof (f_equal (@length _) E) as E2. rewrite skipn_length in E2. cbn in E2. lia. }
  rewrite Es. cbn [app hd_error]. split; reflexivity.
Qed.
