From Coq.Strings Require Import Byte String.
From Coq Require Import List Arith NArith Bool Lia.
Import ListNotations.
From V Require Import lib.Bytes spec.SrcText model.SrcTextParse.
Open Scope N_scope.

Lemma ascii_ws_code_ws b : ascii_ws b = true -> code_ws b = true.
Proof. unfold code_ws; intros ->; reflexivity. Qed.

Lemma code_ws_cases b : code_ws b = true -> ascii_ws b = true \/ b = x85 \/ b = xa0.
Proof.
  unfold code_ws; intros H. apply orb_prop in H as [H|H]; [apply orb_prop in H as [H|H]|].
  - left; exact H.
  - right; left; apply byte_eqb_eq; exact H.
  - right; right; apply byte_eqb_eq; exact H.
Qed.

(* under the guard the two leading runs are the same *)
Lemma span_agree T : no_byte_space_lead T = true -> span code_ws T = span ascii_ws T.
Proof.
  induction T as [|b T IH]; [reflexivity|].
  unfold no_byte_space_lead. cbn [span].
  destruct (ascii_ws b) eqn:Ea.
  - rewrite (ascii_ws_code_ws b Ea).
    destruct (span ascii_ws T) as [w r] eqn:Es. cbn [snd]. intros H.
    assert (IH' : span code_ws T = (w, r)).
    { apply IH. unfold no_byte_space_lead. rewrite Es. exact H. }
    rewrite IH'. reflexivity.
  - cbn [snd]. intros H. apply negb_true_iff in H.
    destruct (code_ws b) eqn:Ec; [|reflexivity].
    apply code_ws_cases in Ec as [Ec|[->| ->]]; [congruence| |]; vm_compute in H; discriminate.
Qed.

Lemma text_code_unfold T : text_code T = snd (span code_ws T).
Proof.
  unfold text_code, parse_content. destruct (span code_ws T) as [w r].
  destruct w, r; cbn; rewrite ?app_nil_r; reflexivity.
Qed.

Lemma text_agree T : no_byte_space_lead T = true -> text_code T = text_spec T.
Proof. intros H. rewrite text_code_unfold, (span_agree T H). reflexivity. Qed.

Lemma doc_agree T : in_frag T = true -> no_byte_space_lead T = true -> doc_code T = doc_spec T.
Proof. intros _ H. unfold doc_code, doc_spec. rewrite (text_agree T H). reflexivity. Qed.

(* the converse: on the fragment, where the guard fails the two documents DIFFER (the guard is exact, not merely sufficient) *)
Lemma span_ascii_prefix T : forall w r, span ascii_ws T = (w, r) ->
  exists w', span code_ws T = (w ++ w', snd (span code_ws r)) /\ span code_ws r = (w', snd (span code_ws r)).
Proof.
  induction T as [|b T IH]; intros w r E.
  - cbn [span] in E. inversion E; subst. exists []. split; reflexivity.
  - cbn [span] in E. destruct (ascii_ws b) eqn:Ea.
    + destruct (span ascii_ws T) as [w0 r0] eqn:Es. inversion E; subst.
      destruct (IH w0 r eq_refl) as [w' [H1 H2]]. exists w'. cbn [span]. rewrite (ascii_ws_code_ws b Ea), H1.
      split; [reflexivity|exact H2].
    + inversion E; subst. cbn [app]. exists (fst (span code_ws (b :: T))).
      split; destruct (span code_ws (b :: T)); reflexivity.
Qed.

Lemma span_snd_length f r : (length (snd (span f r)) <= length r)%nat.
Proof.
  induction r as [|c r IH]; cbn [span]; [cbn; lia|].
  destruct (f c); [|cbn; lia]. destruct (span f r) as [w2 r2]. cbn [snd length] in *. lia.
Qed.

Lemma text_differs T : in_frag T = true -> no_byte_space_lead T = false -> text_code T <> text_spec T.
Proof.
  intros _ H. unfold no_byte_space_lead in H. rewrite text_code_unfold. unfold text_spec.
  destruct (span ascii_ws T) as [w r] eqn:Es. cbn [snd] in H.
  destruct r as [|b r]; [discriminate|]. apply negb_false_iff in H.
  destruct (span_ascii_prefix T w (b :: r) Es) as [w' [H1 _]]. rewrite H1. cbn [snd].
  assert (Hc : code_ws b = true).
  { unfold code_ws. apply orb_prop in H as [H|H]; rewrite H; rewrite ?orb_true_r; reflexivity. }
  pose proof (span_snd_length code_ws r) as Hl.
  cbn [span]. rewrite Hc. destruct (span code_ws r) as [w1 r1]. cbn [snd] in *.
  intros E. apply (f_equal (@length byte)) in E. cbn [length] in E. lia.
Qed.

Lemma doc_differs T : in_frag T = true -> no_byte_space_lead T = false -> doc_code T <> doc_spec T.
Proof.
  intros Hf Hg E. apply (text_differs T Hf Hg).
  unfold doc_code, doc_spec in E. apply app_inv_head in E. apply app_inv_tail in E. exact E.
Qed.

Lemma doc_exact T : in_frag T = true -> (doc_code T = doc_spec T <-> no_byte_space_lead T = true).
Proof.
  intros Hf. split.
  - intros E. destruct (no_byte_space_lead T) eqn:G; [reflexivity|]. exfalso. exact (doc_differs T Hf G E).
  - apply doc_agree; exact Hf.
Qed.

(* the witness of the finding: <p>\x85and so on</p> *)
Definition wit : bytes := x85 :: bs "And so on".
Lemma srctext_refuted : in_frag wit = true /\ doc_spec wit = bs "<p>" ++ [x85] ++ bs "And so on</p>" /\ doc_code wit = bs "<p>And so on</p>".
Proof. vm_compute. repeat split. Qed.

(* the guarded statement is not vacuous: a Latin-1 line with leading blanks *)
Lemma srctext_nonvacuous : let T := bs "  " ++ [xc9] ++ bs "t" ++ [xe9; x85; xa0] ++ bs " 2024 " in
  in_frag T = true /\ no_byte_space_lead T = true /\ doc_code T = bs "<p>" ++ [xc9] ++ bs "t" ++ [xe9; x85; xa0] ++ bs " 2024 </p>".
Proof. vm_compute. repeat split. Qed.

(* ---- several lines ---- *)
Lemma text_code_le T : (length (text_code T) <= length (text_spec T))%nat.
Proof.
  rewrite text_code_unfold. unfold text_spec. destruct (span ascii_ws T) as [w r] eqn:Es.
  destruct (span_ascii_prefix T w r Es) as [w' [H1 _]]. rewrite H1. cbn [snd]. apply span_snd_length.
Qed.

Lemma text_code_lt T : in_frag T = true -> no_byte_space_lead T = false -> (length (text_code T) < length (text_spec T))%nat.
Proof.
  intros Hf Hg. pose proof (text_code_le T) as Hle. pose proof (text_differs T Hf Hg) as Hd.
  (* text_code T is what is left of text_spec T after a further run: equal length would make them equal *)
  rewrite text_code_unfold in *. unfold text_spec in *. destruct (span ascii_ws T) as [w r] eqn:Es.
  destruct (span_ascii_prefix T w r Es) as [w' [H1 _]]. rewrite H1 in *. cbn [snd] in *.
  assert (Hx : forall s, length (snd (span code_ws s)) = length s -> snd (span code_ws s) = s).
  { clear. intros s. destruct s as [|c s]; [reflexivity|]. cbn [span]. destruct (code_ws c); [|reflexivity].
    pose proof (span_snd_length code_ws s) as Hl. destruct (span code_ws s) as [w2 r2]. cbn [snd length] in *. lia. }
  destruct (Nat.eq_dec (length (snd (span code_ws r))) (length r)) as [E|E]; [exfalso; apply Hd, Hx, E|lia].
Qed.

Lemma join_sp_length_le (f g : bytes -> bytes) Ls : (forall L, length (f L) <= length (g L))%nat ->
  (length (join_sp (map f Ls)) <= length (join_sp (map g Ls)))%nat.
Proof.
  intros H. induction Ls as [|L Ls IH]; [cbn; lia|].
  cbn [map join_sp]. destruct Ls as [|L2 Ls]; [apply H|].
  cbn [map] in *. rewrite !app_length. specialize (H L). cbn [length] in *. lia.
Qed.

Lemma join_sp_length_lt (f g : bytes -> bytes) Ls : (forall L, length (f L) <= length (g L))%nat ->
  (exists L, In L Ls /\ length (f L) < length (g L))%nat ->
  (length (join_sp (map f Ls)) < length (join_sp (map g Ls)))%nat.
Proof.
  intros H [B [Hin Hlt]]. induction Ls as [|L Ls IH]; [destruct Hin|].
  cbn [map join_sp]. destruct Ls as [|L2 Ls].
  - destruct Hin as [->|[]]. exact Hlt.
  - pose proof (join_sp_length_le f g (L2 :: Ls) H) as Hle. cbn [map] in *. rewrite !app_length. cbn [length].
    destruct Hin as [->|Hin].
    + lia.
    + specialize (IH Hin). specialize (H L). lia.
Qed.

Lemma lines_agree Ls : (forall L, In L Ls -> no_byte_space_lead L = true) -> doc_code_lines Ls = doc_spec_lines Ls.
Proof.
  intros H. unfold doc_code_lines, doc_spec_lines, lines_code, lines_spec. do 2 f_equal.
  f_equal. apply map_ext_in. intros L Hin. apply text_agree, H, Hin.
Qed.

Lemma lines_exact Ls : (forall L, In L Ls -> in_frag L = true) ->
  (doc_code_lines Ls = doc_spec_lines Ls <-> forall L, In L Ls -> no_byte_space_lead L = true).
Proof.
  intros Hf. split; [|apply lines_agree].
  intros E L Hin. destruct (no_byte_space_lead L) eqn:G; [reflexivity|exfalso].
  unfold doc_code_lines, doc_spec_lines, lines_code, lines_spec in E.
  apply app_inv_head in E. apply app_inv_tail in E.
  pose proof (join_sp_length_lt text_code text_spec Ls text_code_le
                (ex_intro _ L (conj Hin (text_code_lt L (Hf L Hin) G)))) as Hlt.
  rewrite E in Hlt. lia.
Qed.

Lemma srctext_lines_witness : let Ls := [bs "  A la carte  "; [x09; xa0] ++ bs "5 EUR"; bs "Fin"] in
  forallb in_frag Ls = true /\ doc_spec_lines Ls = bs "<p>A la carte   " ++ [xa0] ++ bs "5 EUR Fin</p>" /\ doc_code_lines Ls = bs "<p>A la carte   5 EUR Fin</p>".
Proof. vm_compute. repeat split. Qed.

Lemma ctx_lines_exact pre post Ls : (forall L, In L Ls -> in_frag L = true) ->
  (ctx_code_lines pre post Ls = ctx_spec_lines pre post Ls <-> forall L, In L Ls -> no_byte_space_lead L = true).
Proof.
  intros Hf. rewrite <- (lines_exact Ls Hf). unfold ctx_code_lines, ctx_spec_lines, doc_code_lines, doc_spec_lines. split; intros E.
  - apply app_inv_head in E. apply app_inv_tail in E. rewrite E. reflexivity.
  - apply app_inv_head in E. apply app_inv_tail in E. rewrite E. reflexivity.
Qed.
