(* C13: the children slot is empty between statements, for ALL programs, environments and fuels;
   hence a call without a block gives its callee no children and a call with a block gives exactly that block. *)
From Coq.Strings Require Import Byte String.
From Coq Require Import List Arith NArith Bool Lia.
Import ListNotations.
From V Require Import lib.Bytes lib.Sexp model.Ast model.Url spec.Denote.
Local Open Scope nat_scope.

Lemma slot_emit s x : slot (emit s x) = slot x.
Proof. unfold emit. destruct (failed x); reflexivity. Qed.
Lemma slot_fail_at e x : slot (fail_at e x) = slot x.
Proof. unfold fail_at. destruct (failed x); reflexivity. Qed.
Lemma slot_fail0 x : slot (fail0 x) = slot x.
Proof. unfold fail0. destruct (failed x); reflexivity. Qed.
Lemma slot_mark k x : slot (mark_once k x) = slot x.
Proof. reflexivity. Qed.
Lemma slot_set b x : slot (set_slot b x) = b.
Proof. reflexivity. Qed.

Ltac slot_simpl := repeat (rewrite ?slot_emit, ?slot_fail_at, ?slot_fail0, ?slot_mark, ?slot_set).

Lemma slot_fold_attr (F : st -> attr -> st) (l : list attr) :
  (forall a x, slot (F x a) = slot x) -> forall x, slot (fold_left F l x) = slot x.
Proof. intros H. induction l as [|a l IH]; intros x; [reflexivity|]. cbn [fold_left]. rewrite IH. apply H. Qed.

Lemma slot_attr fuel : forall elem e a x, slot (render_attr fuel elem e a x) = slot x.
Proof.
  induction fuel as [|f IH]; intros elem e a x; cbn [render_attr]; [apply slot_fail0|].
  destruct a as [n|n v|n ex|n ex|ex|ex th el].
  - apply slot_emit.
  - apply slot_emit.
  - destruct (lookup e (e_val ex)) as [[| |[]| |]|]; slot_simpl; reflexivity.
  - destruct (url_sink elem n).
    { destruct (lookup e (e_val ex)) as [[| | | |]|]; slot_simpl; reflexivity. }
    destruct (script_attr n); [apply slot_fail0|].
    destruct (beq n (bs "style")).
    { destruct (lookup e (pre "style:" (e_val ex))) as [[| | | |]|]; slot_simpl; reflexivity. }
    destruct (beq (hesc n) (bs "class")).
    { destruct (lookup e (pre "class:" (e_val ex))) as [[| | | |]|]; slot_simpl; reflexivity. }
    destruct (lookup e (e_val ex)) as [[| | | |]|]; slot_simpl; reflexivity.
  - destruct (lookup e (pre "spread:" (e_val ex))) as [[| | | |]|]; slot_simpl; reflexivity.
  - destruct (lookup e (e_val ex)) as [[| |[]| |]|]; try apply slot_fail0;
      apply slot_fold_attr; intros; apply IH.
Qed.
Lemma slot_attrs elem e l x : slot (render_attrs elem e l x) = slot x.
Proof. unfold render_attrs. apply slot_fold_attr. intros. apply slot_attr. Qed.
Lemma slot_open_tag name e attrs x : slot (open_tag name e attrs x) = slot x.
Proof. unfold open_tag. rewrite slot_emit, slot_attrs, slot_emit. reflexivity. Qed.
Lemma slot_spart e p x : slot (render_spart e p x) = slot x.
Proof.
  destruct p as [v|ex tr inside]; cbn [render_spart]; [apply slot_emit|].
  destruct (lookup e _) as [[| | | |]|]; slot_simpl; reflexivity.
Qed.
Lemma slot_sparts e l : forall x, slot (fold_left (fun x p => render_spart e p x) l x) = slot x.
Proof. induction l as [|p l IH]; intros x; [reflexivity|]. cbn [fold_left]. rewrite IH. apply slot_spart. Qed.

Section Inv.
Variable templates : list (bytes * list node).

Section Step.
Variable R : rfun.
Hypothesis R_inv : forall e kids n next x, slot x = None -> slot (R e kids n next x) = None.

Lemma nodes_inv l : forall e kids next x, slot x = None -> slot (nodes_with R e kids l next x) = None.
Proof. induction l as [|c r IH]; intros e kids next x Hx; [exact Hx|]. cbn [nodes_with]. apply IH. apply R_inv. exact Hx. Qed.
Lemma block_inv b x : slot x = None -> slot (render_block_with R b x) = None.
Proof. intros Hx. destruct b as [[body cap k]|]; [|exact Hx]. cbn. apply nodes_inv. exact Hx. Qed.

(* whatever the slot holds when a component starts, it is empty while the component's own output is produced
   and the component ends with the slot it was given (Once/Flush) or with an empty slot (everything else) *)
Lemma comp_inv_none e c x : slot x = None -> slot (render_comp_with templates R e c x) = None.
Proof.
  intros Hx. destruct c; cbn [render_comp_with].
  - destruct (find_templ templates name); [|rewrite slot_fail0; exact Hx]. apply nodes_inv. reflexivity.
  - rewrite slot_emit. apply block_inv. reflexivity.
  - rewrite slot_emit. exact Hx.
  - rewrite slot_emit. exact Hx.
  - destruct (existsb _ _); [exact Hx|]. unfold render_children_restoring. rewrite slot_set, slot_mark. exact Hx.
  - unfold render_children_restoring. rewrite slot_set. exact Hx.
  - exact Hx.
  - rewrite slot_fail0. exact Hx.
  - revert x Hx. induction args as [|a args IHa]; intros x Hx; [exact Hx|]. cbn [fold_left]. apply IHa. apply R_inv. exact Hx.
  - reflexivity.
  - rewrite slot_set. exact Hx.
Qed.

Lemma chain_inv e kids next el l : forall x, slot x = None -> slot (chain_with R e kids next el l x) = None.
Proof.
  induction l as [|[ce cb] r IH]; intros x Hx; cbn [chain_with]; [apply nodes_inv; exact Hx|].
  destruct (lookup e (e_val ce)) as [[| |[]| |]|]; try (rewrite slot_fail0; exact Hx).
  - apply nodes_inv; exact Hx.
  - apply IH; exact Hx.
Qed.
End Step.

Theorem slot_empty_between_statements fuel : forall e kids n next x,
  slot x = None -> slot (render_node templates fuel e kids n next x) = None.
Proof.
  induction fuel as [|f IH]; intros e kids n next x Hx; cbn [render_node]; [rewrite slot_fail0; exact Hx|].
  destruct (failed x); [exact Hx|].
  assert (T : forall y, slot y = None ->
     slot (match trail_of n with Some SpNone | None => y | Some _ => if inline_or_text (Some n) && inline_or_text next then emit [x20] y else y end) = None).
  { intros y Hy. destruct (trail_of n) as [[| |]|]; try exact Hy; destruct (_ && _); rewrite ?slot_emit; exact Hy. }
  apply T. clear T.
  destruct n as [v|v|v t|name attrs ch t|name attrs c|attrs parts| |c|ex|ex ch| |ex th elifs el|ex cases|ex body|ex|ex t].
  - destruct v; rewrite ?slot_emit; exact Hx.
  - rewrite slot_emit; exact Hx.
  - rewrite slot_emit; exact Hx.
  - destruct (void_name name && _).
    + rewrite slot_open_tag. exact Hx.
    + rewrite slot_emit. apply (nodes_inv (render_node templates f) IH). rewrite slot_open_tag. exact Hx.
  - rewrite !slot_emit, slot_open_tag. exact Hx.
  - rewrite slot_emit, slot_sparts, slot_open_tag. exact Hx.
  - exact Hx.
  - rewrite slot_emit; exact Hx.
  - apply (comp_inv_none (render_node templates f) IH). exact Hx.
  - destruct ch; [apply (comp_inv_none (render_node templates f) IH); exact Hx|reflexivity].
  - apply (block_inv (render_node templates f) IH). exact Hx.
  - destruct (lookup e (e_val ex)) as [[| |[]| |]|]; try (rewrite slot_fail0; exact Hx).
    + apply (nodes_inv (render_node templates f) IH). exact Hx.
    + apply (chain_inv (render_node templates f) IH). exact Hx.
  - destruct (lookup e _) as [[| | |i|]|]; try (rewrite slot_fail0; exact Hx).
    destruct (nth_error cases i) as [[ce body]|]; [|exact Hx]. apply (nodes_inv (render_node templates f) IH). exact Hx.
  - destruct (lookup e (e_val ex)) as [[| | | |its]|]; try (rewrite slot_fail0; exact Hx).
    revert x Hx. induction its as [|bd its IHi]; intros x Hx; [exact Hx|]. cbn [fold_left]. apply IHi.
    apply (nodes_inv (render_node templates f) IH). exact Hx.
  - exact Hx.
  - destruct (forallb blank (e_val ex)); [exact Hx|]. destruct (lookup e (e_val ex)) as [[| | | |]|]; slot_simpl; exact Hx.
Qed.

(* a whole template body rendered from an empty slot leaves it empty *)
Corollary body_slot_empty fuel e kids l next x :
  slot x = None -> slot (nodes_with (render_node templates fuel) e kids l next x) = None.
Proof. apply nodes_inv. intros. apply slot_empty_between_statements. assumption. Qed.

(* a call WITHOUT a block: the callee runs with no children (whatever ran before it) *)
Theorem no_block_no_children f e kids ex name body next x :
  slot x = None -> failed x = None -> comp_of (e_val ex) = CTempl name -> find_templ templates name = Some body ->
  render_node templates (S f) e kids (NCall ex []) next x =
  nodes_with (render_node templates f) (restrict e) None (strip_ws body) None (set_slot None x).
Proof. intros Hx Hf Hc F. cbn [render_node]. rewrite Hf. cbn [trail_of]. rewrite Hc. cbn [render_comp_with]. rewrite F, Hx. reflexivity. Qed.
Theorem no_block_no_children_legacy f e kids ex name body next x :
  slot x = None -> failed x = None -> comp_of (e_val ex) = CTempl name -> find_templ templates name = Some body ->
  render_node templates (S f) e kids (NCallT ex) next x =
  nodes_with (render_node templates f) (restrict e) None (strip_ws body) None (set_slot None x).
Proof. intros Hx Hf Hc F. cbn [render_node]. rewrite Hf. cbn [trail_of]. rewrite Hc. cbn [render_comp_with]. rewrite F, Hx. reflexivity. Qed.

(* the legacy call expression {! x } means exactly what @x without a block means, for EVERY callee expression
   (generated, hand-written, Once/Flush, Join, ...) and in every state - also one whose slot is not empty *)
Theorem legacy_call_is_blockless_call fuel e kids ex next x :
  render_node templates fuel e kids (NCallT ex) next x = render_node templates fuel e kids (NCall ex []) next x.
Proof. destruct fuel as [|f]; reflexivity. Qed.

(* a call WITH a block: the callee's children are exactly that block, closed over the caller's environment and the
   caller's own children; afterwards the slot is empty again, so nothing later can see the block *)
Theorem block_is_exactly_that_block f e kids ex c ch name body next x :
  failed x = None -> comp_of (e_val ex) = CTempl name -> find_templ templates name = Some body ->
  render_node templates (S f) e kids (NCall ex (c :: ch)) next x =
  set_slot None (nodes_with (render_node templates f) (restrict e) (Some (Blk (c :: ch) e kids)) (strip_ws body) None
                   (set_slot None (set_slot (Some (Blk (c :: ch) e kids)) x))).
Proof. intros Hf Hc F. cbn [render_node]. rewrite Hf. cbn [trail_of]. rewrite Hc. cbn [render_comp_with]. rewrite F. reflexivity. Qed.

(* inside a Once or Flush block the slot is empty: a block-less call there gets no children *)
Theorem once_flush_children_see_empty_slot R x :
  slot (set_slot None x) = None /\
  render_children_restoring R x = set_slot (slot x) (render_block_with R (slot x) (set_slot None x)).
Proof. split; reflexivity. Qed.
End Inv.
