(* C02 proofs over the WHOLE generator model (model/Gen.v): the variable counter.
   vid only increases; the only steps are "+1" in with_var (and the inlined copy in css_attrs), whose continuation
   receives the name of the NEW counter value; names of different numbers are different byte strings.  So every
   with_var hands out a name no earlier with_var of the run has handed out. *)
From Coq.Strings Require Import Byte String.
From Coq Require Import List Arith NArith Bool Lia.
Import ListNotations.
From V Require Import lib.Bytes lib.Sexp model.Ast model.Url model.Gen.
From V Require Import proofs.GenAddsProof.
Local Open Scope nat_scope.

(* the variable name of number v: templ_7745c5c3_Var<v> *)
Definition vname (v : nat) : bytes := bs (P ++ "Var") ++ decn v.

(* ================= decimal numerals ================= *)
Definition dig (k : nat) : byte := match Byte.of_nat (48 + k) with Some b => b | None => x30 end.
Definition is_dig (b : byte) : bool := (48 <=? Byte.to_nat b) && (Byte.to_nat b <=? 57).
Definition dval (acc : nat) (s : bytes) : nat := fold_left (fun a b => a * 10 + (Byte.to_nat b - 48)) s acc.

Lemma dig_ok k : k < 10 -> Byte.to_nat (dig k) - 48 = k /\ is_dig (dig k) = true.
Proof. intros H. do 10 (destruct k as [|k]; [split; vm_compute; reflexivity|]). lia. Qed.
Lemma dec_aux_eq f n acc : dec_aux (S f) n acc = if n <? 10 then dig (n mod 10) :: acc else dec_aux f (n / 10) (dig (n mod 10) :: acc).
Proof. reflexivity. Qed.
Lemma dec_aux_app : forall f n acc, dec_aux f n acc = dec_aux f n [] ++ acc.
Proof.
  induction f as [|f IH]; intros n acc; [reflexivity|]. rewrite !dec_aux_eq. destruct (n <? 10); [reflexivity|].
  rewrite (IH _ (_ :: acc)), (IH _ [_]), <- app_assoc. reflexivity.
Qed.
Lemma dval_app a s t : dval a (s ++ t) = dval (dval a s) t.
Proof. unfold dval. apply fold_left_app. Qed.
Lemma dec_aux_val : forall f n, n < f -> dval 0 (dec_aux f n []) = n /\ forallb is_dig (dec_aux f n []) = true.
Proof.
  induction f as [|f IH]; intros n H; [lia|]. rewrite dec_aux_eq.
  assert (Hm : n mod 10 < 10) by (apply Nat.mod_upper_bound; lia). destruct (dig_ok _ Hm) as [D1 D2].
  destruct (n <? 10) eqn:E.
  - apply Nat.ltb_lt in E. cbn [dval fold_left forallb]. rewrite D1, D2, Nat.mod_small by lia. split; reflexivity.
  - apply Nat.ltb_ge in E. rewrite dec_aux_app.
    assert (Hd : n / 10 < f) by (pose proof (Nat.div_lt n 10); lia).
    destruct (IH _ Hd) as [V1 V2]. rewrite dval_app, V1, forallb_app, V2. cbn [dval fold_left forallb]. rewrite D1, D2.
    split; [|reflexivity]. pose proof (Nat.div_mod n 10). lia.
Qed.
Lemma decn_val n : dval 0 (decn n) = n.
Proof. apply dec_aux_val. lia. Qed.
Lemma decn_digits n : forallb is_dig (decn n) = true.
Proof. apply dec_aux_val. lia. Qed.
Lemma decn_inj a b : decn a = decn b -> a = b.
Proof. intros H. rewrite <- (decn_val a), <- (decn_val b), H. reflexivity. Qed.
Lemma vname_inj a b : vname a = vname b -> a = b.
Proof. unfold vname. intros H. apply app_inv_head in H. apply decn_inj. exact H. Qed.

(* ================= the counter ================= *)
Definition mono (m : M) : Prop := forall g, vid g <= vid (m g).

Lemma mono_skip : mono skip.
Proof. intros g. apply le_n. Qed.
Lemma mono_seq a b : mono a -> mono b -> mono (a ;; b).
Proof. intros Ha Hb g. unfold seq. etransitivity; [apply Ha|apply Hb]. Qed.
Lemma mono_seqs l : Forall mono l -> mono (seqs l).
Proof. induction 1; cbn [seqs fold_right]; [apply mono_skip|apply mono_seq; assumption]. Qed.
Lemma mono_seqs_map {A} (f : A -> M) l : (forall x, mono (f x)) -> mono (seqs (map f l)).
Proof. intros H. apply mono_seqs. apply Forall_forall. intros m Hm. apply in_map_iff in Hm. destruct Hm as (x & <- & _). apply H. Qed.
(* the operations that are not with_var keep the counter *)
Lemma vid_upd f g : vid (upd f g) = vid g. Proof. reflexivity. Qed.
Lemma vid_wre e g : vid (wre e g) = vid g. Proof. reflexivity. Qed.
Lemma vid_wie lvl e s g : vid (wie lvl e s g) = vid g. Proof. reflexivity. Qed.
Lemma vid_add_map e p g : vid (add_map e p g) = vid g. Proof. reflexivity. Qed.
Lemma vid_set_cvar c g : vid (set_cvar c g) = vid g. Proof. reflexivity. Qed.
Lemma mono_upd f : mono (upd f).
Proof. intros g. apply le_n. Qed.
Lemma mono_wre e : mono (wre e).
Proof. intros g. apply le_n. Qed.
Lemma mono_wre_nz e : mono (wre_nz e).
Proof. unfold wre_nz. destruct (zero_range e); [apply mono_upd|apply mono_wre]. Qed.
Lemma mono_wie lvl e s : mono (wie lvl e s).
Proof. intros g. apply le_n. Qed.
(* with_var: the continuation runs with the counter at the new number and receives that number's name *)
Lemma with_var_next k g : with_var k g = k (vname (S (vid g))) (set_vid (S (vid g)) g) /\ vid (set_vid (S (vid g)) g) = S (vid g).
Proof. split; reflexivity. Qed.
Lemma with_var_strict k : (forall v, mono (k v)) -> forall g, vid g < vid (with_var k g).
Proof. intros H g. unfold with_var. pose proof (H (bs (P ++ "Var") ++ decn (S (vid g))) (set_vid (S (vid g)) g)) as X. cbn [set_vid vid] in X. lia. Qed.
Lemma mono_with_var k : (forall v, mono (k v)) -> mono (with_var k).
Proof. intros H g. pose proof (with_var_strict k H g). lia. Qed.

Ltac by_mono := match goal with |- vid ?g <= vid (?m ?g) => cut (mono m); [let G := fresh "G" in intros G; apply G|] end.
Ltac mn_hook := fail.
Ltac mn1 :=
  lazymatch goal with
  | |- mono skip => apply mono_skip
  | |- mono (seq _ _) => apply mono_seq
  | |- mono (wi _ _) => apply mono_upd
  | |- mono (wr _) => apply mono_upd
  | |- mono (wl _) => apply mono_upd
  | |- mono (wis _ _) => apply mono_upd
  | |- mono (wrs _) => apply mono_upd
  | |- mono (wls _) => apply mono_upd
  | |- mono nl => apply mono_upd
  | |- mono (text _) => apply mono_upd
  | |- mono (wre _) => apply mono_wre
  | |- mono (wre_nz _) => apply mono_wre_nz
  | |- mono (wie _ _ _) => apply mono_wie
  | |- mono (with_var _) => apply mono_with_var; intro
  | |- mono (seqs (map _ _)) => apply mono_seqs_map; intro
  | |- mono (match ?x with _ => _ end) => destruct x
  | |- mono ((fun _ => _) _) => cbv beta
  | |- _ => first [ assumption | mn_hook ]
  end.
Ltac mn := repeat mn1.

Lemma mono_err_handler lvl : mono (err_handler lvl).
Proof. unfold err_handler. mn. Qed.
Ltac mn_hook ::= lazymatch goal with |- mono (err_handler _) => apply mono_err_handler end.
Lemma mono_expr_err_handler lvl e : mono (expr_err_handler lvl e).
Proof. intros g. unfold expr_err_handler. by_mono. mn. Qed.
Lemma mono_plain_write lvl vn : mono (plain_write lvl vn).
Proof. unfold plain_write. mn. Qed.
Ltac mn_hook ::=
  lazymatch goal with
  | |- mono (err_handler _) => apply mono_err_handler
  | |- mono (expr_err_handler _ _) => apply mono_expr_err_handler
  | |- mono (plain_write _ _) => apply mono_plain_write
  end.
Lemma mono_attr_value lvl elem n e : mono (attr_value lvl elem n e).
Proof. unfold attr_value. mn. Qed.
Ltac mn_hook ::=
  lazymatch goal with
  | |- mono (err_handler _) => apply mono_err_handler
  | |- mono (expr_err_handler _ _) => apply mono_expr_err_handler
  | |- mono (plain_write _ _) => apply mono_plain_write
  | |- mono (attr_value _ _ _ _) => apply mono_attr_value
  | IH : forall _ _ _, mono (write_attrs _ _ _ _) |- mono (write_attrs _ _ _ _) => apply IH
  end.
Lemma mono_write_attrs : forall f lvl elem l, mono (write_attrs f lvl elem l).
Proof. induction f as [|f IH]; intros lvl elem l; cbn [write_attrs]; [apply mono_skip|]. mn. Qed.

Lemma css_attrs_mono : forall f lvl l g, vid g <= vid (snd (css_attrs f lvl l g)).
Proof.
  induction f as [|f IH]; intros lvl l g; [apply le_n|].
  destruct l as [|a r]; [apply le_n|]. cbn [css_attrs].
  match goal with |- _ <= vid (snd (let '(a', g0) := ?X in _)) => assert (HX : vid g <= vid (snd X)); [|destruct X as [a' g1]; cbn [snd] in HX] end.
  - destruct a; try apply le_n.
    + destruct (beq (hesc n) (bs "class")); [|apply le_n]. cbn [snd].
      match goal with |- _ <= vid (?m ?g0) => assert (G : mono m) by mn; pose proof (G g0) as X end.
      cbn [set_vid vid] in X. lia.
    + pose proof (IH lvl th g) as H1. destruct (css_attrs f lvl th g) as [th' g1]. cbn [snd] in H1.
      pose proof (IH lvl el g1) as H2. destruct (css_attrs f lvl el g1) as [el' g2]. cbn [snd] in *. lia.
  - pose proof (IH lvl r g1) as H1. destruct (css_attrs f lvl r g1) as [r' g2]. cbn [snd] in *. lia.
Qed.
Lemma mono_css n lvl l (k : list attr -> M) : (forall a, mono (k a)) ->
  mono (fun g => let '(a', g0) := css_attrs n lvl l g in k a' g0).
Proof.
  intros H g. pose proof (css_attrs_mono n lvl l g) as H1. destruct (css_attrs n lvl l g) as [a' g0]. cbn [snd] in H1.
  pose proof (H a' g0). lia.
Qed.
Lemma mono_element_script lvl l : mono (element_script lvl l).
Proof. unfold element_script. mn. Qed.
Lemma mono_string_expr lvl e : mono (string_expr lvl e).
Proof. unfold string_expr. mn. Qed.
Lemma mono_call_plain lvl e : mono (call_plain lvl e).
Proof. unfold call_plain. mn. Qed.
Lemma mono_templ_buffer lvl : mono (templ_buffer lvl).
Proof. unfold templ_buffer. mn. Qed.
Lemma mono_script_part lvl p : mono (script_part lvl p).
Proof. unfold script_part. mn. Qed.
Ltac mn_hook ::=
  lazymatch goal with
  | |- mono (err_handler _) => apply mono_err_handler
  | |- mono (expr_err_handler _ _) => apply mono_expr_err_handler
  | |- mono (plain_write _ _) => apply mono_plain_write
  | |- mono (attr_value _ _ _ _) => apply mono_attr_value
  | |- mono (write_attrs _ _ _ _) => apply mono_write_attrs
  | |- mono (element_script _ _) => apply mono_element_script
  | |- mono (string_expr _ _) => apply mono_string_expr
  | |- mono (call_plain _ _) => apply mono_call_plain
  | |- mono (templ_buffer _) => apply mono_templ_buffer
  | |- mono (script_part _ _) => apply mono_script_part
  | |- mono (fun g => let '(_, _) := css_attrs _ _ _ g in _) => apply mono_css; intro
  | |- mono (fun g => _ g) => let g := fresh "g" in intros g; cbv beta; by_mono
  | IH : forall _ _ _, mono (write_node _ _ _ _) |- mono (write_node _ _ _ _) => apply IH
  | NA : forall _ _ _, mono _ |- mono ((fix wn (l : list node) (next : option node) {struct l} : M := _) _ _) => apply NA
  end.
Lemma mono_write_node : forall f lvl n next, mono (write_node f lvl n next).
Proof.
  induction f as [|f IH]; intros lvl n next; [apply mono_skip|].
  assert (NA : forall lvl' l nx, mono ((fix wn (l : list node) (next : option node) {struct l} : M :=
              match l with
              | [] => skip
              | c :: r => write_node f lvl' c (match r with x :: _ => Some x | [] => next end) ;; wn r next
              end) l nx)).
  { intros lvl'. induction l as [|c r IHl]; intros nx; [apply mono_skip|]. apply mono_seq; [apply IH|apply IHl]. }
  destruct n; cbn [write_node].
  all: mn.
Qed.
Lemma mono_write_nodes f lvl : forall l next, mono (write_nodes f lvl l next).
Proof. induction l as [|c r IH]; intros next; cbn [write_nodes]; [apply mono_skip|]. apply mono_seq; [apply mono_write_node|apply IH]. Qed.
Ltac mn_hook ::=
  lazymatch goal with
  | |- mono (err_handler _) => apply mono_err_handler
  | |- mono (templ_buffer _) => apply mono_templ_buffer
  | |- mono (write_nodes _ _ _ _) => apply mono_write_nodes
  end.
Lemma mono_after_cvar m c : mono m -> mono (fun g => m (set_cvar c g)).
Proof. intros H g. apply (H (set_cvar c g)). Qed.
Lemma mono_write_template last e ch : mono (write_template last e ch).
Proof. unfold write_template. mn. apply mono_after_cvar. mn. Qed.
Lemma mono_go_block e : mono (go_block e).
Proof. unfold go_block. mn. Qed.
Lemma mono_write_css e name props : mono (write_css e name props).
Proof. unfold write_css. mn. Qed.
Lemma mono_write_script name params value fn : mono (write_script name params value fn).
Proof. unfold write_script. cbv zeta. mn. Qed.
Lemma mono_write_fnodes : forall l, mono (write_fnodes l).
Proof.
  induction l as [|n r IH]; cbn [write_fnodes]; [apply mono_skip|]. apply mono_seq; [|exact IH].
  destruct n; [apply mono_go_block|apply mono_write_template|apply mono_write_css|apply mono_write_script].
Qed.
Ltac mn_hook ::=
  lazymatch goal with
  | |- mono (write_fnodes _) => apply mono_write_fnodes
  | |- mono (go_block _) => apply mono_go_block
  | |- mono (wpk _ _) => let g := fresh "g" in intros g; unfold wpk; destruct (zero_range _); apply le_n
  end.
Lemma mono_gen_all f : mono (gen_all f).
Proof. unfold gen_all. mn. Qed.

Ltac mn_hook ::=
  lazymatch goal with
  | |- mono (err_handler _) => apply mono_err_handler
  | |- mono (templ_buffer _) => apply mono_templ_buffer
  | |- mono (write_nodes _ _ _ _) => apply mono_write_nodes
  end.
(* the template: its children variable is a new number *)
Definition strict (m : M) : Prop := forall g, vid g < vid (m g).
Lemma strict_seq_l a b : mono a -> strict b -> strict (a ;; b).
Proof. intros Ha Hb g. unfold seq. pose proof (Ha g). pose proof (Hb (a g)). lia. Qed.
Lemma strict_seq_r a b : strict a -> mono b -> strict (a ;; b).
Proof. intros Ha Hb g. unfold seq. pose proof (Ha g). pose proof (Hb (a g)). lia. Qed.
Lemma write_template_strict last e ch : strict (write_template last e ch).
Proof.
  unfold write_template. do 16 (apply strict_seq_l; [mn|]). apply strict_seq_r; [|mn].
  intros g. apply with_var_strict. intro. apply mono_after_cvar. mn.
Qed.

(* fresh_vars, whole generator: from any state the counter only goes up; from the initial state every number
   handed out is at least 1 *)
Theorem vid_monotone f g : vid g <= vid (gen_all f g).
Proof. apply mono_gen_all. Qed.
