(* C06 proofs: position arithmetic of parse.Input, range constructors of parser/v2, extract clamping,
   loop termination schema. *)
From Coq.Strings Require Import Byte String.
From Coq Require Import List Arith ZArith Bool Lia.
Import ListNotations.
From V Require Import lib.Bytes lib.SrcPos spec.PosOf model.ParseInput.
Local Open Scope nat_scope.

(* ================================================================== *)
(* A. byte-wise tracking = the specification                            *)
(* ================================================================== *)
Notation triple := (nat * nat * nat)%type.
Fixpoint advance (st : triple) (s : bytes) : triple :=
  match s with
  | [] => st
  | b :: r => let '(i, l, c) := st in
              advance (if Byte.eqb b x0a then (S i, S l, 0) else (S i, l, S c)) r
  end.

Lemma advance_app st a b : advance st (a ++ b) = advance (advance st a) b.
Proof.
  revert st; induction a as [|x a IH]; intros st; cbn; [reflexivity|].
  destruct st as [[i l] c]. apply IH.
Qed.

Lemma count_lf_snoc q b : count_lf (q ++ [b]) = count_lf q + (if is_lf b then 1 else 0).
Proof.
  unfold count_lf. rewrite filter_app, app_length. cbn. destruct (is_lf b); reflexivity.
Qed.

Lemma col_of_snoc q b : col_of (q ++ [b]) = if is_lf b then 0 else S (col_of q).
Proof.
  unfold col_of. rewrite rev_unit. cbn. destruct (is_lf b); reflexivity.
Qed.

Lemma advance_spec p : advance (0, 0, 0) p = (length p, count_lf p, col_of p).
Proof.
  induction p as [|b q IH] using rev_ind; [reflexivity|].
  rewrite advance_app, IH, app_length, count_lf_snoc, col_of_snoc. cbn.
  unfold is_lf. destruct (Byte.eqb b x0a); f_equal; try f_equal; lia.
Qed.

(* ================================================================== *)
(* B. sort.Search on a monotone predicate = first true index            *)
(* ================================================================== *)
Lemma div2_mid i j : i < j -> i <= Nat.div2 (i + j) /\ Nat.div2 (i + j) < j.
Proof.
  intros H. rewrite Nat.div2_div.
  pose proof (Nat.div_mod (i + j) 2 ltac:(lia)) as D.
  pose proof (Nat.mod_upper_bound (i + j) 2 ltac:(lia)) as M. lia.
Qed.

Definition first_true (n : nat) (f : nat -> bool) (r : nat) : Prop :=
  r <= n /\ (forall k, k < r -> f k = false) /\ (r < n -> f r = true).

Lemma first_true_unique n f r1 r2 : first_true n f r1 -> first_true n f r2 -> r1 = r2.
Proof.
  intros (A1 & B1 & C1) (A2 & B2 & C2).
  destruct (Nat.lt_trichotomy r1 r2) as [L|[E|L]]; [|exact E|].
  - specialize (B2 r1 L). rewrite C1 in B2 by lia. discriminate.
  - specialize (B1 r2 L). rewrite C2 in B1 by lia. discriminate.
Qed.

Lemma bsearch_first_true n f :
  (forall a b, a <= b -> b < n -> f a = true -> f b = true) ->
  forall fuel i j, i <= j -> j <= n -> j - i <= fuel ->
    (forall k, k < i -> f k = false) -> (j < n -> f j = true) ->
    first_true n f (bsearch fuel f i j).
Proof.
  intros Mono. induction fuel as [|fu IH]; intros i j Hij Hjn Hf Lo Hi; cbn [bsearch].
  - assert (i = j) by lia. subst. repeat split; auto.
  - destruct (i <? j) eqn:E.
    + apply Nat.ltb_lt in E. destruct (div2_mid i j E) as [M1 M2].
      set (h := Nat.div2 (i + j)) in *.
      destruct (f h) eqn:Fh.
      * apply IH; auto; lia.
      * apply IH; auto; try lia.
        intros k Hk. destruct (Nat.lt_ge_cases k i) as [L|G]; [auto|].
        destruct (f k) eqn:Fk; [|reflexivity].
        rewrite (Mono k h) in Fh; [discriminate|lia|lia|exact Fk].
    + apply Nat.ltb_ge in E. assert (i = j) by lia. subst. repeat split; auto.
Qed.

Lemma sort_search_first_true n f :
  (forall a b, a <= b -> b < n -> f a = true -> f b = true) -> first_true n f (sort_search n f).
Proof.
  intros Mono. unfold sort_search. apply bsearch_first_true; auto; try lia.
Qed.

(* linear scan (the contract of sort.Search) *)
Fixpoint search (index : nat) (t : list nat) (i : nat) : nat :=
  match t with [] => i | nl :: r => if index <=? nl then i else search index r (S i) end.

Lemma search_first_true index t :
  first_true (length t) (fun k => index <=? nth k t 0) (search index t 0).
Proof.
  assert (G : forall t i, i <= search index t i /\ search index t i <= i + length t /\
             (forall k, k < search index t i - i -> (index <=? nth k t 0) = false) /\
             (search index t i - i < length t -> (index <=? nth (search index t i - i) t 0) = true)).
  { clear t. induction t as [|nl r IH]; intros i; cbn [search length].
    - split; [lia|]. split; [lia|]. split; intros; lia.
    - destruct (index <=? nl) eqn:E.
      + split; [lia|]. split; [lia|]. split; [intros; lia|]. intros _. rewrite Nat.sub_diag. exact E.
      + destruct (IH (S i)) as (A & B & C & D). split; [lia|]. split; [lia|]. split.
        * intros k Hk. destruct k as [|k]; [exact E|]. cbn [nth]. apply C. lia.
        * intros Hlt. replace (search index r (S i) - i) with (S (search index r (S i) - S i)) by lia.
          cbn [nth]. apply D. lia. }
  destruct (G t 0) as (A & B & C & D). rewrite Nat.sub_0_r in *.
  repeat split; auto.
Qed.

(* the newline table is ascending *)
Lemma nls_ge off s : Forall (fun n => off <= n) (nls off s).
Proof.
  revert off; induction s as [|b r IH]; intros off; cbn; [constructor|].
  destruct (Byte.eqb b x0a); [constructor; [lia|]|]; (eapply Forall_impl; [|apply IH]; cbn; intros; lia).
Qed.

Lemma nls_sorted s : forall off a b, a <= b -> b < length (nls off s) ->
  nth a (nls off s) 0 <= nth b (nls off s) 0.
Proof.
  induction s as [|x r IH]; intros off a b Hab Hb; cbn [nls] in *; [cbn in Hb; lia|].
  destruct (Byte.eqb x x0a).
  - cbn [length] in Hb. destruct a as [|a]; destruct b as [|b]; cbn [nth]; try lia.
    + pose proof (nls_ge (S off) r) as F. rewrite Forall_forall in F.
      specialize (F (nth b (nls (S off) r) 0)). assert (In (nth b (nls (S off) r) 0) (nls (S off) r)) by (apply nth_In; lia).
      specialize (F H). lia.
    + apply IH; lia.
  - apply IH; auto.
Qed.

Lemma sort_search_nls index off s :
  sort_search (length (nls off s)) (fun k => index <=? nth k (nls off s) 0) = search index (nls off s) 0.
Proof.
  eapply first_true_unique; [|apply search_first_true].
  apply sort_search_first_true. intros a b Hab Hb Ha.
  apply Nat.leb_le in Ha. apply Nat.leb_le. pose proof (nls_sorted s off a b Hab Hb). lia.
Qed.

(* ================================================================== *)
(* C. PositionAt = byte-wise tracking = pos_of                          *)
(* ================================================================== *)
Lemma search_ge index t i : i <= search index t i.
Proof. revert i; induction t as [|n r IH]; intros i; cbn; [lia|]. destruct (index <=? n); [lia|]. specialize (IH (S i)). lia. Qed.
Lemma search_all_ge index t i : Forall (fun n => index <= n) t -> search index t i = i.
Proof. intros H. destruct t as [|n r]; [reflexivity|]. inversion H; subst. cbn. apply Nat.leb_le in H2. rewrite H2. reflexivity. Qed.

(* generalised statement: scanning from offset `off`, on line l0 whose first byte is at p0 *)
Lemma position_gen s : forall off index l0 p0, off <= index -> index <= off + length s -> p0 <= off ->
  let t := nls off s in
  let li := search index t l0 in
  advance (off, l0, off - p0) (firstn (index - off) s) =
  (index, li, index - (if li =? l0 then p0 else nth (li - l0 - 1) t 0 + 1)).
Proof.
  induction s as [|b r IH]; intros off index l0 p0 H1 H2 H3; cbn zeta.
  - cbn in H2. assert (index = off) by lia. subst. rewrite Nat.sub_diag. cbn. rewrite Nat.eqb_refl. reflexivity.
  - destruct (Nat.eq_dec index off) as [->|N].
    + rewrite Nat.sub_diag. cbn [firstn advance nls].
      assert (S0 : search off (nls off (b :: r)) l0 = l0).
      { cbn [nls]. destruct (Byte.eqb b x0a); [cbn; rewrite Nat.leb_refl; reflexivity|].
        apply search_all_ge. eapply Forall_impl; [|apply nls_ge]. cbn. intros. lia. }
      cbn [nls] in S0. rewrite S0, Nat.eqb_refl. reflexivity.
    + assert (Hk : index - off = S (index - S off)) by lia. rewrite Hk. cbn [firstn advance nls].
      destruct (Byte.eqb b x0a) eqn:E.
      * cbn [search]. assert (index <=? off = false) as -> by (apply Nat.leb_gt; lia).
        specialize (IH (S off) index (S l0) (S off) ltac:(lia) ltac:(cbn in H2; lia) (le_n _)). cbn zeta in IH.
        rewrite Nat.sub_diag in IH. rewrite IH. clear IH.
        set (li := search index (nls (S off) r) (S l0)).
        assert (Lg : S l0 <= li) by apply search_ge.
        assert (li =? l0 = false) as -> by (apply Nat.eqb_neq; lia).
        destruct (li =? S l0) eqn:Q.
        -- apply Nat.eqb_eq in Q. rewrite Q. replace (S l0 - l0 - 1) with 0 by lia. cbn [nth]. f_equal. lia.
        -- apply Nat.eqb_neq in Q. replace (li - l0 - 1) with (S (li - S l0 - 1)) by lia. cbn [nth]. reflexivity.
      * specialize (IH (S off) index l0 p0 ltac:(lia) ltac:(cbn in H2; lia) ltac:(lia)). cbn zeta in IH.
        replace (S (off - p0)) with (S off - p0) by lia. exact IH.
Qed.

(* an Input whose table was built by NewInput and whose index is within the string:
   every state reachable from NewInput through Peek/Take/Seek *)
Definition wf (pi : input) : Prop := in_nl pi = nls 0 (in_s pi) /\ in_idx pi <= length (in_s pi).

Lemma wf_new s : wf (new_input s).
Proof. split; cbn; [reflexivity|lia]. Qed.

Lemma take_wf pi n : wf pi -> wf (take_ pi n).
Proof.
  intros [T I]. unfold take_, take. destruct (length (in_s pi) <? in_idx pi + n) eqn:E; cbn; [split; assumption|].
  apply Nat.ltb_ge in E. split; cbn; [exact T|exact E].
Qed.

Lemma seek_wf pi z : wf pi -> wf (snd (seek pi z)).
Proof.
  intros [T I]. unfold seek.
  destruct ((z <? 0)%Z || (Z.of_nat (length (in_s pi)) <? z)%Z) eqn:E; cbn; [split; assumption|].
  apply orb_false_iff in E as [E1 E2]. apply Z.ltb_ge in E1, E2. split; cbn; [exact T|lia].
Qed.

Lemma take_src pi n : in_s (take_ pi n) = in_s pi.
Proof. unfold take_, take. destruct (length (in_s pi) <? in_idx pi + n); reflexivity. Qed.
Lemma take_nl pi n : in_nl (take_ pi n) = in_nl pi.
Proof. unfold take_, take. destruct (length (in_s pi) <? in_idx pi + n); reflexivity. Qed.
Lemma take_idx_ok pi n : in_idx pi + n <= length (in_s pi) -> in_idx (take_ pi n) = in_idx pi + n.
Proof. intros H. unfold take_, take. apply Nat.ltb_ge in H. rewrite H. reflexivity. Qed.

Lemma position_at_table s index : index <= length s ->
  position_at (mkinput s 0 (nls 0 s)) index = pos_of s index.
Proof.
  intros H. unfold position_at. cbn [in_nl]. rewrite sort_search_nls.
  pose proof (position_gen s 0 index 0 0 (Nat.le_0_l _) H (le_n _)) as G. cbn zeta in G.
  replace (index - 0) with index in G by lia. change (0 - 0) with 0 in G.
  rewrite advance_spec in G. rewrite firstn_length_le in G by exact H.
  unfold pos_of. injection G as G1 G2. rewrite G1, G2.
  set (li := search index (nls 0 s) 0).
  f_equal. destruct li as [|k]; cbn [Nat.eqb]; [reflexivity|].
  replace (S k - 0 - 1) with k by lia. reflexivity.
Qed.

Lemma position_at_faithful pi index : wf pi -> index <= length (in_s pi) ->
  position_at pi index = pos_of (in_s pi) index.
Proof.
  intros [T I] H. rewrite <- (position_at_table (in_s pi) index H).
  unfold position_at. cbn [in_nl]. rewrite T. reflexivity.
Qed.

Lemma position_at_new s index : index <= length s -> position_at (new_input s) index = pos_of s index.
Proof. intros H. apply (position_at_faithful (new_input s)); [apply wf_new|exact H]. Qed.

Lemma cur_position_faithful pi : wf pi -> cur_position pi = pos_of (in_s pi) (in_idx pi).
Proof. intros W. apply position_at_faithful; [exact W|apply W]. Qed.

(* ================================================================== *)
(* D. list helpers                                                      *)
(* ================================================================== *)
Lemma skipn_add {A} (a b : nat) (s : list A) : skipn (a + b) s = skipn b (skipn a s).
Proof.
  revert s; induction a as [|a IH]; intros s; [reflexivity|].
  destruct s as [|x s]; [cbn; rewrite skipn_nil; reflexivity|]. cbn. apply IH.
Qed.

Lemma firstn_add {A} (a b : nat) (s : list A) : firstn (a + b) s = firstn a s ++ firstn b (skipn a s).
Proof.
  revert s; induction a as [|a IH]; intros s; [reflexivity|].
  destruct s as [|x s]; [cbn; rewrite firstn_nil; reflexivity|]. cbn. f_equal. apply IH.
Qed.

Lemma has_prefix_app p q : has_prefix p (p ++ q) = true.
Proof. induction p as [|x p IH]; cbn; [reflexivity|]. rewrite byte_eqb_refl. exact IH. Qed.

Lemma has_prefix_firstn n (l : bytes) : has_prefix (firstn n l) l = true.
Proof. rewrite <- (firstn_skipn n l) at 2. apply has_prefix_app. Qed.

Lemma has_prefix_spec p s : has_prefix p s = true <-> firstn (length p) s = p.
Proof.
  revert s; induction p as [|x p IH]; intros s; cbn; [split; reflexivity|].
  destruct s as [|y s]; [split; discriminate|]. cbn. split.
  - intros H. apply andb_prop in H as [H1 H2]. apply byte_eqb_eq in H1. apply IH in H2. congruence.
  - intros H. inversion H; subst. rewrite H2, byte_eqb_refl. cbn. apply IH. congruence.
Qed.

Lemma has_prefix_length p s : has_prefix p s = true -> length p <= length s.
Proof.
  intros H. apply has_prefix_spec in H. rewrite <- H at 1. rewrite firstn_length. lia.
Qed.

Lemma has_prefix_split p s : has_prefix p s = true -> s = p ++ skipn (length p) s.
Proof. intros H. apply has_prefix_spec in H. rewrite <- H at 1. symmetry. apply firstn_skipn. Qed.

Lemma has_prefix_app_l a b s : has_prefix (a ++ b) s = true -> has_prefix a s = true.
Proof.
  intros H. apply has_prefix_split in H. rewrite H, <- app_assoc. apply has_prefix_app.
Qed.

Lemma has_prefix_trans a b c : has_prefix a b = true -> has_prefix b c = true -> has_prefix a c = true.
Proof.
  intros H1 H2. apply has_prefix_split in H1, H2. rewrite H2, H1, <- app_assoc. apply has_prefix_app.
Qed.

Lemma rest_length pi : length (rest pi) = length (in_s pi) - in_idx pi.
Proof. unfold rest. apply skipn_length. Qed.

Lemma p_index_position_at pi k : p_index (position_at pi k) = k.
Proof. reflexivity. Qed.
Lemma p_index_pos_of s k : p_index (pos_of s k) = k.
Proof. reflexivity. Qed.

(* ================================================================== *)
(* E. the expression constructors yield range_ok                        *)
(* ================================================================== *)

(* parseGo: under the extractor contract start <= end <= len(src) there is no panic, the range is faithful,
   the value is exactly the source between the two ends, and the input has advanced by `end`. *)
Lemma parse_go_ok pi start end_ :
  wf pi -> start <= end_ -> end_ <= length (rest pi) ->
  exists e pi', parse_go pi start end_ = Some (e, pi') /\ range_ok (in_s pi) e /\
    e_value e = firstn (end_ - start) (skipn (in_idx pi + start) (in_s pi)) /\
    p_index (e_to e) = p_index (e_from e) + length (e_value e) /\
    wf pi' /\ in_s pi' = in_s pi /\ in_idx pi' = in_idx pi + end_.
Proof.
  intros W H1 H2. pose proof W as [T I]. rewrite rest_length in H2.
  unfold parse_go, slice, peek_rest. rewrite rest_length.
  assert ((start <=? end_) && (end_ <=? length (in_s pi) - in_idx pi) = true) as ->
    by (apply andb_true_intro; split; apply Nat.leb_le; lia).
  eexists _, _. split; [reflexivity|].
  unfold new_expression, rest. rewrite <- skipn_add.
  split; [|split; [reflexivity|split; [|split; [apply take_wf; exact W|split; [apply take_src|apply take_idx_ok; lia]]]]].
  - unfold range_ok. cbn [e_from e_to e_value p_index position_at].
    rewrite !position_at_faithful by (auto; lia). cbn [p_index pos_of].
    repeat split; try lia. apply has_prefix_firstn.
  - cbn [e_from e_to e_value p_index position_at]. rewrite firstn_length, skipn_length. lia.
Qed.

(* outside the contract the Go slice expression panics: why extract clamps *)
Lemma parse_go_panics pi start end_ :
  ~ (start <= end_ /\ end_ <= length (rest pi)) -> parse_go pi start end_ = None.
Proof.
  intros H. unfold parse_go, slice, peek_rest.
  destruct ((start <=? end_) && (end_ <=? length (rest pi))) eqn:E; [|reflexivity].
  apply andb_prop in E as [E1 E2]. apply Nat.leb_le in E1, E2. tauto.
Qed.

(* every constructor that records "the text I just consumed": ExpressionOf, SliceArgs, package, header lines *)
Lemma expression_of_ok pi exp :
  wf pi -> has_prefix exp (rest pi) = true ->
  let '(e, pi') := expression_of pi exp in
  range_ok (in_s pi) e /\ p_index (e_to e) = p_index (e_from e) + length exp /\
  wf pi' /\ in_s pi' = in_s pi /\ in_idx pi' = in_idx pi + length exp.
Proof.
  intros W H. pose proof W as [T I]. pose proof (has_prefix_length _ _ H) as L. rewrite rest_length in L.
  unfold expression_of, new_expression.
  assert (Ix : in_idx (take_ pi (length exp)) = in_idx pi + length exp) by (apply take_idx_ok; lia).
  assert (W' : wf (take_ pi (length exp))) by (apply take_wf; exact W).
  split; [|split; [|split; [exact W'|split; [apply take_src|exact Ix]]]].
  - unfold range_ok. cbn [e_from e_to e_value].
    rewrite !cur_position_faithful by assumption. rewrite take_src, Ix. cbn [p_index pos_of].
    repeat split; try lia. exact H.
  - cbn [e_from e_to]. unfold cur_position. cbn [p_index position_at]. exact Ix.
Qed.

Lemma parse_go_slice_args_ok pi expr :
  wf pi -> has_prefix expr (rest pi) = true -> range_ok (in_s pi) (fst (parse_go_slice_args pi expr)).
Proof.
  intros W H. pose proof (expression_of_ok pi expr W H) as G.
  unfold expression_of in G. unfold parse_go_slice_args. cbn [fst]. apply G.
Qed.

Lemma take_take pi a b : take_ (take_ pi a) b = take_ pi (a + b) \/ length (in_s pi) < in_idx pi + a + b.
Proof.
  destruct (Nat.lt_ge_cases (length (in_s pi)) (in_idx pi + a + b)) as [L|G]; [right; exact L|left].
  unfold take_, take. assert (length (in_s pi) <? in_idx pi + a = false) as -> by (apply Nat.ltb_ge; lia).
  cbn [snd in_s in_idx]. assert (length (in_s pi) <? in_idx pi + a + b = false) as -> by (apply Nat.ltb_ge; lia).
  assert (length (in_s pi) <? in_idx pi + (a + b) = false) as -> by (apply Nat.ltb_ge; lia).
  cbn. f_equal. lia.
Qed.

Lemma two_takes_ok pi a b :
  wf pi -> has_prefix (a ++ b) (rest pi) = true ->
  range_ok (in_s pi) (new_expression (a ++ b) (cur_position pi) (cur_position (take_ (take_ pi (length a)) (length b)))).
Proof.
  intros W H. pose proof (has_prefix_length _ _ H) as L. rewrite rest_length, app_length in L. pose proof W as [T I].
  destruct (take_take pi (length a) (length b)) as [E|E]; [|lia]. rewrite E.
  pose proof (expression_of_ok pi (a ++ b) W H) as G. unfold expression_of in G. rewrite app_length in G. apply G.
Qed.

Lemma pkg_expression_ok pi exp :
  wf pi -> has_prefix (bs "package " ++ exp) (rest pi) = true -> range_ok (in_s pi) (fst (pkg_expression pi exp)).
Proof. intros W H. unfold pkg_expression. cbn [fst]. apply two_takes_ok; assumption. Qed.

Lemma header_line_ok pi line newline :
  wf pi -> has_prefix (line ++ newline) (rest pi) = true -> range_ok (in_s pi) (fst (header_line pi line newline)).
Proof. intros W H. unfold header_line. cbn [fst]. apply two_takes_ok; assumption. Qed.

(* parseGoFuncDecl: the input begins with `templ ` + expr (TrimPrefix found the prefix, Func returned a prefix of the rest) *)
Lemma parse_go_func_decl_ok prefix pi expr :
  wf pi -> has_prefix ((prefix ++ bs " ") ++ expr) (rest pi) = true ->
  range_ok (in_s pi) (fst (parse_go_func_decl prefix pi expr)).
Proof.
  intros W H. pose proof W as [T I]. pose proof (has_prefix_length _ _ H) as L. rewrite rest_length, app_length in L.
  unfold parse_go_func_decl, new_expression. cbn [fst].
  set (p := prefix ++ bs " ") in *.
  assert (Ix : in_idx (take_ pi (length p + length expr)) = in_idx pi + (length p + length expr)) by (apply take_idx_ok; lia).
  assert (W' : wf (take_ pi (length p + length expr))) by (apply take_wf; exact W).
  unfold range_ok. cbn [e_from e_to e_value].
  rewrite cur_position_faithful by assumption. rewrite position_at_faithful by (auto; lia).
  rewrite take_src, Ix. cbn [p_index pos_of].
  repeat split; try lia.
  rewrite skipn_add. apply has_prefix_split in H. unfold rest in H. rewrite H.
  rewrite <- app_assoc, skipn_app, skipn_all, Nat.sub_diag. cbn [app skipn]. apply has_prefix_app.
Qed.

(* element / attribute names: the name parser has just consumed `name` *)
Lemma name_range_ok_after pi name :
  wf pi -> length name <= in_idx pi ->
  firstn (length name) (skipn (in_idx pi - length name) (in_s pi)) = name ->
  name_range_ok (in_s pi) name (fst (name_range pi name)) (snd (name_range pi name)).
Proof.
  intros W L H. pose proof W as [T I]. unfold name_range, new_range. cbn [fst snd].
  unfold name_range_ok. rewrite cur_position_faithful by assumption. rewrite position_at_faithful by (auto; lia).
  cbn [p_index pos_of]. repeat split; try lia. exact H.
Qed.

(* else-if rewind: `} else if` has just been consumed, so the index is >= 2 and the two bytes before it are "if" *)
Lemma else_if_rewind_ok pi :
  wf pi -> 2 <= in_idx pi -> firstn 2 (skipn (in_idx pi - 2) (in_s pi)) = bs "if" ->
  exists pi', else_if_rewind pi = (true, pi') /\ wf pi' /\ in_s pi' = in_s pi /\ in_idx pi' = in_idx pi - 2 /\
              has_prefix (bs "if") (rest pi') = true.
Proof.
  intros W L H. pose proof W as [T I]. unfold else_if_rewind, seek.
  assert (((Z.of_nat (in_idx pi) - 2 <? 0)%Z || (Z.of_nat (length (in_s pi)) <? Z.of_nat (in_idx pi) - 2)%Z) = false) as ->.
  { apply orb_false_iff. split; apply Z.ltb_ge; lia. }
  eexists. split; [reflexivity|].
  assert (E : Z.to_nat (Z.of_nat (in_idx pi) - 2) = in_idx pi - 2) by lia.
  split; [split; cbn; [exact T|lia]|]. split; [reflexivity|]. split; [cbn; exact E|].
  unfold rest. cbn [in_idx in_s]. rewrite E. apply has_prefix_spec. exact H.
Qed.

(* ---- spread attributes: Value loses "...", To.Index and To.Col lose 3, To.Line is kept ---- *)
Lemma count_lf_app a b : count_lf (a ++ b) = count_lf a + count_lf b.
Proof. unfold count_lf. rewrite filter_app, app_length. reflexivity. Qed.

Lemma col_of_app_nolf a m : forallb (fun b => negb (is_lf b)) m = true -> col_of (a ++ m) = col_of a + length m.
Proof.
  induction m as [|b m IH] using rev_ind; intros H; [rewrite app_nil_r; cbn; lia|].
  rewrite forallb_app in H. apply andb_prop in H as [H1 H2]. cbn in H2. rewrite andb_true_r in H2.
  rewrite app_assoc, col_of_snoc, app_length. apply negb_true_iff in H2. rewrite H2, IH by exact H1. cbn. lia.
Qed.

Lemma has_suffix3_spec v : has_suffix3 v = true -> v = firstn (length v - 3) v ++ [x2e; x2e; x2e].
Proof.
  induction v as [|a r IH]; [discriminate|]. cbn [has_suffix3].
  destruct r as [|b [|c [|d r']]].
  - cbn. discriminate.
  - cbn. discriminate.
  - intros H. apply andb_prop in H as [H H3]. apply andb_prop in H as [H1 H2].
    apply byte_eqb_eq in H1, H2, H3. subst. reflexivity.
  - intros H. specialize (IH H). cbn [length] in *.
    replace (S (S (S (S (length r')))) - 3) with (S (S (S (S (length r'))) - 3)) by lia.
    cbn [firstn app]. f_equal. exact IH.
Qed.

Lemma spread_fix_ok src e :
  range_ok src e -> p_index (e_to e) = p_index (e_from e) + length (e_value e) ->
  has_suffix3 (e_value e) = true ->
  exists e', spread_fix e = Some e' /\ range_ok src e' /\
             e_value e = e_value e' ++ [x2e; x2e; x2e] /\ p_index (e_to e') = p_index (e_from e') + length (e_value e').
Proof.
  intros (R1 & R2 & R3 & R4 & R5) Hx Hs. unfold spread_fix. rewrite Hs. eexists. split; [reflexivity|].
  pose proof (has_suffix3_spec _ Hs) as V. set (v' := firstn (length (e_value e) - 3) (e_value e)) in *.
  assert (Lv : length (e_value e) = length v' + 3) by (rewrite V at 1; rewrite app_length; cbn; lia).
  set (f := p_index (e_from e)) in *. set (t := p_index (e_to e)) in *.
  assert (F : firstn t src = firstn (t - 3) src ++ [x2e; x2e; x2e]).
  { apply has_prefix_spec in R5.
    replace t with ((t - 3) + 3) at 1 by lia. rewrite firstn_add. f_equal.
    replace (t - 3) with (f + length v') by lia. rewrite skipn_add.
    assert (Q : skipn f src = e_value e ++ skipn (length (e_value e)) (skipn f src)).
    { rewrite <- R5 at 1. symmetry. apply firstn_skipn. }
    rewrite Q, V, <- app_assoc, skipn_app, skipn_all, Nat.sub_diag. reflexivity. }
  assert (P : pos_of src t = mkpos t (count_lf (firstn (t - 3) src)) (col_of (firstn (t - 3) src) + 3)).
  { unfold pos_of. rewrite F, count_lf_app, col_of_app_nolf by reflexivity. cbn. f_equal. lia. }
  split; [|split; [exact V|cbn [e_from e_to e_value p_index]; fold f; fold t; lia]].
  unfold range_ok. cbn [e_from e_to e_value p_index]. fold f. fold t.
  repeat split; try lia.
  - exact R3.
  - rewrite R4. fold t. rewrite P. cbn [p_line p_col]. unfold pos_of. f_equal. lia.
  - fold f in R5. rewrite V in R5. apply has_prefix_app_l in R5. exact R5.
Qed.

(* ---- strings.TrimSpace of a top-level Go block ---- *)
Lemma trim_with_suffix len fuel s : exists k, trim_with len fuel s = skipn k s.
Proof.
  revert s; induction fuel as [|f IH]; intros s; cbn [trim_with]; [exists 0; reflexivity|].
  destruct (len s) as [|k]; [exists 0; reflexivity|].
  destruct (IH (skipn (S k) s)) as [k' E]. exists (S k + k'). rewrite E, <- skipn_add. reflexivity.
Qed.

Lemma trim_right_prefix s : has_prefix (trim_right s) s = true.
Proof.
  unfold trim_right. destruct (trim_with_suffix space_len_last (length s) (rev s)) as [k E].
  rewrite E, skipn_rev, rev_involutive. apply has_prefix_firstn.
Qed.

Lemma trim_left_id s : space_len s = 0 -> trim_left s = s.
Proof. intros H. unfold trim_left. destruct (length s); cbn [trim_with]; [reflexivity|]. rewrite H. reflexivity. Qed.

Lemma trim_space_prefix code : space_len code = 0 -> has_prefix (trim_space code) code = true.
Proof. intros H. unfold trim_space. rewrite trim_left_id by exact H. apply trim_right_prefix. Qed.

(* the block starts at pi_from, ends at pi_to, code is the text in between, and its first rune is not white space
   (parse.OptionalWhitespace has just run) *)
Lemma go_block_ok pi_from pi_to code :
  wf pi_from -> wf pi_to -> in_s pi_to = in_s pi_from -> in_idx pi_from <= in_idx pi_to ->
  code = firstn (in_idx pi_to - in_idx pi_from) (rest pi_from) ->
  space_len code = 0 ->
  range_ok (in_s pi_from) (go_block pi_from pi_to code).
Proof.
  intros W1 W2 S L C Sp. pose proof W1 as [T1 I1]. pose proof W2 as [T2 I2].
  unfold go_block, new_expression, range_ok. cbn [e_from e_to e_value].
  rewrite !cur_position_faithful by assumption. rewrite S in *. cbn [p_index pos_of].
  repeat split; try lia.
  eapply has_prefix_trans; [apply trim_space_prefix; exact Sp|]. rewrite C. apply has_prefix_firstn.
Qed.

(* ================================================================== *)
(* F. goexpression: SliceArgs / Func arithmetic, extract clamping       *)
(* ================================================================== *)
Lemma zslice_some src a b : (0 <= a)%Z -> (a <= b)%Z -> (b <= Z.of_nat (length src))%Z ->
  zslice src a b = Some (firstn (Z.to_nat (b - a)) (skipn (Z.to_nat a) src)).
Proof.
  intros H1 H2 H3. unfold zslice.
  assert (((0 <=? a) && (a <=? b) && (b <=? Z.of_nat (length src)))%Z = true) as ->; [|reflexivity].
  rewrite !andb_true_iff. repeat split; apply Z.leb_le; assumption.
Qed.

Lemma fold_last_cases (l : list Z) (a : Z) :
  fold_left (fun _ e => (e - 1)%Z) l a = a \/
  exists e, In e l /\ fold_left (fun _ e => (e - 1)%Z) l a = (e - 1)%Z.
Proof.
  revert a; induction l as [|e r IH]; intros a; [left; reflexivity|]. right. cbn [fold_left].
  destruct (IH (e - 1)%Z) as [E|[e' [I E]]].
  - exists e. split; [left; reflexivity|exact E].
  - exists e'. split; [right; exact I|exact E].
Qed.

Lemma prefix_of_appended (p c t : bytes) k : k <= length c ->
  has_prefix (firstn k (skipn (length p) (p ++ c ++ t))) c = true.
Proof.
  intros H. rewrite skipn_app, skipn_all, Nat.sub_diag. cbn [app skipn].
  rewrite firstn_app. replace (k - length c) with 0 by lia. cbn [firstn]. rewrite app_nil_r.
  apply has_prefix_firstn.
Qed.

Lemma drop_blank_tab_suffix (r : bytes) : exists t, r = t ++ drop_blank_tab r.
Proof.
  induction r as [|b r [t IH]]; [exists []; reflexivity|]. cbn [drop_blank_tab].
  destruct (Byte.eqb b x20 || Byte.eqb b x09); [exists (b :: t); cbn; f_equal; exact IH|exists []; reflexivity].
Qed.
Lemma has_prefix_trim_right_bt (s c : bytes) : has_prefix s c = true -> has_prefix (trim_right_bt s) c = true.
Proof.
  intros H. unfold trim_right_bt. destruct (drop_blank_tab_suffix (rev s)) as [t E].
  apply (has_prefix_app_l _ (rev t)).
  rewrite <- rev_app_distr, <- E, rev_involutive. exact H.
Qed.

(* go/parser contract: the composite literal is the one opened by the prefix ([]any{), its closing brace lies
   within the content or is the appended one, elements end after the opening brace *)
Lemma slice_args_ok has_code content lbrace rbrace ends :
  lbrace = Z.of_nat (length slice_args_prefix) ->
  (lbrace <= rbrace - 1)%Z -> (rbrace - 1 <= lbrace + Z.of_nat (length content))%Z ->
  (forall e, In e ends -> (lbrace <= e - 1)%Z) ->
  exists expr, slice_args has_code content lbrace rbrace ends = Some expr /\ has_prefix expr content = true.
Proof.
  intros HL H1 H2 HE. unfold slice_args.
  set (src := slice_args_prefix ++ content ++ bs "}").
  assert (Ls : Z.of_nat (length src) = (lbrace + Z.of_nat (length content) + 1)%Z).
  { unfold src. rewrite !app_length. change (length (bs "}")) with 1. lia. }
  set (to0 := fold_left (fun _ e => (e - 1)%Z) ends (rbrace - 1)%Z).
  assert (T0 : (lbrace <= to0)%Z).
  { unfold to0. destruct (fold_last_cases ends (rbrace - 1)%Z) as [E|[e [I E]]]; rewrite E; [lia|apply HE; exact I]. }
  set (to1 := if (rbrace - 1 <? to0)%Z then (rbrace - 1)%Z else to0).
  assert (T1 : (lbrace <= to1 <= rbrace - 1)%Z).
  { unfold to1. destruct (rbrace - 1 <? to0)%Z eqn:E; [lia|]. apply Z.ltb_ge in E. lia. }
  rewrite (zslice_some src to1 (rbrace - 1)%Z) by lia.
  destruct (has_code _).
  - rewrite (zslice_some src lbrace (rbrace - 1)%Z) by lia. cbn [option_map].
    eexists. split; [reflexivity|].
    eapply has_prefix_trim_right_bt.
    rewrite HL, Nat2Z.id. unfold src. apply prefix_of_appended. lia.
  - rewrite (zslice_some src lbrace to1) by lia.
    eexists. split; [reflexivity|].
    rewrite HL, Nat2Z.id. unfold src. apply prefix_of_appended. lia.
Qed.

(* go/parser contract for Func: the declaration found is the one that starts at `func ` right after the prefix,
   its parameter list ends after the keyword.  No panic; on success the text is a prefix of what followed `templ `. *)
Lemma func_expr_ok rest' fnpos params_end :
  fnpos = (Z.of_nat (length func_prefix) + 1)%Z -> (fnpos + 4 <= params_end - 1)%Z ->
  func_expr (bs "func " ++ rest') fnpos params_end = Some None \/
  exists expr, func_expr (bs "func " ++ rest') fnpos params_end = Some (Some expr) /\ has_prefix expr rest' = true.
Proof.
  intros HF H. unfold func_expr.
  set (src := func_prefix ++ bs "func " ++ rest').
  destruct (Z.of_nat (length src) <? params_end - 1)%Z eqn:E; [left; reflexivity|right].
  apply Z.ltb_ge in E.
  rewrite (zslice_some src (fnpos + 4)%Z (params_end - 1)%Z) by lia.
  eexists. split; [reflexivity|].
  replace (Z.to_nat (fnpos + 4)) with (length (func_prefix ++ bs "func ")) by (rewrite app_length; change (length (bs "func ")) with 5; lia).
  unfold src. rewrite app_assoc, skipn_app, skipn_all, Nat.sub_diag. cbn [app skipn]. apply has_prefix_firstn.
Qed.

Lemma clamp_ok plen clen s0 e0 :
  (0 <= clen)%Z -> (plen <= s0)%Z -> (plen <= e0)%Z ->
  let '(s, e) := clamp plen clen s0 e0 in (0 <= s /\ s <= e /\ e <= clen)%Z.
Proof.
  intros H0 H1 H2. unfold clamp.
  destruct (clen <? e0 - plen)%Z eqn:E1; [apply Z.ltb_lt in E1|apply Z.ltb_ge in E1].
  - destruct (clen <? s0 - plen)%Z eqn:E2; [apply Z.ltb_lt in E2|apply Z.ltb_ge in E2]; lia.
  - destruct (e0 - plen <? s0 - plen)%Z eqn:E2; [apply Z.ltb_lt in E2|apply Z.ltb_ge in E2]; lia.
Qed.

(* for EVERY extractor: if what it returns lies inside the container body (both positions at or after the prefix),
   the result of extract satisfies 0 <= start <= end <= len(content) *)
Lemma extract_clamped extractor content s e :
  (forall s0 e0, extractor (container_prefix ++ content) = Some (s0, e0) ->
     (Z.of_nat (length container_prefix) <= s0 /\ Z.of_nat (length container_prefix) <= e0)%Z) ->
  extract extractor content = Some (s, e) ->
  (0 <= s /\ s <= e /\ e <= Z.of_nat (length content))%Z.
Proof.
  intros C. unfold extract. destruct (extractor _) as [[s0 e0]|] eqn:E; [|discriminate].
  destruct (C s0 e0 eq_refl) as [C1 C2]. intros H.
  pose proof (clamp_ok (Z.of_nat (length container_prefix)) (Z.of_nat (length content)) s0 e0 ltac:(lia) C1 C2) as G.
  destruct (clamp _ _ _ _) as [s' e']. injection H as <- <-. exact G.
Qed.

(* why the contract is needed: an extractor that answers a position before the body (token.NoPos = 0, or a
   position inside `package main`) gets a negative start, respectively a negative end, through the clamp *)
Lemma extract_unclamped_refutable :
  (exists extractor content s e, extract extractor content = Some (s, e) /\ (s < 0)%Z /\ (0 <= e)%Z) /\
  (exists extractor content s0 e0 s e, extractor (container_prefix ++ content) = Some (s0, e0) /\
      (Z.of_nat (length container_prefix) <= s0)%Z /\ extract extractor content = Some (s, e) /\ (e < 0)%Z /\ (s < 0)%Z).
Proof.
  split.
  - exists (fun _ => Some (0%Z, 40%Z)), (bs "x"). eexists _, _. split; [vm_compute; reflexivity|]. split; reflexivity || discriminate.
  - exists (fun _ => Some (40%Z, 0%Z)), (bs "x"). eexists _, _, _, _. split; [reflexivity|].
    split; [vm_compute; discriminate|]. split; [vm_compute; reflexivity|]. split; reflexivity.
Qed.

(* and a negative or inverted pair makes parseGo's slice expression panic - stated on naturals: start > end *)
Lemma parse_go_needs_order pi start end_ : end_ < start -> parse_go pi start end_ = None.
Proof. intros H. apply parse_go_panics. lia. Qed.

Lemma clamp_case P W L s0 e0 :
  (0 <= L)%Z -> (0 <= W)%Z -> (P + W <= s0)%Z -> (P + W <= e0)%Z ->
  let '(s, e) := clamp P (W + L) s0 e0 in (0 <= s - W /\ s - W <= e - W /\ e - W <= L)%Z.
Proof.
  intros H0 H1 H2 H3. unfold clamp.
  destruct (W + L <? e0 - P)%Z eqn:E1; [apply Z.ltb_lt in E1|apply Z.ltb_ge in E1].
  - destruct (W + L <? s0 - P)%Z eqn:E2; [apply Z.ltb_lt in E2|apply Z.ltb_ge in E2]; lia.
  - destruct (e0 - P <? s0 - P)%Z eqn:E2; [apply Z.ltb_lt in E2|apply Z.ltb_ge in E2]; lia.
Qed.

Lemma case_extract_clamped extractor content s e :
  (forall s0 e0, extractor (container_prefix ++ switch_prefix ++ content) = Some (s0, e0) ->
     (Z.of_nat (length container_prefix) + Z.of_nat (length switch_prefix) <= s0 /\
      Z.of_nat (length container_prefix) + Z.of_nat (length switch_prefix) <= e0)%Z) ->
  case_extract extractor content = Some (s, e) ->
  (0 <= s /\ s <= e /\ e <= Z.of_nat (length content))%Z.
Proof.
  intros C. unfold case_extract, extract. destruct (extractor _) as [[s0 e0]|] eqn:E; [|discriminate].
  destruct (C s0 e0 eq_refl) as [C1 C2]. intros H.
  rewrite app_length, Nat2Z.inj_add in H.
  pose proof (clamp_case (Z.of_nat (length container_prefix)) (Z.of_nat (length switch_prefix))
                (Z.of_nat (length content)) s0 e0 ltac:(lia) ltac:(lia) C1 C2) as G.
  destruct (clamp _ _ _ _) as [s' e']. inversion H; subst. exact G.
Qed.

Lemma latest_end_ge start ends : (start <= latest_end start ends)%Z.
Proof.
  unfold latest_end. revert start; induction ends as [|n r IH]; intros start; cbn [fold_left]; [lia|].
  destruct (start <? n - 1)%Z eqn:E.
  - apply Z.ltb_lt in E. specialize (IH (n - 1)%Z). lia.
  - apply IH.
Qed.

(* contract + clamp + parseGo: no panic and a faithful range *)
Lemma extract_then_parse_go pi extractor s e :
  wf pi ->
  (forall s0 e0, extractor (container_prefix ++ rest pi) = Some (s0, e0) ->
     (Z.of_nat (length container_prefix) <= s0 /\ Z.of_nat (length container_prefix) <= e0)%Z) ->
  extract extractor (rest pi) = Some (s, e) ->
  exists ex pi', parse_go pi (Z.to_nat s) (Z.to_nat e) = Some (ex, pi') /\ range_ok (in_s pi) ex /\ wf pi'.
Proof.
  intros W C H. destruct (extract_clamped _ _ _ _ C H) as (A & B & D).
  destruct (parse_go_ok pi (Z.to_nat s) (Z.to_nat e) W ltac:(lia) ltac:(lia)) as (ex & pi' & P & R & _ & _ & W' & _).
  exists ex, pi'. auto.
Qed.

(* ================================================================== *)
(* G. loops terminate under `progress`                                  *)
(* ================================================================== *)
(* success strictly advances the index; failure never leaves it before where it started; nobody leaves the input *)
Definition progress (n : nat) (p : nparser) : Prop :=
  forall i, i <= n -> match p i with PErr => True | PNo j => i <= j /\ j <= n | POk j => i < j /\ j <= n end.
(* the `until` probe: its success index is thrown away (Seek(start)) *)
Definition weak_progress (n : nat) (p : nparser) : Prop :=
  forall i, i <= n -> match p i with PErr => True | PNo j => i <= j /\ j <= n | POk _ => True end.

Lemma first_match_progress n ps : Forall (progress n) ps -> progress n (first_match ps).
Proof.
  induction ps as [|p r IH]; intros F i Hi; cbn [first_match]; [lia|].
  inversion F as [|? ? Fp Fr]; subst. specialize (Fp i Hi). destruct (p i) as [|j|j]; [exact I| |exact Fp].
  destruct Fp as [A B]. specialize (IH Fr j B). destruct (first_match r j) as [|k|k]; [exact I|lia|lia].
Qed.

Lemma node_loop_bound n until skips parsers :
  Forall (progress n) skips -> Forall (progress n) parsers ->
  match until with None => True | Some u => weak_progress n u end ->
  forall fuel i nodes iters, i <= n -> n - i + 1 <= fuel ->
    fst (node_loop fuel until skips parsers i nodes iters) <> LFuel /\
    snd (node_loop fuel until skips parsers i nodes iters) <= iters + (n - i + 1).
Proof.
  intros Fs Fp Fu. pose proof (first_match_progress n skips Fs) as Ps. pose proof (first_match_progress n parsers Fp) as Pp.
  induction fuel as [|f IH]; intros i nodes iters Hi Hf; [lia|]. cbn [node_loop].
  assert (Step : forall i1, i <= i1 -> i1 <= n ->
     fst (match first_match skips i1 with
          | PErr => (LErr, S iters)
          | POk i2 => node_loop f until skips parsers i2 nodes (S iters)
          | PNo i2 => match first_match parsers i2 with
                      | PErr => (LErr, S iters)
                      | POk i3 => node_loop f until skips parsers i3 (S nodes) (S iters)
                      | PNo i3 => match until with None => (LDone i3 nodes, S iters) | Some _ => (LNotFound i3, S iters) end
                      end
          end) <> LFuel /\
     snd (match first_match skips i1 with
          | PErr => (LErr, S iters)
          | POk i2 => node_loop f until skips parsers i2 nodes (S iters)
          | PNo i2 => match first_match parsers i2 with
                      | PErr => (LErr, S iters)
                      | POk i3 => node_loop f until skips parsers i3 (S nodes) (S iters)
                      | PNo i3 => match until with None => (LDone i3 nodes, S iters) | Some _ => (LNotFound i3, S iters) end
                      end
          end) <= iters + (n - i + 1)).
  { intros i1 H1 H1n. specialize (Ps i1 H1n). destruct (first_match skips i1) as [|i2|i2].
    - cbn. split; [discriminate|lia].
    - destruct Ps as [A B]. specialize (Pp i2 B). destruct (first_match parsers i2) as [|i3|i3].
      + cbn. split; [discriminate|lia].
      + destruct until; cbn; (split; [discriminate|lia]).
      + destruct Pp as [C D]. destruct (IH i3 (S nodes) (S iters) D ltac:(lia)) as [G1 G2]. split; [exact G1|lia].
    - destruct Ps as [A B]. destruct (IH i2 nodes (S iters) B ltac:(lia)) as [G1 G2]. split; [exact G1|lia]. }
  destruct until as [u|].
  - specialize (Fu i Hi). destruct (u i) as [|i1|i1].
    + cbn. split; [discriminate|lia].
    + apply Step; lia.
    + cbn. split; [discriminate|lia].
  - apply Step; lia.
Qed.

Lemma script_loop_bound n body :
  (forall i, i <= n -> match body i with SCont j => i < j /\ j <= n | _ => True end) ->
  forall fuel i iters, i <= n -> n - i + 1 <= fuel ->
    fst (script_loop fuel body i iters) <> None /\ snd (script_loop fuel body i iters) <= iters + (n - i + 1).
Proof.
  intros P. induction fuel as [|f IH]; intros i iters Hi Hf; [lia|]. cbn [script_loop].
  specialize (P i Hi). destruct (body i) as [|j|j]; cbn; try (split; [discriminate|lia]).
  destruct P as [A B]. destruct (IH j (S iters) B ltac:(lia)) as [G1 G2]. split; [exact G1|lia].
Qed.

(* ================================================================== *)
(* H. the boolean predicates decide the specification                   *)
(* ================================================================== *)
Lemma pos_eqb_eq a b : pos_eqb a b = true <-> a = b.
Proof.
  destruct a as [i l c], b as [i' l' c']. unfold pos_eqb. cbn [p_index p_line p_col].
  rewrite !andb_true_iff, !Nat.eqb_eq. split; [intros [[-> ->] ->]; reflexivity|intros H; inversion H; auto].
Qed.

Lemma range_okb_spec src e : range_okb src e = true <-> range_ok src e.
Proof.
  unfold range_okb, range_ok. rewrite !andb_true_iff, !Nat.leb_le, !pos_eqb_eq. tauto.
Qed.

Lemma name_range_okb_spec src name from to : name_range_okb src name from to = true <-> name_range_ok src name from to.
Proof.
  unfold name_range_okb, name_range_ok. rewrite !andb_true_iff, !Nat.leb_le, !Nat.eqb_eq, !pos_eqb_eq, bytes_eqb_eq. tauto.
Qed.

Lemma plain_range_okb_spec src from to : plain_range_okb src from to = true <-> plain_range_ok src from to.
Proof.
  unfold plain_range_okb, plain_range_ok. rewrite !andb_true_iff, !Nat.leb_le, !pos_eqb_eq. tauto.
Qed.

Lemma expression_of_range_ok pi exp :
  wf pi -> has_prefix exp (rest pi) = true -> range_ok (in_s pi) (fst (expression_of pi exp)).
Proof.
  intros W H. pose proof (expression_of_ok pi exp W H) as G. unfold expression_of in *. cbn [fst]. apply G.
Qed.

(* ================================================================== *)
(* I. the one-pass table evaluation equals the specification predicates *)
(* ================================================================== *)
Lemma pos_scan_nth s : forall i l c k, k <= length s ->
  nth k (pos_scan i l c s) (mkpos 0 0 0) =
  let '(i', l', c') := advance (i, l, c) (firstn k s) in mkpos i' l' c'.
Proof.
  induction s as [|b r IH]; intros i l c k Hk.
  - cbn in Hk. assert (k = 0) by lia. subst. reflexivity.
  - destruct k as [|k]; [reflexivity|]. cbn [pos_scan nth firstn advance]. cbn [length] in Hk.
    unfold is_lf. destruct (Byte.eqb b x0a); apply IH; lia.
Qed.

Lemma pos_at_tbl_spec s k : k <= length s -> pos_at_tbl (pos_table s) k = pos_of s k.
Proof.
  intros H. unfold pos_at_tbl, pos_table. rewrite pos_scan_nth by exact H.
  rewrite advance_spec, firstn_length_le by exact H. reflexivity.
Qed.

Lemma andb_guard (a b c d : bool) : (a = true -> c = d) -> a && c = a && d.
Proof. destruct a; cbn; intros H; [apply H; reflexivity|reflexivity]. Qed.

Lemma fast_checks_equal src :
  (forall e, range_okb_tbl (pos_table src) (length src) src e = range_okb src e) /\
  (forall name from to, name_range_okb_tbl (pos_table src) (length src) src name from to = name_range_okb src name from to) /\
  (forall from to, plain_range_okb_tbl (pos_table src) (length src) from to = plain_range_okb src from to).
Proof.
  split; [|split].
  - intros e. unfold range_okb_tbl, range_okb.
    destruct (p_index (e_from e) <=? p_index (e_to e)) eqn:A; [|reflexivity].
    destruct (p_index (e_to e) <=? length src) eqn:B; [|reflexivity].
    apply Nat.leb_le in A, B. rewrite !pos_at_tbl_spec by lia. reflexivity.
  - intros name from to. unfold name_range_okb_tbl, name_range_okb.
    destruct (p_index to <=? length src) eqn:B; [|reflexivity].
    destruct (p_index to =? p_index from + length name) eqn:A; [|reflexivity].
    apply Nat.leb_le in B. apply Nat.eqb_eq in A. rewrite !pos_at_tbl_spec by lia. reflexivity.
  - intros from to. unfold plain_range_okb_tbl, plain_range_okb.
    destruct (p_index from <=? p_index to) eqn:A; [|reflexivity].
    destruct (p_index to <=? length src) eqn:B; [|reflexivity].
    apply Nat.leb_le in A, B. rewrite !pos_at_tbl_spec by lia. reflexivity.
Qed.

(* ================================================================== *)
(* J. saturating the recorded numbers at length src + 1 does not change any checked predicate *)
(* ================================================================== *)
Definition pos_le (n : nat) (p : position) : Prop := p_index p <= n /\ p_line p <= n /\ p_col p <= n.

Lemma until_lf_length p : length (until_lf p) <= length p.
Proof. induction p as [|b r IH]; cbn; [lia|]. destruct (is_lf b); cbn; lia. Qed.

Lemma filter_len_le {A} (f : A -> bool) l : length (filter f l) <= length l.
Proof. induction l as [|a r IH]; cbn; [lia|]. destruct (f a); cbn; lia. Qed.

Lemma pos_of_le s i : i <= length s -> pos_le (length s) (pos_of s i).
Proof.
  intros H. unfold pos_le, pos_of, count_lf, col_of. cbn [p_index p_line p_col].
  pose proof (firstn_le_length i s) as L.
  pose proof (filter_len_le is_lf (firstn i s)) as F.
  pose proof (until_lf_length (rev (firstn i s))) as U. rewrite rev_length in U. lia.
Qed.

Lemma sat_pos_id n p : pos_le n p -> sat_pos n p = p.
Proof. destruct p as [i l c]. unfold pos_le, sat_pos. cbn. intros (A & B & C). rewrite !Nat.min_l by lia. reflexivity. Qed.

Lemma sat_pos_le n p : pos_le n (sat_pos n p) -> pos_le n p.
Proof. destruct p as [i l c]. unfold pos_le, sat_pos. cbn. lia. Qed.

Lemma eq_pos_of_le s p : p_index p <= length s -> p = pos_of s (p_index p) -> pos_le (length s) p.
Proof. intros H E. rewrite E. apply pos_of_le. exact H. Qed.

Lemma range_ok_le src e : range_ok src e -> pos_le (length src) (e_from e) /\ pos_le (length src) (e_to e).
Proof. intros (A & B & C & D & _). split; apply eq_pos_of_le; auto; lia. Qed.
Lemma name_range_ok_le src name from to : name_range_ok src name from to -> pos_le (length src) from /\ pos_le (length src) to.
Proof. intros (A & B & C & D & _). split; apply eq_pos_of_le; auto; lia. Qed.
Lemma plain_range_ok_le src from to : plain_range_ok src from to -> pos_le (length src) from /\ pos_le (length src) to.
Proof. intros (A & B & C & D). split; apply eq_pos_of_le; auto; lia. Qed.

Lemma bool_eq_iff (a b : bool) : (a = true <-> b = true) -> a = b.
Proof. destruct a, b; intuition congruence. Qed.

Lemma saturated_checks_equal src :
  let n := length src in
  (forall v from to, range_okb src (mkexpr v (sat_pos n from) (sat_pos n to)) = range_okb src (mkexpr v from to)) /\
  (forall name from to, name_range_okb src name (sat_pos n from) (sat_pos n to) = name_range_okb src name from to) /\
  (forall from to, plain_range_okb src (sat_pos n from) (sat_pos n to) = plain_range_okb src from to).
Proof.
  cbv zeta. split; [|split]; intros; apply bool_eq_iff.
  - rewrite !range_okb_spec. split; intros H.
    + destruct (range_ok_le _ _ H) as [A B]. cbn [e_from e_to] in A, B.
      apply sat_pos_le in A, B. rewrite !sat_pos_id in H by assumption. exact H.
    + destruct (range_ok_le _ _ H) as [A B]. cbn [e_from e_to] in A, B. rewrite !sat_pos_id by assumption. exact H.
  - rewrite !name_range_okb_spec. split; intros H.
    + destruct (name_range_ok_le _ _ _ _ H) as [A B].
      apply sat_pos_le in A, B. rewrite !sat_pos_id in H by assumption. exact H.
    + destruct (name_range_ok_le _ _ _ _ H) as [A B]. rewrite !sat_pos_id by assumption. exact H.
  - rewrite !plain_range_okb_spec. split; intros H.
    + destruct (plain_range_ok_le _ _ _ H) as [A B].
      apply sat_pos_le in A, B. rewrite !sat_pos_id in H by assumption. exact H.
    + destruct (plain_range_ok_le _ _ _ H) as [A B]. rewrite !sat_pos_id by assumption. exact H.
Qed.
