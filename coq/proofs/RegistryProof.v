(* C12 - proofs about model/Registry.v against spec/RegistrySpec.v *)
From Coq.Strings Require Import Byte String.
From Coq Require Import List NArith Bool Arith Lia.
Import ListNotations.
From V Require Import lib.Bytes spec.RegistrySpec model.Registry.

(* ---------- induction principles for the two nested types ---------- *)
Section OpInd.
  Variable P : op -> Prop.
  Hypothesis HT : forall t, P (OText t).
  Hypothesis HR : forall s, P (ORender s).
  Hypothesis HS : forall l, P (OScriptItems l).
  Hypothesis HC : forall fs, P (OCSSItems fs).
  Hypothesis HE : forall fs ss, P (OElem fs ss).
  Hypothesis HO : forall h body, Forall P body -> P (OOnce h body).
  Hypothesis HOC : forall h body, Forall P body -> P (OOnceC h body).
  Hypothesis HOS : forall h, P (OOnceSelf h).
  Hypothesis HK : forall slot pre blk block post, Forall P pre -> Forall P block -> Forall P post ->
                                                  P (OCall slot pre blk block post).
  Hypothesis HN : forall n, P (ONonce n).
  Hypothesis HM : forall l, P (OMiddleware l).
  Fixpoint op_ind2 (o : op) : P o :=
    match o with
    | OText t => HT t
    | ONonce n => HN n
    | OMiddleware l => HM l
    | ORender s => HR s
    | OScriptItems l => HS l
    | OCSSItems fs => HC fs
    | OElem fs ss => HE fs ss
    | OOnce h body =>
        HO h body ((fix go (l : list op) : Forall P l :=
                      match l with
                      | [] => Forall_nil P
                      | x :: t => Forall_cons x (op_ind2 x) (go t)
                      end) body)
    | OOnceC h body =>
        HOC h body ((fix go (l : list op) : Forall P l :=
                      match l with
                      | [] => Forall_nil P
                      | x :: t => Forall_cons x (op_ind2 x) (go t)
                      end) body)
    | OOnceSelf h => HOS h
    | OCall slot pre blk block post =>
        HK slot pre blk block post
           ((fix go (l : list op) : Forall P l :=
               match l with
               | [] => Forall_nil P
               | x :: t => Forall_cons x (op_ind2 x) (go t)
               end) pre)
           ((fix go (l : list op) : Forall P l :=
               match l with
               | [] => Forall_nil P
               | x :: t => Forall_cons x (op_ind2 x) (go t)
               end) block)
           ((fix go (l : list op) : Forall P l :=
               match l with
               | [] => Forall_nil P
               | x :: t => Forall_cons x (op_ind2 x) (go t)
               end) post)
    end.
End OpInd.

Section FormInd.
  Variable P : cform -> Prop.
  Hypothesis HN : forall l, Forall P l -> P (FNested l).
  Hypothesis Hrest : forall f, (forall l, f <> FNested l) -> P f.
  Fixpoint cform_ind2 (f : cform) : P f.
  Proof.
    destruct f; try (apply Hrest; intros; discriminate).
    apply HN. induction l as [|x t IH]; constructor; [apply cform_ind2|exact IH].
  Defined.
End FormInd.

(* ---------- the registry is a set of ids: the two key prefixes never collide ---------- *)
Lemma memb_In n l : memb n l = true <-> In n l.
Proof.
  unfold memb. rewrite existsb_exists. split.
  - intros [x [Hx E]]. apply bytes_eqb_eq in E. subst. exact Hx.
  - intros H. exists n. split; [exact H|apply bytes_eqb_refl].
Qed.

Lemma id_eqb_eq a b : id_eqb a b = true <-> a = b.
Proof.
  destruct a, b; cbn; try (split; [discriminate|congruence]).
  - rewrite bytes_eqb_eq. split; congruence.
  - rewrite bytes_eqb_eq. split; congruence.
  - rewrite N.eqb_eq. split; congruence.
Qed.
Lemma id_eqb_refl a : id_eqb a a = true.
Proof. apply id_eqb_eq. reflexivity. Qed.

Lemma mem_id_In i l : mem_id i l = true <-> In i l.
Proof.
  unfold mem_id. rewrite existsb_exists. split.
  - intros [x [Hx E]]. apply id_eqb_eq in E. subst. exact Hx.
  - intros H. exists i. split; [exact H|apply id_eqb_refl].
Qed.

(* "script_"+a = "script_"+b only if a = b; "script_"+a is never "class_"+b *)
Lemma has_add r i j : has (add r i) j = id_eqb j i || has r j.
Proof.
  destruct i, j; cbn [has add ss hs id_eqb memb existsb]; try reflexivity;
    unfold script_, class_, bs; cbn; reflexivity.
Qed.

Definition Seen (r : reg) (i : id) : Prop := has r i = true.

Lemma seen_add r i j : Seen (add r i) j <-> j = i \/ Seen r j.
Proof. unfold Seen. rewrite has_add, orb_true_iff, id_eqb_eq. tauto. Qed.

Lemma add_nonce r i : nonce (add r i) = nonce r.
Proof. destruct i; reflexivity. Qed.

(* ---------- emit-if-absent-then-record ---------- *)
Lemma emit_new_spec {A} (idf : A -> id) (l : list A) : forall r r' n, emit_new idf r l = (r', n) ->
  (forall i, Seen r' i <-> Seen r i \/ In i (map idf n)) /\ NoDup (map idf n) /\
  (forall i, In i (map idf n) -> ~ Seen r i) /\ (forall x, In x l -> Seen r' (idf x)) /\
  nonce r' = nonce r /\ incl n l.
Proof.
  induction l as [|a t IH]; intros r r' n H; cbn [emit_new] in H.
  - inversion H; subst. cbn. repeat split; try tauto; try constructor; try (intros ? []).
  - destruct (has r (idf a)) eqn:Ha.
    + destruct (IH _ _ _ H) as [A1 [B [C [D [E F]]]]]. repeat split; auto; try apply A1.
      * intros x [->|Hx]; [apply A1; left; exact Ha|apply D; exact Hx].
      * intros x Hx. right. apply F. exact Hx.
    + destruct (emit_new idf (add r (idf a)) t) as [r1 n1] eqn:R. inversion H; subst.
      destruct (IH _ _ _ R) as [A1 [B [C [D [E F]]]]].
      assert (Na : ~ Seen r (idf a)) by (unfold Seen; congruence).
      cbn [map]. repeat split.
      * intros X. apply A1 in X as [X|X]; [apply seen_add in X as [->|X]; [right; left; reflexivity|left; exact X]|right; right; exact X].
      * intros [X|[<-|X]]; apply A1; [left; apply seen_add; right; exact X|left; apply seen_add; left; reflexivity|right; exact X].
      * constructor; [|exact B]. intros X. apply (C _ X). apply seen_add. left; reflexivity.
      * intros i [<-|X]; [exact Na|]. intros Y. apply (C i X). apply seen_add. right; exact Y.
      * intros x [->|X]; [apply A1; left; apply seen_add; left; reflexivity|apply D; exact X].
      * rewrite E. apply add_nonce.
      * intros x [<-|X]; [left; reflexivity|right; apply F; exact X].
Qed.

(* ---------- the invariant of one stretch of output ---------- *)
Definition uses_ok (r : reg) (e : list ev) : Prop :=
  forall pre i post, e = pre ++ Use i :: post -> Seen r i \/ In i (defs pre) \/ In i (regs pre).
Definition ok (r r' : reg) (e : list ev) : Prop :=
  (forall i, Seen r' i <-> Seen r i \/ In i (defs e) \/ In i (regs e)) /\ NoDup (defs e) /\
  (forall i, In i (defs e) -> ~ Seen r i) /\ uses_ok r e /\ never_inlined_once_registered e.

Lemma defs_app a b : defs (a ++ b) = defs a ++ defs b.
Proof. unfold defs. apply flat_map_app. Qed.
Lemma regs_app a b : regs (a ++ b) = regs a ++ regs b.
Proof. unfold regs. apply flat_map_app. Qed.

Lemma ok_nil r : ok r r [].
Proof.
  unfold ok. split; [intros; cbn; tauto|]. split; [constructor|]. split; [intros i []|]. split.
  - intros p i q X. destruct p; discriminate.
  - intros p i q X. destruct p; discriminate.
Qed.

Lemma NoDup_app_intro {A} (a b : list A) : NoDup a -> NoDup b -> (forall x, In x a -> In x b -> False) -> NoDup (a ++ b).
Proof.
  induction a as [|x a IH]; intros Ha Hb H; [exact Hb|]. inversion Ha; subst. cbn. constructor.
  - intros X. apply in_app_or in X as [X|X]; [contradiction|]. apply (H x); [left; reflexivity|exact X].
  - apply IH; auto. intros y Y1 Y2. apply (H y); [right; exact Y1|exact Y2].
Qed.

Lemma split_at (e1 e2 pre post : list ev) x : e1 ++ e2 = pre ++ x :: post ->
  (exists p2, pre = e1 ++ p2 /\ e2 = p2 ++ x :: post) \/ (exists q, e1 = pre ++ x :: q /\ post = q ++ e2).
Proof.
  revert pre. induction e1 as [|y e1 IH]; intros pre E.
  - left. exists pre. split; [reflexivity|exact E].
  - destruct pre as [|z pre].
    + cbn in E. inversion E; subst. right. eexists. split; reflexivity.
    + cbn in E. inversion E; subst. destruct (IH pre H1) as [[p2 [-> Hp]]|[q [-> ->]]].
      * left. exists p2. split; [reflexivity|exact Hp].
      * right. exists q. split; reflexivity.
Qed.

Lemma ok_seq r r1 r2 e1 e2 : ok r r1 e1 -> ok r1 r2 e2 -> ok r r2 (e1 ++ e2).
Proof.
  intros [A1 [B1 [C1 [D1 E1]]]] [A2 [B2 [C2 [D2 E2]]]]. unfold ok. rewrite defs_app, regs_app.
  split; [|split; [|split; [|split]]].
  - intros i. rewrite A2, A1, !in_app_iff. tauto.
  - apply NoDup_app_intro; auto. intros i X Y. apply (C2 i Y). apply A1. right. left. exact X.
  - intros i X. apply in_app_or in X as [X|X]; [apply C1; exact X|]. intros Y. apply (C2 i X). apply A1. left. exact Y.
  - intros pre i post E. destruct (split_at _ _ _ _ _ E) as [[p2 [-> Ep]]|[q [Eq _]]].
    + rewrite defs_app, regs_app, !in_app_iff. destruct (D2 _ _ _ Ep) as [X|[X|X]]; [|tauto|tauto].
      apply A1 in X. tauto.
    + apply (D1 _ _ _ Eq).
  - intros pre i post E. destruct (split_at _ _ _ _ _ E) as [[p2 [-> Ep]]|[q [Eq ->]]].
    + apply (E2 _ _ _ Ep).
    + rewrite defs_app, in_app_iff. intros [X|X]; [apply (E1 _ _ _ Eq); exact X|].
      apply (C2 i X). apply A1. right. right. rewrite Eq, regs_app. apply in_or_app. right. left. reflexivity.
Qed.

Lemma defs_map_def {A} (f : A -> id) l : defs (map (fun x => Def (f x)) l) = map f l.
Proof. induction l as [|x t IH]; cbn; [reflexivity|]. f_equal. exact IH. Qed.
Lemma defs_map_use {A} (f : A -> id) l : defs (map (fun x => Use (f x)) l) = [].
Proof. induction l as [|x t IH]; cbn; [reflexivity|exact IH]. Qed.
Lemma regs_map_def {A} (f : A -> id) l : regs (map (fun x => Def (f x)) l) = [].
Proof. induction l as [|x t IH]; cbn; [reflexivity|exact IH]. Qed.
Lemma regs_map_use {A} (f : A -> id) l : regs (map (fun x => Use (f x)) l) = [].
Proof. induction l as [|x t IH]; cbn; [reflexivity|exact IH]. Qed.
Lemma regs_map_reg {A} (f : A -> id) l : regs (map (fun x => Reg (f x)) l) = map f l.
Proof. induction l as [|x t IH]; cbn; [reflexivity|]. f_equal. exact IH. Qed.
Lemma defs_map_reg {A} (f : A -> id) l : defs (map (fun x => Reg (f x)) l) = [].
Proof. induction l as [|x t IH]; cbn; [reflexivity|exact IH]. Qed.
(* a stretch that holds no event of some kind *)
Lemma no_such_ev {A} (g : A -> ev) (x : ev) l pre post :
  (forall a, g a <> x) -> map g l = pre ++ x :: post -> False.
Proof.
  intros N E. assert (In x (map g l)) as X by (rewrite E; apply in_or_app; right; left; reflexivity).
  apply in_map_iff in X as [a [X _]]. exact (N a X).
Qed.

Lemma ok_emit {A} (idf : A -> id) r l r' n : emit_new idf r l = (r', n) -> ok r r' (map (fun x => Def (idf x)) n).
Proof.
  intros H. destruct (emit_new_spec idf l r r' n H) as [A1 [B [C _]]].
  unfold ok. rewrite defs_map_def, regs_map_def. split; [intros i; rewrite A1; cbn; tauto|]. split; [exact B|]. split; [exact C|]. split.
  - intros pre i post E. exfalso. apply (fun N => no_such_ev _ _ _ _ _ N E). intros a; discriminate.
  - intros pre i post E. exfalso. apply (fun N => no_such_ev _ _ _ _ _ N E). intros a; discriminate.
Qed.

Lemma ok_uses r (us : list id) : (forall i, In i us -> Seen r i) -> ok r r (map Use us).
Proof.
  intros H. unfold ok. assert (D : defs (map Use us) = []) by (apply (defs_map_use (fun i => i))).
  assert (G : regs (map Use us) = []) by (apply (regs_map_use (fun i => i))).
  rewrite D, G. split; [intros; cbn; tauto|]. split; [constructor|]. split; [intros i []|]. split.
  - intros pre i post E. left. apply H.
    assert (In (Use i) (map Use us)) as X by (rewrite E; apply in_or_app; right; left; reflexivity).
    apply in_map_iff in X as [x [X Hx]]. inversion X; subst. exact Hx.
  - intros pre i post E. exfalso. apply (fun N => no_such_ev _ _ _ _ _ N E). intros a; discriminate.
Qed.

(* the context passes through a CSS middleware: the registry it carries already is extended *)
Lemma fold_add_seen ks : forall r i, Seen (fold_left (fun r k => add r (clid k)) ks r) i <-> Seen r i \/ In i (map clid ks).
Proof.
  induction ks as [|k t IH]; intros r i; cbn [fold_left map In]; [tauto|].
  rewrite IH, seen_add. split; [intros [[X|X]|X]; auto|intros [X|[X|X]]; auto].
Qed.

Lemma ok_regs r ks : ok r (add_classes r ks) (map (fun c => Reg (clid c)) ks).
Proof.
  unfold ok, add_classes. rewrite defs_map_reg, regs_map_reg.
  split; [intros i; rewrite fold_add_seen; cbn; tauto|]. split; [constructor|]. split; [intros i []|]. split.
  - intros pre i post E. exfalso. apply (fun N => no_such_ev _ _ _ _ _ N E). intros a; discriminate.
  - intros pre i post E X.
    assert (Y : defs (map (fun c => Reg (clid c)) ks) = []) by apply defs_map_reg.
    rewrite E, defs_app in Y. cbn [defs flat_map app] in Y. fold (defs post) in Y.
    apply app_eq_nil in Y as [_ Y]. rewrite Y in X. exact X.
Qed.

Lemma ok_def1 r i : ~ Seen r i -> ok r (add r i) [Def i].
Proof.
  intros N. unfold ok. change (defs [Def i]) with [i]. change (regs [Def i]) with (@nil id). split; [|split; [|split; [|split]]].
  - intros j. rewrite seen_add. cbn [In]. split; intros H.
    + destruct H as [H|H]; [subst; right; left; left; reflexivity|left; exact H].
    + destruct H as [H|[[H|H]|H]]; [right; exact H|left; symmetry; exact H|contradiction|contradiction].
  - constructor; [intros []|constructor].
  - intros j [<-|[]]. exact N.
  - intros pre j post E. destruct pre as [|a [|b p]]; discriminate.
  - intros pre j post E. destruct pre as [|a [|b p]]; discriminate.
Qed.

(* ---------- class container forms ---------- *)
Lemma held_class_rules k b c : In (c, true) (held_class k b) <-> In c (if b then rules_class k else []).
Proof.
  destruct k, b; cbn; split; intros H; try tauto; destruct H as [H|[]]; try discriminate; left; congruence.
Qed.

Lemma held_rules f : forall c, In (c, true) (held f) <-> In c (rules_of f).
Proof.
  induction f as [l IH|f Hf] using cform_ind2; intros c.
  - cbn [held rules_of]. rewrite !in_flat_map. rewrite Forall_forall in IH.
    split; intros [x [Hx X]]; exists x; (split; [exact Hx|]); apply (IH x Hx); exact X.
  - destruct f; cbn [held rules_of]; try tauto.
    + split; intros [X|[]]; left; congruence.
    + rewrite !in_flat_map. split; intros [[k b] [Hx X]]; exists (k, b); (split; [exact Hx|]); apply held_class_rules; exact X.
    + apply held_class_rules.
    + destruct b; cbn; [split; intros [X|[]]; left; congruence|split; [intros [X|[]]; discriminate|intros []]].
    + exfalso. apply (Hf l). reflexivity.
    + rewrite !in_flat_map. split; intros [k [Hx X]]; exists k; (split; [exact Hx|]); apply (held_class_rules k true); exact X.
    + apply (held_class_rules k true).
Qed.

Lemma held_l_rules fs c : In (c, true) (held_l fs) <-> In c (rules_l fs).
Proof.
  unfold held_l, rules_l. rewrite !in_flat_map.
  split; intros [x [Hx X]]; exists x; (split; [exact Hx|]); apply held_rules; exact X.
Qed.

Lemma held_enabled_In fs c : In c (held_enabled fs) <-> In (c, true) (held_l fs).
Proof.
  unfold held_enabled. rewrite in_flat_map. split.
  - intros [[k b] [Hx X]]. destruct b; cbn in X; [destruct X as [<-|[]]; exact Hx|contradiction].
  - intros H. exists (c, true). split; [exact H|left; reflexivity].
Qed.

Lemma held_class_names k b c b' : In (c, b') (held_class k b) -> (cid c, b') = (class_name k, b).
Proof. destruct k; cbn; try tauto. intros [X|[]]. inversion X; subst. reflexivity. Qed.

Lemma held_names f : forall c b, In (c, b) (held f) -> In (cid c, b) (names_of f).
Proof.
  induction f as [l IH|f Hf] using cform_ind2; intros c b.
  - cbn [held names_of]. rewrite !in_flat_map. rewrite Forall_forall in IH.
    intros [x [Hx X]]. exists x. split; [exact Hx|apply (IH x Hx); exact X].
  - destruct f; cbn [held names_of]; try (cbn; tauto).
    + intros [X|[]]. inversion X; subst. left; reflexivity.
    + rewrite in_flat_map. intros [[k b0] [Hx X]]. apply held_class_names in X. cbn [fst snd] in X. rewrite X.
      apply in_map_iff. exists (k, b0). split; [reflexivity|exact Hx].
    + intros X. apply held_class_names in X. left. symmetry. exact X.
    + intros [X|[]]. inversion X; subst. left; reflexivity.
    + exfalso. apply (Hf l). reflexivity.
    + rewrite !in_flat_map. intros [k [Hx X]]. exists k. split; [exact Hx|].
      destruct k; cbn in X; try contradiction. destruct X as [X|[]]. inversion X; subst. left; reflexivity.
    + intros X. apply held_class_names in X. left. symmetry. exact X.
Qed.

Lemma held_l_names fs c b : In (c, b) (held_l fs) -> In (cid c, b) (names_l fs).
Proof.
  unfold held_l, names_l. rewrite !in_flat_map. intros [x [Hx X]]. exists x. split; [exact Hx|apply held_names; exact X].
Qed.

(* cssProcessor.String *)
Lemma dedup_In n : forall l seen, In n (dedup seen l) <-> In n l /\ ~ In n seen.
Proof.
  induction l as [|a t IH]; intros seen; cbn [dedup].
  - cbn. tauto.
  - destruct (memb a seen) eqn:M.
    + rewrite IH. apply memb_In in M. cbn. split; [tauto|]. intros [[->|X] N]; [contradiction|tauto].
    + assert (~ In a seen) as Na by (intros X; apply memb_In in X; congruence).
      cbn [In]. rewrite IH. cbn [In]. split.
      * intros [->|[X N]]; [tauto|]. split; [tauto|]. intros Y. apply N. right. exact Y.
      * intros [[->|X] N]; [left; reflexivity|]. destruct (list_eq_dec Byte.byte_eq_dec a n) as [->|D]; [left; reflexivity|].
        right. split; [exact X|]. intros [Y|Y]; [contradiction|contradiction].
Qed.

Lemma enabled_names_In l n : In n (enabled_names l) <-> In n (map fst l) /\ last_enabled l n = true.
Proof.
  unfold enabled_names. rewrite dedup_In, filter_In. cbn. tauto.
Qed.

Lemma last_enabled_true l n : (exists b, In (n, b) l) -> ~ In (n, false) l -> last_enabled l n = true.
Proof.
  intros [b Hb] Nf. unfold last_enabled.
  destruct (find (fun kv : bytes * bool => bytes_eqb (fst kv) n) (rev l)) as [[k v]|] eqn:F.
  - apply find_some in F as [F1 F2]. cbn in F2. apply bytes_eqb_eq in F2. subst k.
    apply in_rev in F1. cbn. destruct v; [reflexivity|contradiction].
  - exfalso. assert (X : bytes_eqb (fst (n, b)) n = false).
    { apply (find_none _ _ F (n, b)). apply in_rev. rewrite rev_involutive. exact Hb. }
    cbn in X. rewrite bytes_eqb_refl in X. discriminate.
Qed.

Lemma last_enabled_set l n : last_enabled l n = true -> In (n, true) l.
Proof.
  unfold last_enabled. destruct (find (fun kv : bytes * bool => bytes_eqb (fst kv) n) (rev l)) as [[k v]|] eqn:F; [|discriminate].
  apply find_some in F as [F1 F2]. cbn in F2. apply bytes_eqb_eq in F2. subst k. cbn. intros ->.
  apply in_rev. exact F1.
Qed.

(* every container form: the rule is considered exactly when the form holds the class switched on; the
   name is set with the switch the form gives it; the class attribute carries the name unless the
   expression itself switches it off; and a name carried by the attribute was set, switched on, by some form *)
Theorem form_coherent (fs : list cform) (k : cls) :
  (In (k, true) (held_l fs) <-> In k (rules_l fs)) /\
  (forall b, In (k, b) (held_l fs) -> In (cid k, b) (names_l fs)) /\
  (In (k, true) (held_l fs) -> ~ In (cid k, false) (names_l fs) -> In (cid k) (class_attr fs)) /\
  (forall n, In n (class_attr fs) -> In (n, true) (names_l fs)).
Proof.
  split; [apply held_l_rules|]. split; [intros b; apply held_l_names|]. split.
  - intros H N. unfold class_attr. apply enabled_names_In. split.
    + apply in_map_iff. exists (cid k, true). split; [reflexivity|apply held_l_names; exact H].
    + apply last_enabled_true; [exists true; apply held_l_names; exact H|exact N].
  - intros n H. apply enabled_names_In in H as [_ H]. apply last_enabled_set. exact H.
Qed.

(* ---------- steps ---------- *)
Lemma log_app a b : log (a ++ b) = log a ++ log b.
Proof. unfold log. apply flat_map_app. Qed.
Lemma wants_app a b : wants (a ++ b) = wants a ++ wants b.
Proof. unfold wants. apply flat_map_app. Qed.
Lemma log_cons c t : log (c :: t) = log1 c ++ log t.
Proof. reflexivity. Qed.
Lemma wants_cons c t : wants (c :: t) = want1 c ++ wants t.
Proof. reflexivity. Qed.
Lemma log_call_attrs sl : log (map KCallAttr sl) = map Use (map sid sl).
Proof. induction sl as [|s t IH]; cbn; [reflexivity|]. f_equal. exact IH. Qed.
Lemma wants_call_attrs sl : wants (map KCallAttr sl) = map WCallAttr sl.
Proof. induction sl as [|s t IH]; cbn; [reflexivity|]. f_equal. exact IH. Qed.

Lemma seqf_step : seqf step = run.
Proof. reflexivity. Qed.
Lemma seqf_wanted : seqf wanted1 = wanted.
Proof. reflexivity. Qed.

Lemma step_once r h body :
  step r (OOnce h body) =
  if has r (Handle h) then (set_kids (set_kids r (Some body)) None, [KOnceSkip h])
  else let '(r', c) := run (set_kids (add (set_kids r (Some body)) (Handle h)) None) body in
       (set_kids (set_kids r' (Some body)) None, KOnceBegin h :: c ++ [KOnceEnd h]).
Proof. reflexivity. Qed.
Lemma step_oncec r h body :
  step r (OOnceC h body) =
  if has r (Handle h) then (r, [KOnceSkip h])
  else let '(r', c) := run (set_kids (add r (Handle h)) None) body in (r', KOnceBegin h :: c ++ [KOnceEnd h]).
Proof. reflexivity. Qed.
Lemma step_call r slot pre blk block post :
  step r (OCall slot pre blk block post) =
  let r0 := if blk then set_kids r (Some block) else r in
  let '(r1, c1) := run (set_kids r0 None) pre in
  let '(r2, c2) := if slot then (if blk then run r1 block
                                 else (r1, match kids r0 with None => [] | Some b => [KLeak b] end))
                   else (r1, []) in
  let '(r3, c3) := run r2 post in
  (if blk then set_kids r3 None else r3, c1 ++ c2 ++ c3).
Proof. reflexivity. Qed.

(* the children slot is no part of what has been rendered *)
Definition same_seen (a b : reg) : Prop := forall i, has a i = has b i.
Lemma same_seen_kids r k : same_seen (set_kids r k) r.
Proof. intros [n|c|h]; reflexivity. Qed.
Lemma same_seen_refl r : same_seen r r.
Proof. intros i; reflexivity. Qed.
Lemma same_seen_sym a b : same_seen a b -> same_seen b a.
Proof. intros H i. symmetry. apply H. Qed.
Lemma same_seen_trans a b c : same_seen a b -> same_seen b c -> same_seen a c.
Proof. intros H1 H2 i. rewrite H1. apply H2. Qed.
Lemma same_seen_kids2 r a b : same_seen (set_kids (set_kids r a) b) r.
Proof. intros [n|c|h]; reflexivity. Qed.
Lemma same_seen_add a b i : same_seen a b -> same_seen (add a i) (add b i).
Proof. intros H j. rewrite !has_add, H. reflexivity. Qed.
Lemma ok_ext r r' a a' e : same_seen a r -> same_seen a' r' -> ok r r' e -> ok a a' e.
Proof.
  intros Ha Ha' [A [B [C [D E]]]]. unfold ok, uses_ok, Seen in *. split; [|split; [|split; [|split]]].
  - intros i. rewrite Ha, Ha'. apply A.
  - exact B.
  - intros i X. rewrite Ha. apply C. exact X.
  - intros pre i post X. rewrite Ha. apply (D _ _ _ X).
  - exact E.
Qed.
Lemma log_leak (k : option (list op)) : log (match k with None => [] | Some b => [KLeak b] end) = [].
Proof. destruct k; reflexivity. Qed.
Lemma wants_leak (k : option (list op)) : wants (match k with None => [] | Some b => [KLeak b] end) = [].
Proof. destruct k; reflexivity. Qed.

Lemma elem_ok r fs sl r' c : elem r fs sl = (r', c) -> ok r r' (log c).
Proof.
  unfold elem. destruct (emit_new clid r (rules_l fs)) as [r1 nc] eqn:E1.
  destruct (emit_new sid r1 sl) as [r2 nsc] eqn:E2. intros H. inversion H; subst. clear H.
  destruct (emit_new_spec _ _ _ _ _ E1) as [A1 [_ [_ [D1 _]]]].
  destruct (emit_new_spec _ _ _ _ _ E2) as [A2 [_ [_ [D2 _]]]].
  rewrite !log_cons, !log_app. cbn [log1 app].
  apply (ok_seq r r1 r'); [apply ok_emit with (1 := E1)|].
  apply (ok_seq r1 r' r'); [apply ok_emit with (1 := E2)|].
  assert (Hc : ok r' r' (log (match fs with [] => [] | _ :: _ => [KClassAttr fs] end))).
  { destruct fs as [|f fs']; [apply ok_nil|]. cbn [log flat_map log1]. rewrite app_nil_r.
    rewrite <- (map_map clid Use). apply ok_uses. intros i Hi. apply in_map_iff in Hi as [k [<- Hk]].
    unfold used_comps in Hk. apply filter_In in Hk as [Hk _]. apply held_enabled_In in Hk. apply held_l_rules in Hk.
    apply A2. left. apply D1. exact Hk. }
  apply (ok_seq r' r' r'); [exact Hc|].
  rewrite log_call_attrs.
  apply (ok_seq r' r' r'); [|apply ok_nil].
  apply ok_uses. intros i Hi. apply in_map_iff in Hi as [s [<- Hs]]. apply D2. exact Hs.
Qed.

Definition step_ok_at (o : op) : Prop := forall r r' c, step r o = (r', c) -> ok r r' (log c).

Lemma run_ok_F l : Forall step_ok_at l -> forall r r' c, run r l = (r', c) -> ok r r' (log c).
Proof.
  induction l as [|o t IH]; intros F r r' c H; cbn [run] in H.
  - inversion H; subst. apply ok_nil.
  - apply Forall_cons_iff in F as [F1 F2]. destruct (step r o) as [r1 c1] eqn:S1. destruct (run r1 t) as [r2 c2] eqn:R.
    inversion H; subst. rewrite log_app. apply (ok_seq r r1 r'); [apply F1; exact S1|apply IH; assumption].
Qed.

Lemma ok_once_body r h r0 r1 c1 :
  same_seen r0 (add r (Handle h)) -> ~ Seen r (Handle h) -> ok r0 r1 (log c1) ->
  ok r r1 (log (KOnceBegin h :: c1 ++ [KOnceEnd h])).
Proof.
  intros S0 N Hb. rewrite log_cons, log_app. cbn [log flat_map log1 app].
  change (Def (Handle h) :: log c1 ++ [Use (Handle h)]) with ([Def (Handle h)] ++ log c1 ++ [Use (Handle h)]).
  apply (ok_seq r (add r (Handle h)) r1); [apply ok_def1; exact N|].
  apply (ok_seq _ r1 r1); [apply (ok_ext r0 r1); [apply same_seen_sym; exact S0|apply same_seen_refl|exact Hb]|].
  apply (ok_uses r1 [Handle h]). intros i [<-|[]]. apply Hb. left. unfold Seen. rewrite S0, has_add, id_eqb_refl. reflexivity.
Qed.

Lemma step_ok o : step_ok_at o.
Proof.
  induction o as [t|s|l|fs|fs sl|h body IH|h body IH|h|slot pre blk block post IHpre IHblock IHpost|n|l] using op_ind2; intros r r' c H.
  - cbn in H. inversion H; subst. apply ok_nil.
  - cbn [step] in H. destruct (emit_new sid r [s]) as [r1 n] eqn:E. inversion H; subst. clear H.
    destruct (emit_new_spec _ _ _ _ _ E) as [_ [_ [_ [D _]]]].
    change (KScriptTag (nonce r) n :: ?x) with ([KScriptTag (nonce r) n] ++ x). rewrite log_app.
    cbn [log flat_map log1]. rewrite app_nil_r.
    apply (ok_seq r r' r'); [apply ok_emit with (1 := E)|].
    destruct (scall s); [apply ok_nil|]. cbn. apply (ok_uses r' [sid s]). intros i [<-|[]]. apply D. left; reflexivity.
  - cbn [step] in H. destruct (emit_new sid r l) as [r1 n] eqn:E. inversion H; subst.
    cbn [log flat_map log1]. rewrite app_nil_r. apply ok_emit with (1 := E).
  - cbn [step] in H. destruct (emit_new clid r (rules_l fs)) as [r1 n] eqn:E. inversion H; subst.
    cbn [log flat_map log1]. rewrite app_nil_r. apply ok_emit with (1 := E).
  - cbn [step] in H. apply elem_ok with (1 := H).
  - (* a handle given a block *)
    rewrite step_once in H. destruct (has r (Handle h)) eqn:Hh.
    + inversion H; subst. cbn [log flat_map log1 app].
      apply (ok_ext r r); [apply same_seen_refl|apply same_seen_kids2|].
      apply (ok_uses r [Handle h]). intros i [<-|[]]. exact Hh.
    + destruct (run (set_kids (add (set_kids r (Some body)) (Handle h)) None) body) as [r1 c1] eqn:R. inversion H; subst. clear H.
      assert (N : ~ Seen r (Handle h)) by (unfold Seen; congruence).
      pose proof (run_ok_F body IH _ _ _ R) as Hb.
      apply (ok_ext r r1); [apply same_seen_refl|apply same_seen_kids2|].
      refine (ok_once_body r h _ r1 c1 _ N Hb).
      eapply same_seen_trans; [apply same_seen_kids|]. apply same_seen_add, same_seen_kids.
  - (* a handle built with a component *)
    rewrite step_oncec in H. destruct (has r (Handle h)) eqn:Hh.
    + inversion H; subst. cbn. apply (ok_uses r' [Handle h]). intros i [<-|[]]. exact Hh.
    + destruct (run (set_kids (add r (Handle h)) None) body) as [r1 c1] eqn:R. inversion H; subst. clear H.
      assert (N : ~ Seen r (Handle h)) by (unfold Seen; congruence).
      pose proof (run_ok_F body IH _ _ _ R) as Hb.
      refine (ok_once_body r h _ r' c1 _ N Hb). apply same_seen_kids.
  - (* a handle with neither component nor block *)
    cbn [step] in H. destruct (has r (Handle h)) eqn:Hh.
    + inversion H; subst. cbn. apply (ok_uses r' [Handle h]). intros i [<-|[]]. exact Hh.
    + assert (N : ~ Seen r (Handle h)) by (unfold Seen; congruence).
      assert (L : log c = [Def (Handle h)] ++ [Use (Handle h)]) by (inversion H; subst; destruct (kids r); reflexivity).
      assert (R' : r' = add r (Handle h)) by (inversion H; reflexivity). rewrite L, R'.
      apply (ok_seq r (add r (Handle h)) _); [apply ok_def1; exact N|].
      apply (ok_uses _ [Handle h]). intros i [<-|[]]. apply seen_add. left; reflexivity.
  - (* a component called with or without a block *)
    rewrite step_call in H. cbv zeta in H.
    set (r0 := if blk then set_kids r (Some block) else r) in *.
    assert (S0 : same_seen (set_kids r0 None) r).
    { eapply same_seen_trans; [apply same_seen_kids|]. unfold r0. destruct blk; [apply same_seen_kids|apply same_seen_refl]. }
    destruct (run (set_kids r0 None) pre) as [r1 c1] eqn:R1.
    pose proof (run_ok_F pre IHpre _ _ _ R1) as H1.
    assert (H2 : exists r2 c2 r3 c3, ok r1 r2 (log c2) /\ ok r2 r3 (log c3) /\ same_seen r' r3 /\ c = c1 ++ c2 ++ c3).
    { destruct slot; [destruct blk|].
      - destruct (run r1 block) as [r2 c2] eqn:R2. destruct (run r2 post) as [r3 c3] eqn:R3. inversion H; subst.
        exists r2, c2, r3, c3. split; [apply (run_ok_F block IHblock _ _ _ R2)|]. split; [apply (run_ok_F post IHpost _ _ _ R3)|].
        split; [apply same_seen_kids|reflexivity].
      - destruct (run r1 post) as [r3 c3] eqn:R3. inversion H; subst.
        exists r1, (match kids r0 with None => [] | Some b => [KLeak b] end), r', c3.
        split; [rewrite log_leak; apply ok_nil|]. split; [apply (run_ok_F post IHpost _ _ _ R3)|].
        split; [apply same_seen_refl|reflexivity].
      - destruct (run r1 post) as [r3 c3] eqn:R3. inversion H; subst.
        exists r1, [], r3, c3. split; [apply ok_nil|]. split; [apply (run_ok_F post IHpost _ _ _ R3)|].
        split; [destruct blk; [apply same_seen_kids|apply same_seen_refl]|reflexivity]. }
    destruct H2 as [r2 [c2 [r3 [c3 [K2 [K3 [S3 ->]]]]]]]. rewrite !log_app.
    apply (ok_ext r r3); [apply same_seen_refl|exact S3|].
    apply (ok_seq r r1 r3); [apply (ok_ext _ r1 _ _ _ (same_seen_sym _ _ S0) (same_seen_refl _) H1)|].
    apply (ok_seq r1 r2 r3); assumption.
  - cbn in H. inversion H; subst. cbn.
    (* the nonce is not part of what has been rendered *)
    unfold ok. change (defs []) with (@nil id). change (regs []) with (@nil id).
    split; [|split; [constructor|split; [intros i []|split]]].
    + intros i. unfold Seen. assert (E : has (set_nonce r n) i = has r i) by (destruct i; reflexivity). rewrite E. cbn. tauto.
    + intros p i q X. destruct p; discriminate.
    + intros p i q X. destruct p; discriminate.
  - cbn in H. inversion H; subst. cbn [log flat_map log1]. rewrite app_nil_r. apply ok_regs.
Qed.

Theorem run_ok l r r' c : run r l = (r', c) -> ok r r' (log c).
Proof. apply run_ok_F. apply Forall_forall. intros o _. apply step_ok. Qed.

(* ---------- contexts as the middleware / InitializeContext hands them over ---------- *)
Lemma init_seen cf i : Seen (init_reg cf) i <-> exists k, In k (mw_comps cf) /\ i = clid k.
Proof.
  unfold init_reg, add_classes. rewrite fold_add_seen. split.
  - intros [X|X]; [destruct i; cbn in X; discriminate|]. apply in_map_iff in X as [k [<- Hk]]. exists k. tauto.
  - intros [k [Hk ->]]. right. apply in_map. exact Hk.
Qed.

Theorem emit_at_most_once cf ops r' c : run (init_reg cf) ops = (r', c) -> at_most_once (log c).
Proof. intros H. apply (run_ok _ _ _ _ H). Qed.

Theorem emit_before_first_use cf ops r' c : run (init_reg cf) ops = (r', c) ->
  before_first_use (fun i => exists k, In k (mw_comps cf) /\ i = clid k) (log c).
Proof.
  intros H pre i post E. destruct (run_ok _ _ _ _ H) as [_ [_ [_ [U _]]]].
  destruct (U pre i post E) as [X|X]; [left; apply init_seen; exact X|right; exact X].
Qed.

(* a middleware the context passes through at any point: what it registers is not written into the page afterwards *)
Theorem registered_midway_never_inlined r ops r' c : run r ops = (r', c) -> never_inlined_once_registered (log c).
Proof. intros H. apply (run_ok _ _ _ _ H). Qed.

Theorem middleware_never_inlined cf ops r' c k : run (init_reg cf) ops = (r', c) ->
  In k (mw_comps cf) -> ~ In (Def (clid k)) (log c).
Proof.
  intros H Hk X. destruct (run_ok _ _ _ _ H) as [_ [_ [C _]]].
  apply (C (clid k)).
  - unfold defs. apply in_flat_map. exists (Def (clid k)). split; [exact X|left; reflexivity].
  - apply init_seen. exists k. tauto.
Qed.

Theorem sheet_serves_registered l k : In k (handler_comps l) ->
  exists a b, sheet_of l = a ++ crule k ++ b.
Proof.
  unfold sheet_of. induction (handler_comps l) as [|x t IH]; intros []; subst.
  - exists [], (concat (map crule t)). reflexivity.
  - destruct (IH H) as [a [b E]]. exists (crule x ++ a), b. cbn. rewrite E, app_assoc. reflexivity.
Qed.
Theorem stylesheet_serves_registered cf k : In k (mw_comps cf) ->
  exists a b, stylesheet cf = a ++ crule k ++ b.
Proof.
  unfold stylesheet, mw_comps. destruct (cmw cf) as [l|]; [apply sheet_serves_registered|intros []].
Qed.

(* a registered class is exactly a ComponentCSSClass passed to NewCSSMiddleware *)
Lemma mw_comps_In cf k : In k (mw_comps cf) <-> exists l, cmw cf = Some l /\ In (KComp k) l.
Proof.
  unfold mw_comps, handler_comps. destruct (cmw cf) as [l|].
  - rewrite in_flat_map. split.
    + intros [x [Hx X]]. destruct x; cbn in X; try contradiction. destruct X as [<-|[]]. exists l. tauto.
    + intros [l' [E H]]. inversion E; subst. exists (KComp k). split; [exact H|left; reflexivity].
  - split; [intros []|intros [l [E _]]; discriminate].
Qed.

(* ---------- every use is served ---------- *)
Lemma emit_new_hs {A} (idf : A -> id) (Hn : forall x, match idf x with Handle _ => False | _ => True end) (l : list A) :
  forall r r' n, emit_new idf r l = (r', n) -> hs r' = hs r.
Proof.
  induction l as [|a t IH]; intros r r' n H; cbn [emit_new] in H.
  - inversion H; reflexivity.
  - destruct (has r (idf a)); [apply (IH _ _ _ H)|].
    destruct (emit_new idf (add r (idf a)) t) as [r1 n1] eqn:R. inversion H; subst.
    rewrite (IH _ _ _ R). specialize (Hn a). destruct (idf a); try reflexivity. contradiction.
Qed.
Lemma sid_nh : forall x, match sid x with Handle _ => False | _ => True end. Proof. intros; exact I. Qed.
Lemma clid_nh : forall x, match clid x with Handle _ => False | _ => True end. Proof. intros; exact I. Qed.

Lemma fold_add_hs ks : forall r, hs (fold_left (fun r k => add r (clid k)) ks r) = hs r.
Proof. induction ks as [|k t IH]; intros r; cbn; [reflexivity|]. rewrite IH. reflexivity. Qed.

Lemma wanted1_once hs0 h body :
  wanted1 hs0 (OOnce h body) = if existsb (N.eqb h) hs0 then (hs0, []) else wanted (h :: hs0) body.
Proof. reflexivity. Qed.
Lemma wanted1_oncec hs0 h body :
  wanted1 hs0 (OOnceC h body) = if existsb (N.eqb h) hs0 then (hs0, []) else wanted (h :: hs0) body.
Proof. reflexivity. Qed.
Lemma wanted1_call hs0 slot pre blk block post :
  wanted1 hs0 (OCall slot pre blk block post) =
  let '(h1, w1) := wanted hs0 pre in
  let '(h2, w2) := if slot && blk then wanted h1 block else (h1, []) in
  let '(h3, w3) := wanted h2 post in
  (h3, w1 ++ w2 ++ w3).
Proof. reflexivity. Qed.

Definition step_served_at (o : op) : Prop :=
  forall r r' c, step r o = (r', c) -> (hs r', wants c) = wanted1 (hs r) o.

Lemma run_served_F l : Forall step_served_at l ->
  forall r r' c, run r l = (r', c) -> (hs r', wants c) = wanted (hs r) l.
Proof.
  induction l as [|o t IH]; intros F r r' c H; cbn [run] in H.
  - inversion H; subst. reflexivity.
  - apply Forall_cons_iff in F as [F1 F2]. destruct (step r o) as [r1 c1] eqn:S1. destruct (run r1 t) as [r2 c2] eqn:R.
    inversion H; subst. cbn [wanted]. rewrite <- (F1 _ _ _ S1). rewrite <- (IH F2 _ _ _ R). rewrite wants_app. reflexivity.
Qed.

Lemma wants_once h c1 : wants (KOnceBegin h :: c1 ++ [KOnceEnd h]) = wants c1.
Proof. rewrite wants_cons, wants_app. cbn [wants flat_map want1 app]. rewrite app_nil_r. reflexivity. Qed.

Lemma step_served o : step_served_at o.
Proof.
  induction o as [t|s|l|fs|fs sl|h body IH|h body IH|h|slot pre blk block post IHpre IHblock IHpost|n|l] using op_ind2; intros r r' c H.
  - cbn in H. inversion H; subst. reflexivity.
  - cbn [step] in H. destruct (emit_new sid r [s]) as [r1 n] eqn:E. inversion H; subst.
    rewrite (emit_new_hs sid sid_nh _ _ _ _ E). cbn [wanted1]. destruct (scall s); reflexivity.
  - cbn [step] in H. destruct (emit_new sid r l) as [r1 n] eqn:E. inversion H; subst.
    rewrite (emit_new_hs sid sid_nh _ _ _ _ E). reflexivity.
  - cbn [step] in H. destruct (emit_new clid r (rules_l fs)) as [r1 n] eqn:E. inversion H; subst.
    rewrite (emit_new_hs clid clid_nh _ _ _ _ E). reflexivity.
  - cbn [step] in H. unfold elem in H. destruct (emit_new clid r (rules_l fs)) as [r1 nc] eqn:E1.
    destruct (emit_new sid r1 sl) as [r2 nsc] eqn:E2. inversion H; subst.
    rewrite (emit_new_hs sid sid_nh _ _ _ _ E2), (emit_new_hs clid clid_nh _ _ _ _ E1).
    cbn [wanted1]. f_equal.
    rewrite !wants_cons, !wants_app, wants_call_attrs. cbn [wants flat_map want1 app]. rewrite app_nil_r.
    destruct fs; reflexivity.
  - rewrite step_once in H. rewrite wanted1_once. change (has r (Handle h)) with (existsb (N.eqb h) (hs r)) in H.
    destruct (existsb (N.eqb h) (hs r)) eqn:Hh.
    + inversion H; subst. reflexivity.
    + destruct (run (set_kids (add (set_kids r (Some body)) (Handle h)) None) body) as [r1 c1] eqn:R. inversion H; subst.
      pose proof (run_served_F body IH _ _ _ R) as X. cbn [add hs set_kids] in X. rewrite <- X.
      rewrite wants_once. reflexivity.
  - rewrite step_oncec in H. rewrite wanted1_oncec. change (has r (Handle h)) with (existsb (N.eqb h) (hs r)) in H.
    destruct (existsb (N.eqb h) (hs r)) eqn:Hh.
    + inversion H; subst. reflexivity.
    + destruct (run (set_kids (add r (Handle h)) None) body) as [r1 c1] eqn:R. inversion H; subst.
      pose proof (run_served_F body IH _ _ _ R) as X. cbn [add hs set_kids] in X. rewrite <- X.
      rewrite wants_once. reflexivity.
  - cbn [step wanted1] in H |- *. change (has r (Handle h)) with (existsb (N.eqb h) (hs r)) in H.
    destruct (existsb (N.eqb h) (hs r)) eqn:Hh.
    + inversion H; subst. reflexivity.
    + inversion H; subst. destruct (kids r); reflexivity.
  - rewrite step_call in H. cbv zeta in H. rewrite wanted1_call.
    set (r0 := if blk then set_kids r (Some block) else r) in *.
    assert (E0 : hs (set_kids r0 None) = hs r) by (unfold r0; destruct blk; reflexivity).
    destruct (run (set_kids r0 None) pre) as [r1 c1] eqn:R1.
    pose proof (run_served_F pre IHpre _ _ _ R1) as X1. rewrite E0 in X1. rewrite <- X1.
    destruct slot; [destruct blk|]; cbn [andb].
    + destruct (run r1 block) as [r2 c2] eqn:R2. destruct (run r2 post) as [r3 c3] eqn:R3. inversion H; subst.
      rewrite <- (run_served_F block IHblock _ _ _ R2). rewrite <- (run_served_F post IHpost _ _ _ R3).
      rewrite !wants_app. reflexivity.
    + destruct (run r1 post) as [r3 c3] eqn:R3. inversion H; subst.
      rewrite <- (run_served_F post IHpost _ _ _ R3). rewrite !wants_app, wants_leak. reflexivity.
    + destruct (run r1 post) as [r3 c3] eqn:R3. inversion H; subst.
      rewrite <- (run_served_F post IHpost _ _ _ R3). rewrite !wants_app. destruct blk; reflexivity.
  - cbn in H. inversion H; subst. reflexivity.
  - cbn in H. inversion H; subst. unfold add_classes. rewrite fold_add_hs. reflexivity.
Qed.

Theorem every_use_served l r r' c : run r l = (r', c) -> wants c = snd (wanted (hs r) l).
Proof.
  intros H. assert (X : (hs r', wants c) = wanted (hs r) l).
  { apply run_served_F with (2 := H). apply Forall_forall. intros o _. apply step_served. }
  rewrite <- X. reflexivity.
Qed.

Lemma init_hs cf : hs (init_reg cf) = [].
Proof. unfold init_reg, add_classes. rewrite fold_add_hs. reflexivity. Qed.

(* ---------- the children slot: what a caller leaves in the context never reaches a component called without a block ---------- *)
Definition leak_free (cs : list chunk) : Prop := forall b, ~ In (KLeak b) cs.
Lemma leak_free_nil : leak_free [].
Proof. intros b []. Qed.
Lemma leak_free_app a b : leak_free a -> leak_free b -> leak_free (a ++ b).
Proof. intros Ha Hb x X. apply in_app_or in X as [X|X]; [apply (Ha x X)|apply (Hb x X)]. Qed.
Lemma leak_free_cons c t : (forall b, c <> KLeak b) -> leak_free t -> leak_free (c :: t).
Proof. intros Hc Ht b [X|X]; [apply (Hc b X)|apply (Ht b X)]. Qed.
Lemma leak_free_map {A} (f : A -> chunk) l : (forall a b, f a <> KLeak b) -> leak_free (map f l).
Proof. intros Hf b X. apply in_map_iff in X as [a [X _]]. apply (Hf a b X). Qed.

Lemma kids_set r k : kids (set_kids r k) = k.
Proof. reflexivity. Qed.
Lemma add_kids r i : kids (add r i) = kids r.
Proof. destruct i; reflexivity. Qed.
Lemma emit_new_kids {A} (idf : A -> id) (l : list A) : forall r r' n, emit_new idf r l = (r', n) -> kids r' = kids r.
Proof.
  induction l as [|a t IH]; intros r r' n H; cbn [emit_new] in H.
  - inversion H; reflexivity.
  - destruct (has r (idf a)); [apply (IH _ _ _ H)|].
    destruct (emit_new idf (add r (idf a)) t) as [r1 n1] eqn:R. inversion H; subst.
    rewrite (IH _ _ _ R). apply add_kids.
Qed.
Lemma fold_add_kids ks : forall r, kids (fold_left (fun r k => add r (clid k)) ks r) = kids r.
Proof. induction ks as [|k t IH]; intros r; cbn [fold_left]; [reflexivity|]. rewrite IH. apply add_kids. Qed.

(* between any two uses the slot is empty, and no use finds anything in it that its caller did not put there *)
Definition step_tidy_at (o : op) : Prop :=
  forall r r' c, kids r = None -> step r o = (r', c) -> kids r' = None /\ leak_free c.

Lemma run_tidy_F l : Forall step_tidy_at l ->
  forall r r' c, kids r = None -> run r l = (r', c) -> kids r' = None /\ leak_free c.
Proof.
  induction l as [|o t IH]; intros F r r' c K H; cbn [run] in H.
  - inversion H; subst. split; [exact K|apply leak_free_nil].
  - apply Forall_cons_iff in F as [F1 F2]. destruct (step r o) as [r1 c1] eqn:S1. destruct (run r1 t) as [r2 c2] eqn:R.
    inversion H; subst. destruct (F1 _ _ _ K S1) as [K1 L1]. destruct (IH F2 _ _ _ K1 R) as [K2 L2].
    split; [exact K2|apply leak_free_app; assumption].
Qed.

Lemma step_tidy o : step_tidy_at o.
Proof.
  induction o as [t|s|l|fs|fs sl|h body IH|h body IH|h|slot pre blk block post IHpre IHblock IHpost|n|l] using op_ind2; intros r r' c K H.
  - cbn in H. inversion H; subst. split; [exact K|]. apply leak_free_cons; [discriminate|apply leak_free_nil].
  - cbn [step] in H. destruct (emit_new sid r [s]) as [r1 n] eqn:E. inversion H; subst.
    split; [rewrite (emit_new_kids _ _ _ _ _ E); exact K|].
    apply leak_free_cons; [discriminate|]. destruct (scall s); [apply leak_free_nil|].
    apply leak_free_cons; [discriminate|apply leak_free_nil].
  - cbn [step] in H. destruct (emit_new sid r l) as [r1 n] eqn:E. inversion H; subst.
    split; [rewrite (emit_new_kids _ _ _ _ _ E); exact K|]. apply leak_free_cons; [discriminate|apply leak_free_nil].
  - cbn [step] in H. destruct (emit_new clid r (rules_l fs)) as [r1 n] eqn:E. inversion H; subst.
    split; [rewrite (emit_new_kids _ _ _ _ _ E); exact K|]. apply leak_free_cons; [discriminate|apply leak_free_nil].
  - cbn [step] in H. unfold elem in H. destruct (emit_new clid r (rules_l fs)) as [r1 nc] eqn:E1.
    destruct (emit_new sid r1 sl) as [r2 nsc] eqn:E2. inversion H; subst.
    split; [rewrite (emit_new_kids _ _ _ _ _ E2), (emit_new_kids _ _ _ _ _ E1); exact K|].
    apply (leak_free_app [_; _; _]); [repeat (apply leak_free_cons; [discriminate|]); apply leak_free_nil|].
    apply leak_free_app; [destruct fs; [apply leak_free_nil|apply leak_free_cons; [discriminate|apply leak_free_nil]]|].
    apply leak_free_app; [apply leak_free_map; discriminate|apply leak_free_cons; [discriminate|apply leak_free_nil]].
  - rewrite step_once in H. destruct (has r (Handle h)).
    + inversion H; subst. split; [reflexivity|]. apply leak_free_cons; [discriminate|apply leak_free_nil].
    + destruct (run (set_kids (add (set_kids r (Some body)) (Handle h)) None) body) as [r1 c1] eqn:R. inversion H; subst.
      split; [reflexivity|]. destruct (run_tidy_F body IH _ _ _ (kids_set _ None) R) as [_ L].
      apply leak_free_cons; [discriminate|]. apply leak_free_app; [exact L|apply leak_free_cons; [discriminate|apply leak_free_nil]].
  - rewrite step_oncec in H. destruct (has r (Handle h)).
    + inversion H; subst. split; [exact K|]. apply leak_free_cons; [discriminate|apply leak_free_nil].
    + destruct (run (set_kids (add r (Handle h)) None) body) as [r1 c1] eqn:R. inversion H; subst.
      destruct (run_tidy_F body IH _ _ _ (kids_set _ None) R) as [K1 L]. split; [exact K1|].
      apply leak_free_cons; [discriminate|]. apply leak_free_app; [exact L|apply leak_free_cons; [discriminate|apply leak_free_nil]].
  - cbn [step] in H. destruct (has r (Handle h)).
    + inversion H; subst. split; [exact K|]. apply leak_free_cons; [discriminate|apply leak_free_nil].
    + rewrite K in H. inversion H; subst. split; [try rewrite add_kids; exact K|].
      apply leak_free_cons; [discriminate|apply leak_free_nil].
  - rewrite step_call in H. cbv zeta in H.
    set (r0 := if blk then set_kids r (Some block) else r) in *.
    destruct (run (set_kids r0 None) pre) as [r1 c1] eqn:R1.
    destruct (run_tidy_F pre IHpre _ _ _ (kids_set _ None) R1) as [K1 L1].
    destruct slot; [destruct blk|].
    + destruct (run r1 block) as [r2 c2] eqn:R2. destruct (run r2 post) as [r3 c3] eqn:R3. inversion H; subst.
      destruct (run_tidy_F block IHblock _ _ _ K1 R2) as [K2 L2]. destruct (run_tidy_F post IHpost _ _ _ K2 R3) as [K3 L3].
      split; [reflexivity|]. apply leak_free_app; [exact L1|apply leak_free_app; assumption].
    + destruct (run r1 post) as [r3 c3] eqn:R3. inversion H; subst.
      destruct (run_tidy_F post IHpost _ _ _ K1 R3) as [K3 L3]. split; [exact K3|].
      apply leak_free_app; [exact L1|]. apply leak_free_app; [|exact L3].
      (* the caller gave no block: the slot holds what the context held, which is nothing *)
      unfold r0. rewrite K. apply leak_free_nil.
    + destruct (run r1 post) as [r3 c3] eqn:R3. inversion H; subst.
      destruct (run_tidy_F post IHpost _ _ _ K1 R3) as [K3 L3].
      split; [destruct blk; [reflexivity|exact K3]|]. apply leak_free_app; [exact L1|exact L3].
  - cbn in H. inversion H; subst. split; [exact K|apply leak_free_nil].
  - cbn in H. inversion H; subst. split; [unfold add_classes; rewrite fold_add_kids; exact K|].
    apply leak_free_cons; [discriminate|apply leak_free_nil].
Qed.

Theorem children_never_leak l r r' c : kids r = None -> run r l = (r', c) -> kids r' = None /\ leak_free c.
Proof. apply run_tidy_F. apply Forall_forall. intros o _. apply step_tidy. Qed.

Lemma init_kids cf : kids (init_reg cf) = None.
Proof. unfold init_reg, add_classes. rewrite fold_add_kids. reflexivity. Qed.

(* ---------- separate contexts ---------- *)
Lemma proj_app {A} c (a b : list (nat * A)) : proj c (a ++ b) = proj c a ++ proj c b.
Proof. unfold proj. apply flat_map_app. Qed.
Lemma proj_map_same {A} c (l : list A) : proj c (map (fun k => (c, k)) l) = l.
Proof. induction l as [|x t IH]; cbn; [reflexivity|]. rewrite Nat.eqb_refl. cbn. f_equal. exact IH. Qed.
Lemma proj_map_other {A} c d (l : list A) : d <> c -> proj c (map (fun k => (d, k)) l) = [].
Proof.
  intros N. induction l as [|x t IH]; cbn; [reflexivity|].
  destruct (Nat.eqb d c) eqn:E; [apply Nat.eqb_eq in E; contradiction|exact IH].
Qed.

Theorem contexts_independent h : forall st st' out c, run_multi st h = (st', out) ->
  run (st c) (proj c h) = (st' c, proj c out).
Proof.
  induction h as [|[d o] t IH]; intros st st' out c H; cbn [run_multi] in H.
  - inversion H; subst. reflexivity.
  - destruct (step (st d) o) as [r cs] eqn:S. destruct (run_multi (upd st d r) t) as [st1 rest] eqn:R.
    inversion H; subst. rewrite proj_app. specialize (IH _ _ _ c R).
    cbn [proj flat_map fst snd]. fold (proj c t). destruct (Nat.eqb d c) eqn:E.
    + apply Nat.eqb_eq in E. subst d. rewrite proj_map_same. cbn [app run]. rewrite S.
      unfold upd in IH at 1. rewrite Nat.eqb_refl in IH. rewrite IH. reflexivity.
    + assert (d <> c) as N by (intros X; apply Nat.eqb_neq in E; contradiction).
      rewrite (proj_map_other c d cs N). cbn [app].
      unfold upd in IH at 1. assert (Nat.eqb c d = false) as E' by (apply Nat.eqb_neq; congruence).
      rewrite E' in IH. exact IH.
Qed.

(* ---------- the property over histories that interleave several contexts ---------- *)
Section Multi.
  Variable cfgs : nat -> cfg.
  Let st0 : nat -> reg := fun d => init_reg (cfgs d).
  Definition registered (c : nat) (i : id) : Prop := exists k, In k (mw_comps (cfgs c)) /\ i = clid k.

  Theorem multi_at_most_once h st' out c : run_multi st0 h = (st', out) -> at_most_once (log (proj c out)).
  Proof. intros H. apply (emit_at_most_once (cfgs c) (proj c h) (st' c)). apply (contexts_independent h st0 st' out c H). Qed.

  Theorem multi_before_first_use h st' out c : run_multi st0 h = (st', out) ->
    before_first_use (registered c) (log (proj c out)).
  Proof. intros H. apply (emit_before_first_use (cfgs c) (proj c h) (st' c)). apply (contexts_independent h st0 st' out c H). Qed.

  Theorem multi_every_use_served h st' out c : run_multi st0 h = (st', out) ->
    wants (proj c out) = snd (wanted [] (proj c h)).
  Proof.
    intros H. rewrite <- (init_hs (cfgs c)).
    apply (every_use_served (proj c h) (init_reg (cfgs c)) (st' c)). apply (contexts_independent h st0 st' out c H).
  Qed.

  Theorem multi_never_inlined h st' out c k : run_multi st0 h = (st', out) ->
    In k (mw_comps (cfgs c)) -> ~ In (Def (clid k)) (log (proj c out)).
  Proof.
    intros H. apply (middleware_never_inlined (cfgs c) (proj c h) (st' c)). apply (contexts_independent h st0 st' out c H).
  Qed.

  Theorem multi_registered_midway h st' out c : run_multi st0 h = (st', out) ->
    never_inlined_once_registered (log (proj c out)).
  Proof.
    intros H. apply (registered_midway_never_inlined (init_reg (cfgs c)) (proj c h) (st' c)). apply (contexts_independent h st0 st' out c H).
  Qed.

  Theorem multi_children_never_leak h st' out c : run_multi st0 h = (st', out) ->
    kids (st' c) = None /\ forall b, ~ In (KLeak b) (proj c out).
  Proof.
    intros H. apply (children_never_leak (proj c h) (init_reg (cfgs c))); [apply init_kids|].
    apply (contexts_independent h st0 st' out c H).
  Qed.

  Theorem multi_independent h st' out c : run_multi st0 h = (st', out) ->
    run (init_reg (cfgs c)) (proj c h) = (st' c, proj c out).
  Proof. apply (contexts_independent h st0). Qed.
End Multi.

(* ---------- the decidable form of the demands (what the harness evaluates on the implementation's documents) ---------- *)
Definition idefs (l : list iev) : list id := flat_map (fun e => match e with IDef i => [i] | _ => [] end) l.
Definition iregs (l : list iev) : list id := flat_map (fun e => match e with IReg i => [i] | _ => [] end) l.
Definition iuses (l : list iev) : list iev :=
  filter (fun e => match e with IDef _ => false | IReg _ => false | _ => true end) l.
(* the use carries what was asked for *)
Definition serves (e : iev) (w : want) : Prop :=
  match e, w with
  | ICallInline c, WCallInline s => c = sinline s
  | ICallAttr c, WCallAttr s => c = scall s
  | INames ns, WAttr fs => forall k, In k (held_enabled fs) -> switched_off fs (cid k) = false -> In (cid k) ns
  | _, _ => False
  end.

Theorem check_log_sound l : forall d w, check_log d w l = true ->
  NoDup (idefs l) /\ (forall i, In i (idefs l) -> ~ In i d) /\ Forall2 serves (iuses l) w /\
  (forall pre i post, l = pre ++ IReg i :: post -> ~ In i (idefs post)).
Proof.
  induction l as [|e t IH]; intros d w H.
  - cbn in H. destruct w; [|discriminate]. cbn. split; [constructor|]. split; [intros i []|]. split; [constructor|].
    intros [|? ?] ? ? ?; discriminate.
  - assert (Tl : forall d' w', check_log d' w' t = true ->
              (forall pre i post, t = pre ++ IReg i :: post -> ~ In i (idefs post)) ->
              forall x, (forall i, x <> IReg i) ->
              forall pre i post, x :: t = pre ++ IReg i :: post -> ~ In i (idefs post)).
    { intros d' w' _ G x Nx pre i post E. destruct pre as [|y pre]; cbn in E; inversion E; subst.
      - exfalso. apply (Nx i). reflexivity.
      - apply (G _ _ _ eq_refl). }
    destruct e as [i|c|c|ns|i]; cbn [check_log] in H.
    + apply andb_prop in H as [H1 H2]. destruct (IH _ _ H2) as [A [B [C G]]].
      assert (Ni : ~ In i d). { intros X. apply mem_id_In in X. rewrite X in H1. discriminate. }
      cbn [idefs flat_map app iuses filter]. fold (idefs t). fold (iuses t). split; [|split; [|split]].
      * constructor; [|exact A]. intros X. apply (B i X). left; reflexivity.
      * intros j [<-|X]; [exact Ni|]. intros Y. apply (B j X). right; exact Y.
      * exact C.
      * apply (Tl _ _ H2 G). intros j; discriminate.
    + destruct w as [|[s|s|fs] w']; try discriminate.
      apply andb_prop in H as [H1 H2]. apply andb_prop in H1 as [H0 H1]. destruct (IH _ _ H2) as [A [B [C G]]].
      cbn [idefs flat_map app iuses filter]. fold (idefs t). fold (iuses t). split; [exact A|]. split; [exact B|]. split.
      * constructor; [cbn; apply bytes_eqb_eq; exact H0|exact C].
      * apply (Tl _ _ H2 G). intros j; discriminate.
    + destruct w as [|[s|s|fs] w']; try discriminate.
      apply andb_prop in H as [H1 H2]. apply andb_prop in H1 as [H0 H1]. destruct (IH _ _ H2) as [A [B [C G]]].
      cbn [idefs flat_map app iuses filter]. fold (idefs t). fold (iuses t). split; [exact A|]. split; [exact B|]. split.
      * constructor; [cbn; apply bytes_eqb_eq; exact H0|exact C].
      * apply (Tl _ _ H2 G). intros j; discriminate.
    + destruct w as [|[s|s|fs] w']; try discriminate.
      apply andb_prop in H as [H1 H2]. destruct (IH _ _ H2) as [A [B [C G]]].
      cbn [idefs flat_map app iuses filter]. fold (idefs t). fold (iuses t). split; [exact A|]. split; [exact B|]. split.
      * constructor; [|exact C]. cbn. intros k Hk Hs. rewrite forallb_forall in H1. specialize (H1 k Hk).
        apply andb_prop in H1 as [H1 _]. rewrite Hs in H1. cbn in H1. apply memb_In. exact H1.
      * apply (Tl _ _ H2 G). intros j; discriminate.
    + destruct (IH _ _ H) as [A [B [C G]]].
      cbn [idefs flat_map app iuses filter]. fold (idefs t). fold (iuses t). split; [exact A|]. split; [|split; [exact C|]].
      * intros j X Y. apply (B j X). right. exact Y.
      * intros pre j post E. destruct pre as [|y pre]; cbn in E; inversion E; subst.
        -- intros X. apply (B j X). left. reflexivity.
        -- apply (G _ _ _ eq_refl).
Qed.
