(* C07 proofs, part 5: which expressions the generator model hands to SourceMap.Add.  Up to order, and leaving
   whitespace-only expressions aside, they are exactly the expressions of the AST (spec.SmSpec.file_exprs);
   in particular the synthetic class expression is not added. *)
From Coq.Strings Require Import Byte String.
From Coq Require Import List Arith NArith Bool Lia Permutation.
Import ListNotations.
From V Require Import lib.Bytes lib.Sexp model.Ast model.Url model.Gen model.SourceMap spec.SmSpec.
From V Require Import proofs.GenAddsProof.
Local Open Scope nat_scope.

Definition nb (e : expr) : bool := negb (forallb is_blank (e_val e)).
Definition added (g : gst) : list expr := map fst (adds g).
Notation fl := (filter nb).
Definition emitsF (m : M) (es : list expr) : Prop := forall g, Permutation (fl (added (m g))) (fl es ++ fl (added g)).

Lemma Permutation_filter {A} (p : A -> bool) l l' : Permutation l l' -> Permutation (filter p l) (filter p l').
Proof.
  induction 1; cbn [filter]; try reflexivity.
  - destruct (p x); [constructor|]; assumption.
  - destruct (p x), (p y); first [apply perm_swap|reflexivity].
  - etransitivity; eassumption.
Qed.

Lemma E_skip : emitsF skip [].
Proof. intros g. reflexivity. Qed.
Lemma E_noadd m : (forall g, added (m g) = added g) -> emitsF m [].
Proof. intros H g. rewrite H. reflexivity. Qed.
Lemma E_upd f : emitsF (upd f) [].
Proof. apply E_noadd. reflexivity. Qed.
Lemma E_seq a b ea eb : emitsF a ea -> emitsF b eb -> emitsF (a ;; b) (ea ++ eb).
Proof.
  intros Ha Hb g. unfold seq. rewrite (Hb (a g)), (Ha g), filter_app, <- !app_assoc.
  apply Permutation_app_swap_app.
Qed.
Lemma E_equiv m es es' : emitsF m es -> Permutation (fl es) (fl es') -> emitsF m es'.
Proof. intros H P g. rewrite (H g). apply Permutation_app_tail. exact P. Qed.
Lemma E_perm m es es' : emitsF m es -> Permutation es es' -> emitsF m es'.
Proof. intros H P. apply (E_equiv m es es' H). apply Permutation_filter. exact P. Qed.
Lemma E_wi lvl s : emitsF (wi lvl s) [].
Proof. apply E_upd. Qed.
Lemma E_wr s : emitsF (wr s) [].
Proof. apply E_upd. Qed.
Lemma E_wl s : emitsF (wl s) [].
Proof. apply E_upd. Qed.
Lemma fl_cons e l : fl (e :: l) = fl [e] ++ fl l.
Proof. cbn [filter]. destruct (nb e); reflexivity. Qed.
Lemma E_wre e : emitsF (wre e) [e].
Proof. intros g. unfold wre, added. cbn [add_map adds map fst]. rewrite fl_cons. reflexivity. Qed.
Lemma E_wie lvl e s : emitsF (wie lvl e s) [e].
Proof. intros g. unfold wie, added. cbn [add_map adds map fst]. rewrite fl_cons. reflexivity. Qed.
Lemma E_wre_nz e : emitsF (wre_nz e) (if zero_range e then [] else [e]).
Proof. unfold wre_nz. destruct (zero_range e); [apply E_wr|apply E_wre]. Qed.
Lemma E_with_var k es : (forall v, emitsF (k v) es) -> emitsF (with_var k) es.
Proof. intros H g. unfold with_var. rewrite (H _ (set_vid (S (vid g)) g)). reflexivity. Qed.
Lemma E_seqs_map {A} (f : A -> M) (h : A -> list expr) l : (forall x, In x l -> emitsF (f x) (h x)) -> emitsF (seqs (map f l)) (flat_map h l).
Proof.
  induction l as [|x r IH]; intros H; cbn [map seqs fold_right flat_map]; [apply E_skip|].
  apply E_seq; [apply H; left; reflexivity|]. apply IH. intros y Hy. apply H. right. exact Hy.
Qed.
Lemma E_match_nil {A} (x : list A) m es : emitsF m es -> (x = [] -> fl es = []) ->
  emitsF (match x with [] => skip | _ :: _ => m end) es.
Proof.
  destruct x; intros H E; [|exact H]. apply (E_equiv skip []); [apply E_skip|]. rewrite E by reflexivity. reflexivity.
Qed.
Lemma E_trail (o : option trailing) (b : bool) :
  emitsF (match o with Some SpNone | None => skip | Some _ => if b then wl [x20] else skip end) [].
Proof. destruct o as [[| |]|]; try apply E_skip; destruct b; first [apply E_wl|apply E_skip]. Qed.

Ltac by_emits es := match goal with |- Permutation (fl (added (?m ?g))) _ => cut (emitsF m es); [let G := fresh "G" in intros G; apply G|] end.

Ltac ems_hook := fail.
Ltac ems1 :=
  lazymatch goal with
  | |- emitsF skip _ => apply E_skip
  | |- emitsF (seq _ _) _ => eapply E_seq
  | |- emitsF (wi _ _) _ => apply E_wi
  | |- emitsF (wr _) _ => apply E_wr
  | |- emitsF (wl _) _ => apply E_wl
  | |- emitsF (wis _ _) _ => apply E_wi
  | |- emitsF (wrs _) _ => apply E_wr
  | |- emitsF (wls _) _ => apply E_wl
  | |- emitsF nl _ => apply E_wr
  | |- emitsF (text _) _ => apply E_wl
  | |- emitsF (wre _) _ => apply E_wre
  | |- emitsF (wre_nz _) _ => apply E_wre_nz
  | |- emitsF (wie _ _ _) _ => apply E_wie
  | |- emitsF (with_var _) _ => eapply E_with_var; intro
  | |- emitsF ((fun _ => _) _) _ => cbv beta
  | |- _ => ems_hook
  end.
Ltac ems := repeat ems1.
(* normalise a list expression built by E_seq *)
Ltac norm := cbn [app]; rewrite ?app_nil_r, <- ?app_assoc; cbn [app].
Ltac emsP := eapply E_perm; [ems|norm; try reflexivity].

Lemma E_err_handler lvl : emitsF (err_handler lvl) [].
Proof. unfold err_handler. emsP. Qed.
Ltac ems_hook ::= lazymatch goal with |- emitsF (err_handler _) _ => apply E_err_handler end.
Lemma E_expr_err_handler lvl e : emitsF (expr_err_handler lvl e) [].
Proof. intros g. unfold expr_err_handler. by_emits (@nil expr). emsP. Qed.
Lemma E_plain_write lvl vn : emitsF (plain_write lvl vn) [].
Proof. unfold plain_write. emsP. Qed.
Ltac ems_hook ::=
  lazymatch goal with
  | |- emitsF (err_handler _) _ => apply E_err_handler
  | |- emitsF (expr_err_handler _ _) _ => apply E_expr_err_handler
  | |- emitsF (plain_write _ _) _ => apply E_plain_write
  end.

(* ================= attributes ================= *)
Definition is_default (elem n : bytes) : bool := negb (url_sink elem n) && negb (is_script_attr n) && negb (beq n (bs "style")).
Fixpoint aw_exprs (fuel : nat) (elem : bytes) (a : attr) : list expr :=
  match fuel with O => [] | S f =>
  match a with
  | ABoolConst _ | AConst _ _ => []
  | ABoolExpr _ e | ASpread e => [e]
  | AExpr n e => if is_default elem n && zero_range e then [] else [e]
  | ACond e th el => e :: flat_map (aw_exprs f elem) th ++ flat_map (aw_exprs f elem) el
  end end.
Lemma E_attr_value lvl elem n e : emitsF (attr_value lvl elem n e) (if is_default elem n && zero_range e then [] else [e]).
Proof.
  unfold attr_value, is_default.
  destruct (url_sink elem n). { cbn [negb andb]. emsP. }
  destruct (is_script_attr n); [cbn [negb andb]; emsP|].
  destruct (beq n (bs "style")); [cbn [negb andb]; emsP|].
  cbn [negb andb]. emsP.
Qed.
Lemma flat_map_nil {A B} (l : list A) : flat_map (fun _ : A => @nil B) l = [].
Proof. induction l; cbn; auto. Qed.
Ltac ems_hook ::=
  lazymatch goal with
  | |- emitsF (err_handler _) _ => apply E_err_handler
  | |- emitsF (expr_err_handler _ _) _ => apply E_expr_err_handler
  | |- emitsF (plain_write _ _) _ => apply E_plain_write
  | |- emitsF (attr_value _ _ _ _) _ => apply E_attr_value
  end.
Lemma E_write_attrs : forall f lvl elem l, emitsF (write_attrs f lvl elem l) (flat_map (aw_exprs f elem) l).
Proof.
  induction f as [|f IH]; intros lvl elem l; cbn [write_attrs].
  - change (aw_exprs 0 elem) with (fun _ : attr => @nil expr). rewrite flat_map_nil. apply E_skip.
  - apply E_seqs_map. intros a _. destruct a; cbn [aw_exprs]; try solve [emsP].
    eapply E_perm.
    + ems; [apply IH|].
      apply (E_match_nil el _ (flat_map (aw_exprs f elem) el)); [eapply E_perm; [ems; apply IH|norm; reflexivity]|intros ->; reflexivity].
    + norm. reflexivity.
Qed.

(* AC-matching of appended lists (bounded) *)
Lemma perm_rot {A} (L b r : list A) : Permutation L (r ++ b) -> Permutation L (b ++ r).
Proof. intros H. rewrite H. apply Permutation_app_comm. Qed.
Ltac permac1 :=
  lazymatch goal with
  | |- Permutation ?x ?x => reflexivity
  | |- Permutation (?a ++ ?l) (?a ++ ?r) => apply Permutation_app_head
  | |- Permutation (?a ++ ?l) (?b ++ ?r) => apply perm_rot; rewrite <- ?app_assoc
  end.
Ltac permac := rewrite <- ?app_assoc; do 40 (try permac1).

Fixpoint ok_attr (fuel : nat) (a : attr) : bool :=
  match fuel with O => false | S f =>
  match a with
  | AExpr _ e => negb (zero_range e)
  | ACond _ th el => forallb (ok_attr f) th && forallb (ok_attr f) el
  | _ => true
  end end.

Lemma aw_ok : forall F elem l, forallb (ok_attr F) l = true -> flat_map (aw_exprs F elem) l = flat_map (attr_exprs F) l.
Proof.
  induction F as [|F IH]; intros elem l H.
  - destruct l; [reflexivity|discriminate].
  - induction l as [|a r IHl]; [reflexivity|]. cbn [forallb] in H. apply andb_true_iff in H. destruct H as [Ha Hr].
    cbn [flat_map]. rewrite (IHl Hr). f_equal. destruct a; cbn [aw_exprs attr_exprs ok_attr] in *; try reflexivity.
    + apply negb_true_iff in Ha. rewrite Ha, andb_false_r. reflexivity.
    + apply andb_true_iff in Ha. destruct Ha as [H1 H2]. rewrite (IH elem th H1), (IH elem el H2). reflexivity.
Qed.

Lemma hesc1_cases b : hesc1 b = [b] \/ exists t, hesc1 b = x26 :: t.
Proof. destruct b; vm_compute; eauto. Qed.
Lemma hesc_noamp : forall n s, ~ In x26 s -> hesc n = s -> n = s.
Proof.
  induction n as [|b r IH]; intros s Hs E; [exact E|]. unfold hesc in E. cbn [flat_map] in E. fold (hesc r) in E.
  destruct (hesc1_cases b) as [Hb|[t Hb]]; rewrite Hb in E.
  - destruct s as [|c s']; [discriminate|]. inversion E; subst. f_equal. apply IH; [|reflexivity]. intros Hin. apply Hs. right. exact Hin.
  - exfalso. apply Hs. rewrite <- E. left. reflexivity.
Qed.
Lemma class_default elem n : beq (hesc n) (bs "class") = true -> is_default elem n = true.
Proof.
  unfold beq. destruct (list_eq_dec _ _ _) as [E|]; [|discriminate]. intros _.
  apply hesc_noamp in E; [|vm_compute; intuition discriminate]. subst n.
  unfold is_default, url_sink.
  assert (H1 : fold_match (bs "class") (bs "href") = false) by (vm_compute; reflexivity).
  assert (H2 : fold_match (bs "class") (bs "action") = false) by (vm_compute; reflexivity).
  rewrite H1, H2, !andb_false_r. vm_compute. reflexivity.
Qed.

Lemma zero_range_syn v : zero_range {| e_val := v; e_fi := 0%N; e_fl := 0%N; e_fc := 0%N; e_ti := 0%N; e_tl := 0%N; e_tc := 0%N |} = true.
Proof. reflexivity. Qed.
Lemma added_set_vid v g : added (set_vid v g) = added g.
Proof. reflexivity. Qed.

Lemma css_attrs_emits : forall fu lvl l g F elem, forallb (ok_attr F) l = true ->
  Permutation (fl (flat_map (aw_exprs F elem) (fst (css_attrs fu lvl l g))) ++ fl (added (snd (css_attrs fu lvl l g))))
              (fl (flat_map (attr_exprs F) l) ++ fl (added g)).
Proof.
  induction fu as [|fu IH]; intros lvl l g F elem Hok.
  - cbn [css_attrs fst snd]. rewrite (aw_ok F elem l Hok). reflexivity.
  - destruct l as [|a r]; [reflexivity|]. cbn [forallb] in Hok. apply andb_true_iff in Hok. destruct Hok as [Ha Hr].
    cbn [css_attrs].
    match goal with |- context [let '(a', g0) := ?X in _] =>
      assert (HX : Permutation (fl (aw_exprs F elem (fst X)) ++ fl (added (snd X))) (fl (attr_exprs F a) ++ fl (added g)));
      [|destruct X as [a' g1]; cbn [fst snd] in HX] end.
    + destruct F as [|F]; [discriminate|].
      destruct a; try reflexivity.
      * (* AExpr *)
        destruct (beq (hesc n) (bs "class")) eqn:Ec.
        -- cbn [fst snd aw_exprs attr_exprs]. rewrite (class_default elem n Ec), zero_range_syn. cbn [andb].
           change (fl []) with (@nil expr). cbn [app].
           match goal with |- Permutation (fl (added (?m ?g0))) _ => assert (G : emitsF m [e]) by emsP; rewrite (G g0) end.
           reflexivity.
        -- cbn [fst snd]. cbn [ok_attr] in Ha. apply negb_true_iff in Ha. cbn [aw_exprs attr_exprs]. rewrite Ha, andb_false_r. reflexivity.
      * (* ACond *)
        cbn [ok_attr] in Ha. apply andb_true_iff in Ha. destruct Ha as [H1 H2].
        pose proof (IH lvl th g F elem H1) as P1. destruct (css_attrs fu lvl th g) as [th' g1]. cbn [fst snd] in P1.
        pose proof (IH lvl el g1 F elem H2) as P2. destruct (css_attrs fu lvl el g1) as [el' g2]. cbn [fst snd] in P2.
        cbn [fst snd aw_exprs attr_exprs]. rewrite (fl_cons e (flat_map (aw_exprs F elem) th' ++ _)), (fl_cons e (flat_map (attr_exprs F) th ++ _)), !filter_app.
        set (A1 := fl (flat_map (aw_exprs F elem) th')) in *. set (A2 := fl (flat_map (aw_exprs F elem) el')) in *.
        set (B1 := fl (flat_map (attr_exprs F) th)) in *. set (B2 := fl (flat_map (attr_exprs F) el)) in *.
        set (G0 := fl (added g)) in *. set (G1 := fl (added g1)) in *. set (G2 := fl (added g2)) in *. set (E0 := fl [e]).
        transitivity (E0 ++ A1 ++ B2 ++ G1); [rewrite <- P2; permac|].
        transitivity (E0 ++ B2 ++ B1 ++ G0); [rewrite <- P1; permac|permac].
    + pose proof (IH lvl r g1 F elem Hr) as P. destruct (css_attrs fu lvl r g1) as [r' g2]. cbn [fst snd flat_map] in *.
      rewrite !filter_app.
      set (A := fl (aw_exprs F elem a')) in *. set (R' := fl (flat_map (aw_exprs F elem) r')) in *.
      set (B := fl (attr_exprs F a)) in *. set (R := fl (flat_map (attr_exprs F) r)) in *.
      set (G0 := fl (added g)) in *. set (G1 := fl (added g1)) in *. set (G2 := fl (added g2)) in *.
      transitivity (A ++ R ++ G1); [rewrite <- P; permac|].
      transitivity (R ++ B ++ G0); [rewrite <- HX; permac|permac].
Qed.

(* ================= nodes ================= *)
Fixpoint ok_node (fuel : nat) (n : node) : bool :=
  match fuel with O => true | S f =>
  let ns := forallb (ok_node f) in
  match n with
  | NElem _ attrs ch _ => forallb (ok_attr 50) attrs && ns ch
  | NRaw _ attrs _ => forallb (ok_attr 50) attrs
  | NScript attrs _ => forallb (ok_attr 50) attrs
  | NCall _ ch => ns ch
  | NIf _ th elifs el => ns th && forallb (fun p => ns (snd p)) elifs && ns el
  | NSwitch _ cases => forallb (fun p => ns (snd p)) cases
  | NFor _ b => ns b
  | _ => true
  end end.

Lemma blank_nb e : all_ws (e_val e) = true -> fl [e] = [].
Proof. intros H. cbn [filter]. unfold nb. change (forallb is_blank (e_val e)) with (all_ws (e_val e)). rewrite H. reflexivity. Qed.

Lemma E_element_script lvl l : emitsF (element_script lvl l) [].
Proof. unfold element_script. destruct (flat_map (attr_scripts 50) l); [apply E_skip|emsP]. Qed.
Lemma E_string_expr lvl e : emitsF (string_expr lvl e) [e].
Proof.
  unfold string_expr. destruct (all_ws (e_val e)) eqn:E.
  - apply (E_equiv skip []); [apply E_skip|]. rewrite (blank_nb e E). reflexivity.
  - emsP.
Qed.
Lemma E_call_plain lvl e : emitsF (call_plain lvl e) [e].
Proof. unfold call_plain. emsP. Qed.
Lemma E_templ_buffer lvl : emitsF (templ_buffer lvl) [].
Proof. unfold templ_buffer. emsP. Qed.
Lemma E_script_part lvl p : emitsF (script_part lvl p) (spart_exprs p).
Proof.
  destruct p as [v|e tr inside]; cbn [script_part spart_exprs].
  - apply (E_match_nil v _ []); [apply E_wl|reflexivity].
  - eapply E_perm; [ems; apply (E_match_nil tr _ []); [apply E_wl|reflexivity]|norm; reflexivity].
Qed.

(* whitespace stripping does not change the expressions *)
Section Strip.
  Variable h : node -> list expr.
  Hypothesis h_ws : forall n, is_ws n = true -> h n = [].
  Lemma strip_ws_flat l : flat_map h (strip_ws l) = flat_map h l.
  Proof.
    induction l as [|n r IH]; [reflexivity|]. unfold strip_ws in *. cbn [filter flat_map].
    destruct (is_ws n) eqn:E; cbn [negb flat_map]; rewrite IH; [rewrite (h_ws n E)|]; reflexivity.
  Qed.
  Lemma strip_lead_flat l : flat_map h (strip_lead l) = flat_map h l.
  Proof. induction l as [|n r IH]; [reflexivity|]. cbn [strip_lead flat_map]. destruct (is_ws n) eqn:E; [rewrite IH, (h_ws n E)|]; reflexivity. Qed.
  Lemma flat_map_rev_perm l : Permutation (flat_map h (rev l)) (flat_map h l).
  Proof. apply Permutation_flat_map. symmetry. apply Permutation_rev. Qed.
  Lemma strip_lt_perm l : Permutation (flat_map h (strip_lt l)) (flat_map h l).
  Proof. unfold strip_lt. rewrite flat_map_rev_perm, strip_lead_flat, flat_map_rev_perm, strip_lead_flat. reflexivity. Qed.
End Strip.
Lemma In_strip_lead x : forall l, In x (strip_lead l) -> In x l.
Proof. induction l as [|n r IH]; [auto|]. cbn [strip_lead]. destruct (is_ws n); [intros H; right; apply IH; exact H|auto]. Qed.
Lemma forallb_strip_ws p l : forallb p l = true -> forallb p (strip_ws l) = true.
Proof. rewrite !forallb_forall. intros H x Hx. apply H. unfold strip_ws in Hx. apply filter_In in Hx. tauto. Qed.
Lemma forallb_strip_lt p l : forallb p l = true -> forallb p (strip_lt l) = true.
Proof.
  rewrite !forallb_forall. intros H x Hx. apply H. unfold strip_lt in Hx.
  apply in_rev in Hx. apply In_strip_lead in Hx. apply in_rev in Hx. apply In_strip_lead in Hx. exact Hx.
Qed.
Lemma node_exprs_ws f n : is_ws n = true -> node_exprs f n = [].
Proof. destruct n; try discriminate. destruct f; reflexivity. Qed.

Ltac ems_hook ::=
  lazymatch goal with
  | |- emitsF (err_handler _) _ => apply E_err_handler
  | |- emitsF (expr_err_handler _ _) _ => apply E_expr_err_handler
  | |- emitsF (plain_write _ _) _ => apply E_plain_write
  | |- emitsF (attr_value _ _ _ _) _ => apply E_attr_value
  | |- emitsF (write_attrs _ _ _ _) _ => apply E_write_attrs
  | |- emitsF (element_script _ _) _ => apply E_element_script
  | |- emitsF (string_expr _ _) _ => apply E_string_expr
  | |- emitsF (call_plain _ _) _ => apply E_call_plain
  | |- emitsF (templ_buffer _) _ => apply E_templ_buffer
  end.

Lemma E_raw_attrs lvl name attrs F : forallb (ok_attr F) attrs = true ->
  emitsF (match attrs with
          | [] => wl (bs "<" ++ hesc name ++ bs ">")
          | _ :: _ => element_script lvl attrs;; wl (bs "<" ++ hesc name);; write_attrs F lvl name attrs;; wls ">"
          end) (flat_map (attr_exprs F) attrs).
Proof.
  intros Hok. rewrite <- (aw_ok F name attrs Hok). destruct attrs as [|a attrs]; [apply E_wl|]. emsP.
Qed.
Lemma E_script_attrs lvl attrs F : forallb (ok_attr F) attrs = true ->
  emitsF (match attrs with
          | [] => wls "<script>"
          | _ :: _ => element_script lvl attrs;; wls "<script";; write_attrs F lvl (bs "script") attrs;; wls ">"
          end) (flat_map (attr_exprs F) attrs).
Proof.
  intros Hok. rewrite <- (aw_ok F (bs "script") attrs Hok). destruct attrs as [|a attrs]; [apply E_wl|]. emsP.
Qed.

Ltac nd tac := eapply E_perm; [eapply E_seq; [tac|apply E_trail]|norm; try reflexivity].

Lemma E_write_node : forall f lvl n next, ok_node f n = true -> emitsF (write_node f lvl n next) (node_exprs f n).
Proof.
  induction f as [|f IH]; intros lvl n next Hok; [apply E_skip|].
  assert (NA : forall lvl' l nx, forallb (ok_node f) l = true -> emitsF ((fix wn (l : list node) (next : option node) {struct l} : M :=
              match l with
              | [] => skip
              | c :: r => write_node f lvl' c (match r with x :: _ => Some x | [] => next end) ;; wn r next
              end) l nx) (flat_map (node_exprs f) l)).
  { intros lvl'. induction l as [|c r IHl]; intros nx H; [apply E_skip|]. cbn [forallb] in H. apply andb_true_iff in H. destruct H.
    cbn [flat_map]. apply E_seq; [apply IH; assumption|apply IHl; assumption]. }
  assert (NAlt : forall lvl' l nx, forallb (ok_node f) l = true -> emitsF ((fix wn (l : list node) (next : option node) {struct l} : M :=
              match l with
              | [] => skip
              | c :: r => write_node f lvl' c (match r with x :: _ => Some x | [] => next end) ;; wn r next
              end) (strip_lt l) nx) (flat_map (node_exprs f) l)).
  { intros lvl' l nx H. eapply E_perm; [apply NA; apply forallb_strip_lt; exact H|]. apply strip_lt_perm. apply node_exprs_ws. }
  assert (NAws : forall lvl' l nx, forallb (ok_node f) l = true -> emitsF ((fix wn (l : list node) (next : option node) {struct l} : M :=
              match l with
              | [] => skip
              | c :: r => write_node f lvl' c (match r with x :: _ => Some x | [] => next end) ;; wn r next
              end) (strip_ws l) nx) (flat_map (node_exprs f) l)).
  { intros lvl' l nx H. rewrite <- (strip_ws_flat (node_exprs f) (node_exprs_ws f)). apply NA. apply forallb_strip_ws. exact H. }
  destruct n; cbn [write_node node_exprs ok_node] in *.
  - (* NWs *) nd ltac:(apply (E_match_nil v _ []); [apply E_wl|reflexivity]).
  - (* NDoc *) nd ltac:(apply E_wl).
  - (* NText *) nd ltac:(apply E_wl).
  - (* NElem *)
    apply andb_true_iff in Hok. destruct Hok as [Ha Hc].
    eapply E_perm; [eapply E_seq; [apply (E_seq _ _ (flat_map (attr_exprs 50) attrs) (flat_map (node_exprs f) children))|apply E_trail]|norm; reflexivity].
    + (* attributes *)
      destruct attrs as [|a attrs]; [apply E_wl|].
      intros g. cbv beta. pose proof (css_attrs_emits 50 lvl (a :: attrs) g 50 name Ha) as C.
      destruct (css_attrs 50 lvl (a :: attrs) g) as [attrs' g1]. cbn [fst snd] in C.
      match goal with |- Permutation (fl (added (?m g1))) _ => assert (G : emitsF m (flat_map (aw_exprs 50 name) attrs')) by emsP; rewrite (G g1); exact C end.
    + (* children *)
      destruct children as [|c ch].
      * destruct (is_void_name name && true); [apply E_skip|]. cbn [strip_ws filter]. emsP.
      * rewrite andb_false_r. eapply E_perm; [eapply E_seq; [apply NAws; exact Hc|apply E_wl]|norm; reflexivity].
  - (* NRaw *)
    nd ltac:(idtac).
    eapply E_perm; [eapply E_seq; [apply (E_raw_attrs lvl name attrs 50 Hok)|ems]|norm; reflexivity].
  - (* NScript *)
    nd ltac:(idtac).
    eapply E_perm; [eapply E_seq; [apply (E_script_attrs lvl attrs 50 Hok)|eapply E_seq; [apply (E_seqs_map (script_part lvl) spart_exprs); intros; apply E_script_part|apply E_wl]]|norm; reflexivity].
  - (* NGoComment *) apply E_skip.
  - (* NHtmlComment *) nd ltac:(emsP).
  - (* NCallT *) nd ltac:(apply E_call_plain).
  - (* NCall *)
    nd ltac:(idtac). destruct children as [|c ch]; [apply E_call_plain|].
    eapply E_perm; [ems; apply NAlt; exact Hok|]. norm. symmetry. apply Permutation_cons_append.
  - (* NChildren *)
    nd ltac:(idtac). intros g. by_emits (@nil expr). emsP.
  - (* NIf *)
    apply andb_true_iff in Hok. destruct Hok as [Hok Hel]. apply andb_true_iff in Hok. destruct Hok as [Hth Helifs].
    nd ltac:(idtac).
    eapply E_perm.
    + ems; [apply NAlt; exact Hth| |].
      * apply (E_seqs_map _ (fun p => fst p :: flat_map (node_exprs f) (snd p))). intros [ce cb] Hin.
        rewrite forallb_forall in Helifs. specialize (Helifs _ Hin). cbn [fst snd] in *.
        eapply E_perm; [ems; apply NAlt; exact Helifs|norm; reflexivity].
      * apply (E_match_nil el _ (flat_map (node_exprs f) el)); [eapply E_perm; [ems; apply NAlt; exact Hel|norm; reflexivity]|intros ->; reflexivity].
    + norm. reflexivity.
  - (* NSwitch *)
    nd ltac:(idtac).
    eapply E_perm.
    + ems. apply (E_seqs_map _ (fun p => fst p :: flat_map (node_exprs f) (snd p))). intros [ce cb] Hin.
      rewrite forallb_forall in Hok. specialize (Hok _ Hin). cbn [fst snd] in *.
      eapply E_perm; [ems; apply NAlt; exact Hok|norm; reflexivity].
    + norm. reflexivity.
  - (* NFor *)
    nd ltac:(idtac). eapply E_perm; [ems; apply NAlt; exact Hok|norm; reflexivity].
  - (* NGoCode *)
    nd ltac:(idtac). destruct (all_ws (e_val e)) eqn:E.
    + apply (E_equiv skip []); [apply E_skip|]. rewrite (blank_nb e E). reflexivity.
    + apply E_wie.
  - (* NStr *) nd ltac:(apply E_string_expr).
Qed.

(* ================= top level ================= *)
Lemma E_write_nodes f lvl : forall l next, forallb (ok_node f) l = true -> emitsF (write_nodes f lvl l next) (flat_map (node_exprs f) l).
Proof.
  induction l as [|c r IH]; intros next H; cbn [write_nodes flat_map]; [apply E_skip|].
  cbn [forallb] in H. apply andb_true_iff in H. destruct H. apply E_seq; [apply E_write_node; assumption|apply IH; assumption].
Qed.
Lemma E_after (h : gst -> gst) m es : (forall g, added (h g) = added g) -> emitsF m es -> emitsF (fun g => m (h g)) es.
Proof. intros Hh Hm g. rewrite (Hm (h g)), Hh. reflexivity. Qed.
Lemma E_write_template last e ch : forallb (ok_node 100) ch = true ->
  emitsF (write_template last e ch) (e :: flat_map (node_exprs 100) ch).
Proof.
  intros Hok. unfold write_template. eapply E_perm.
  - ems.
    + apply (E_after (set_cvar v)); [reflexivity|]. ems. apply E_write_nodes. apply forallb_strip_ws. exact Hok.
    + destruct last; [apply E_skip|apply E_wr].
  - norm. rewrite (strip_ws_flat (node_exprs 100) (node_exprs_ws 100)). reflexivity.
Qed.
Lemma E_go_block e : emitsF (go_block e) [e].
Proof. unfold go_block. eapply E_perm; [ems; destruct (ends_with_comment (e_val e)); apply E_wi|norm; reflexivity]. Qed.
Definition css_exprs (p : cssprop) : list expr := match p with CConst _ _ => [] | CExpr _ ex => [ex] end.
Lemma E_write_css e name props : emitsF (write_css e name props) (e :: flat_map css_exprs props).
Proof.
  unfold write_css. eapply E_perm.
  - ems. apply (E_seqs_map _ css_exprs). intros p _. destruct p; cbn [css_exprs]; emsP.
  - norm. reflexivity.
Qed.
Lemma E_write_script name params value fn : emitsF (write_script name params value fn) [name; params].
Proof. unfold write_script. cbv zeta. emsP. Qed.

Definition file_ok (f : file) : Prop :=
  (zero_range (f_pkg f) = true -> forallb is_blank (e_val (f_pkg f)) = true) /\
  forall e ch, In (FTempl e ch) (f_nodes f) ->
    forallb (ok_node 100) ch = true /\ flat_map (node_exprs 100) ch = flat_map (node_exprs 200) ch.

Lemma E_write_fnodes : forall l,
  (forall e ch, In (FTempl e ch) l -> forallb (ok_node 100) ch = true /\ flat_map (node_exprs 100) ch = flat_map (node_exprs 200) ch) ->
  emitsF (write_fnodes l) (flat_map fnode_exprs l).
Proof.
  induction l as [|n r IH]; intros H; cbn [write_fnodes flat_map]; [apply E_skip|].
  apply E_seq; [|apply IH; intros e ch Hin; apply (H e ch); right; exact Hin].
  destruct n; cbn [fnode_exprs].
  - apply E_go_block.
  - destruct (H e children (or_introl eq_refl)) as [H1 H2]. rewrite <- H2. apply E_write_template. exact H1.
  - apply E_write_css.
  - apply E_write_script.
Qed.
(* the package clause: added, unless its range is zero - then it is blank (file_ok) and left aside on both sides *)
Lemma E_pkg e s : (zero_range e = true -> forallb is_blank (e_val e) = true) -> emitsF (wpk e s) [e].
Proof.
  intros Hz g. unfold added, wpk. destruct (zero_range e).
  - cbn [wr upd adds filter]. unfold nb. rewrite (Hz eq_refl). reflexivity.
  - cbn [add_map adds map fst]. rewrite fl_cons. reflexivity.
Qed.
Lemma flat_map_single {A} (l : list A) : flat_map (fun x => [x]) l = l.
Proof. induction l; cbn; congruence. Qed.

Lemma E_gen_all f : file_ok f -> emitsF (gen_all f) (f_header f ++ [f_pkg f] ++ flat_map fnode_exprs (f_nodes f)).
Proof.
  intros Hok. unfold gen_all. eapply E_perm.
  - ems.
    + apply (E_seqs_map go_block (fun e => [e])). intros. apply E_go_block.
    + apply E_pkg. exact (proj1 Hok).
    + apply E_write_fnodes. exact (proj2 Hok).
  - norm. rewrite flat_map_single. reflexivity.
Qed.

(* the expressions handed to Add by the generator = the expressions of the AST, up to order and leaving
   whitespace-only expressions aside *)
Lemma all_expressions_added fn f : file_ok f ->
  Permutation (filter (fun e => negb (forallb is_blank (e_val e))) (map fst (adds (gen_state fn f)))) (file_exprs f).
Proof.
  intros H. pose proof (E_gen_all f H (g_init fn)) as P. unfold gen_state. fold (added (gen_all f (g_init fn))).
  change (filter (fun e => negb (forallb is_blank (e_val e)))) with fl. rewrite P.
  change (added (g_init fn)) with (@nil expr). cbn [filter]. rewrite app_nil_r. reflexivity.
Qed.
Lemma nothing_else_added fn f e : file_ok f ->
  In e (map fst (adds (gen_state fn f))) -> forallb is_blank (e_val e) = false -> In e (file_exprs f).
Proof.
  intros H Hin Hb. eapply Permutation_in; [apply (all_expressions_added fn f H)|].
  apply filter_In. split; [exact Hin|]. rewrite Hb. reflexivity.
Qed.
Lemma ex_file_ok : file_ok ex_file.
Proof. split; [vm_compute; discriminate|]. intros e ch [H|[]]. inversion H; subst. split; vm_compute; reflexivity. Qed.
