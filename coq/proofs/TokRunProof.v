(* Basic facts about [run] and the text states of spec/HtmlTok.v. *)
From Coq.Strings Require Import Byte String.
From Coq Require Import List Arith NArith Bool Lia.
Import ListNotations.
From V Require Import lib.Bytes spec.HtmlTok.
Open Scope nat_scope.

(* ---------- run ---------- *)
Lemma run_app st a b : run st (a ++ b) = let '(st1, e1) := run st a in let '(st2, e2) := run st1 b in (st2, e1 ++ e2).
Proof.
  revert st; induction a as [|x a IH]; intros st; cbn [app run].
  - destruct (run st b); reflexivity.
  - destruct (step st x) as [s1 e1]. rewrite IH. destruct (run s1 a) as [s2 e2]. destruct (run s2 b) as [s3 e3].
    rewrite app_assoc. reflexivity.
Qed.
Lemma run_silent st b st' r : step st b = (st', []) -> run st (b :: r) = run st' r.
Proof. intros H. cbn [run]. rewrite H. destruct (run st' r); reflexivity. Qed.
Lemma run_emit st b st' e r : step st b = (st', e) -> run st (b :: r) = let '(s2, e2) := run st' r in (s2, e ++ e2).
Proof. intros H. cbn [run]. rewrite H. reflexivity. Qed.

(* ---------- text holes ---------- *)
Lemma step_text_plain x nm b : plain_text x = true -> Byte.eqb b x3c = false -> step (Text x nm) b = (Text x nm, [TChar b]).
Proof. destruct x; try discriminate; intros _ H; cbn [step step_text]; rewrite ?H; reflexivity. Qed.

Lemma run_text_nolt x nm v rest : plain_text x = true -> no_lt v = true ->
  run (Text x nm) (v ++ rest) = let '(st, e) := run (Text x nm) rest in (st, chars v ++ e).
Proof.
  intros P. induction v as [|b r IH]; intros H.
  - cbn. destruct (run (Text x nm) rest); reflexivity.
  - unfold no_lt in H. cbn [forallb] in H. apply andb_prop in H as [Hb Hr]. apply negb_true_iff in Hb.
    cbn [app]. rewrite (run_emit _ _ _ _ _ (step_text_plain x nm b P Hb)). rewrite (IH Hr).
    destruct (run (Text x nm) rest); reflexivity.
Qed.

