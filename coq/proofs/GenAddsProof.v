(* C07 proofs, part 4: for the whole generator model (model/Gen.v gen_all): every (expression, target position)
   pair handed to SourceMap.Add is such that the FINAL generated text holds the expression's bytes at that
   position and the position is the specification's pos_of of its own index.  Proof: an invariant on the
   generator state preserved by every combinator (all of them only append to the output). *)
From Coq.Strings Require Import Byte String.
From Coq Require Import List Arith NArith Bool Lia ZifyN ZifyNat ZifyBool.
Import ListNotations.
From V Require Import lib.Bytes lib.Sexp model.Ast model.Url model.Gen model.SourceMap spec.SmSpec.
From V Require Import proofs.SourceMapProof proofs.RangeWriterProof proofs.SmFaithfulProof.
Local Open Scope nat_scope.

(* txt holds the expression's bytes at the recorded position, which is the walk of the text before it *)
Definition holds (txt : bytes) (ep : expr * pos) : Prop :=
  exists pre post, txt = pre ++ e_val (fst ep) ++ post /\ snd ep = advance p0 pre.
Definition Inv (g : gst) : Prop := wf (w g) /\ Forall (holds (outtext (w g))) (adds g).
Definition good (m : M) : Prop := forall g, Inv g -> Inv (m g).

Lemma holds_ext txt s ep : holds txt ep -> holds (txt ++ s) ep.
Proof. intros (pre & post & -> & E). exists pre, (post ++ s). split; [rewrite <- !app_assoc; reflexivity|exact E]. Qed.
Lemma Forall_holds_ext txt s l : Forall (holds txt) l -> Forall (holds (txt ++ s)) l.
Proof. intros H. eapply Forall_impl; [|exact H]. intros a. apply holds_ext. Qed.

Lemma good_skip : good skip.
Proof. intros g H. exact H. Qed.
Lemma good_seq a b : good a -> good b -> good (a ;; b).
Proof. intros Ha Hb g H. apply Hb, Ha, H. Qed.
Lemma good_seqs l : Forall good l -> good (seqs l).
Proof. induction 1; cbn [seqs fold_right]; [apply good_skip|apply good_seq; assumption]. Qed.
Lemma good_seqs_map {A} (f : A -> M) l : (forall x, good (f x)) -> good (seqs (map f l)).
Proof. intros H. apply good_seqs. apply Forall_forall. intros m Hm. apply in_map_iff in Hm. destruct Hm as (x & <- & _). apply H. Qed.
Lemma good_upd f : appends f -> good (upd f).
Proof.
  intros Hf g [Hw Ha]. destruct (Hf (w g) Hw) as [Hw' [s E]]. split; cbn [upd w adds]; [exact Hw'|].
  rewrite E. apply Forall_holds_ext. exact Ha.
Qed.
Lemma good_wi lvl s : good (wi lvl s).
Proof. apply good_upd, appends_wi. Qed.
Lemma good_wr s : good (wr s).
Proof. apply good_upd, appends_wr. Qed.
Lemma good_wl s : good (wl s).
Proof. apply good_upd, appends_wl. Qed.
Lemma good_wre e : good (wre e).
Proof.
  intros g [Hw Ha]. destruct (wre_holds e g Hw) as (pre & A & B & (s & C) & D & _). split; [exact D|].
  rewrite A, B. constructor.
  - exists pre, []. cbn [fst snd]. rewrite app_nil_r. split; reflexivity.
  - rewrite C, <- app_assoc. apply Forall_holds_ext. exact Ha.
Qed.
Lemma good_wre_nz e : good (wre_nz e).
Proof. unfold wre_nz. destruct (zero_range e); [apply good_wr|apply good_wre]. Qed.
Lemma good_wie lvl e s : good (wie lvl e (e_val e ++ s)).
Proof.
  intros g [Hw Ha]. destruct (wie_holds lvl e (e_val e ++ s) g Hw) as (pre & A & B & (s0 & C) & D & _). split; [exact D|].
  rewrite A, B. constructor.
  - exists pre, s. cbn [fst snd]. split; reflexivity.
  - rewrite C, <- app_assoc. apply Forall_holds_ext. exact Ha.
Qed.
Lemma good_wie_exact lvl e : good (wie lvl e (e_val e)).
Proof. pose proof (good_wie lvl e []) as H. rewrite app_nil_r in H. exact H. Qed.
Lemma Inv_set_vid v g : Inv g -> Inv (set_vid v g).
Proof. intros H. exact H. Qed.
Lemma Inv_set_cvar c g : Inv g -> Inv (set_cvar c g).
Proof. intros H. exact H. Qed.
Lemma good_with_var k : (forall v, good (k v)) -> good (with_var k).
Proof. intros H g Hg. unfold with_var. apply H. apply Inv_set_vid. exact Hg. Qed.

Ltac by_good := match goal with |- Inv (?m ?g) => cut (good m); [let G := fresh "G" in intros G; apply G|] end.

Ltac gd_hook := fail.
Ltac gd1 :=
  lazymatch goal with
  | |- good skip => apply good_skip
  | |- good (seq _ _) => apply good_seq
  | |- good (wi _ _) => apply good_wi
  | |- good (wr _) => apply good_wr
  | |- good (wl _) => apply good_wl
  | |- good (wis _ _) => apply good_wi
  | |- good (wrs _) => apply good_wr
  | |- good (wls _) => apply good_wl
  | |- good nl => apply good_wr
  | |- good (text _) => apply good_wl
  | |- good (wre _) => apply good_wre
  | |- good (wre_nz _) => apply good_wre_nz
  | |- good (wie _ ?e (e_val ?e ++ _)) => apply good_wie
  | |- good (wie _ ?e (e_val ?e)) => apply good_wie_exact
  | |- good (with_var _) => apply good_with_var; intro
  | |- good (seqs (map _ _)) => apply good_seqs_map; intro
  | |- good (match ?x with _ => _ end) => destruct x
  | |- good ((fun _ => _) _) => cbv beta
  | |- _ => first [ assumption | gd_hook ]
  end.
Ltac gd := repeat gd1.

Lemma good_err_handler lvl : good (err_handler lvl).
Proof. unfold err_handler. gd. Qed.
Ltac gd_hook ::= lazymatch goal with |- good (err_handler _) => apply good_err_handler end.
Lemma good_expr_err_handler lvl e : good (expr_err_handler lvl e).
Proof. intros g Hg. unfold expr_err_handler. by_good; [exact Hg|]. gd. Qed.
Lemma good_plain_write lvl vn : good (plain_write lvl vn).
Proof. unfold plain_write. gd. Qed.
Ltac gd_hook ::=
  lazymatch goal with
  | |- good (err_handler _) => apply good_err_handler
  | |- good (expr_err_handler _ _) => apply good_expr_err_handler
  | |- good (plain_write _ _) => apply good_plain_write
  end.
Lemma good_attr_value lvl elem n e : good (attr_value lvl elem n e).
Proof. unfold attr_value. gd. Qed.
Ltac gd_hook ::=
  lazymatch goal with
  | |- good (err_handler _) => apply good_err_handler
  | |- good (expr_err_handler _ _) => apply good_expr_err_handler
  | |- good (plain_write _ _) => apply good_plain_write
  | |- good (attr_value _ _ _ _) => apply good_attr_value
  | IH : forall _ _ _, good (write_attrs _ _ _ _) |- good (write_attrs _ _ _ _) => apply IH
  end.
Lemma good_write_attrs : forall f lvl elem l, good (write_attrs f lvl elem l).
Proof.
  induction f as [|f IH]; intros lvl elem l; cbn [write_attrs]; [apply good_skip|].
  gd.
Qed.

Lemma css_attrs_inv : forall f lvl l g, Inv g -> Inv (snd (css_attrs f lvl l g)).
Proof.
  induction f as [|f IH]; intros lvl l g Hg; [exact Hg|].
  destruct l as [|a r]; [exact Hg|]. cbn [css_attrs].
  match goal with |- Inv (snd (let '(a', g0) := ?X in _)) => assert (HX : Inv (snd X)); [|destruct X as [a' g1]; cbn [snd] in HX] end.
  - destruct a; try exact Hg.
    + destruct (beq (hesc n) (bs "class")); [|exact Hg]. cbn [snd]. by_good; [apply Inv_set_vid; exact Hg|].
      gd.
    + pose proof (IH lvl th g Hg) as H1. destruct (css_attrs f lvl th g) as [th' g1]. cbn [snd] in H1.
      pose proof (IH lvl el g1 H1) as H2. destruct (css_attrs f lvl el g1) as [el' g2]. exact H2.
  - pose proof (IH lvl r g1 HX) as H1. destruct (css_attrs f lvl r g1) as [r' g2]. exact H1.
Qed.

Lemma good_css n lvl l (k : list attr -> M) : (forall a, good (k a)) ->
  good (fun g => let '(a', g0) := css_attrs n lvl l g in k a' g0).
Proof.
  intros H g Hg. pose proof (css_attrs_inv n lvl l g Hg) as H1. destruct (css_attrs n lvl l g) as [a' g0]. apply H. exact H1.
Qed.
Lemma good_element_script lvl l : good (element_script lvl l).
Proof. unfold element_script. gd. Qed.
Lemma good_string_expr lvl e : good (string_expr lvl e).
Proof. unfold string_expr. gd. Qed.
Lemma good_call_plain lvl e : good (call_plain lvl e).
Proof. unfold call_plain. gd. Qed.
Lemma good_templ_buffer lvl : good (templ_buffer lvl).
Proof. unfold templ_buffer. gd. Qed.
Lemma good_script_part lvl p : good (script_part lvl p).
Proof. unfold script_part. gd. Qed.
Lemma good_write_attrs50 lvl elem l : good (write_attrs 50 lvl elem l).
Proof. apply good_write_attrs. Qed.
Ltac gd_hook ::=
  lazymatch goal with
  | |- good (err_handler _) => apply good_err_handler
  | |- good (expr_err_handler _ _) => apply good_expr_err_handler
  | |- good (plain_write _ _) => apply good_plain_write
  | |- good (attr_value _ _ _ _) => apply good_attr_value
  | |- good (write_attrs _ _ _ _) => apply good_write_attrs
  | |- good (element_script _ _) => apply good_element_script
  | |- good (string_expr _ _) => apply good_string_expr
  | |- good (call_plain _ _) => apply good_call_plain
  | |- good (templ_buffer _) => apply good_templ_buffer
  | |- good (script_part _ _) => apply good_script_part
  | |- good (fun g => let '(_, _) := css_attrs _ _ _ g in _) => apply good_css; intro
  | |- good (fun g => _ g) => let g := fresh "g" in let Hg := fresh "Hg" in intros g Hg; cbv beta; by_good; [exact Hg|]
  | IH : forall _ _ _, good (write_node _ _ _ _) |- good (write_node _ _ _ _) => apply IH
  | NA : forall _ _ _, good _ |- good ((fix wn (l : list node) (next : option node) {struct l} : M := _) _ _) => apply NA
  end.

Lemma good_write_node : forall f lvl n next, good (write_node f lvl n next).
Proof.
  induction f as [|f IH]; intros lvl n next; [apply good_skip|].
  assert (NA : forall lvl' l nx, good ((fix wn (l : list node) (next : option node) {struct l} : M :=
              match l with
              | [] => skip
              | c :: r => write_node f lvl' c (match r with x :: _ => Some x | [] => next end) ;; wn r next
              end) l nx)).
  { intros lvl'. induction l as [|c r IHl]; intros nx; [apply good_skip|]. apply good_seq; [apply IH|apply IHl]. }
  destruct n; cbn [write_node].
  all: gd.
Qed.

Lemma good_write_nodes f lvl : forall l next, good (write_nodes f lvl l next).
Proof. induction l as [|c r IH]; intros next; cbn [write_nodes]; [apply good_skip|]. apply good_seq; [apply good_write_node|apply IH]. Qed.
Ltac gd_hook ::=
  lazymatch goal with
  | |- good (err_handler _) => apply good_err_handler
  | |- good (templ_buffer _) => apply good_templ_buffer
  | |- good (write_nodes _ _ _ _) => apply good_write_nodes
  end.
Lemma good_write_template last e ch : good (write_template last e ch).
Proof.
  unfold write_template. gd.
  intros g Hg. by_good; [apply Inv_set_cvar; exact Hg|]. gd.
Qed.
Lemma good_go_block e : good (go_block e).
Proof. unfold go_block. gd. Qed.
Lemma good_write_css e name props : good (write_css e name props).
Proof. unfold write_css. gd. Qed.
Lemma good_write_script name params value fn : good (write_script name params value fn).
Proof. unfold write_script. cbv zeta. gd. Qed.
Lemma good_write_fnodes : forall l, good (write_fnodes l).
Proof.
  induction l as [|n r IH]; cbn [write_fnodes]; [apply good_skip|]. apply good_seq; [|exact IH].
  destruct n; [apply good_go_block|apply good_write_template|apply good_write_css|apply good_write_script].
Qed.

(* closing of a pending literal: after a Write/WriteIndent no literal is pending *)
Lemma inlit_after_wr s g : inlit (w (wr s g)) = false.
Proof. apply inlit_wr. Qed.
Lemma inlit_after_wi lvl s g : inlit (w (wi lvl s g)) = false.
Proof. apply inlit_wi. Qed.
Lemma inlit_after_go_block e g : inlit (w (go_block e g)) = false.
Proof. unfold go_block, seq. destruct (ends_with_comment (e_val e)); apply inlit_after_wi. Qed.
Lemma inlit_after_headers : forall hs g, inlit (w g) = false -> inlit (w (seqs (map go_block hs) g)) = false.
Proof.
  induction hs as [|h r IH]; intros g Hg; [exact Hg|]. cbn [map seqs fold_right]. unfold seq at 1.
  apply IH. apply inlit_after_go_block.
Qed.

Definition g_init (fn : bytes) : gst := {| w := rw0; vid := 0; cvar := []; fname := fn; adds := [] |}.
Definition gen_state (fn : bytes) (f : file) : gst := gen_all f (g_init fn).

Lemma Inv_init fn : Inv (g_init fn).
Proof. split; [exact wf_rw0|constructor]. Qed.

Ltac gd_hook ::=
  lazymatch goal with
  | |- good (write_fnodes _) => apply good_write_fnodes
  | |- good (go_block _) => apply good_go_block
  end.
Lemma good_gen_all f : forall g, Inv g -> inlit (w g) = false -> Inv (gen_all f g).
Proof.
  intros g Hg Hi. unfold gen_all.
  set (pre := wrs "// Code generated by templ - DO NOT EDIT." ;; wr [x0a; x0a] ;; seqs (map go_block (f_header f))).
  set (post := wrs "//lint:file-ignore SA4006 This context is only used if a nested component is present." ;; wr [x0a; x0a] ;;
               wrs "import ""github.com/a-h/templ""" ;; nl ;; wrs "import templruntime ""github.com/a-h/templ/runtime""" ;; nl ;; nl ;;
               write_fnodes (f_nodes f) ;; wrs "var _ = templruntime.GeneratedTemplate").
  set (pk := wpk (f_pkg f) (e_val (f_pkg f) ++ [x0a; x0a])).
  change (Inv (post (pk (pre g)))).
  assert (Gpre : good pre) by (unfold pre; gd).
  assert (Gpost : good post) by (unfold post; gd).
  assert (Ipre : inlit (w (pre g)) = false).
  { unfold pre, seq. apply inlit_after_headers. apply inlit_after_wr. }
  apply Gpost. unfold pk, wpk. destruct (zero_range (f_pkg f)); [apply good_wr, Gpre, Hg|].
  destruct (Gpre g Hg) as [Hw Ha].
  destruct (pkg_holds (f_pkg f) (e_val (f_pkg f) ++ [x0a; x0a]) (pre g) Hw Ipre) as (A & B & C & _).
  split; [exact C|]. rewrite A, B. constructor.
  - exists (outtext (w (pre g))), [x0a; x0a]. cbn [fst snd]. split; reflexivity.
  - apply Forall_holds_ext. exact Ha.
Qed.

Lemma gen_state_inv fn f : Inv (gen_state fn f).
Proof. apply good_gen_all; [apply Inv_init|reflexivity]. Qed.

Lemma generate_all_code fn f : fst (fst (generate_all fn f)) = outtext (w (gen_state fn f)).
Proof. unfold generate_all. fold (g_init fn). fold (gen_state fn f). destruct (sourcemap _). reflexivity. Qed.
Lemma generate_all_map fn f :
  snd (generate_all fn f) = (let '(s2t, t2s) := sourcemap (rev (adds (gen_state fn f))) in flat_map (show_entry "S") s2t ++ flat_map (show_entry "T") t2s).
Proof. unfold generate_all. fold (g_init fn). fold (gen_state fn f). destruct (sourcemap _). reflexivity. Qed.

(* every Add of the file: the final code holds the expression at the recorded position, which is a position of the code *)
Lemma generated_file_faithful fn f e (tp : pos) :
  In (e, tp) (adds (gen_state fn f)) ->
  let code := fst (fst (generate_all fn f)) in
  tp = pos_of code (fst (fst tp)) /\ has_prefix (e_val e) (skipn (N.to_nat (fst (fst tp))) code) = true.
Proof.
  intros Hin. cbv zeta. rewrite generate_all_code. destruct (gen_state_inv fn f) as [_ Ha].
  rewrite Forall_forall in Ha. destruct (Ha _ Hin) as (pre & post & E & T). cbn [fst snd] in E, T.
  assert (Ei : fst (fst tp) = N.of_nat (length pre)) by (rewrite T, advance_index; cbn [fst]; lia).
  rewrite E, Ei. split.
  - rewrite pos_of_app. exact T.
  - rewrite Nat2N.id, skipn_app_len. apply has_prefix_iff. exists post. reflexivity.
Qed.

(* end to end over the generator model: if the Adds of the file have pairwise disjoint key sets and no expression
   line ends inside a multi-byte sequence, the harness predicate holds of every added expression on the model's
   own code and tables *)
Lemma generated_file_add_faithful fn f src :
  let g := gen_state fn f in
  let code := fst (fst (generate_all fn f)) in
  let m := sourcemap (rev (adds g)) in
  pairwise_disj (rev (adds g)) ->
  forall e tp, In (e, tp) (adds g) -> Forall aligned (elines e) ->
  add_faithful src code (fst m) (snd m) e = true.
Proof.
  cbv zeta. intros Hd e tp Hin Hal. destruct (generated_file_faithful fn f e tp Hin) as [A B].
  apply (sourcemap_add_faithful src _ _ e tp Hd); [apply in_rev; rewrite rev_involutive; exact Hin|exact Hal|exact A|exact B].
Qed.

(* ================= example data for props/C07.v (non-vacuity witnesses) ================= *)
(* a two-line expression with a two-byte character on each line: f(é,<LF> ü) *)
Definition ex_val : bytes := [x66; x28; xc3; xa9; x2c; x0a; x20; xc3; xbc; x29].
Definition ex_e : expr := {| e_val := ex_val; e_fi := 13%N; e_fl := 1%N; e_fc := 3%N; e_ti := 23%N; e_tl := 2%N; e_tc := 4%N |}.
Definition ex_src : bytes := bs "package p" ++ [x0a] ++ bs "{{ " ++ ex_val ++ bs " }}" ++ [x0a].
Definition ex_out : bytes := bs "package p" ++ [x0a; x0a; x09] ++ bs "x := " ++ ex_val ++ [x0a].
Definition ex_tp : pos := (17%N, 2%N, 6%N).
Definition ex_e2 : expr := {| e_val := bs "y"; e_fi := 40%N; e_fl := 3%N; e_fc := 0%N; e_ti := 41%N; e_tl := 3%N; e_tc := 1%N |}.
Definition ex_tp2 : pos := (60%N, 5%N, 1%N).
(* a tiny file: package clause, one template with <div class={ c }>{ "é" }</div> *)
Definition mk_e (v : bytes) (i l c : N) : expr :=
  {| e_val := v; e_fi := i; e_fl := l; e_fc := c; e_ti := i + N.of_nat (length v); e_tl := l; e_tc := c + N.of_nat (length v) |}.
Definition ex_file : file :=
  {| f_header := [];
     f_pkg := mk_e (bs "package p") 0 0 0;
     f_nodes := [FTempl (mk_e (bs "T()") 17 2 6)
                   [NElem (bs "div") [AExpr (bs "class") (mk_e (bs "c") 40 3 13)]
                      [NStr (mk_e ([x22; xc3; xa9; x22]) 46 3 19) SpNone] SpNone]] |}.
Definition ex_fn : bytes := bs "t.templ".
(* the synthetic expression writeExpressionAttributeValueDefault receives for a class attribute *)
Definition ex_syn : expr :=
  {| e_val := bs "templ.CSSClasses(templ_7745c5c3_Var2).String()"; e_fi := 0%N; e_fl := 0%N; e_fc := 0%N; e_ti := 0%N; e_tl := 0%N; e_tc := 0%N |}.
