(* C14 proofs: ownership, isolation (each goroutine's projection of any interleaving is its run alone),
   cache linearity, once-handle ids, and the refutations for the variants without reset / with Put before Flush. *)
From Coq.Strings Require Import Byte String.
From Coq Require Import List Arith NArith Bool Lia.
Import ListNotations.
From V Require Import lib.Bytes spec.Isolated model.Pool.
Local Open Scope nat_scope.

(* ---------- lists ---------- *)
Lemma nth_error_set_nth {A} (l : list A) i j x :
  nth_error (set_nth i x l) j = if i =? j then (match nth_error l j with Some _ => Some x | None => None end) else nth_error l j.
Proof.
  revert i j; induction l as [|y r IH]; intros i j.
  - destruct i, j; cbn; try reflexivity; destruct (i =? j); reflexivity.
  - destruct i, j; cbn; try reflexivity. apply IH.
Qed.
Lemma nth_error_set_nth_eq {A} (l : list A) i x y : nth_error l i = Some y -> nth_error (set_nth i x l) i = Some x.
Proof. intros H. rewrite nth_error_set_nth, Nat.eqb_refl, H. reflexivity. Qed.
Lemma nth_error_set_nth_neq {A} (l : list A) i j x : i <> j -> nth_error (set_nth i x l) j = nth_error l j.
Proof. intros H. rewrite nth_error_set_nth. apply Nat.eqb_neq in H. rewrite H. reflexivity. Qed.
Lemma length_set_nth {A} (l : list A) i x : length (set_nth i x l) = length l.
Proof. revert i; induction l as [|y r IH]; intros i; destruct i; cbn; try reflexivity. rewrite IH; reflexivity. Qed.
Lemma set_nth_same {A} (l : list A) i x : nth_error l i = Some x -> set_nth i x l = l.
Proof.
  revert i; induction l as [|y r IH]; intros i H; destruct i; cbn in *; try discriminate.
  - inversion H; reflexivity.
  - rewrite IH by exact H. reflexivity.
Qed.
Lemma set_nth_set_nth {A} (l : list A) i x y : set_nth i x (set_nth i y l) = set_nth i x l.
Proof. revert i; induction l as [|z r IH]; intros i; destruct i; cbn; try reflexivity. rewrite IH; reflexivity. Qed.

Lemma remove_at_split {A} (l : list A) k x : nth_error l k = Some x -> l = firstn k l ++ x :: skipn (S k) l.
Proof.
  revert k; induction l as [|y r IH]; intros k H; destruct k; cbn in *; try discriminate.
  - inversion H; reflexivity.
  - f_equal. apply IH. exact H.
Qed.
Lemma remove_at_in {A} (l : list A) k y : In y (remove_at k l) -> In y l.
Proof.
  unfold remove_at. intros H. apply in_app_or in H as [H|H].
  - rewrite <- (firstn_skipn k l). apply in_or_app. left; exact H.
  - rewrite <- (firstn_skipn (S k) l). apply in_or_app. right; exact H.
Qed.
Lemma remove_at_nodup {A} (l : list A) k x : NoDup l -> nth_error l k = Some x -> NoDup (remove_at k l) /\ ~ In x (remove_at k l).
Proof.
  intros N H. rewrite (remove_at_split l k x H) in N. apply NoDup_remove in N. exact N.
Qed.

(* ---------- flush and cache lookup against their specifications ---------- *)
Lemma deliver_spec b sk t s : tgt b = t -> nth_error sk t = Some s ->
  exists s' b', deliver b sk = (set_nth t s' sk, b', err b') /\ tgt b' = t /\ tgtB b' = tgtB b /\ scap s' = scap s /\
    lflush (scap s) (sout s) (sbb s) (spend s) (content b) (err b) (tgtB b) = (content b', err b', sout s', sbb s', spend s').
Proof.
  intros Ht Hs. unfold deliver, lflush. destruct (err b) eqn:E.
  - exists s, b. rewrite (set_nth_same _ _ _ Hs), E. repeat split; assumption.
  - rewrite Ht, Hs. destruct (tgtB b) eqn:B.
    + exists (smk (sout s) (scap s) (sbb s ++ content b) (spend s)), {| content := []; err := false; tgt := t; tgtB := true |}.
      cbn; repeat split; reflexivity.
    + destruct (dest_write (scap s) (sout s) (spend s) (content b)) as [[o' pd'] rest].
      exists (smk o' (scap s) (sbb s) pd'), {| content := rest; err := negb (nilb rest); tgt := t; tgtB := false |}.
      cbn; repeat split; reflexivity.
Qed.

Definition coherent (fs : fsys) (ca : list (N * centry)) : Prop :=
  forall f e, assoc f ca = Some e -> assoc f fs = Some {| mtime := cmt e; flines := clines e |}.

Lemma cache_lookup_spec fs now ca f : coherent fs ca ->
  fst (cache_lookup fs now ca f) = option_map flines (assoc f fs) /\ coherent fs (snd (cache_lookup fs now ca f)).
Proof.
  intros C.
  assert (L : fst (cache_load fs ca f) = option_map flines (assoc f fs) /\ coherent fs (snd (cache_load fs ca f))).
  { unfold cache_load. destruct (assoc f fs) as [fi|] eqn:F; cbn; split; try reflexivity; try exact C.
    intros f' e'. unfold cache_set. cbn. destruct (N.eqb f' f) eqn:E.
    - apply N.eqb_eq in E. subst f'. intros H; inversion H; subst e'. cbn. rewrite F. destruct fi; reflexivity.
    - apply C. }
  unfold cache_lookup. destruct (assoc f ca) as [e|] eqn:A; [|exact L].
  pose proof (C f e A) as F. rewrite F. cbn [mtime]. rewrite N.ltb_irrefl.
  destruct (N.ltb (now - cmt e) 100); cbn; split; try reflexivity; exact C.
Qed.

(* ---------- the invariant ---------- *)
Record inv (fs : fsys) (w : world) : Prop := {
  i_len : length (sinks w) = length (threads w);
  i_nodup : NoDup (poolA w);
  i_pool_lt : forall i, In i (poolA w) -> i < length (heap w);
  i_own : forall t th i ph, nth_error (threads w) t = Some th -> own th = Some (i, ph) ->
            i < length (heap w) /\ ~ In i (poolA w) /\ (ph <> PGot -> exists b, nth_error (heap w) i = Some b /\ tgt b = t);
  i_excl : forall t1 t2 th1 th2 i ph1 ph2, nth_error (threads w) t1 = Some th1 -> nth_error (threads w) t2 = Some th2 ->
            own th1 = Some (i, ph1) -> own th2 = Some (i, ph2) -> t1 = t2;
  i_poolB : forall c, In c (poolB w) -> c = [];
  i_bb : forall t th s, nth_error (threads w) t = Some th -> nth_error (sinks w) t = Some s -> bown th = Some true -> sbb s = [];
  i_cache : coherent fs (cache w);
  i_reg : forall t th, nth_error (threads w) t = Some th -> exists l, reg th = Some l;
  i_ids_le : forall t th x, nth_error (threads w) t = Some th -> In x (ids th) -> (x <= ctr w)%N;
  i_ids_nodup : forall t th, nth_error (threads w) t = Some th -> NoDup (ids th);
  i_ids_excl : forall t1 t2 th1 th2 x, nth_error (threads w) t1 = Some th1 -> nth_error (threads w) t2 = Some th2 ->
            In x (ids th1) -> In x (ids th2) -> t1 = t2 }.

Lemma pick_pool_some {A} pick (p : list A) x p' : pick_pool pick p = Some (x, p') -> exists k, nth_error p k = Some x /\ p' = remove_at k p.
Proof.
  unfold pick_pool. destruct pick as [k|]; [|discriminate]. destruct (nth_error p k) eqn:E; [|discriminate].
  intros H; inversion H; subst. exists k. split; [exact E|reflexivity].
Qed.

(* what one step does to the shared state, by kind of effect *)
Definition shape (fs : fsys) (w w' : world) (t : nat) : Prop :=
  exists th th' s s',
    nth_error (threads w) t = Some th /\ nth_error (sinks w) t = Some s /\
    threads w' = set_nth t th' (threads w) /\ sinks w' = set_nth t s' (sinks w) /\
    ( (heap w' = heap w /\ poolA w' = poolA w /\ own th' = own th)
    \/ (exists i ph ph' b', own th = Some (i, ph) /\ own th' = Some (i, ph') /\ ph' <> PGot /\ heap w' = set_nth i b' (heap w) /\ tgt b' = t /\ poolA w' = poolA w)
    \/ (own th = None /\ own th' = Some (length (heap w), PGot) /\ (exists fb, heap w' = heap w ++ [fb]) /\ poolA w' = poolA w)
    \/ (exists k i, own th = None /\ nth_error (poolA w) k = Some i /\ poolA w' = remove_at k (poolA w) /\ own th' = Some (i, PGot) /\ heap w' = heap w)
    \/ (exists i ph, own th = Some (i, ph) /\ own th' = None /\ poolA w' = i :: poolA w /\ heap w' = heap w) ) /\
    ( (poolB w' = poolB w /\ bown th' = bown th /\ (bown th <> Some true \/ sbb s' = sbb s))
    \/ (bown th' = Some false /\ (poolB w' = poolB w \/ exists k, poolB w' = remove_at k (poolB w)))
    \/ (bown th' = Some true /\ sbb s' = [] /\ poolB w' = poolB w)
    \/ (bown th = Some true /\ bown th' = None /\ poolB w' = sbb s :: poolB w) ) /\
    (cache w' = cache w \/ exists f now, cache w' = snd (cache_lookup fs now (cache w) f)) /\
    ((ctr w' = ctr w /\ ids th' = ids th) \/ (ctr w' = (ctr w + 1)%N /\ ids th' = (ctr w + 1)%N :: ids th)) /\
    (exists l, reg th' = Some l).

Ltac step_cases H :=
  repeat match type of H with
  | context [match ?x with _ => _ end] =>
      match x with
      | deliver _ _ => fail 1
      | cache_lookup _ _ _ _ => fail 1
      | sink_write _ _ _ => fail 1
      | dest_write _ _ _ _ => fail 1
      | _ => destruct x eqn:?; try discriminate H
      end
  end.


Ltac own_fact I Hth :=
  try (let HO := fresh "HO" in
       pose proof (i_own _ _ I _ _ _ _ Hth eq_refl) as HO; cbn [heap poolA] in HO;
       destruct HO as (?Hlt & ?Hnin & HO);
       try (destruct HO as (?b0 & ?Hb0 & ?Ht0); [discriminate|]));
  try match goal with
      | Hb : nth_error ?hp ?n = Some ?b, Hb0 : nth_error ?hp ?n = Some ?b0 |- _ => rewrite Hb in Hb0; inversion Hb0; subst b0; clear Hb0
      end.

Ltac use_deliver Hs H :=
  match type of H with
  | context [deliver ?b ?sk] =>
      match goal with
      | Ht0 : tgt b = _ |- _ =>
        let Hd := fresh "Hd" in
        destruct (deliver_spec b sk _ _ Ht0 Hs) as (?s' & ?b' & Hd & ?Htb & ?HtB & ?Hcap & ?Hfl);
        rewrite Hd in H
      end
  | _ => idtac
  end.

Ltac use_lets H :=
  repeat match type of H with
  | context [cache_lookup ?a ?b ?c ?d] => let E := fresh "Hcl" in destruct (cache_lookup a b c d) as [?res ?ca'] eqn:E
  | context [dest_write ?a ?b ?c ?d] => let E := fresh "Hdw" in destruct (dest_write a b c d) as [[?out' ?pd'] ?rest] eqn:E
  | context [sink_write ?a ?b ?c] => let E := fresh "Hsw" in destruct (sink_write a b c) as [?out' ?rest] eqn:E
  | context [pick_pool ?a ?b] => let E := fresh "Hpp" in destruct (pick_pool a b) as [[? ?]|] eqn:E; [apply pick_pool_some in E as (?k & ?Hk & ?Hrm)|]
  end.

Ltac shapeA :=
  first [ left; repeat split; reflexivity
        | right; left; do 4 eexists; repeat split; try reflexivity; try discriminate; cbn [tgt with_content]; solve [reflexivity | assumption]
        | right; right; left; repeat split; try reflexivity; eexists; reflexivity
        | right; right; right; left; do 2 eexists; repeat split; try reflexivity; eassumption
        | right; right; right; right; do 2 eexists; repeat split; reflexivity ].
Ltac shapeB :=
  first [ left; repeat split; try reflexivity; first [left; discriminate | right; reflexivity]
        | right; left; split; [reflexivity|]; first [left; reflexivity | right; eexists; reflexivity]
        | right; right; left; repeat split; reflexivity
        | right; right; right; repeat split; reflexivity ].
Ltac shapeC :=
  first [ left; reflexivity
        | match goal with Hcl : cache_lookup _ ?now _ ?f = _ |- _ => right; exists f, now; rewrite Hcl; reflexivity end ].
Ltac shapeD := first [left; split; reflexivity | right; split; reflexivity].

Ltac leaf Hth Hs H :=
  inversion H; subst; clear H;
  unfold shape; cbn [heap poolA poolB cache ctr mwss threads sinks wmk];
  eexists; eexists; eexists; eexists;
  split; [exact Hth|]; split; [exact Hs|];
  split; [reflexivity|];
  split; [first [reflexivity | symmetry; apply set_nth_same; exact Hs]|];
  cbn [own bown ids reg tmk sbb smk];
  split; [shapeA|]; split; [shapeB|]; split; [shapeC|]; split; [shapeD|eexists; reflexivity].

Lemma step_shape fs w t pick now w' : inv fs w -> step real fs w (t, pick, now) = Some w' -> shape fs w w' t.
Proof.
  intros I H. destruct w as [hp pa pb ca cn ms ts sk].
  destruct (nth_error ts t) as [th|] eqn:Hth; [|unfold step in H; rewrite Hth in H; discriminate].
  assert (Hs : exists s, nth_error sk t = Some s).
  { destruct (nth_error sk t) eqn:E; [eexists; reflexivity|]. apply nth_error_None in E.
    pose proof (i_len _ _ I) as L. cbn in L. assert (t < length ts) by (apply nth_error_Some; congruence). lia. }
  destruct Hs as [s Hs].
  destruct th as [o bo cx rg is fl p].
  destruct (i_reg _ _ I _ _ Hth) as [rl Hrl]; cbn [reg] in Hrl; subst rg.
  unfold step in H. rewrite Hth, ?Hs in H. cbn [real reset_on_get reset_on_put flush_before_put fresh_registry reg_get] in H.
  step_cases H.
  all: own_fact I Hth.
  all: use_deliver Hs H.
  all: use_lets H.
  all: step_cases H.
  all: try match goal with Hq : match pick_pool ?a ?b with _ => _ end = _ |- _ =>
         let E := fresh "Hpp" in destruct (pick_pool a b) as [[? ?]|] eqn:E; [apply pick_pool_some in E as (?k & ?Hk & ?Hrm)|]; inversion Hq; subst; clear Hq end.
  all: try match goal with Hq : pick_pool _ _ = Some _ |- _ => apply pick_pool_some in Hq as (?k & ?Hk & ?Hrm) end.
  all: try discriminate H.
  all: try solve [leaf Hth Hs H].
Qed.

Lemma nth_set_cases {A} (l : list A) t u x y z :
  nth_error l t = Some x -> nth_error (set_nth t y l) u = Some z -> (u = t /\ z = y) \/ (u <> t /\ nth_error l u = Some z).
Proof.
  intros H1 H2. rewrite nth_error_set_nth in H2. destruct (t =? u) eqn:E.
  - apply Nat.eqb_eq in E. subst u. rewrite H1 in H2. inversion H2. left; split; reflexivity.
  - apply Nat.eqb_neq in E. right. split; [congruence|exact H2].
Qed.

Lemma shape_inv fs w w' t : inv fs w -> shape fs w w' t -> inv fs w'.
Proof.
  intros I (th & th' & s & s' & Hth & Hs & HT & HS & A & B & C & D & RG).
  assert (LH : length (heap w) <= length (heap w')).
  { destruct A as [(E&_)|[(i&ph&ph'&b'&_&_&_&E&_)|[(_&_&(fb&E)&_)|[(k&i&_&_&_&_&E)|(i&ph&_&_&_&E)]]]]; rewrite E; try lia.
    - rewrite length_set_nth; lia. - rewrite app_length; cbn; lia. }
  assert (OT : forall i ph, own th = Some (i, ph) -> forall u thu phu, u <> t -> nth_error (threads w) u = Some thu -> own thu = Some (i, phu) -> False).
  { intros i ph O u thu phu Hne Hu Ou. apply Hne. eapply (i_excl _ _ I); eassumption. }
  constructor.
  - rewrite HT, HS, !length_set_nth. apply (i_len _ _ I).
  - destruct A as [(_&E&_)|[(i&ph&ph'&b'&_&_&_&_&_&E)|[(_&_&_&E)|[(k&i&_&Hk&E&_&_)|(i&ph&O&_&E&_)]]]]; rewrite E; try apply (i_nodup _ _ I).
    + apply (remove_at_nodup _ _ _ (i_nodup _ _ I) Hk).
    + constructor; [|apply (i_nodup _ _ I)]. apply (i_own _ _ I _ _ _ _ Hth O).
  - intros j Hj. apply Nat.lt_le_trans with (length (heap w)); [|exact LH].
    destruct A as [(_&E&_)|[(i&ph&ph'&b'&_&_&_&_&_&E)|[(_&_&_&E)|[(k&i&_&Hk&E&_&_)|(i&ph&O&_&E&_)]]]]; rewrite E in Hj; try (apply (i_pool_lt _ _ I); exact Hj).
    + apply (i_pool_lt _ _ I). eapply remove_at_in; exact Hj.
    + destruct Hj as [<-|Hj]; [apply (i_own _ _ I _ _ _ _ Hth O)|apply (i_pool_lt _ _ I); exact Hj].
  - intros u thu j ph Hu Ou. rewrite HT in Hu. destruct (nth_set_cases _ _ _ _ _ _ Hth Hu) as [[-> ->]|[Hne Hu']].
    + destruct A as [(EH&EP&EO)|[(i&ph0&ph'&b'&O&O'&Hph&EH&Hb&EP)|[(O&O'&(fb&EH)&EP)|[(k&i&O&Hk&EP&O'&EH)|(i&ph0&O&O'&EP&EH)]]]].
      * rewrite EO in Ou. destruct (i_own _ _ I _ _ _ _ Hth Ou) as (H1&H2&H3). rewrite EH, EP. repeat split; assumption.
      * rewrite O' in Ou. inversion Ou; subst j ph. destruct (i_own _ _ I _ _ _ _ Hth O) as (H1&H2&H3). rewrite EH, EP, length_set_nth.
        repeat split; try assumption. intros _. exists b'. split; [|exact Hb].
        destruct (nth_error (heap w) i) eqn:E; [eapply nth_error_set_nth_eq; exact E|]. apply nth_error_None in E. lia.
      * rewrite O' in Ou. inversion Ou; subst j ph. rewrite EH, EP, app_length. cbn. repeat split; [lia| |congruence].
        intros Hin. apply (i_pool_lt _ _ I) in Hin. lia.
      * rewrite O' in Ou. inversion Ou; subst j ph. rewrite EH, EP. repeat split; [|apply (remove_at_nodup _ _ _ (i_nodup _ _ I) Hk)|congruence].
        apply (i_pool_lt _ _ I). eapply nth_error_In; exact Hk.
      * rewrite O' in Ou. discriminate.
    + destruct (i_own _ _ I _ _ _ _ Hu' Ou) as (H1&H2&H3). split; [lia|]. split.
      * destruct A as [(_&E&_)|[(i&ph0&ph'&b'&_&_&_&_&_&E)|[(_&_&_&E)|[(k&i&_&Hk&E&_&_)|(i&ph0&O&_&E&_)]]]]; rewrite E; try exact H2.
        -- intros Hin. apply H2. eapply remove_at_in; exact Hin.
        -- intros [<-|Hin]; [|exact (H2 Hin)]. exact (OT _ _ O _ _ _ Hne Hu' Ou).
      * intros Hph. destruct (H3 Hph) as (b & Hb & Htb). exists b. split; [|exact Htb].
        destruct A as [(E&_)|[(i&ph0&ph'&b'&O&_&_&E&_)|[(_&_&(fb&E)&_)|[(k&i&_&_&_&_&E)|(i&ph0&_&_&_&E)]]]]; rewrite E; try exact Hb.
        -- rewrite nth_error_set_nth_neq; [exact Hb|]. intros <-. exact (OT _ _ O _ _ _ Hne Hu' Ou).
        -- rewrite nth_error_app1 by lia. exact Hb.
  - intros u1 u2 t1 t2 j ph1 ph2 H1 H2 O1 O2. rewrite HT in H1, H2.
    assert (K : forall u thu phu ph', u <> t -> nth_error (threads w) u = Some thu -> own thu = Some (j, phu) -> own th' = Some (j, ph') -> False).
    { intros u thu phu ph' Hne Hu Ou O'.
      destruct A as [(EH&EP&EO)|[(i&ph0&ph0'&b'&O&O0'&Hph&EH&Hb&EP)|[(O&O0'&(fb&EH)&EP)|[(k&i&O&Hk&EP&O0'&EH)|(i&ph0&O&O0'&EP&EH)]]]].
      - rewrite EO in O'. exact (OT _ _ O' _ _ _ Hne Hu Ou).
      - rewrite O0' in O'. inversion O'; subst. exact (OT _ _ O _ _ _ Hne Hu Ou).
      - rewrite O0' in O'. inversion O'; subst. destruct (i_own _ _ I _ _ _ _ Hu Ou) as (Hlt&_). lia.
      - rewrite O0' in O'. inversion O'; subst. destruct (i_own _ _ I _ _ _ _ Hu Ou) as (_&Hn&_). apply Hn. eapply nth_error_In; exact Hk.
      - rewrite O0' in O'. discriminate. }
    destruct (nth_set_cases _ _ _ _ _ _ Hth H1) as [[-> ->]|[Hn1 H1']]; destruct (nth_set_cases _ _ _ _ _ _ Hth H2) as [[-> ->]|[Hn2 H2']].
    + reflexivity.
    + exfalso. eapply K; eassumption.
    + exfalso. eapply K; eassumption.
    + eapply (i_excl _ _ I); eassumption.
  - intros c Hc. destruct B as [(E&_)|[(_&[E|(k&E)])|[(_&_&E)|(Bt&_&E)]]]; rewrite E in Hc; try (apply (i_poolB _ _ I); exact Hc).
    + apply (i_poolB _ _ I). eapply remove_at_in; exact Hc.
    + destruct Hc as [<-|Hc]; [apply (i_bb _ _ I _ _ _ Hth Hs Bt)|apply (i_poolB _ _ I); exact Hc].
  - intros u thu su Hu Hsu Bu. rewrite HT in Hu. rewrite HS in Hsu.
    destruct (nth_set_cases _ _ _ _ _ _ Hth Hu) as [[-> ->]|[Hne Hu']]; destruct (nth_set_cases _ _ _ _ _ _ Hs Hsu) as [[Eq2 ->]|[Hne2 Hsu']]; try congruence.
    + destruct B as [(_&E&[N|E2])|[(E&_)|[(_&E&_)|(_&E&_)]]]; try congruence.
      * rewrite E2. apply (i_bb _ _ I _ _ _ Hth Hs). congruence.
    + apply (i_bb _ _ I _ _ _ Hu' Hsu' Bu).
  - destruct C as [EC|(f&now&EC)]; rewrite EC; [apply (i_cache _ _ I)|apply cache_lookup_spec; apply (i_cache _ _ I)].
  - intros u thu Hu. rewrite HT in Hu. destruct (nth_set_cases _ _ _ _ _ _ Hth Hu) as [[-> ->]|[Hne Hu']]; [exact RG|apply (i_reg _ _ I _ _ Hu')].
  - intros u thu x Hu Hx. rewrite HT in Hu. destruct (nth_set_cases _ _ _ _ _ _ Hth Hu) as [[-> ->]|[Hne Hu']].
    + destruct D as [(E1&E2)|(E1&E2)]; rewrite E1; rewrite E2 in Hx.
      * apply (i_ids_le _ _ I _ _ _ Hth Hx).
      * destruct Hx as [<-|Hx]; [lia|]. pose proof (i_ids_le _ _ I _ _ _ Hth Hx). lia.
    + pose proof (i_ids_le _ _ I _ _ _ Hu' Hx). destruct D as [(E1&_)|(E1&_)]; rewrite E1; lia.
  - intros u thu Hu. rewrite HT in Hu. destruct (nth_set_cases _ _ _ _ _ _ Hth Hu) as [[-> ->]|[Hne Hu']]; [|apply (i_ids_nodup _ _ I _ _ Hu')].
    destruct D as [(E1&E2)|(E1&E2)]; rewrite E2; [apply (i_ids_nodup _ _ I _ _ Hth)|].
    constructor; [|apply (i_ids_nodup _ _ I _ _ Hth)]. intros Hin. pose proof (i_ids_le _ _ I _ _ _ Hth Hin). lia.
  - intros u1 u2 t1 t2 x H1 H2 X1 X2. rewrite HT in H1, H2.
    assert (K : forall u thu, u <> t -> nth_error (threads w) u = Some thu -> In x (ids thu) -> In x (ids th') -> False).
    { intros u thu Hne Hu Xu X'. destruct D as [(E1&E2)|(E1&E2)]; rewrite E2 in X'.
      - apply Hne. eapply (i_ids_excl _ _ I); eassumption.
      - destruct X' as [<-|X']; [pose proof (i_ids_le _ _ I _ _ _ Hu Xu); lia|]. apply Hne. eapply (i_ids_excl _ _ I); eassumption. }
    destruct (nth_set_cases _ _ _ _ _ _ Hth H1) as [[-> ->]|[Hn1 H1']]; destruct (nth_set_cases _ _ _ _ _ _ Hth H2) as [[-> ->]|[Hn2 H2']].
    + reflexivity.
    + exfalso. eapply K; eassumption.
    + exfalso. eapply K; eassumption.
    + eapply (i_ids_excl _ _ I); eassumption.
Qed.

Lemma shape_frame fs w w' t : inv fs w -> shape fs w w' t -> forall u, u <> t -> view w' u = view w u.
Proof.
  intros I (th & th' & s & s' & Hth & Hs & HT & HS & A & _) u Hne.
  unfold view. rewrite HT, HS, !nth_error_set_nth_neq by congruence.
  destruct (nth_error (threads w) u) as [thu|] eqn:Hu; [|reflexivity].
  destruct (i_reg _ _ I _ _ Hu) as [lu Hlu]; rewrite Hlu; cbn [reg_get].
  destruct (nth_error (sinks w) u) as [su|] eqn:Hsu; [|reflexivity].
  destruct (own thu) as [[j ph]|] eqn:Ou; [|reflexivity].
  destruct (i_own _ _ I _ _ _ _ Hu Ou) as (Hlt & _ & _).
  assert (E : nth_error (heap w') j = nth_error (heap w) j).
  { destruct A as [(E&_)|[(i&ph0&ph'&b'&O&_&_&E&_)|[(_&_&(fb&E)&_)|[(k&i&_&_&_&_&E)|(i&ph0&_&_&_&E)]]]]; rewrite E; try reflexivity.
    - apply nth_error_set_nth_neq. intros <-. apply Hne. eapply (i_excl _ _ I); eassumption.
    - apply nth_error_app1. exact Hlt. }
  rewrite E. reflexivity.
Qed.

Ltac rw_lookups Hth Hs :=
  repeat first
    [ rewrite (nth_error_set_nth_eq _ _ _ _ Hth)
    | rewrite (nth_error_set_nth_eq _ _ _ _ Hs)
    | rewrite Hth | rewrite Hs
    | match goal with Hb : nth_error ?hp ?n = Some _ |- context [nth_error (set_nth ?n _ ?hp) ?n] => rewrite (nth_error_set_nth_eq _ _ _ _ Hb) end
    | match goal with Hb : nth_error ?hp ?n = Some _ |- context [nth_error ?hp ?n] => rewrite Hb end ].

Ltac sim_leaf Hth Hs H :=
  inversion H; subst; clear H;
  unfold view; cbn [heap poolA poolB cache ctr mwss threads sinks wmk];
  rw_lookups Hth Hs; cbn [own bown ctx reg reg_get ids failed prog tmk phase_flushed sbb sout scap spend smk content err tgtB with_content length];
  rw_lookups Hth Hs; cbn [own bown ctx reg reg_get ids failed prog tmk phase_flushed sbb sout scap spend smk content err tgtB with_content length];
  eexists; eexists; split; [reflexivity|]; split; [reflexivity|];
  cbn [lstep lmk l_buf l_bb l_bbc l_out l_cap l_ctx l_ss l_pend l_nids l_failed l_prog];
  repeat match goal with
         | Hq : ?x = _ |- context [?x] => rewrite Hq
         end;
  try reflexivity.

Lemma step_sim fs w t pick now w' : inv fs w -> step real fs w (t, pick, now) = Some w' ->
  exists v v', view w t = Some v /\ view w' t = Some v' /\ lstep fs v = Some v'.
Proof.
  intros I H. destruct w as [hp pa pb ca cn ms ts sk].
  destruct (nth_error ts t) as [th|] eqn:Hth; [|unfold step in H; rewrite Hth in H; discriminate].
  assert (Hs : exists s, nth_error sk t = Some s).
  { destruct (nth_error sk t) eqn:E; [eexists; reflexivity|]. apply nth_error_None in E.
    pose proof (i_len _ _ I) as L. cbn in L. assert (t < length ts) by (apply nth_error_Some; congruence). lia. }
  destruct Hs as [s Hs].
  destruct th as [o bo cx rg is fl p].
  destruct (i_reg _ _ I _ _ Hth) as [rl Hrl]; cbn [reg] in Hrl; subst rg.
  unfold step in H. rewrite Hth, ?Hs in H. cbn [real reset_on_get reset_on_put flush_before_put fresh_registry reg_get] in H.
  step_cases H.
  all: own_fact I Hth.
  all: use_deliver Hs H.
  all: use_lets H.
  all: try match goal with Hcl : cache_lookup ?fs ?now ?ca ?f = (?res, _) |- _ =>
         let Hr := fresh "Hres" in
         pose proof (proj1 (cache_lookup_spec fs now ca f (i_cache _ _ I))) as Hr; rewrite Hcl in Hr; cbn [fst] in Hr; subst res end.
  all: step_cases H.
  all: try match goal with Hq : match pick_pool ?a ?b with _ => _ end = _ |- _ =>
         let E := fresh "Hpp" in destruct (pick_pool a b) as [[? ?]|] eqn:E; [apply pick_pool_some in E as (?k & ?Hk & ?Hrm)|]; inversion Hq; subst; clear Hq end.
  all: try match goal with Hq : pick_pool _ _ = Some _ |- _ => apply pick_pool_some in Hq as (?k & ?Hk & ?Hrm) end.
  all: try discriminate H.
  all: try match goal with Hq : context [option_map flines (assoc ?f ?fs)] |- _ => destruct (assoc f fs) eqn:?Hfs; cbn [option_map] in * end.
  all: try discriminate.
  all: try match goal with Hk : nth_error ?q ?k = Some ?c |- _ => let Hc := fresh "Hc" in pose proof (i_poolB _ _ I c (nth_error_In _ _ Hk)) as Hc; subst c end.
  all: try solve [sim_leaf Hth Hs H].
Qed.

(* ---------- any schedule ---------- *)
Lemma step_inv fs w s w' : inv fs w -> step real fs w s = Some w' -> inv fs w'.
Proof. destruct s as [[t pick] now]. intros I H. eapply shape_inv; [exact I|eapply step_shape; eassumption]. Qed.

Lemma exec_inv fs sch : forall w w', inv fs w -> exec real fs w sch = Some w' -> inv fs w'.
Proof.
  induction sch as [|s r IH]; intros w w' I H; cbn in H; [inversion H; subst; exact I|].
  destruct (step real fs w s) as [w1|] eqn:S; [|discriminate]. eapply IH; [eapply step_inv; eassumption|exact H].
Qed.

Lemma exec_projection fs sch : forall w w', inv fs w -> exec real fs w sch = Some w' ->
  forall t v, view w t = Some v -> exists v', view w' t = Some v' /\ lrun fs (steps_of t sch) v = Some v'.
Proof.
  induction sch as [|s r IH]; intros w w' I H t v V; cbn in H.
  - inversion H; subst. exists v. split; [exact V|reflexivity].
  - destruct (step real fs w s) as [w1|] eqn:S; [|discriminate]. destruct s as [[u pick] now].
    pose proof (step_inv _ _ _ _ I S) as I1. cbn [steps_of].
    destruct (Nat.eqb u t) eqn:E.
    + apply Nat.eqb_eq in E. subst u. destruct (step_sim _ _ _ _ _ _ I S) as (v0 & v1 & V0 & V1 & L).
      rewrite V in V0. inversion V0; subst v0. destruct (IH _ _ I1 H t v1 V1) as (v' & V' & R).
      exists v'. split; [exact V'|]. cbn. rewrite L. exact R.
    + apply Nat.eqb_neq in E. assert (V1 : view w1 t = Some v).
      { rewrite (shape_frame _ _ _ _ I (step_shape _ _ _ _ _ _ I S) t) by congruence. exact V. }
      destruct (IH _ _ I1 H t v V1) as (v' & V' & R). exists v'. split; [exact V'|exact R].
Qed.

(* the start: any heap of old Buffers, any of them pooled (stale bytes, stale sticky errors, stale Underlying),
   any number of empty bytes.Buffers pooled, any cache that agrees with the files, any counter value *)
Definition start (hp : list buf) (pa : list nat) (pb : list bytes) (ca : list (N * centry)) (cn : N) (ms : list N) (progs : list (list act * nat)) : world :=
  wmk hp pa pb ca cn ms (init_threads progs) (init_sinks progs).
Definition start_ok (fs : fsys) (hp : list buf) (pa : list nat) (pb : list bytes) (ca : list (N * centry)) : Prop :=
  NoDup pa /\ (forall i, In i pa -> i < length hp) /\ (forall c, In c pb -> c = []) /\ coherent fs ca.

Lemma init_thread_nth progs t th : nth_error (init_threads progs) t = Some th -> exists pc, nth_error progs t = Some pc /\ th = tmk None None [] (Some []) [] false (fst pc).
Proof.
  unfold init_threads. rewrite nth_error_map. destruct (nth_error progs t) as [pc|]; [|discriminate].
  intros H; inversion H. exists pc. split; reflexivity.
Qed.

Lemma start_inv fs hp pa pb ca cn ms progs : start_ok fs hp pa pb ca -> inv fs (start hp pa pb ca cn ms progs).
Proof.
  intros (N1 & N2 & N3 & N4). constructor; cbn.
  - unfold init_sinks, init_threads. rewrite !map_length. reflexivity.
  - exact N1.
  - exact N2.
  - intros t th i ph H O. apply init_thread_nth in H as (pc & _ & ->). discriminate.
  - intros t1 t2 th1 th2 i ph1 ph2 H _ O. apply init_thread_nth in H as (pc & _ & ->). discriminate.
  - exact N3.
  - intros t th s H _ B. apply init_thread_nth in H as (pc & _ & ->). discriminate.
  - exact N4.
  - intros t th H. apply init_thread_nth in H as (pc & _ & ->). eexists; reflexivity.
  - intros t th x H X. apply init_thread_nth in H as (pc & _ & ->). destruct X.
  - intros t th H. apply init_thread_nth in H as (pc & _ & ->). constructor.
  - intros t1 t2 th1 th2 x H _ X. apply init_thread_nth in H as (pc & _ & ->). destruct X.
Qed.

Lemma start_view hp pa pb ca cn ms progs t p cap : nth_error progs t = Some (p, cap) -> view (start hp pa pb ca cn ms progs) t = Some (linit cap p).
Proof.
  intros H. unfold view, start. cbn. unfold init_threads, init_sinks. rewrite !nth_error_map, H. reflexivity.
Qed.

Theorem isolation fs hp pa pb ca cn ms progs sch w' :
  start_ok fs hp pa pb ca -> exec real fs (start hp pa pb ca cn ms progs) sch = Some w' ->
  forall t p cap, nth_error progs t = Some (p, cap) ->
  exists v', view w' t = Some v' /\ lrun fs (steps_of t sch) (linit cap p) = Some v'.
Proof.
  intros OK H t p cap P. eapply exec_projection; [apply start_inv; exact OK|exact H|apply start_view; exact P].
Qed.

Lemma lrun_final fs k : forall v v' fuel, lrun fs k v = Some v' -> lstep fs v' = None -> k <= fuel -> lfinal fs fuel v = v'.
Proof.
  induction k as [|k IH]; intros v v' fuel R S L; cbn in R.
  - inversion R; subst. destruct fuel; cbn; [reflexivity|rewrite S; reflexivity].
  - destruct (lstep fs v) as [v1|] eqn:E; [|discriminate]. destruct fuel as [|fuel]; [lia|]. cbn. rewrite E. apply IH; [exact R|exact S|lia].
Qed.

(* a goroutine that has nothing left to do holds exactly what its renders produce alone *)
Theorem finished_outputs fs hp pa pb ca cn ms progs sch w' :
  start_ok fs hp pa pb ca -> exec real fs (start hp pa pb ca cn ms progs) sch = Some w' ->
  forall t p cap th s, nth_error progs t = Some (p, cap) ->
  nth_error (threads w') t = Some th -> nth_error (sinks w') t = Some s ->
  prog th = [] -> own th = None -> bown th = None ->
  forall fuel, steps_of t sch <= fuel -> sout s = l_out (lfinal fs fuel (linit cap p)).
Proof.
  intros OK H t p cap th s P T S Pr O B fuel L.
  destruct (isolation _ _ _ _ _ _ _ _ _ _ OK H t p cap P) as (v' & V & R).
  assert (E : v' = lmk None None (sbb s) (sout s) (scap s) (ctx th) (reg_get (mwss w') (reg th)) (spend s) (length (ids th)) (failed th) []).
  { unfold view in V. rewrite T, S, O in V. inversion V. rewrite B, Pr. reflexivity. }
  rewrite (lrun_final _ _ _ _ _ R); [subst v'; reflexivity| subst v'; reflexivity | exact L].
Qed.

(* ---------- ownership ---------- *)
Definition owns (w : world) (t j : nat) : Prop := exists th ph, nth_error (threads w) t = Some th /\ own th = Some (j, ph).

Record ownership (w : world) : Prop := {
  o_pool_nodup : NoDup (poolA w);
  o_pool_lt : forall j, In j (poolA w) -> j < length (heap w);
  o_owned : forall t j, owns w t j -> j < length (heap w) /\ ~ In j (poolA w);
  o_excl : forall t1 t2 j, owns w t1 j -> owns w t2 j -> t1 = t2 }.

Lemma inv_ownership fs w : inv fs w -> ownership w.
Proof.
  intros I. constructor.
  - apply (i_nodup _ _ I).
  - apply (i_pool_lt _ _ I).
  - intros t j (th & ph & H & O). destruct (i_own _ _ I _ _ _ _ H O) as (A & B & _). split; assumption.
  - intros t1 t2 j (th1 & ph1 & H1 & O1) (th2 & ph2 & H2 & O2). eapply (i_excl _ _ I); eassumption.
Qed.

Lemma step_touches_own fs w t pick now w' : inv fs w -> step real fs w (t, pick, now) = Some w' ->
  forall j, j < length (heap w) -> nth_error (heap w') j <> nth_error (heap w) j -> owns w t j.
Proof.
  intros I H j Hlt Hne. destruct (step_shape _ _ _ _ _ _ I H) as (th & th' & s & s' & Hth & _ & _ & _ & A & _).
  destruct A as [(E&_)|[(i&ph0&ph'&b'&O&_&_&E&_)|[(_&_&(fb&E)&_)|[(k&i&_&_&_&_&E)|(i&ph0&_&_&_&E)]]]]; rewrite E in Hne; try (exfalso; apply Hne; reflexivity).
  - destruct (Nat.eq_dec i j) as [<-|N]; [exists th, ph0; split; assumption|].
    exfalso. apply Hne. apply nth_error_set_nth_neq. exact N.
  - exfalso. apply Hne. apply nth_error_app1. exact Hlt.
Qed.

Theorem ownership_inv fs hp pa pb ca cn ms progs sch w' :
  start_ok fs hp pa pb ca -> exec real fs (start hp pa pb ca cn ms progs) sch = Some w' ->
  ownership w' /\
  forall t pick now w'', step real fs w' (t, pick, now) = Some w'' ->
    forall j, j < length (heap w') -> nth_error (heap w'') j <> nth_error (heap w') j -> owns w' t j.
Proof.
  intros OK H. pose proof (exec_inv _ _ _ _ (start_inv _ _ _ _ _ cn ms progs OK) H) as I. split.
  - eapply inv_ownership; exact I.
  - intros t pick now w'' S. eapply step_touches_own; eassumption.
Qed.

(* ---------- writers and context values of the other goroutines ---------- *)
(* a step of goroutine t leaves every other goroutine's private state (context value: once handles, emitted classes and
   scripts; handle ids; program) and every other goroutine's writer (bytes received, bytes held by its own bufio.Writer,
   bytes.Buffer content) exactly as they were *)
Theorem others_untouched fs hp pa pb ca cn ms progs sch w' :
  start_ok fs hp pa pb ca -> exec real fs (start hp pa pb ca cn ms progs) sch = Some w' ->
  forall t pick now w'', step real fs w' (t, pick, now) = Some w'' ->
  forall u, u <> t -> nth_error (threads w'') u = nth_error (threads w') u /\ nth_error (sinks w'') u = nth_error (sinks w') u.
Proof.
  intros OK H t pick now w'' S u Hne. pose proof (exec_inv _ _ _ _ (start_inv _ _ _ _ _ cn ms progs OK) H) as I.
  destruct (step_shape _ _ _ _ _ _ I S) as (th & th' & s & s' & _ & _ & HT & HS & _).
  rewrite HT, HS. split; apply nth_error_set_nth_neq; congruence.
Qed.

(* ---------- the development-mode cache ---------- *)
Theorem cache_linear fs hp pa pb ca cn ms progs sch w' :
  start_ok fs hp pa pb ca -> exec real fs (start hp pa pb ca cn ms progs) sch = Some w' ->
  forall now f, fst (cache_lookup fs now (cache w') f) = fst (cache_lookup fs 0%N [] f).
Proof.
  intros OK H now f. pose proof (exec_inv _ _ _ _ (start_inv _ _ _ _ _ cn ms progs OK) H) as I.
  rewrite (proj1 (cache_lookup_spec fs now (cache w') f (i_cache _ _ I))).
  assert (C0 : coherent fs []) by (intros f0 e0 A; discriminate).
  rewrite (proj1 (cache_lookup_spec fs 0%N [] f C0)). reflexivity.
Qed.

(* ---------- once-handle ids ---------- *)
Theorem once_handles_distinct fs hp pa pb ca cn ms progs sch w' :
  start_ok fs hp pa pb ca -> exec real fs (start hp pa pb ca cn ms progs) sch = Some w' ->
  forall t1 t2 th1 th2 i j x, nth_error (threads w') t1 = Some th1 -> nth_error (threads w') t2 = Some th2 ->
  nth_error (ids th1) i = Some x -> nth_error (ids th2) j = Some x -> t1 = t2 /\ i = j.
Proof.
  intros OK H t1 t2 th1 th2 i j x H1 H2 X1 X2. pose proof (exec_inv _ _ _ _ (start_inv _ _ _ _ _ cn ms progs OK) H) as I.
  assert (E : t1 = t2) by (eapply (i_ids_excl _ _ I); [exact H1|exact H2|eapply nth_error_In; exact X1|eapply nth_error_In; exact X2]).
  split; [exact E|]. subst t2. rewrite H1 in H2. inversion H2; subst th2.
  pose proof (i_ids_nodup _ _ I _ _ H1) as ND. rewrite NoDup_nth_error in ND. apply ND; [apply nth_error_Some; congruence|congruence].
Qed.

(* after a rewrite of the text file with a later modification time, once 100 ms have passed since the cached
   modification time, a lookup returns the new lines - whatever else the cache holds *)
Theorem cache_refresh fs now ca f e fi :
  assoc f ca = Some e -> assoc f fs = Some fi -> (cmt e < mtime fi)%N -> (cmt e + 100 <= now)%N ->
  fst (cache_lookup fs now ca f) = Some (flines fi).
Proof.
  intros A F M T. unfold cache_lookup. rewrite A.
  assert (E1 : N.ltb (now - cmt e) 100 = false) by (apply N.ltb_ge; lia). rewrite E1, F.
  assert (E2 : N.ltb (cmt e) (mtime fi) = true) by (apply N.ltb_lt; exact M). rewrite E2.
  unfold cache_load. rewrite F. reflexivity.
Qed.

(* ---------- what goes wrong in the variants ---------- *)
Definition no_reset_on_get : config := {| reset_on_get := false; reset_on_put := true; flush_before_put := true; fresh_registry := true |}.
Definition no_reset_on_put : config := {| reset_on_get := true; reset_on_put := false; flush_before_put := true; fresh_registry := true |}.
Definition put_then_flush : config := {| reset_on_get := true; reset_on_put := true; flush_before_put := false; fresh_registry := true |}.
Definition shared_registry : config := {| reset_on_get := true; reset_on_put := true; flush_before_put := true; fresh_registry := false |}.

Definition two_renders : list (list act * nat) := [(render [Write [x61]], 100); (render [Write [x62]], 100)].
Definition two_handlers : list (list act * nat) := [(handler_render [Write [x61]], 100); (handler_render [Write [x62]], 100)].
Definition run_of (t : nat) (pick : option nat) (k : nat) : list (nat * option nat * N) := repeat (t, pick, 0%N) k.
Definition souts (w : world) : list bytes := map sout (sinks w).
Definition all_done (w : world) : bool := forallb (fun th => nilb (prog th) && negb (is_some (own th)) && negb (is_some (bown th))) (threads w).

(* without Reset on acquisition: goroutine 1 renders "b", its Buffer goes back to the pool still pointing at goroutine 1's
   writer; goroutine 0 then renders "a" with that Buffer and its bytes land in goroutine 1's response *)
Lemma isolation_needs_reset_on_get : exists sch w',
  exec no_reset_on_get [] (start [] [] [] [] 0 [] two_renders) sch = Some w' /\ all_done w' = true /\
  souts w' = [[]; [x62; x61]] /\ alone_out [] 100 (render [Write [x61]]) = [x61].
Proof.
  exists (run_of 1 None 6 ++ run_of 0 (Some 0) 6). eexists. split; [vm_compute; reflexivity|]. vm_compute. repeat split.
Qed.

(* without Reset before Put of the bytes.Buffer: the next handler's response starts with the previous response *)
Lemma isolation_needs_reset_on_put : exists sch w',
  exec no_reset_on_put [] (start [] [] [] [] 0 [] two_handlers) sch = Some w' /\ all_done w' = true /\
  souts w' = [[x62; x61]; [x62]] /\ alone_out [] 100 (handler_render [Write [x61]]) = [x61].
Proof.
  exists (run_of 1 None 10 ++ run_of 0 (Some 0) 10). eexists. split; [vm_compute; reflexivity|]. vm_compute. repeat split.
Qed.

(* Put before Flush: the Buffer is in the pool while goroutine 0 still uses it; goroutine 1 acquires it, and then
   (a) two goroutines hold the same Buffer, (b) goroutine 0's bytes are lost *)
Lemma ownership_needs_flush_before_put : exists sch1 sch2 w1 w2,
  exec put_then_flush [] (start [] [] [] [] 0 [] two_renders) sch1 = Some w1 /\ owns w1 0 0 /\ owns w1 1 0 /\
  exec put_then_flush [] w1 sch2 = Some w2 /\ all_done w2 = true /\ souts w2 = [[]; [x62]].
Proof.
  exists (run_of 0 None 5 ++ run_of 1 (Some 0) 2), (run_of 1 None 2 ++ run_of 0 None 1 ++ run_of 1 None 2). eexists. eexists.
  split; [vm_compute; reflexivity|]. split; [eexists; eexists; split; vm_compute; reflexivity|].
  split; [eexists; eexists; split; vm_compute; reflexivity|]. split; [vm_compute; reflexivity|]. vm_compute. split; reflexivity.
Qed.

(* a middleware that installs ONE map of its registered classes in every request's context value: two requests are past the
   middleware before either renders; request 0 then emits the unregistered class 2, which marks it in the shared map, and
   request 1's document comes out without the style element it has when served alone *)
Definition two_mw_requests : list (list act * nat) := [(mw_render [1%N] [EmitOnce 2 [x73]], 100); (mw_render [1%N] [EmitOnce 2 [x73]], 100)].
Lemma isolation_needs_fresh_registry : exists sch w',
  exec shared_registry [] (start [] [] [] [] 0 [1%N] two_mw_requests) sch = Some w' /\ all_done w' = true /\
  souts w' = [[x73]; []] /\ alone_out [] 100 (mw_render [1%N] [EmitOnce 2 [x73]]) = [x73].
Proof.
  exists (run_of 0 None 2 ++ run_of 1 None 2 ++ run_of 0 None 5 ++ run_of 1 (Some 0) 5). eexists. split; [vm_compute; reflexivity|]. vm_compute. repeat split.
Qed.

(* ---------- the hypotheses are satisfiable: a stale pool, a real interleaving ---------- *)
Definition stale_heap : list buf := [{| content := [x58; x58]; err := true; tgt := 1; tgtB := false |}].
Definition demo_fs : fsys := [(7%N, {| mtime := 5%N; flines := [[x3c; x70; x3e]; [x3c; x2f; x70; x3e]] |})].
Definition demo_progs : list (list act * nat) :=
  [ (render [Lookup 7 0; Once 1 1; Write [x61]; Once 1 1; Write [x61]; NewHandle; Lookup 7 1], 100);
    (handler_render [Write [x62]; NewHandle; Lookup 7 0], 100);
    (render [Write [x63; x63; x63]; Flush; Write [x64]], 2) ].
Fixpoint round_robin (n : nat) : list (nat * option nat * N) :=
  match n with O => [] | S k => [(0, Some 0, 1000%N); (1, Some 0, 3%N); (2, Some 0, 50%N)] ++ round_robin k end.

Lemma demo_start_ok : start_ok demo_fs stale_heap [0] [[]] [].
Proof.
  repeat split.
  - repeat constructor. intros [].
  - intros i [<-|[]]. cbn. lia.
  - intros c [<-|[]]. reflexivity.
  - intros f e A. discriminate.
Qed.

Lemma demo_run : exists sch w',
  exec real demo_fs (start stale_heap [0] [[]] [] 41 [] demo_progs) sch = Some w' /\
  souts w' = [ [x3c; x70; x3e; x61; x3c; x2f; x70; x3e]; [x62; x3c; x70; x3e]; [x63; x63] ] /\
  map ids (threads w') = [[43%N]; [42%N]; []] /\
  map (fun pc => alone_out demo_fs (snd pc) (fst pc)) demo_progs = souts w'.
Proof.
  exists (round_robin 8 ++ run_of 0 None 3 ++ run_of 1 None 4). eexists. split; [vm_compute; reflexivity|]. vm_compute. repeat split.
Qed.

(* the same with requests behind the CSS middleware (class 1 registered), pages that emit an unregistered class twice, and a
   goroutine that renders into its own bufio.Writer between a header and a trailer it writes itself *)
Definition demo_progs2 : list (list act * nat) :=
  [ (OwnWrap :: framed_render [x68] [x74] [EmitOnce 2 [x73]; EmitOnce 2 [x73]], 100);
    (mw_handler_render [1%N] [EmitOnce 1 [x72]; EmitOnce 2 [x73]; EmitOnce 2 [x73]], 100);
    (mw_render [1%N] [EmitOnce 2 [x73]], 100) ].
Fixpoint rr3 (n : nat) : list (nat * option nat * N) :=
  match n with O => [] | S k => [(0, Some 0, 0%N); (1, Some 0, 0%N); (2, Some 0, 0%N)] ++ rr3 k end.
Fixpoint rr2 (n : nat) : list (nat * option nat * N) :=
  match n with O => [] | S k => [(0, Some 0, 0%N); (1, Some 0, 0%N)] ++ rr2 k end.
Lemma demo_run2 : exists sch w',
  exec real [] (start stale_heap [0] [[]] [] 0 [] demo_progs2) sch = Some w' /\ all_done w' = true /\
  souts w' = [ [x68; x73; x74]; [x73]; [x73] ] /\
  map (fun pc => alone_out [] (snd pc) (fst pc)) demo_progs2 = souts w'.
Proof.
  exists (rr3 7 ++ rr2 4 ++ run_of 1 None 2). eexists. split; [vm_compute; reflexivity|]. vm_compute. repeat split.
Qed.
