(* C03, process level: the parser's verdict on a script element does not depend on what the process parsed before. *)
From Coq.Strings Require Import Byte String.
From Coq Require Import List NArith Bool Lia.
Import ListNotations.
From V Require Import lib.Bytes lib.Utf8 spec.JsLex spec.JsScript model.JsEsc model.JsTrack model.JsHist
  proofs.JsEscProof proofs.JsScriptProof.

Lemma run_fresh_from : forall (els : list (list sym)) (d : option quote),
  run_elements fresh d els = match els with [] => [] | e :: r => track_from d e :: map track r end.
Proof.
  induction els as [|e r IH]; intros d; [reflexivity|].
  cbn [run_elements]. f_equal. unfold fresh at 2. rewrite IH.
  destruct r as [|e' r']; reflexivity.
Qed.

Lemma run_fresh : forall els : list (list sym), run_elements fresh None els = map track els.
Proof. intros els. rewrite run_fresh_from. destruct els; reflexivity. Qed.

Theorem history_independent : forall (before : list (list sym)) (e : list sym),
  verdict_after fresh before e = track e.
Proof.
  intros before e. unfold verdict_after. rewrite run_fresh, map_app. cbn [map].
  rewrite <- (map_length track before). apply nth_middle.
Qed.

(* every position of a longer run, not only the last *)
Theorem history_independent_nth : forall (before after : list (list sym)) (e : list sym),
  nth (length before) (run_elements fresh None (before ++ e :: after)) [] = track e.
Proof.
  intros before after e. rewrite run_fresh, map_app. cbn [map].
  rewrite <- (map_length track before). apply nth_middle.
Qed.

Theorem script_structure_after_history : forall (before : list (list sym)) (vals : list bytes) (tpl : list sym),
  fragment vals tpl = true ->
  skeleton (lex_script [] (bytes_syms (render (flags (verdict_after fresh before (tpl ++ map SB end_tag))) vals tpl)))
  = skeleton (lex_script vals tpl).
Proof. intros before vals tpl F. rewrite history_independent. apply script_structure. exact F. Qed.

(* scriptContent for an arbitrary Go type *)
Theorem script_content_any_inside : forall (GoValue : Type) (as_string marshal : GoValue -> option bytes) (v : GoValue)
  (q : quote) (rest : bytes),
  match script_content_any GoValue as_string marshal true v with
  | None => as_string v = None /\ marshal v = None
  | Some out =>
      exists want : bytes,
        (as_string v = Some want \/ (as_string v = None /\ marshal v = Some want)) /\
        clean out = true /\ has_lsps out = false /\
        lex_string q (out ++ qbyte q :: rest) = LClosed (length out) /\
        js_unescape q out = Some want
  end.
Proof.
  intros G as_string marshal v q rest. unfold script_content_any.
  destruct (as_string v) as [s|] eqn:A.
  - exists s. split; [left; reflexivity|].
    split; [apply replace_clean|split; [apply replace_clean|split; [apply literal_closed|apply replace_roundtrip]]].
  - destruct (marshal v) as [jd|] eqn:M; [|split; reflexivity].
    exists jd. split; [right; split; reflexivity|].
    split; [apply replace_clean|split; [apply replace_clean|split; [apply literal_closed|apply replace_roundtrip]]].
Qed.
