(* C05 end to end, CSS side: what SanitizeStyleAttributeValues returns is html.EscapeString of a declaration
   text, so that attribute decoding (spec/HtmlRefs.v with the standard's table) gives that text back and the CSS
   scanner reads it as exactly the declarations written; the text of a css component class / a <style> element
   reads back as exactly the rules and declarations written and holds no '<'. *)
From Coq.Strings Require Import Byte String.
From Coq Require Import List Arith NArith Bool Lia.
Import ListNotations.
From V Require Import lib.Bytes spec.Whatwg spec.CssScan spec.HtmlRefs spec.HtmlEntities spec.CssSink
  gen.Tables05 model.Escape model.Css model.CssRender proofs.EscapeProof proofs.UrlRenderProof proofs.CssProof.

(* ---------- the escaper of model/Css.v is the escaper of model/Escape.v ---------- *)
Lemma html_esc_escape t : html_esc t = escape t.
Proof.
  induction t as [|c r IH]; [reflexivity|]. cbn [html_esc]. rewrite IH. rewrite escape_cons. f_equal.
  destruct c; reflexivity.
Qed.

Lemma escape_unsupported : escape unsupported = unsupported.
Proof. vm_compute. reflexivity. Qed.

Lemma render_piece_escape p : render_piece p = escape (raw_piece p).
Proof.
  destruct p; cbn [render_piece raw_piece]; rewrite ?html_esc_escape, ?escape_app.
  - reflexivity.
  - reflexivity.
  - destruct (has_suffix [x3b] t); reflexivity.
  - symmetry. exact escape_unsupported.
Qed.

Lemma escape_concat l : escape (concat l) = concat (map escape l).
Proof. induction l as [|a l IH]; [reflexivity|]. cbn [concat map]. rewrite escape_app, IH. reflexivity. Qed.

(* SanitizeStyleAttributeValues returns html.EscapeString of the pieces' text *)
Theorem style_attr_escape parse vals ps : sa_values parse vals = Some ps ->
  style_attr parse vals = Some (escape (raw_text ps)).
Proof.
  intros H. unfold style_attr. rewrite H. cbn [option_map]. f_equal. unfold raw_text.
  rewrite escape_concat, map_map. f_equal. apply map_ext. exact render_piece_escape.
Qed.

(* attribute decoding with the standard's table gives the text back *)
Lemma css_decode_escape s : css_decode_attr (escape s) = s.
Proof. exact (escape_decodes html5_entities utf8_cp true html5_entities_ok utf8_cp_ok s). Qed.

Lemma raw_text_decls ps : forall ds, pieces_decls ps = Some ds -> raw_text ps = render_decls ds.
Proof.
  induction ps as [|p ps IH]; intros ds H; cbn [pieces_decls] in H.
  - injection H as <-. reflexivity.
  - destruct (piece_decl p) as [d|] eqn:Ed; [|discriminate]. destruct (pieces_decls ps) as [ds'|]; [|discriminate].
    injection H as <-. unfold raw_text, render_decls in *. cbn [map concat]. rewrite (IH ds' eq_refl). f_equal.
    destruct p; cbn in Ed; try discriminate; injection Ed as <-; unfold render_decl; cbn [fst snd raw_piece app]; reflexivity.
Qed.

(* values trusted by their type (SafeCSSProperty) are the developer's: the theorem asks of them what it proves of the rest *)
Definition safe_values_confined (ps : list piece) : Prop :=
  Forall (fun p => match p with PSafeDecl _ v => confined v = true | _ => True end) ps.

Lemma pieces_decls_ok ps : forall ds, pieces_decls ps = Some ds -> Forall piece_ok ps -> safe_values_confined ps ->
  Forall (fun d => name_ok (fst d) = true /\ confined (snd d) = true) ds.
Proof.
  induction ps as [|p ps IH]; intros ds H F S; cbn [pieces_decls] in H.
  - injection H as <-. constructor.
  - destruct (piece_decl p) as [d|] eqn:Ed; [|discriminate]. destruct (pieces_decls ps) as [ds'|]; [|discriminate].
    injection H as <-. inversion F; subst. inversion S; subst. constructor; [|apply IH; auto].
    destruct p; cbn in Ed; try discriminate; injection Ed as <-; cbn [fst snd]; cbn [piece_ok] in *; tauto.
Qed.

Section EndToEnd.
Variable parse : bytes -> option bytes.
Hypothesis contract : parse_contract parse.

(* sanitise -> html escape -> attribute decoding -> CSS scanner *)
Theorem style_attr_end_to_end vals ps out ds :
  sa_values parse vals = Some ps -> style_attr parse vals = Some out ->
  pieces_decls ps = Some ds -> safe_values_confined ps ->
  css_decode_attr out = render_decls ds /\ decl_list (css_decode_attr out) = Some ds /\ Forall piece_ok ps.
Proof.
  intros Hv Ho Hd Hs. rewrite (style_attr_escape parse vals ps Hv) in Ho. injection Ho as <-.
  rewrite css_decode_escape. pose proof (style_attr_confined parse contract vals ps Hv) as F.
  split; [exact (raw_text_decls ps ds Hd)|]. split; [|exact F].
  rewrite (raw_text_decls ps ds Hd). apply decl_list_roundtrip. exact (pieces_decls_ok ps ds Hd F Hs).
Qed.

(* when every piece is a sanitised declaration (maps and key/value pairs of strings, nested in funcs and slices)
   the decidable end-to-end predicate holds *)
Definition all_sanitised (ps : list piece) : bool := forallb (fun p => match p with PDecl _ _ => true | _ => false end) ps.

Lemma all_sanitised_decls ps : all_sanitised ps = true -> Forall piece_ok ps ->
  exists ds, pieces_decls ps = Some ds /\ length ds = length ps /\ forallb decl_ok ds = true /\ safe_values_confined ps.
Proof.
  induction ps as [|p ps IH]; intros A F.
  - exists []. repeat split; constructor.
  - cbn [all_sanitised forallb] in A. apply andb_prop in A as [Ap A]. inversion F as [|? ? Fp F']; subst.
    destruct (IH A F') as [ds [E [L [O S]]]]. destruct p; try discriminate.
    exists ((n, v) :: ds). cbn [pieces_decls piece_decl]. rewrite E. repeat split.
    + cbn [length]. rewrite L. reflexivity.
    + cbn [forallb]. rewrite O. unfold decl_ok. cbn [fst snd]. cbn [piece_ok] in Fp. destruct Fp as [-> [-> ->]]. reflexivity.
    + constructor; [exact I|exact S].
Qed.

Theorem style_attr_okb_holds vals ps out :
  sa_values parse vals = Some ps -> style_attr parse vals = Some out -> all_sanitised ps = true ->
  decls_okb (css_decode_attr out) (length ps) = true.
Proof.
  intros Hv Ho A. pose proof (style_attr_confined parse contract vals ps Hv) as F.
  destruct (all_sanitised_decls ps A F) as [ds [E [L [O S]]]].
  destruct (style_attr_end_to_end vals ps out ds Hv Ho E S) as [_ [D _]].
  unfold decls_okb. rewrite D, L, Nat.eqb_refl, O. reflexivity.
Qed.

End EndToEnd.

(* ------------------------------------------------------------------------------------------ *)
(* a confined value holds no '<' : it cannot spell "</style" *)
Definition nolt (v : bytes) : bool := forallb (fun c => negb (Byte.eqb c x3c)) v.

Definition qwf (s : st) : Prop :=
  match md s with Str q _ | StrEsc q _ => css_quote q = true | _ => True end.

Lemma quote_not_lt q : css_quote q = true -> Byte.eqb x3c q = false.
Proof. destruct q; vm_compute; congruence. Qed.

Lemma step_lt_bad s : qwf s -> md (step s x3c) = Bad.
Proof.
  destruct s as [m stk pv cu us]. unfold qwf. cbn [md]. intros Q.
  destruct m; unfold step; cbn [md]; try reflexivity.
  - rewrite (quote_not_lt q Q). reflexivity.
Qed.

Lemma step_qwf s c : qwf s -> qwf (step s c).
Proof.
  destruct s as [m stk pv cu us]. unfold qwf. cbn [md]. intros Q.
  destruct m; unfold step, step_normal, step_urlraw, fail, finish_url, bad_url; cbn [md stack prev cur urls];
    repeat match goal with
           | |- context [if ?b then _ else _] => let E := fresh "E" in destruct b eqn:E
           | |- context [match ?l with [] => _ | _ :: _ => _ end] => destruct l
           end; cbn [md]; auto.
Qed.

Lemma accepting_nolt v : forall s, qwf s -> accepting (run s v) = true -> nolt v = true.
Proof.
  induction v as [|c r IH]; intros s Q A; [reflexivity|]. rewrite run_cons in A. cbn [nolt forallb].
  destruct (Byte.eqb c x3c) eqn:E.
  - apply byte_eqb_eq in E. subst c.
    rewrite (accepting_not_bad _ (bad_absorbing r _ (step_lt_bad s Q))) in A. discriminate.
  - cbn [negb andb]. exact (IH (step s c) (step_qwf s c Q) A).
Qed.

Theorem confined_nolt v : confined v = true -> nolt v = true.
Proof. intros C. apply (accepting_nolt v init); [exact I|exact C]. Qed.

Lemma nolt_app a b : nolt (a ++ b) = nolt a && nolt b.
Proof. unfold nolt. apply forallb_app. Qed.

Lemma name_ok_nolt n : name_ok n = true -> nolt n = true.
Proof.
  unfold name_ok, nolt. destruct n as [|c r]; [reflexivity|]. apply forallb_impl. intros x. destruct x; vm_compute; congruence.
Qed.
Lemma name_ok_head n : name_ok n = true -> exists c r, n = c :: r /\ Byte.eqb c x7d = false.
Proof.
  unfold name_ok. destruct n as [|c r]; [discriminate|]. intros H. exists c, r. split; [reflexivity|].
  cbn [forallb] in H. apply andb_prop in H as [H _]. revert H. destruct c; vm_compute; congruence.
Qed.

(* ---------- rule bodies and style sheets read back ---------- *)
Definition decls_good (ds : list (bytes * bytes)) : Prop :=
  Forall (fun d => name_ok (fst d) = true /\ confined (snd d) = true) ds.

Lemma body_decls_roundtrip ds : forall fuel rest, (length ds < fuel)%nat -> decls_good ds ->
  body_decls fuel (render_decls ds ++ x7d :: rest) = Some (ds, rest).
Proof.
  induction ds as [|[n v] ds IH]; intros fuel rest L F.
  - destruct fuel as [|f]; [cbn in L; lia|]. reflexivity.
  - inversion F as [|? ? [Hn Hv] F']; subst. cbn [fst snd] in *.
    destruct (name_ok_nocolon n Hn) as [NC NE]. destruct (name_ok_head n Hn) as [c [r [En Ec]]].
    destruct fuel as [|f]; [cbn in L; lia|].
    rewrite render_cons. rewrite <- app_assoc. cbn [app]. rewrite <- app_assoc. cbn [app].
    assert (U : forall t, body_decls (S f) (n ++ t) =
                match take_name (n ++ t) [] with
                | None => None
                | Some (n0, r1) =>
                    match take_value init r1 [] with
                    | None => None
                    | Some (val, r2) => match body_decls f r2 with Some (ds0, rest0) => Some ((n0, val) :: ds0, rest0) | None => None end
                    end
                end).
    { intros t. subst n. cbn [app body_decls]. rewrite Ec. reflexivity. }
    rewrite U. rewrite (take_name_nocolon n [] _ NC). cbn [rev app].
    rewrite (take_value_confined v init [] (render_decls ds ++ x7d :: rest) Hv). cbn [rev app].
    rewrite (IH f rest); [reflexivity|cbn in L; lia|exact F'].
Qed.

Definition no_brace (s : bytes) : bool := forallb (fun c => negb (Byte.eqb c x7b)) s.
Lemma take_selector_spec sel : forall acc r, no_brace sel = true ->
  take_selector (sel ++ x7b :: r) acc = Some (rev acc ++ sel, r).
Proof.
  induction sel as [|c sel IH]; intros acc r H.
  - cbn. rewrite app_nil_r. reflexivity.
  - cbn [no_brace forallb] in H. apply andb_prop in H as [Hc Hs]. apply negb_true_iff in Hc.
    cbn [app take_selector]. rewrite Hc. rewrite (IH (c :: acc) r Hs). cbn [rev]. rewrite <- app_assoc. reflexivity.
Qed.

Definition render_rule (c : bytes * list (bytes * bytes)) : bytes := fst c ++ x7b :: render_decls (snd c) ++ [x7d].
Definition render_rules (cs : list (bytes * list (bytes * bytes))) : bytes := concat (map render_rule cs).

Lemma rules_roundtrip cs : forall fuel, (length cs < fuel)%nat ->
  Forall (fun c => no_brace (fst c) = true /\ decls_good (snd c)) cs ->
  rules fuel (render_rules cs) = Some cs.
Proof.
  induction cs as [|[sel ds] cs IH]; intros fuel L F.
  - destruct fuel; reflexivity.
  - inversion F as [|? ? [Hs Hd] F']; subst. cbn [fst snd] in *.
    destruct fuel as [|f]; [cbn in L; lia|].
    unfold render_rules. cbn [map concat]. fold (render_rules cs). unfold render_rule at 1. cbn [fst snd].
    rewrite <- app_assoc. cbn [app]. rewrite <- app_assoc. cbn [app].
    assert (U : forall t, rules (S f) (sel ++ x7b :: t) =
                match take_selector (sel ++ x7b :: t) [] with
                | None => None
                | Some (sel0, r) =>
                    match body_decls (S (length r)) r with
                    | None => None
                    | Some (ds0, rest) => match rules f rest with Some rs => Some ((sel0, ds0) :: rs) | None => None end
                    end
                end).
    { intros t. destruct sel; reflexivity. }
    rewrite U. rewrite (take_selector_spec sel [] _ Hs). cbn [rev app].
    rewrite (body_decls_roundtrip ds _ (render_rules cs)); [|pose proof (render_decls_length ds); rewrite app_length; lia|exact Hd].
    rewrite (IH f); [reflexivity|cbn in L; lia|exact F'].
Qed.

Lemma render_rules_length cs : (length cs <= length (render_rules cs))%nat.
Proof.
  induction cs as [|c cs IH]; [cbn; lia|]. unfold render_rules in *. cbn [map concat length]. rewrite app_length.
  unfold render_rule at 1. rewrite app_length. cbn [length]. lia.
Qed.

Theorem rule_list_roundtrip cs :
  Forall (fun c => no_brace (fst c) = true /\ decls_good (snd c)) cs -> rule_list (render_rules cs) = Some cs.
Proof. intros F. unfold rule_list. apply rules_roundtrip; [pose proof (render_rules_length cs); lia|exact F]. Qed.

(* ---------- css components as generated code writes them ---------- *)
Definition const_ok (p : cprop) : Prop :=
  match p with CConst n v => name_ok n = true /\ confined v = true /\ urls_ok v = true | CDyn _ _ => True end.
(* the class id templ.CSSID computes: the component's name, '_' and four hex digits *)
Definition id_ok (id : bytes) : Prop := id <> [] /\ forallb class_byte id = true.

Lemma class_byte_facts c : class_byte c = true -> Byte.eqb c x7b = false /\ Byte.eqb c x3c = false.
Proof. destruct c; vm_compute; intuition congruence. Qed.

Section Components.
Variable parse : bytes -> option bytes.
Hypothesis contract : parse_contract parse.

Lemma cprop_text_decl p : cprop_text parse p = render_decl (cprop_decl parse p).
Proof.
  destruct p as [n v|n x]; cbn [cprop_text cprop_decl]; unfold render_decl.
  - cbn [fst snd app]. reflexivity.
  - unfold templ_sanitize_css. destruct (sanitize_css parse n x) as [p' v']. cbn [fst snd app]. reflexivity.
Qed.
Lemma css_body_decls ps : css_body parse ps = render_decls (map (cprop_decl parse) ps).
Proof. unfold css_body, render_decls. rewrite map_map. f_equal. apply map_ext. exact cprop_text_decl. Qed.

Lemma cprop_decl_ok p : const_ok p -> decl_ok (cprop_decl parse p) = true.
Proof.
  destruct p as [n v|n x]; cbn [const_ok cprop_decl]; unfold decl_ok.
  - cbn [fst snd]. intros [-> [-> ->]]. reflexivity.
  - intros _. pose proof (css_confined parse contract n x) as H. destruct (sanitize_css parse n x) as [p' v'].
    cbn [fst snd]. destruct H as [-> [-> ->]]. reflexivity.
Qed.
Lemma decl_ok_good ds : forallb decl_ok ds = true -> decls_good ds.
Proof.
  intros H. apply Forall_forall. intros d Hd. rewrite forallb_forall in H. specialize (H d Hd). unfold decl_ok in H.
  apply andb_prop in H as [H _]. apply andb_prop in H as [H1 H2]. split; assumption.
Qed.
Lemma cprops_ok ps : Forall const_ok ps -> forallb decl_ok (map (cprop_decl parse) ps) = true.
Proof.
  induction 1 as [|p ps Hp _ IH]; [reflexivity|]. cbn [map forallb]. rewrite (cprop_decl_ok p Hp), IH. reflexivity.
Qed.

Definition class_rule (c : bytes * list cprop) : bytes * list (bytes * bytes) := (x2e :: fst c, map (cprop_decl parse) (snd c)).

Lemma css_class_rule c : css_class parse c = render_rule (class_rule c).
Proof.
  destruct c as [id ps]. unfold css_class, render_rule, class_rule. cbn [fst snd]. rewrite css_body_decls.
  cbn [app]. reflexivity.
Qed.
Lemma style_text_rules cs : style_text parse cs = render_rules (map class_rule cs).
Proof. unfold style_text, render_rules. rewrite map_map. f_equal. apply map_ext. exact css_class_rule. Qed.

Definition classes_ok (cs : list (bytes * list cprop)) : Prop :=
  Forall (fun c => id_ok (fst c) /\ Forall const_ok (snd c)) cs.

(* the text of the <style> element reads back as exactly the rules written: one per class, selector ".id", the
   declarations of the component in order - an expression property as the sanitiser's (name, value), whatever the
   Go expression looked like - and every declaration is acceptable *)
Theorem style_sheet_reads_back cs : classes_ok cs ->
  rule_list (style_text parse cs) = Some (map class_rule cs) /\
  rules_match (map class_rule cs) (map (fun c => length (snd c)) cs) = true.
Proof.
  intros F. split.
  - rewrite style_text_rules. apply rule_list_roundtrip. apply Forall_forall. intros r Hr.
    apply in_map_iff in Hr as [c [<- Hc]]. unfold classes_ok in F. rewrite Forall_forall in F. destruct (F c Hc) as [[NE I] K].
    unfold class_rule. cbn [fst snd]. split.
    + unfold no_brace. cbn [forallb]. apply andb_true_intro. split; [reflexivity|].
      eapply forallb_impl; [|exact I]. intros x Hx. destruct (class_byte_facts x Hx) as [-> _]. reflexivity.
    + apply decl_ok_good. apply cprops_ok. exact K.
  - induction F as [|c cs [[NE I] K] _ IH]; [reflexivity|]. cbn [map rules_match]. unfold class_rule at 1. cbn [fst snd].
    rewrite map_length, Nat.eqb_refl, (cprops_ok _ K), IH. rewrite !andb_true_r.
    unfold selector_ok. destruct (fst c) as [|a r] eqn:Ef; [congruence|]. cbn. exact I.
Qed.

Corollary style_elem_okb_holds cs : classes_ok cs ->
  style_elem_okb (style_text parse cs) (map (fun c => length (snd c)) cs) = true.
Proof. intros F. unfold style_elem_okb. destruct (style_sheet_reads_back cs F) as [-> H]. exact H. Qed.

(* ... and it holds no '<', so the element ends at the </style> RenderCSSItems writes *)
Lemma render_decls_nolt ds : forallb decl_ok ds = true -> nolt (render_decls ds) = true.
Proof.
  induction ds as [|[n v] ds IH]; intros H; [reflexivity|]. cbn [forallb] in H. apply andb_prop in H as [Hd H].
  unfold decl_ok in Hd. cbn [fst snd] in Hd. apply andb_prop in Hd as [Hd _]. apply andb_prop in Hd as [Hn Hc].
  rewrite render_cons. rewrite nolt_app, (name_ok_nolt n Hn). cbn [andb].
  change (x3a :: v ++ x3b :: render_decls ds) with ([x3a] ++ v ++ [x3b] ++ render_decls ds).
  rewrite !nolt_app, (confined_nolt v Hc), (IH H). reflexivity.
Qed.
Theorem style_text_nolt cs : classes_ok cs -> nolt (style_text parse cs) = true.
Proof.
  intros F. unfold style_text. induction F as [|c cs [[NE I] K] _ IH]; [reflexivity|]. cbn [map concat].
  rewrite nolt_app, IH, andb_true_r. unfold css_class. rewrite !nolt_app, css_body_decls, (render_decls_nolt _ (cprops_ok _ K)).
  assert (nolt (fst c) = true) as ->.
  { unfold nolt. eapply forallb_impl; [|exact I]. intros x Hx. destruct (class_byte_facts x Hx) as [_ ->]. reflexivity. }
  reflexivity.
Qed.
End Components.
