(* C04: the attribute writer chosen for an expression attribute does not depend on WHERE the attribute stands in the
   attribute tree of its element: top level, then-branch or else-branch of a conditional attribute, at any depth,
   before or after any other attribute.  Proved over the whole attribute writer of model/Gen.v (write_attrs), on top of
   the operation grammar of proofs/GenSinkProof.v. *)
From Coq.Strings Require Import Byte String.
From Coq Require Import List Arith NArith Lia.
Import ListNotations.
From V Require Import lib.Bytes model.Ast model.Url model.Gen.
From V Require Import proofs.GenAddsProof proofs.GenFreshProof proofs.GenSinkProof.
Local Open Scope nat_scope.

(* attr_at d a l: attribute a stands in the attribute list l under d nested if / else blocks *)
Inductive attr_at : nat -> attr -> list attr -> Prop :=
| at_top a l : In a l -> attr_at 0 a l
| at_then d a c th el l : In (ACond c th el) l -> attr_at d a th -> attr_at (S d) a l
| at_else d a c th el l : In (ACond c th el) l -> attr_at d a el -> attr_at (S d) a l.

Lemma attr_at_nil d a : ~ attr_at d a [].
Proof. intros H. inversion H; subst; match goal with X : In _ [] |- _ => destruct X end. Qed.

(* the operations of one expression attribute name={ e } of element elem generated at indentation lvl *)
Definition attr_group (elem n : bytes) (e : expr) (lvl : nat) (x : list op) : Prop :=
  exists (v : nat) (fn : bytes),
    x = [OL ([x20] ++ hesc n ++ bs "="); OL (bs "\""")] ++ g_attr (attr_kind elem n) lvl (vname v) fn e ++ [OL (bs "\""")].
Definition has_group (P : list op -> Prop) (l : list op) : Prop := exists pre x post, l = pre ++ x ++ post /\ P x.
Definition emits_with (c : option bytes) (P : list op -> Prop) (m : M) : Prop :=
  forall g, exists l, same (m g) (replay l g) /\ Sunk c (vid g) (vid (m g)) l /\ has_group P l.

Lemma has_group_l P l1 l2 : has_group P l1 -> has_group P (l1 ++ l2).
Proof. intros (pre & x & post & -> & H). exists pre, x, (post ++ l2). split; [rewrite <- !app_assoc; reflexivity|exact H]. Qed.
Lemma has_group_r P l1 l2 : has_group P l2 -> has_group P (l1 ++ l2).
Proof. intros (pre & x & post & -> & H). exists (l1 ++ pre), x, post. split; [rewrite <- !app_assoc; reflexivity|exact H]. Qed.

Lemma emits_with_l c P a b : emits_with c P a -> emits c b -> emits_with c P (a ;; b).
Proof.
  intros Ha Hb g. destruct (Ha g) as (la & Sa & Ka & Ga). destruct (Hb (a g)) as (lb & Sb & Kb).
  exists (la ++ lb). unfold seq. split; [|split; [eapply S_app; eassumption|apply has_group_l; exact Ga]].
  rewrite replay_app. eapply same_trans; [exact Sb|]. apply replay_same. exact Sa.
Qed.
Lemma emits_with_r c P a b : emits c a -> emits_with c P b -> emits_with c P (a ;; b).
Proof.
  intros Ha Hb g. destruct (Ha g) as (la & Sa & Ka). destruct (Hb (a g)) as (lb & Sb & Kb & Gb).
  exists (la ++ lb). unfold seq. split; [|split; [eapply S_app; eassumption|apply has_group_r; exact Gb]].
  rewrite replay_app. eapply same_trans; [exact Sb|]. apply replay_same. exact Sa.
Qed.
Lemma emits_with_seqs_map {A} c P (F : A -> M) (a : A) (l : list A) :
  In a l -> (forall x, emits c (F x)) -> emits_with c P (F a) -> emits_with c P (seqs (map F l)).
Proof.
  intros Hin HF Ha. induction l as [|x r IH]; [destruct Hin|].
  cbn [map seqs fold_right]. destruct Hin as [->|Hin].
  - apply emits_with_l; [exact Ha|]. apply emits_seqs_map. exact HF.
  - apply emits_with_r; [apply HF|]. apply IH. exact Hin.
Qed.

Lemma emits_with_attr_expr elem lvl n e :
  emits_with (Some elem) (attr_group elem n e lvl) (wl ([x20] ++ hesc n ++ bs "=") ;; wls "\""" ;; attr_value lvl elem n e ;; wls "\""").
Proof.
  intros g. set (G := [OL ([x20] ++ hesc n ++ bs "="); OL (bs "\""")] ++ g_attr (attr_kind elem n) lvl (vname (S (vid g))) (fname g) e ++ [OL (bs "\""")]).
  exists G. rewrite attr_expr_ops. fold G. split; [|split].
  - apply replay_same. split; reflexivity.
  - destruct (replay_keeps G (set_vid (S (vid g)) g)) as (V & _). rewrite V. cbn [vid set_vid]. apply S_expr.
  - exists [], G, []. split; [rewrite app_nil_r; reflexivity|]. exists (S (vid g)), (fname g). reflexivity.
Qed.

(* one step of the attribute loop: what write_attrs does for one attribute *)
Definition attr_step (f lvl : nat) (elem : bytes) (a : attr) : M :=
  match a with
  | ABoolConst n => wl ([x20] ++ hesc n)
  | AConst n v => wl ([x20] ++ hesc n ++ bs "=\""" ++ qesc (hesc v) ++ bs "\""")
  | ABoolExpr n e => wis lvl "if " ;; wre e ;; wrs " {" ;; nl ;; wl ([x20] ++ hesc n) ;; wis lvl "}" ;; nl
  | AExpr n e => wl ([x20] ++ hesc n ++ bs "=") ;; wls "\""" ;; attr_value lvl elem n e ;; wls "\"""
  | ASpread e => wis lvl (P ++ "Err = templ.RenderAttributes(ctx, " ++ P ++ "Buffer, ") ;; wre e ;; wrs ")" ;; nl ;; err_handler lvl
  | ACond e th el =>
      wis lvl "if " ;; wre e ;; wrs " {" ;; nl ;; write_attrs f (S lvl) elem th ;;
      (match el with [] => skip | _ => wis lvl "} else {" ;; nl ;; write_attrs f (S lvl) elem el end) ;;
      wis lvl "}" ;; nl
  end.
Lemma write_attrs_step f lvl elem l : write_attrs (S f) lvl elem l = seqs (map (attr_step f lvl elem) l).
Proof. reflexivity. Qed.

Ltac em_hook ::=
  lazymatch goal with
  | |- emits _ (err_handler _) => apply emits_err_handler
  | |- emits _ (write_attrs _ _ _ _) => apply emits_write_attrs
  end.
Lemma emits_attr_step f lvl elem a : emits (Some elem) (attr_step f lvl elem a).
Proof. destruct a; cbn [attr_step]; try solve [em]. apply emits_attr_expr. Qed.

(* the nested form: the group of name={ e } occurs in the operations of the whole attribute list, with the kind decided
   by (elem, name) alone and at indentation lvl + d *)
Lemma write_attrs_nested : forall f lvl elem l d n e,
  attr_at d (AExpr n e) l -> d < f -> emits_with (Some elem) (attr_group elem n e (lvl + d)) (write_attrs f lvl elem l).
Proof.
  induction f as [|f IH]; intros lvl elem l d n e H Hd; [lia|].
  rewrite write_attrs_step. inversion H; subst.
  - apply (emits_with_seqs_map _ _ _ (AExpr n e)); [assumption|intros x; apply emits_attr_step|].
    cbn [attr_step]. rewrite Nat.add_0_r. apply emits_with_attr_expr.
  - apply (emits_with_seqs_map _ _ _ (ACond c th el)); [assumption|intros x; apply emits_attr_step|].
    cbn [attr_step]. replace (lvl + S d0) with (S lvl + d0) by lia.
    apply emits_with_r; [em|]. apply emits_with_r; [em|]. apply emits_with_r; [em|]. apply emits_with_r; [em|].
    apply emits_with_l; [apply IH; [assumption|lia]|]. em.
  - apply (emits_with_seqs_map _ _ _ (ACond c th el)); [assumption|intros x; apply emits_attr_step|].
    cbn [attr_step]. replace (lvl + S d0) with (S lvl + d0) by lia.
    apply emits_with_r; [em|]. apply emits_with_r; [em|]. apply emits_with_r; [em|]. apply emits_with_r; [em|].
    apply emits_with_r; [em|]. apply emits_with_l; [|em].
    destruct el as [|a0 el0]; [exfalso; eapply attr_at_nil; eassumption|].
    apply emits_with_r; [em|]. apply emits_with_r; [em|]. apply IH; [assumption|lia].
Qed.

Theorem attr_sink_nested f lvl elem l g d n e :
  attr_at d (AExpr n e) l -> d < f ->
  exists (ops pre post : list op) (v : nat) (fn : bytes),
    same (write_attrs f lvl elem l g) (replay ops g) /\
    Sunk (Some elem) (vid g) (vid (write_attrs f lvl elem l g)) ops /\
    ops = pre ++ ([OL ([x20] ++ hesc n ++ bs "="); OL (bs "\""")] ++
                  g_attr (attr_kind elem n) (lvl + d) (vname v) fn e ++ [OL (bs "\""")]) ++ post.
Proof.
  intros H Hd. destruct (write_attrs_nested f lvl elem l d n e H Hd g) as (ops & A & B & pre & x & post & E & v & fn & X).
  exists ops, pre, post, v, fn. split; [exact A|]. split; [exact B|]. rewrite <- X. exact E.
Qed.

Theorem url_sink_nested f lvl elem l g d n e :
  attr_at d (AExpr n e) l -> d < f -> url_sink elem n = true ->
  exists (ops pre post : list op) (v : nat),
    same (write_attrs f lvl elem l g) (replay ops g) /\
    Sunk (Some elem) (vid g) (vid (write_attrs f lvl elem l g)) ops /\
    ops = pre ++ ([OL ([x20] ++ hesc n ++ bs "="); OL (bs "\""")] ++
                  [OI (lvl + d) (bs "var " ++ vname v ++ bs " templ.SafeURL = "); OE e; OR nlb;
                   OI (lvl + d) (bs "_, templ_7745c5c3_Err = templ_7745c5c3_Buffer.WriteString(templ.EscapeString(string(" ++ vname v ++ bs ")))"); OR nlb] ++
                  eh (lvl + d) ++ [OL (bs "\""")]) ++ post.
Proof.
  intros H Hd U. destruct (attr_sink_nested f lvl elem l g d n e H Hd) as (ops & pre & post & v & fn & A & B & E).
  exists ops, pre, post, v. split; [exact A|]. split; [exact B|]. rewrite E.
  apply (proj2 (url_kind_iff elem n)) in U. rewrite U. cbn [g_attr]. unfold g_url. rewrite <- !app_assoc. reflexivity.
Qed.

(* non-vacuity: an href in the else-branch of a conditional nested in an else-branch, behind a spread *)
Definition ex_e (s : bytes) : expr := {| e_val := s; e_fi := 1%N; e_fl := 0%N; e_fc := 1%N; e_ti := 2%N; e_tl := 0%N; e_tc := 2%N |}.
Lemma ex_nested_at :
  attr_at 2 (AExpr (bs "href") (ex_e (bs "u")))
    [AConst (bs "class") (bs "k"); ACond (ex_e (bs "c1")) [AExpr (bs "title") (ex_e (bs "s"))]
       [ASpread (ex_e (bs "sp")); ACond (ex_e (bs "c2")) [] [AExpr (bs "href") (ex_e (bs "u"))]]].
Proof.
  eapply at_else; [right; left; reflexivity|]. eapply at_else; [right; left; reflexivity|]. apply at_top. left. reflexivity.
Qed.
