(* Proofs for C17: Document.Apply is the editor's byte splice; lifted over change lists and event histories. *)
From Coq.Strings Require Import Byte String.
From Coq Require Import List NArith Arith Bool Lia ZifyN ZifyNat ZifyBool.
Import ListNotations.
From V Require Import lib.Bytes lib.Lsp spec.Splice model.DocEdit.
Local Open Scope nat_scope.

(* ---------- join / glue ---------- *)
Definition glue (X Y : list bytes) : list bytes := removelast X ++ [last X [] ++ hd [] Y] ++ tl Y.

Lemma join_cons l r : r <> [] -> join_nl (l :: r) = l ++ nl :: join_nl r.
Proof. destruct r; [congruence|reflexivity]. Qed.

Lemma ne_cons {A} (a : A) l : a :: l <> []. Proof. discriminate. Qed.
Lemma ne_app_cons {A} (l : list A) a r : l ++ a :: r <> []. Proof. destruct l; discriminate. Qed.

Lemma join_snoc X x : X <> [] -> join_nl (X ++ [x]) = join_nl X ++ nl :: x.
Proof.
  induction X as [|a X IH]; [intros H; congruence|]. intros _. destruct X as [|b X].
  - reflexivity.
  - change ((a :: b :: X) ++ [x]) with (a :: ((b :: X) ++ [x])).
    rewrite (join_cons a ((b :: X) ++ [x])) by apply ne_app_cons.
    rewrite (IH (ne_cons b X)).
    rewrite (join_cons a (b :: X)) by apply ne_cons. rewrite <- app_assoc. reflexivity.
Qed.

Lemma join_app X Y : X <> [] -> Y <> [] -> join_nl (X ++ Y) = join_nl X ++ nl :: join_nl Y.
Proof.
  intros HX HY. induction X as [|a X IH]; [congruence|]. clear HX. destruct X as [|b X].
  - cbn [app]. apply join_cons; exact HY.
  - change ((a :: b :: X) ++ Y) with (a :: ((b :: X) ++ Y)).
    rewrite (join_cons a ((b :: X) ++ Y)) by (destruct Y; [congruence|apply ne_app_cons]).
    rewrite (IH (ne_cons b X)).
    rewrite (join_cons a (b :: X)) by apply ne_cons. rewrite <- app_assoc. reflexivity.
Qed.

Lemma snoc_decomp {A} (X : list A) d : X <> [] -> X = removelast X ++ [last X d].
Proof. intros H. apply app_removelast_last; exact H. Qed.

Lemma join_glue X Y : X <> [] -> Y <> [] -> join_nl (glue X Y) = join_nl X ++ join_nl Y.
Proof.
  intros HX HY. unfold glue.
  rewrite (snoc_decomp X [] HX) at 3.
  destruct Y as [|y Y']; [congruence|]. cbn [hd tl].
  generalize (removelast X) as Q, (last X []) as z. intros Q z.
  destruct Q as [|q Q]; destruct Y' as [|y2 Y'].
  - cbn. reflexivity.
  - cbn [app]. rewrite (join_cons (z ++ y) (y2 :: Y')) by apply ne_cons. change (join_nl [z]) with z.
    rewrite (join_cons y (y2 :: Y')) by apply ne_cons. rewrite <- app_assoc. reflexivity.
  - rewrite app_nil_r. rewrite !join_snoc by apply ne_cons. rewrite <- app_assoc. reflexivity.
  - rewrite app_assoc. rewrite join_app; [|apply ne_app_cons|apply ne_cons].
    rewrite !join_snoc by apply ne_cons. rewrite (join_cons y (y2 :: Y')) by apply ne_cons.
    rewrite <- !app_assoc. cbn [app]. rewrite <- app_assoc. reflexivity.
Qed.

Lemma glue_nonempty X Y : glue X Y <> [].
Proof. unfold glue. destruct (removelast X); discriminate. Qed.

(* ---------- split / join ---------- *)
Lemma split_nl_nonempty s : split_nl s <> [].
Proof. induction s as [|b r IH]; cbn; [discriminate|]. destruct (Byte.eqb b nl); [discriminate|]. destruct (split_nl r); [congruence|discriminate]. Qed.

Lemma join_split s : join_nl (split_nl s) = s.
Proof.
  induction s as [|b r IH]; [reflexivity|]. cbn [split_nl].
  destruct (Byte.eqb b nl) eqn:E.
  - apply byte_eqb_eq in E. subst. rewrite join_cons by apply split_nl_nonempty. rewrite IH. reflexivity.
  - pose proof (split_nl_nonempty r) as NE. destruct (split_nl r) as [|l ls]; [congruence|].
    destruct ls; cbn in *; rewrite <- IH; reflexivity.
Qed.

(* ---------- well-formed line arrays: non-empty, no LF inside a line ---------- *)
Definition no_lf (l : bytes) : Prop := Forall (fun b => b <> nl) l.
Definition doc_wf (d : list bytes) : Prop := d <> [] /\ Forall no_lf d.

Lemma split_nl_wf s : doc_wf (split_nl s).
Proof.
  split; [apply split_nl_nonempty|].
  induction s as [|b r IH]; cbn [split_nl].
  - repeat constructor.
  - destruct (Byte.eqb b nl) eqn:E.
    + constructor; [constructor|exact IH].
    + apply byte_eqb_neq in E. destruct (split_nl r) as [|l ls].
      * repeat constructor. exact E.
      * inversion IH; subst. constructor; [constructor; assumption|assumption].
Qed.

Lemma split_no_lf l : no_lf l -> split_nl l = [l].
Proof.
  induction 1 as [|b l Hb Hl IH]; [reflexivity|]. cbn [split_nl].
  apply byte_eqb_neq in Hb. rewrite Hb, IH. reflexivity.
Qed.

Lemma split_app_lf l t : no_lf l -> split_nl (l ++ nl :: t) = l :: split_nl t.
Proof.
  induction 1 as [|b l Hb Hl IH]; cbn [app split_nl].
  - rewrite byte_eqb_refl. reflexivity.
  - apply byte_eqb_neq in Hb. rewrite Hb, IH. reflexivity.
Qed.

Lemma split_join d : doc_wf d -> split_nl (join_nl d) = d.
Proof.
  intros [Hne HF]. induction d as [|l r IH]; [congruence|]. clear Hne.
  inversion HF as [|? ? Hl Hr]; subst. destruct r as [|y r'].
  - apply split_no_lf; exact Hl.
  - rewrite (join_cons l (y :: r')) by apply ne_cons. rewrite split_app_lf by exact Hl.
    rewrite IH; [reflexivity|apply ne_cons|exact Hr].
Qed.

Lemma Forall_firstn {A} (P : A -> Prop) n (l : list A) : Forall P l -> Forall P (firstn n l).
Proof. revert l; induction n as [|n IH]; intros l H; [constructor|]. destruct l; [constructor|]. inversion H; subst. cbn. constructor; auto. Qed.
Lemma Forall_skipn {A} (P : A -> Prop) n (l : list A) : Forall P l -> Forall P (skipn n l).
Proof. revert l; induction n as [|n IH]; intros l H; [exact H|]. destruct l; [constructor|]. inversion H; subst. cbn. auto. Qed.
Lemma Forall_nth_d {A} (P : A -> Prop) n (l : list A) d : Forall P l -> P d -> P (nth n l d).
Proof. revert l; induction n as [|n IH]; intros l H Hd; destruct l; cbn; try exact Hd; inversion H; subst; auto. Qed.

Lemma nth_line_no_lf d i : Forall no_lf d -> no_lf (nth_line d i).
Proof. intros H. unfold nth_line. apply Forall_nth_d; [exact H|constructor]. Qed.

Lemma glue_snoc (M : list bytes) m x S : glue (M ++ [m]) (x :: S) = M ++ [m ++ x] ++ S.
Proof. unfold glue. rewrite removelast_last, last_last. reflexivity. Qed.

Lemma glue_wf X Y : doc_wf X -> doc_wf Y -> doc_wf (glue X Y).
Proof.
  intros [HX FX] [HY FY]. split; [apply glue_nonempty|].
  rewrite (snoc_decomp X [] HX) in FX |- *. destruct Y as [|y Y']; [congruence|].
  rewrite glue_snoc. apply Forall_app in FX as [F1 F2]. inversion F2; subst. inversion FY; subst.
  apply Forall_app. split; [exact F1|]. cbn [app]. constructor; [|assumption].
  unfold no_lf in *. apply Forall_app. split; assumption.
Qed.

(* ---------- cutting the joined text at (l, c) ---------- *)
Definition Lpart (d : list bytes) l c := firstn l d ++ [firstn c (nth_line d l)].
Definition Rpart (d : list bytes) l c := skipn c (nth_line d l) :: skipn (S l) d.

Lemma Lpart_ne d l c : Lpart d l c <> []. Proof. apply ne_app_cons. Qed.
Lemma Rpart_ne d l c : Rpart d l c <> []. Proof. apply ne_cons. Qed.

Lemma Lpart_wf d l c : Forall no_lf d -> doc_wf (Lpart d l c).
Proof.
  intros H. split; [apply Lpart_ne|]. unfold Lpart. apply Forall_app. split; [apply Forall_firstn; exact H|].
  constructor; [|constructor]. apply Forall_firstn. apply nth_line_no_lf; exact H.
Qed.
Lemma Rpart_wf d l c : Forall no_lf d -> doc_wf (Rpart d l c).
Proof.
  intros H. split; [apply Rpart_ne|]. unfold Rpart. constructor; [|apply Forall_skipn; exact H].
  apply Forall_skipn. apply nth_line_no_lf; exact H.
Qed.

Lemma glue_LR d l c : l < length d -> glue (Lpart d l c) (Rpart d l c) = d.
Proof.
  intros H. unfold glue, Lpart, Rpart. rewrite removelast_last.
  rewrite last_last. cbn [hd tl]. rewrite firstn_skipn.
  unfold nth_line. rewrite <- (firstn_skipn l d) at 4.
  f_equal. assert (E : skipn l d = nth l d [] :: skipn (S l) d).
  { clear c. revert l H. induction d as [|a d IH]; intros l H; [cbn in H; lia|]. destruct l; [reflexivity|]. cbn. apply IH. cbn in H. lia. }
  rewrite E. reflexivity.
Qed.

Lemma join_cut d l c : l < length d -> join_nl d = join_nl (Lpart d l c) ++ join_nl (Rpart d l c).
Proof. intros H. rewrite <- join_glue by (apply Lpart_ne || apply Rpart_ne). rewrite glue_LR by exact H. reflexivity. Qed.

Lemma Lpart_S x r l c : Lpart (x :: r) (S l) c = x :: Lpart r l c.
Proof. reflexivity. Qed.

(* byte offset of (line l, column c) computed on the line array, both clamped *)
Fixpoint loffset (d : list bytes) (l c : nat) : nat :=
  match l, d with
  | 0, x :: _ => Nat.min c (length x)
  | 0, [] => 0
  | S l', [x] => length x
  | S l', x :: r => length x + 1 + loffset r l' c
  | S l', [] => 0
  end.

Lemma loffset_S_cons x y r l c : loffset (x :: y :: r) (S l) c = length x + 1 + loffset (y :: r) l c.
Proof. reflexivity. Qed.

Lemma len_Lpart d l c : l < length d -> c <= length (nth_line d l) -> length (join_nl (Lpart d l c)) = loffset d l c.
Proof.
  revert l. induction d as [|x r IH]; intros l Hl Hc; [cbn in Hl; lia|].
  destruct l as [|l].
  - cbn. rewrite firstn_length. unfold nth_line in Hc. cbn in Hc. lia.
  - rewrite Lpart_S. rewrite join_cons by apply Lpart_ne. rewrite app_length. cbn [length].
    cbn in Hl. assert (Hl' : l < length r) by lia.
    rewrite (IH l Hl' Hc). destruct r as [|y r']; [cbn in Hl'; lia|]. rewrite loffset_S_cons. lia.
Qed.

Lemma loffset_full d l c : d <> [] -> length d <= l -> loffset d l c = length (join_nl d).
Proof.
  revert l. induction d as [|x r IH]; intros l Hne Hl; [congruence|].
  destruct l as [|l]; [cbn in Hl; lia|]. destruct r as [|y r'].
  - reflexivity.
  - rewrite loffset_S_cons. rewrite (join_cons x (y :: r')) by apply ne_cons. rewrite app_length. cbn [length].
    rewrite IH; [lia|apply ne_cons|cbn in *; lia].
Qed.

Lemma loffset_clamp_char d l c : l < length d -> loffset d l c = loffset d l (Nat.min c (length (nth_line d l))).
Proof.
  revert l. induction d as [|x r IH]; intros l Hl; [cbn in Hl; lia|].
  destruct l as [|l].
  - cbn. unfold nth_line. cbn. lia.
  - cbn in Hl. destruct r as [|y r']; [cbn in Hl; lia|]. rewrite !loffset_S_cons.
    rewrite (IH l) by (cbn in *; lia). reflexivity.
Qed.

Lemma join_last_cut d : d <> [] ->
  length (join_nl (Lpart d (length d - 1) (length (nth_line d (length d - 1))))) = length (join_nl d).
Proof.
  intros Hne. assert (H : length d - 1 < length d) by (destruct d; [congruence|cbn; lia]).
  rewrite (join_cut d (length d - 1) (length (nth_line d (length d - 1))) H) at 1.
  rewrite app_length. unfold Rpart. rewrite skipn_all.
  replace (S (length d - 1)) with (length d) by lia. rewrite skipn_all. cbn. lia.
Qed.

(* ---------- the specification's offset is the line array's offset ---------- *)
Lemma offset_of_loffset s l c : offset_of s l c = loffset (split_nl s) (N.to_nat l) (N.to_nat c).
Proof.
  revert l c. induction s as [|b r IH]; intros l c.
  - cbn. destruct (N.to_nat l); [lia|reflexivity].
  - cbn [offset_of split_nl]. fold LF. change LF with nl.
    pose proof (split_nl_nonempty r) as NE.
    destruct (N.eqb l 0) eqn:El.
    + apply N.eqb_eq in El. subst l. cbn [N.to_nat].
      destruct (N.eqb c 0) eqn:Ec.
      * apply N.eqb_eq in Ec. subst c. destruct (Byte.eqb b nl); [reflexivity|].
        destruct (split_nl r); [congruence|reflexivity].
      * apply N.eqb_neq in Ec. destruct (Byte.eqb b nl).
        { cbn. lia. }
        rewrite IH. cbn [N.to_nat]. destruct (split_nl r) as [|x ls]; [congruence|].
        cbn [loffset length]. replace (N.to_nat c) with (S (N.to_nat (N.pred c))) by lia. lia.
    + apply N.eqb_neq in El. rewrite IH.
      replace (N.to_nat l) with (S (N.to_nat (N.pred l))) by lia.
      destruct (Byte.eqb b nl).
      * destruct (split_nl r) as [|x ls]; [congruence|]. rewrite loffset_S_cons. cbn [length]. lia.
      * replace (N.to_nat l) with (S (N.to_nat (N.pred l))) by lia.
        destruct (split_nl r) as [|x ls]; [congruence|]. destruct ls as [|y ls'].
        { reflexivity. }
        rewrite !loffset_S_cons. cbn [length]. lia.
Qed.

(* ---------- normalisation agrees with the specification's clamping ---------- *)
Definition ln (p : pos) : nat := N.to_nat (line p).
Definition cn (p : pos) : nat := N.to_nat (char p).
Definition pos_ok (d : list bytes) (p : pos) : Prop := ln p < length d /\ cn p <= length (nth_line d (ln p)).

Lemma norm_ok d p : d <> [] -> pos_ok d (norm_pos d p).
Proof.
  intros Hne. assert (H : length d - 1 < length d) by (destruct d; [congruence|cbn; lia]).
  unfold norm_pos, pos_ok, ln, cn.
  destruct (N.of_nat (length d) <=? line p)%N eqn:E1; cbn [line char].
  - rewrite Nat2N.id. rewrite N.ltb_irrefl. cbn [line char]. rewrite !Nat2N.id. split; [exact H|lia].
  - apply N.leb_gt in E1.
    destruct (N.of_nat (length (nth_line d (N.to_nat (line p)))) <? char p)%N eqn:E2; cbn [line char].
    + rewrite Nat2N.id. split; lia.
    + apply N.ltb_ge in E2. split; lia.
Qed.

Lemma norm_loffset d p : d <> [] ->
  loffset d (ln (norm_pos d p)) (cn (norm_pos d p)) = loffset d (ln p) (cn p).
Proof.
  intros Hne. assert (H : length d - 1 < length d) by (destruct d; [congruence|cbn; lia]).
  unfold norm_pos, ln, cn. destruct (N.of_nat (length d) <=? line p)%N eqn:E1; cbn [line char].
  - rewrite Nat2N.id. rewrite N.ltb_irrefl. cbn [line char]. rewrite !Nat2N.id. apply N.leb_le in E1.
    rewrite (loffset_full d (N.to_nat (line p)) (N.to_nat (char p)) Hne) by lia.
    rewrite <- (len_Lpart d _ _ H (le_n _)). apply join_last_cut; exact Hne.
  - apply N.leb_gt in E1.
    destruct (N.of_nat (length (nth_line d (N.to_nat (line p)))) <? char p)%N eqn:E2; cbn [line char].
    + apply N.ltb_lt in E2. rewrite Nat2N.id.
      rewrite (loffset_clamp_char d (N.to_nat (line p)) (N.to_nat (char p))) by lia.
      f_equal. lia.
    + reflexivity.
Qed.

Lemma norm_line_mono d a b : d <> [] -> (line a <= line b)%N -> ln (norm_pos d a) <= ln (norm_pos d b).
Proof.
  intros Hne Hab. assert (H : length d - 1 < length d) by (destruct d; [congruence|cbn; lia]).
  assert (LA : forall p, ln (norm_pos d p) = Nat.min (N.to_nat (line p)) (length d - 1)).
  { intros p. unfold norm_pos, ln. destruct (N.of_nat (length d) <=? line p)%N eqn:E1; cbn [line char].
    - apply N.leb_le in E1. destruct (_ <? _)%N; cbn [line]; lia.
    - apply N.leb_gt in E1. destruct (_ <? _)%N; cbn [line]; lia. }
  rewrite !LA. lia.
Qed.

(* ---------- the edit primitives as glue ---------- *)
Lemma firstn_firstn_app {A} (n : nat) (a b : list A) : n <= length a -> firstn n (firstn n a ++ b) = firstn n a.
Proof. intros H. rewrite firstn_app. rewrite firstn_firstn, Nat.min_id. rewrite firstn_length. replace (n - Nat.min n (length a)) with 0 by lia. cbn. apply app_nil_r. Qed.

Lemma skipn_firstn_app {A} (n k : nat) (a b : list A) : n <= length a -> skipn (n + k) (firstn n a ++ b) = skipn k b.
Proof.
  intros H. rewrite skipn_app. rewrite firstn_length. replace (Nat.min n (length a)) with n by lia.
  replace (n + k - n) with k by lia. rewrite skipn_all2; [reflexivity|]. rewrite firstn_length. lia.
Qed.

Lemma glue_L_R d fl fc X : glue (Lpart d fl fc) X = firstn fl d ++ [firstn fc (nth_line d fl) ++ hd [] X] ++ tl X.
Proof. unfold glue, Lpart. rewrite removelast_last, last_last. reflexivity. Qed.

Lemma skipn_skipn' {A} (a b : nat) (l : list A) : skipn a (skipn b l) = skipn (a + b) l.
Proof. revert l; induction b as [|b IH]; intros l; [rewrite Nat.add_0_r; reflexivity|]. destruct l; [rewrite !skipn_nil; reflexivity|].
  replace (a + S b) with (S (a + b)) by lia. cbn [skipn]. apply IH. Qed.

Lemma delete_glue d fl fc el ec : fl <= el -> el < length d ->
  doc_delete d fl fc el ec = glue (Lpart d fl fc) (Rpart d el ec).
Proof.
  intros H1 H2. rewrite glue_L_R. unfold Rpart. cbn [hd List.tl]. unfold doc_delete, delete_lines, set_line.
  rewrite firstn_firstn_app by lia.
  replace (S fl) with (fl + 1) by lia. rewrite skipn_firstn_app by lia.
  rewrite skipn_skipn'. replace (1 + el) with (S el) by lia. reflexivity.
Qed.

Lemma nth_snoc_mid (A B : list bytes) z C : nth_line (A ++ (B ++ [z]) ++ C) (length A + length B) = z.
Proof.
  unfold nth_line. rewrite app_nth2 by lia. replace (length A + length B - length A) with (length B) by lia.
  rewrite <- app_assoc. rewrite app_nth2 by lia. rewrite Nat.sub_diag. reflexivity.
Qed.

Lemma set_snoc_mid (A B : list bytes) z C x : set_line (A ++ (B ++ [z]) ++ C) (length A + length B) x = A ++ B ++ x :: C.
Proof.
  unfold set_line. rewrite <- !app_assoc. rewrite app_assoc.
  rewrite firstn_app. rewrite app_length. rewrite Nat.sub_diag. rewrite firstn_all2 by (rewrite app_length; lia). cbn [firstn].
  rewrite app_nil_r. rewrite skipn_app. rewrite app_length.
  rewrite skipn_all2 by (rewrite app_length; lia). replace (S (length A + length B) - (length A + length B)) with 1 by lia.
  cbn. rewrite <- app_assoc. reflexivity.
Qed.

Lemma insert_glue d l c W : l < length d -> W <> [] ->
  doc_insert d l c W = glue (glue (Lpart d l c) W) (Rpart d l c).
Proof.
  intros Hl HW. destruct W as [|w0 wr]; [congruence|]. clear HW.
  rewrite glue_L_R. cbn [hd List.tl]. unfold doc_insert.
  set (p := firstn c (nth_line d l)). set (sfx := skipn c (nth_line d l)).
  assert (Lf : length (firstn l d) = l) by (rewrite firstn_length; lia).
  assert (D1 : set_line d l (p ++ w0) = firstn l d ++ ([] ++ [p ++ w0]) ++ skipn (S l) d) by reflexivity.
  destruct wr as [|w1 wr'].
  - (* single line *)
    cbn [length]. replace (l + 1 - 1) with (length (firstn l d) + length (@nil bytes)) by (cbn; lia).
    rewrite D1. rewrite nth_snoc_mid, set_snoc_mid. cbn [app].
    unfold glue, Rpart. rewrite removelast_last, last_last. cbn [hd List.tl app]. reflexivity.
  - (* several lines: w0 :: (B ++ [z]) *)
    assert (NE : w1 :: wr' <> []) by discriminate.
    rewrite (snoc_decomp (w1 :: wr') [] NE). set (B := removelast (w1 :: wr')). set (z := last (w1 :: wr') []).
    assert (D2 : insert_lines (set_line d l (p ++ w0)) (S l) (B ++ [z]) = (firstn l d ++ [p ++ w0]) ++ (B ++ [z]) ++ skipn (S l) d).
    { unfold insert_lines. rewrite D1. cbn [app]. generalize (skipn (S l) d) as T. intros T.
      generalize dependent (firstn l d). intros F Lf _. subst l.
      replace (S (length F)) with (length (F ++ [p ++ w0])) by (rewrite app_length; cbn; lia).
      replace (F ++ (p ++ w0) :: T) with ((F ++ [p ++ w0]) ++ T) by (rewrite <- app_assoc; reflexivity).
      rewrite firstn_app, firstn_all, Nat.sub_diag. cbn [firstn]. rewrite app_nil_r.
      rewrite skipn_app, skipn_all, Nat.sub_diag. cbn [skipn app]. reflexivity. }
    rewrite D2.
    replace (l + length (w0 :: B ++ [z]) - 1) with (length (firstn l d ++ [p ++ w0]) + length B)
      by (cbn [length]; rewrite !app_length; cbn [length]; lia).
    rewrite nth_snoc_mid, set_snoc_mid.
    unfold glue, Rpart. cbn [hd List.tl].
    replace (firstn l d ++ [p ++ w0] ++ B ++ [z]) with ((firstn l d ++ [p ++ w0] ++ B) ++ [z]) by (rewrite <- !app_assoc; reflexivity).
    rewrite removelast_last, last_last. rewrite <- !app_assoc. reflexivity.
Qed.

Lemma glue_tail_shift (L W : list bytes) sfx S : L <> [] -> W <> [] ->
  glue (glue L (removelast W ++ [last W [] ++ sfx])) ([] :: S) = glue (glue L W) (sfx :: S).
Proof.
  intros HL HW. rewrite (snoc_decomp L [] HL). generalize (removelast L) as L0, (last L []) as l0. intros L0 l0.
  rewrite (snoc_decomp W [] HW) at 3. generalize (removelast W) as W0, (last W []) as z. intros W0 z.
  destruct W0 as [|w W0].
  - cbn [app]. rewrite !glue_snoc. rewrite !app_nil_r.
    rewrite !glue_snoc.
    rewrite app_nil_r. rewrite <- !app_assoc. reflexivity.
  - cbn [app]. rewrite !glue_snoc.
    replace (L0 ++ [l0 ++ w] ++ W0 ++ [z ++ sfx]) with ((L0 ++ [l0 ++ w] ++ W0) ++ [z ++ sfx]) by (rewrite <- !app_assoc; reflexivity).
    replace (L0 ++ [l0 ++ w] ++ W0 ++ [z]) with ((L0 ++ [l0 ++ w] ++ W0) ++ [z]) by (rewrite <- !app_assoc; reflexivity).
    rewrite !glue_snoc. rewrite app_nil_r. reflexivity.
Qed.

Lemma overwrite_glue d fl fc el ec W : fl <= el -> el < length d -> fc <= length (nth_line d fl) -> W <> [] ->
  doc_overwrite d fl fc el ec W = glue (glue (Lpart d fl fc) W) (Rpart d el ec).
Proof.
  intros H1 H2 H3 HW. unfold doc_overwrite.
  rewrite (delete_glue d fl fc el _ H1 H2). rewrite glue_L_R.
  change (hd [] (Rpart d el (length (nth_line d el)))) with (skipn (length (nth_line d el)) (nth_line d el)).
  change (List.tl (Rpart d el (length (nth_line d el)))) with (skipn (S el) d).
  rewrite skipn_all. rewrite app_nil_r.
  set (p := firstn fc (nth_line d fl)). set (S := skipn (S el) d). set (sfx := skipn ec (nth_line d el)).
  assert (Lp : length p = fc) by (unfold p; rewrite firstn_length; lia).
  assert (Lf : length (firstn fl d) = fl) by (rewrite firstn_length; lia).
  set (d1 := firstn fl d ++ [p] ++ S).
  assert (N1 : nth_line d1 fl = p).
  { unfold nth_line, d1. rewrite app_nth2 by lia. rewrite Lf, Nat.sub_diag. reflexivity. }
  assert (L1 : Lpart d1 fl fc = Lpart d fl fc).
  { unfold Lpart. rewrite N1. unfold d1. rewrite <- Lf at 1. rewrite firstn_app, firstn_all, Nat.sub_diag. cbn [firstn].
    rewrite app_nil_r. fold p. rewrite <- Lp. rewrite firstn_all. reflexivity. }
  assert (R1 : Rpart d1 fl fc = [] :: S).
  { unfold Rpart. rewrite N1. rewrite <- Lp at 1. rewrite skipn_all. f_equal.
    unfold d1. replace (Datatypes.S fl) with (length (firstn fl d ++ [p])) by (rewrite app_length; cbn; lia).
    rewrite app_assoc. rewrite skipn_app, skipn_all, Nat.sub_diag. reflexivity. }
  fold d1. rewrite insert_glue.
  - rewrite L1, R1. apply glue_tail_shift; [apply Lpart_ne|exact HW].
  - unfold d1. rewrite !app_length. cbn. lia.
  - destruct (removelast W); discriminate.
Qed.

(* ---------- Apply as glue ---------- *)
Lemma glue_unit_r (L : list bytes) : L <> [] -> glue L [[]] = L.
Proof. intros H. rewrite (snoc_decomp L [] H) at 1. rewrite glue_snoc. rewrite app_nil_r, app_nil_r. symmetry. apply snoc_decomp; exact H. Qed.
Lemma glue_unit_l (W : list bytes) : W <> [] -> glue [[]] W = W.
Proof. intros H. destruct W; [congruence|]. reflexivity. Qed.

Lemma firstn_exact {A} (a b : list A) : firstn (length a) (a ++ b) = a.
Proof. rewrite firstn_app, firstn_all, Nat.sub_diag. cbn. apply app_nil_r. Qed.
Lemma skipn_exact {A} (a b : list A) : skipn (length a) (a ++ b) = b.
Proof. rewrite skipn_app, skipn_all, Nat.sub_diag. reflexivity. Qed.

Lemma splice_glue d s e w : pos_ok d s -> pos_ok d e ->
  splice (join_nl d) (loffset d (ln s) (cn s)) (loffset d (ln e) (cn e)) w =
  join_nl (glue (glue (Lpart d (ln s) (cn s)) (split_nl w)) (Rpart d (ln e) (cn e))).
Proof.
  intros [Hs1 Hs2] [He1 He2]. unfold splice.
  rewrite (join_cut d (ln s) (cn s) Hs1) at 1. rewrite <- (len_Lpart d _ _ Hs1 Hs2). rewrite firstn_exact.
  rewrite (join_cut d (ln e) (cn e) He1) at 1. rewrite <- (len_Lpart d _ _ He1 He2). rewrite skipn_exact.
  rewrite join_glue by (apply glue_nonempty || apply Rpart_ne).
  rewrite join_glue by (apply Lpart_ne || apply split_nl_nonempty).
  rewrite join_split. rewrite <- app_assoc. reflexivity.
Qed.

Lemma same_pos_true r : same_pos r = true -> ln (start r) = ln (stop r) /\ cn (start r) = cn (stop r).
Proof.
  unfold same_pos, ln, cn. intros H. apply andb_prop in H as [H1 H2].
  apply N.eqb_eq in H1, H2. rewrite H1, H2. split; reflexivity.
Qed.

(* Document.Apply on a valid range is: text before the start, the new text, text after the end *)
Lemma apply_glue d r w : d <> [] -> (line (start r) <= line (stop r))%N ->
  apply d (Some r) w =
  glue (glue (Lpart d (ln (norm_pos d (start r))) (cn (norm_pos d (start r)))) (split_nl w))
       (Rpart d (ln (norm_pos d (stop r))) (cn (norm_pos d (stop r)))).
Proof.
  intros Hne Hle. unfold apply, apply_with.
  pose proof (norm_line_mono d (start r) (stop r) Hne Hle) as Hfl.
  set (n := normalize d r) in *.
  change (norm_pos d (start r)) with (start n) in *. change (norm_pos d (stop r)) with (stop n) in *.
  assert (Os : pos_ok d (start n)) by (apply norm_ok; exact Hne).
  assert (Oe : pos_ok d (stop n)) by (apply norm_ok; exact Hne).
  assert (HL : length d - 1 < length d) by (destruct d; [congruence|cbn; lia]).
  destruct Os as [Os1 Os2]. destruct Oe as [Oe1 Oe2].
  fold (ln (start n)) (cn (start n)) (ln (stop n)) (cn (stop n)).
  destruct (is_whole_document d n) eqn:Wh.
  - (* whole document *)
    unfold is_whole_document in Wh.
    destruct (negb (line (start n) =? 0)%N || negb (char (start n) =? 0)%N) eqn:St; [discriminate|].
    apply orb_false_elim in St as [S1 S2]. apply negb_false_iff in S1, S2. apply N.eqb_eq in S1, S2.
    apply andb_prop in Wh as [W1 W2]. apply N.leb_le in W1. apply N.eqb_eq in W2.
    unfold ln, cn in *.
    replace (N.to_nat (line (start n))) with 0 by lia. replace (N.to_nat (char (start n))) with 0 by lia.
    replace (N.to_nat (line (stop n))) with (length d - 1) by lia.
    replace (N.to_nat (char (stop n))) with (length (nth_line d (length d - 1))) by lia.
    unfold Lpart, Rpart. cbn [firstn app]. rewrite skipn_all.
    replace (S (length d - 1)) with (length d) by lia. rewrite skipn_all.
    rewrite glue_unit_l by apply split_nl_nonempty. rewrite glue_unit_r by apply split_nl_nonempty. reflexivity.
  - unfold is_insert, is_delete, is_overwrite.
    destruct (same_pos n) eqn:Eq; cbn [negb andb].
    + apply same_pos_true in Eq as [E1 E2]. rewrite <- E1, <- E2.
      destruct w as [|b w'].
      * cbn [is_empty negb split_nl]. rewrite glue_unit_r by apply Lpart_ne. symmetry. apply glue_LR; exact Os1.
      * cbn [is_empty negb]. apply insert_glue; [exact Os1|apply split_nl_nonempty].
    + destruct w as [|b w'].
      * cbn [is_empty negb split_nl]. rewrite glue_unit_r by apply Lpart_ne. apply delete_glue; assumption.
      * cbn [is_empty negb]. apply overwrite_glue; try assumption. apply split_nl_nonempty.
Qed.

Lemma pos_le_lines a b : pos_le a b -> (line a <= line b)%N.
Proof. intros [H|[H _]]; lia. Qed.

(* ---------- main theorem: one change ---------- *)
Theorem apply_is_splice d r w : doc_wf d -> range_valid r ->
  doc_string (apply d r w) = edit (doc_string d) r w.
Proof.
  intros [Hne HF] Hv. unfold doc_string. destruct r as [r|].
  - cbn [range_valid] in Hv. apply pos_le_lines in Hv.
    rewrite (apply_glue d r w Hne Hv). cbn [edit].
    rewrite !offset_of_loffset. rewrite (split_join d) by (split; assumption).
    fold (ln (start r)) (cn (start r)) (ln (stop r)) (cn (stop r)).
    rewrite <- (norm_loffset d (start r) Hne), <- (norm_loffset d (stop r) Hne).
    symmetry. apply splice_glue; apply norm_ok; exact Hne.
  - cbn. apply join_split.
Qed.

Theorem apply_wf d r w : doc_wf d -> range_valid r -> doc_wf (apply d r w).
Proof.
  intros [Hne HF] Hv. destruct r as [r|].
  - cbn [range_valid] in Hv. apply pos_le_lines in Hv. rewrite (apply_glue d r w Hne Hv).
    apply glue_wf; [apply glue_wf|]; [apply Lpart_wf; exact HF|apply split_nl_wf|apply Rpart_wf; exact HF].
  - cbn. apply split_nl_wf.
Qed.

(* every index used by Insert/Delete/Overwrite after normalize is inside the line array *)
Theorem normalize_in_range d p : d <> [] ->
  N.to_nat (line (norm_pos d p)) < length d /\
  N.to_nat (char (norm_pos d p)) <= length (nth_line d (N.to_nat (line (norm_pos d p)))).
Proof. intros H. exact (norm_ok d p H). Qed.

Theorem new_document_string s : doc_wf (new_document s) /\ doc_string (new_document s) = s.
Proof. split; [apply split_nl_wf|apply join_split]. Qed.

(* ---------- lifted over change lists and event histories ---------- *)
Lemma changes_track d s cs : doc_wf d -> doc_string d = s -> Forall change_valid cs ->
  doc_wf (apply_changes d cs) /\ doc_string (apply_changes d cs) = fold_left edit_change cs s.
Proof.
  intros Hwf Hs Hv. revert d s Hwf Hs. induction Hv as [|c cs Hc Hcs IH]; intros d s Hwf Hs.
  - split; assumption.
  - cbn [apply_changes fold_left]. apply IH.
    + apply apply_wf; assumption.
    + unfold apply_change, edit_change. rewrite apply_is_splice by assumption. rewrite Hs. reflexivity.
Qed.

Lemma events_track d s es : doc_wf d -> doc_string d = s -> Forall event_valid es ->
  doc_wf (fold_left server_step es d) /\ doc_string (fold_left server_step es d) = fold_left editor_step es s.
Proof.
  intros Hwf Hs Hv. revert d s Hwf Hs. induction Hv as [|e es He Hes IH]; intros d s Hwf Hs.
  - split; assumption.
  - cbn [fold_left]. destruct e as [s'|cs]; cbn [server_step editor_step].
    + apply IH; apply new_document_string.
    + cbn [event_valid] in He. destruct (changes_track d s cs Hwf Hs He) as [W E]. apply IH; assumption.
Qed.

Theorem changes_track_editor s0 cs : Forall change_valid cs ->
  doc_string (apply_changes (new_document s0) cs) = fold_left edit_change cs s0.
Proof. intros H. apply changes_track; [apply split_nl_wf|apply join_split|exact H]. Qed.

Theorem history_tracks_editor s0 es : Forall event_valid es ->
  doc_string (server_doc s0 es) = editor_text s0 es.
Proof. intros H. unfold server_doc, editor_text. apply events_track; [apply split_nl_wf|apply join_split|exact H]. Qed.

(* ---------- the predicate before commit 9226857 is refuted ---------- *)
Definition R (a b c d : N) : option range := Some {| start := {| line := a; char := b |}; stop := {| line := c; char := d |} |}.

(* "ab\n", type X at 0:0 *)
Lemma old_predicate_refuted_insert :
  doc_string (apply_with is_whole_document_old (new_document (bs "ab" ++ [nl])) (R 0 0 0 0) (bs "X"))
  <> edit (bs "ab" ++ [nl]) (R 0 0 0 0) (bs "X").
Proof. vm_compute. discriminate. Qed.

(* "ab\ncd", replace 0:0-0:2 by X *)
Lemma old_predicate_refuted_replace :
  doc_string (apply_with is_whole_document_old (new_document (bs "ab" ++ [nl] ++ bs "cd")) (R 0 0 0 2) (bs "X"))
  <> edit (bs "ab" ++ [nl] ++ bs "cd") (R 0 0 0 2) (bs "X").
Proof. vm_compute. discriminate. Qed.
