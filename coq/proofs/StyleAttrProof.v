(* The style-attribute value is inert for the tokenizer whatever the CSS sanitisers return. *)
From Coq.Strings Require Import Byte String.
From Coq Require Import List Arith NArith Bool Lia.
Import ListNotations.
From V Require Import lib.Bytes spec.HtmlTok spec.HtmlRefs model.Escape model.StyleAttr proofs.EscapeProof.
Open Scope nat_scope.

Lemma inert_app a b : inert (a ++ b) = inert a && inert b.
Proof. unfold inert. apply forallb_app. Qed.
Lemma process_string_inert z e : inert (process_string z e) = true.
Proof. unfold process_string. destruct e; [reflexivity|]. rewrite inert_app, escape_inert. destruct (ends_with_semi z); reflexivity. Qed.
Lemma process_safecss_inert v : inert (process_safecss v) = true.
Proof. unfold process_safecss. destruct v; [reflexivity|]. rewrite inert_app, escape_inert. destruct (ends_with_semi _); reflexivity. Qed.
Lemma decl_inert n v : inert (decl n v) = true.
Proof. unfold decl. rewrite !inert_app, !escape_inert. reflexivity. Qed.
Lemma flat_map_inert {A} (f : A -> bytes) l : (forall x, In x l -> inert (f x) = true) -> inert (flat_map f l) = true.
Proof.
  induction l as [|x l IH]; intros H; [reflexivity|]. cbn [flat_map]. rewrite inert_app, (H x (or_introl eq_refl)).
  apply IH. intros y Hy. apply H. right. exact Hy.
Qed.

Fixpoint style_val_inert (v : sval) : inert (style_val v) = true.
Proof.
  destruct v; cbn [style_val].
  - apply process_string_inert.
  - apply process_safecss_inert.
  - apply flat_map_inert. intros; apply decl_inert.
  - apply flat_map_inert. intros; apply decl_inert.
  - apply decl_inert.
  - destruct b; [apply process_string_inert|reflexivity].
  - destruct b; [apply process_safecss_inert|reflexivity].
  - apply style_val_inert.
  - induction l as [|x l IH]; [reflexivity|]. cbn [flat_map]. rewrite inert_app, (style_val_inert x). exact IH.
  - reflexivity.
  - reflexivity.
Qed.

Theorem style_attr_inert vs : inert (style_attr vs) = true.
Proof.
  unfold style_attr. apply flat_map_inert. intros v _. destruct v; try apply style_val_inert. reflexivity.
Qed.

