(* Proofs for C03: the model (model/JsEsc.v, tables from gen/Tables03.v) meets the specification (spec/JsLex.v).

   Everything the theorems need from the two live replacement tables is stated as a boolean over all 256 bytes
   and closed by vm_compute in PART 1 - so a table entry removed or changed in Go breaks an obligation here on
   the next build. *)
From Coq.Strings Require Import Byte String.
From Coq Require Import List Arith NArith Bool Lia.
Import ListNotations.
From V Require Import lib.Bytes lib.Utf8 spec.JsLex gen.Tables03 model.JsEsc.
Open Scope N_scope.

(* ========================================================================================== *)
(* PART 0: quantifying over bytes by enumeration                                              *)

Definition all_bytes : bytes := map (fun n => Nb (N.of_nat n)) (seq 0 256).

Lemma in_all_bytes b : In b all_bytes.
Proof.
  unfold all_bytes. apply in_map_iff. exists (N.to_nat (bN b)). split.
  - rewrite N2Nat.id. apply Nb_bN.
  - apply in_seq. pose proof (bN_lt_256 b). lia.
Qed.

Lemma forall_bytes (P : byte -> bool) : forallb P all_bytes = true -> forall b, P b = true.
Proof. intros H b. rewrite forallb_forall in H. apply H. apply in_all_bytes. Qed.

(* ========================================================================================== *)
(* PART 1: side-conditions on the live tables (regenerated gen/Tables03.v), closed by computation *)

(* what one ASCII byte of the input becomes *)
Definition chunk (b : byte) : bytes := match repl (bN b) with Some x => x | None => [b] end.

(* an ASCII byte that may stay as it is inside any of the three literal kinds *)
Definition plainb (b : byte) : bool := negb (danger b) && negb (Byte.eqb b x5c) && (bN b <? 128).

(* the character after a backslash in a two-byte escape: ASCII, not u, x, a digit, CR, LF *)
Definition short_ok (d : byte) : bool :=
  (bN d <? 128) && negb (Byte.eqb d x75) && negb (Byte.eqb d x78) && negb (is_digit d) &&
  negb (Byte.eqb d x0d) && negb (Byte.eqb d x0a).

(* x is a JavaScript escape sequence that denotes exactly the byte b *)
Definition esc_ok (b : byte) (x : bytes) : bool :=
  match x with
  | [e; d] => Byte.eqb e x5c && short_ok d && Byte.eqb (single_escape d) b
  | [e; u; h1; h2; h3; h4] =>
      Byte.eqb e x5c && Byte.eqb u x75 &&
      match hexv h1, hexv h2, hexv h3, hexv h4 with
      | Some a, Some b', Some c, Some d => a * 4096 + b' * 256 + c * 16 + d =? bN b
      | _, _, _, _ => false
      end
  | _ => false
  end.

(* every ASCII byte is either replaced by an escape sequence that denotes it and is itself made of harmless bytes,
   or is harmless and left alone *)
Definition ascii_ok (b : byte) : bool :=
  if bN b <? 128 then match repl (bN b) with Some x => esc_ok b x && clean x | None => plainb b end else true.

Lemma table_ascii_ok : forallb ascii_ok all_bytes = true.
Proof. vm_compute. reflexivity. Qed.

(* neither table reaches beyond ASCII, so no rune >= 0x80 other than U+2028/9 is ever replaced *)
Lemma tables_short :
  (N.of_nat (length low_unicode_replacement_table) <=? 128) &&
  (N.of_nat (length js_str_replacement_table) <=? 128) = true.
Proof. vm_compute. reflexivity. Qed.

Lemma ascii_ok_b b : ascii_ok b = true.
Proof. apply forall_bytes. exact table_ascii_ok. Qed.

Lemma repl_hi r : 128 <= r -> repl r = if r =? 8232 then Some u2028_esc else if r =? 8233 then Some u2029_esc else None.
Proof.
  intros H. pose proof tables_short as T. apply andb_prop in T as [T1 T2].
  apply N.leb_le in T1. apply N.leb_le in T2.
  unfold repl, repl_with, tab_get.
  assert (r <? N.of_nat (length low_unicode_replacement_table) = false) as -> by (apply N.ltb_ge; lia).
  assert (r <? N.of_nat (length js_str_replacement_table) = false) as -> by (apply N.ltb_ge; lia).
  reflexivity.
Qed.

(* ========================================================================================== *)
(* PART 2: shapes of chunks                                                                   *)

Lemma hexv_plain h v : hexv h = Some v -> plainb h = true /\ v < 16.
Proof. destruct h; vm_compute; intros H; try discriminate H; inversion H; split; reflexivity. Qed.

Inductive esc_shape (b : byte) : bytes -> Prop :=
| ES_short d : short_ok d = true -> single_escape d = b -> esc_shape b [x5c; d]
| ES_hex h1 h2 h3 h4 a b' c d :
    hexv h1 = Some a -> hexv h2 = Some b' -> hexv h3 = Some c -> hexv h4 = Some d ->
    a * 4096 + b' * 256 + c * 16 + d = bN b -> esc_shape b [x5c; x75; h1; h2; h3; h4].

Lemma esc_ok_shape b x : esc_ok b x = true -> esc_shape b x.
Proof.
  unfold esc_ok. intros H.
  destruct x as [|e [|d [|h1 [|h2 [|h3 [|h4 [|? ?]]]]]]]; try discriminate H.
  - apply andb_prop in H as [H H3]. apply andb_prop in H as [H1 H2].
    apply byte_eqb_eq in H1. apply byte_eqb_eq in H3. subst e. apply ES_short; assumption.
  - apply andb_prop in H as [H H3]. apply andb_prop in H as [H1 H2].
    apply byte_eqb_eq in H1. apply byte_eqb_eq in H2. subst e d.
    destruct (hexv h1) eqn:E1; [|discriminate H3]. destruct (hexv h2) eqn:E2; [|discriminate H3].
    destruct (hexv h3) eqn:E3; [|discriminate H3]. destruct (hexv h4) eqn:E4; [|discriminate H3].
    apply N.eqb_eq in H3. eapply ES_hex; eassumption.
Qed.

(* the two cases of an ASCII byte *)
Lemma chunk_cases b : bN b < 128 ->
  (esc_shape b (chunk b) /\ clean (chunk b) = true) \/ (chunk b = [b] /\ plainb b = true).
Proof.
  intros H. pose proof (ascii_ok_b b) as A. unfold ascii_ok in A.
  apply N.ltb_lt in H. rewrite H in A. unfold chunk.
  destruct (repl (bN b)) as [x|]; [left; apply andb_prop in A as [A1 A2]; split; [apply esc_ok_shape; exact A1|exact A2]|right; split; [reflexivity|exact A]].
Qed.

Lemma chunk_hi b : 128 <= bN b -> chunk b = [b].
Proof.
  intros H. unfold chunk. rewrite repl_hi by exact H. pose proof (bN_lt_256 b).
  assert (bN b =? 8232 = false) as -> by (apply N.eqb_neq; lia).
  assert (bN b =? 8233 = false) as -> by (apply N.eqb_neq; lia). reflexivity.
Qed.

(* ========================================================================================== *)
(* PART 3: replace is byte-wise except at E2 80 A8 / E2 80 A9                                 *)

Fixpoint replace_b (s : bytes) : bytes :=
  match s with
  | [] => []
  | b :: t =>
      match t with
      | c1 :: c2 :: t2 =>
          if Byte.eqb b xe2 && Byte.eqb c1 x80 && (Byte.eqb c2 xa8 || Byte.eqb c2 xa9)
          then (if Byte.eqb c2 xa8 then u2028_esc else u2029_esc) ++ replace_b t2
          else chunk b ++ replace_b t
      | _ => chunk b ++ replace_b t
      end
  end.

Lemma lsps_at_inv s : lsps_at s = true ->
  exists t, s = xe2 :: x80 :: xa8 :: t \/ s = xe2 :: x80 :: xa9 :: t.
Proof.
  unfold lsps_at, ls_bytes, ps_bytes. intros H.
  destruct s as [|a [|b [|c t]]]; cbn [has_prefix] in H;
    try (rewrite ?andb_false_r in H; discriminate H).
  exists t. apply orb_prop in H as [H|H];
  apply andb_prop in H as [H1 H]; apply andb_prop in H as [H2 H]; apply andb_prop in H as [H3 _];
  apply byte_eqb_eq in H1; apply byte_eqb_eq in H2; apply byte_eqb_eq in H3; subst; [left|right]; reflexivity.
Qed.

Lemma replace_b_ls t : replace_b (xe2 :: x80 :: xa8 :: t) = u2028_esc ++ replace_b t.
Proof. reflexivity. Qed.
Lemma replace_b_ps t : replace_b (xe2 :: x80 :: xa9 :: t) = u2029_esc ++ replace_b t.
Proof. reflexivity. Qed.

Lemma replace_b_other b t : lsps_at (b :: t) = false -> replace_b (b :: t) = chunk b ++ replace_b t.
Proof.
  intros H. cbn [replace_b]. destruct t as [|c1 [|c2 t2]]; try reflexivity.
  destruct (Byte.eqb b xe2 && Byte.eqb c1 x80 && (Byte.eqb c2 xa8 || Byte.eqb c2 xa9)) eqn:E; [|reflexivity].
  exfalso. apply andb_prop in E as [E E3]. apply andb_prop in E as [E1 E2].
  apply byte_eqb_eq in E1. apply byte_eqb_eq in E2. subst.
  apply orb_prop in E3 as [E3|E3]; apply byte_eqb_eq in E3; subst; vm_compute in H; discriminate H.
Qed.

(* induction that follows replace_b *)
Lemma lsps_ind (P : bytes -> Prop) :
  P [] ->
  (forall t, P t -> P (xe2 :: x80 :: xa8 :: t)) ->
  (forall t, P t -> P (xe2 :: x80 :: xa9 :: t)) ->
  (forall b t, lsps_at (b :: t) = false -> P t -> P (b :: t)) ->
  forall s, P s.
Proof.
  intros H0 H1 H2 H3 s.
  assert (G : forall n s, (length s <= n)%nat -> P s).
  { induction n as [|n IH]; intros s0 L.
    - destruct s0; [exact H0|cbn in L; lia].
    - destruct s0 as [|b t]; [exact H0|].
      destruct (lsps_at (b :: t)) eqn:E.
      + apply lsps_at_inv in E as [t' [E|E]]; rewrite E in *; [apply H1|apply H2]; apply IH; cbn [length] in L; lia.
      + apply H3; [exact E|]. apply IH. cbn [length] in L. lia. }
  apply (G (length s)). apply le_n.
Qed.

Lemma cont_not_lsps b t : inr 128 191 b = true -> lsps_at (b :: t) = false.
Proof.
  intros H. unfold lsps_at, ls_bytes, ps_bytes. cbn [has_prefix].
  assert (Byte.eqb xe2 b = false) as ->.
  { apply byte_eqb_neq. intros <-. vm_compute in H. discriminate H. }
  reflexivity.
Qed.

Lemma inr_cont_hi b : inr 128 191 b = true -> 128 <= bN b.
Proof. unfold inr. intros H. apply andb_prop in H as [H _]. apply N.leb_le in H. exact H. Qed.

(* continuation bytes pass through replace_b unchanged *)
Lemma replace_b_conts l rest : forallb (fun b => inr 128 191 b) l = true -> replace_b (l ++ rest) = l ++ replace_b rest.
Proof.
  induction l as [|b l IH]; intros H; [reflexivity|].
  cbn [forallb] in H. apply andb_prop in H as [Hb Hl]. cbn [app].
  rewrite replace_b_other by (apply cont_not_lsps; exact Hb).
  rewrite chunk_hi by (apply inr_cont_hi; exact Hb). rewrite IH by exact Hl. reflexivity.
Qed.

Lemma firstn_skipn_cons (w : nat) (b : byte) (t : bytes) : (1 <= w)%nat ->
  firstn w (b :: t) = b :: firstn (w - 1) t /\ skipn w (b :: t) = skipn (w - 1) t.
Proof. destruct w as [|w]; [lia|]. intros _. cbn [firstn skipn]. replace (S w - 1)%nat with w by lia. split; reflexivity. Qed.

Lemma replace_fuel_b f : forall s, (length s <= f)%nat -> replace_fuel f s = replace_b s.
Proof.
  induction f as [|f IH]; intros s L.
  - destruct s; [reflexivity|cbn in L; lia].
  - destruct s as [|b t]; [reflexivity|]. cbn [replace_fuel].
    destruct (decode_rune (b :: t)) as [r w] eqn:D.
    destruct (decode_width (b :: t) r w ltac:(discriminate) D) as [[W1 W2] _].
    assert (Ls : (length (skipn w (b :: t)) <= f)%nat) by (rewrite skipn_length; cbn [length] in *; lia).
    destruct (N.lt_ge_cases (bN b) 128) as [Lo|Hi].
    + (* ASCII *)
      rewrite (decode_ascii_byte b t Lo) in D. inversion D; subst r w. cbn [skipn firstn].
      assert (NL : lsps_at (b :: t) = false).
      { unfold lsps_at, ls_bytes, ps_bytes. cbn [has_prefix].
        assert (Byte.eqb xe2 b = false) as -> by (apply byte_eqb_neq; intros <-; vm_compute in Lo; discriminate Lo).
        reflexivity. }
      rewrite replace_b_other by exact NL. unfold chunk.
      rewrite IH by (cbn [length] in L; lia). destruct (repl (bN b)); reflexivity.
    + pose proof (decode_hi b t r w Hi D) as Hr. rewrite (repl_hi r Hr).
      destruct (r =? 8232) eqn:E1; [|destruct (r =? 8233) eqn:E2].
      * apply N.eqb_eq in E1. destruct (decode_2028 _ _ _ D (or_introl E1)) as [-> F3]. subst r.
        rewrite IH by exact Ls.
        change (encode_utf8 8232) with [xe2; x80; xa8] in F3.
        rewrite <- (firstn_skipn 3 (b :: t)) at 2. rewrite F3. reflexivity.
      * apply N.eqb_eq in E2. destruct (decode_2028 _ _ _ D (or_intror E2)) as [-> F3]. subst r.
        rewrite IH by exact Ls.
        change (encode_utf8 8233) with [xe2; x80; xa9] in F3.
        rewrite <- (firstn_skipn 3 (b :: t)) at 2. rewrite F3. reflexivity.
      * apply N.eqb_neq in E1. apply N.eqb_neq in E2.
        assert (NL : lsps_at (b :: t) = false).
        { destruct (lsps_at (b :: t)) eqn:E; [|reflexivity]. exfalso.
          apply lsps_at_inv in E as [t' [E|E]]; rewrite E in D.
          - rewrite (decode_e280 t' xa8 (or_introl eq_refl)) in D. inversion D. apply E1. subst r. reflexivity.
          - rewrite (decode_e280 t' xa9 (or_intror eq_refl)) in D. inversion D. apply E2. subst r. reflexivity. }
        rewrite replace_b_other by exact NL. rewrite chunk_hi by exact Hi.
        rewrite IH by exact Ls.
        destruct (firstn_skipn_cons w b t W1) as [F S']. rewrite F, S'. cbn [app]. f_equal.
        rewrite <- (replace_b_conts (firstn (w - 1) t) (skipn (w - 1) t)); [rewrite firstn_skipn; reflexivity|].
        destruct (Nat.eq_dec w 1) as [->|Wn]; [reflexivity|].
        pose proof (decode_multi_conts (b :: t) r w D ltac:(lia)) as C.
        rewrite F in C. cbn [skipn] in C. exact C.
Qed.

Theorem replace_is_bytewise s : replace s = replace_b s.
Proof. apply replace_fuel_b. apply le_n. Qed.

(* ========================================================================================== *)
(* PART 4: what the emitted bytes look like                                                   *)

Lemma clean_app a b : clean (a ++ b) = clean a && clean b.
Proof. apply forallb_app. Qed.

Lemma hi_not_danger b : 128 <= bN b -> danger b = false.
Proof. unfold danger. intros H. repeat (apply orb_false_intro); try (apply N.ltb_ge; lia); apply N.eqb_neq; lia. Qed.

Lemma plainb_facts b : plainb b = true -> danger b = false /\ Byte.eqb b x5c = false /\ bN b < 128.
Proof.
  unfold plainb. intros H. apply andb_prop in H as [H H3]. apply andb_prop in H as [H1 H2].
  apply negb_true_iff in H1. apply negb_true_iff in H2. apply N.ltb_lt in H3. auto.
Qed.

Lemma short_ok_facts d : short_ok d = true ->
  bN d < 128 /\ Byte.eqb d x75 = false /\ Byte.eqb d x78 = false /\ is_digit d = false /\
  Byte.eqb d x0d = false /\ Byte.eqb d x0a = false.
Proof.
  unfold short_ok. intros H. repeat (apply andb_prop in H as [H ?]).
  repeat match goal with E : negb _ = true |- _ => apply negb_true_iff in E end.
  apply N.ltb_lt in H. auto 10.
Qed.

Lemma chunk_clean b : clean (chunk b) = true.
Proof.
  destruct (N.lt_ge_cases (bN b) 128) as [Lo|Hi].
  - destruct (chunk_cases b Lo) as [[_ E]|[-> P]]; [exact E|].
    destruct (plainb_facts _ P) as (D & _). cbn [clean forallb]. rewrite D. reflexivity.
  - rewrite chunk_hi by exact Hi. cbn [clean forallb]. rewrite hi_not_danger by exact Hi. reflexivity.
Qed.

Theorem replace_b_clean s : clean (replace_b s) = true.
Proof.
  induction s as [| t IH | t IH | b t NL IH] using lsps_ind.
  - reflexivity.
  - rewrite replace_b_ls, clean_app, IH. reflexivity.
  - rewrite replace_b_ps, clean_app, IH. reflexivity.
  - rewrite replace_b_other by exact NL. rewrite clean_app, IH, chunk_clean. reflexivity.
Qed.

(* --- heads of chunks, and inverting a high first byte of the output --- *)
Definition tail_ascii (tail : bytes) : Prop := match tail with [] => True | x :: _ => bN x < 128 end.

Lemma esc_shape_head b x : esc_shape b x -> exists r, x = x5c :: r.
Proof. intros [d ? ? | h1 h2 h3 h4 ? ? ? ? ? ? ? ? ?]; eexists; reflexivity. Qed.

Lemma replace_b_hd_hi t tail o rest : 128 <= bN o -> tail_ascii tail ->
  replace_b t ++ tail = o :: rest ->
  exists t1, t = o :: t1 /\ rest = replace_b t1 ++ tail /\ lsps_at t = false.
Proof.
  intros Ho Ht E. destruct t as [|c t1].
  - cbn in E. subst tail. cbn in Ht. lia.
  - destruct (lsps_at (c :: t1)) eqn:NL.
    + exfalso. apply lsps_at_inv in NL as [t' [N|N]]; rewrite N in E;
      [rewrite replace_b_ls in E|rewrite replace_b_ps in E]; cbn in E; inversion E; subst o; vm_compute in Ho; apply Ho; reflexivity.
    + rewrite replace_b_other in E by exact NL.
      destruct (N.lt_ge_cases (bN c) 128) as [Lo|Hi].
      * exfalso. destruct (chunk_cases c Lo) as [[S _]|[C P]].
        -- destruct (esc_shape_head _ _ S) as [r R]. rewrite R in E. cbn in E. inversion E. subst o. vm_compute in Ho. apply Ho; reflexivity.
        -- rewrite C in E. cbn in E. inversion E. subst o. lia.
      * rewrite chunk_hi in E by exact Hi. cbn in E. inversion E. subst. exists t1. auto.
Qed.

Lemma lsps_at_replace_b b t tail : tail_ascii tail ->
  lsps_at (b :: replace_b t ++ tail) = true -> lsps_at (b :: t) = true.
Proof.
  intros Ht H. apply lsps_at_inv in H as [r [H|H]]; inversion H as [[Hb E]]; clear H.
  - destruct (replace_b_hd_hi t tail x80 _ ltac:(vm_compute; discriminate) Ht E) as (t1 & -> & E1 & _).
    symmetry in E1. destruct (replace_b_hd_hi t1 tail xa8 _ ltac:(vm_compute; discriminate) Ht E1) as (t2 & -> & _ & _).
    reflexivity.
  - destruct (replace_b_hd_hi t tail x80 _ ltac:(vm_compute; discriminate) Ht E) as (t1 & -> & E1 & _).
    symmetry in E1. destruct (replace_b_hd_hi t1 tail xa9 _ ltac:(vm_compute; discriminate) Ht E1) as (t2 & -> & _ & _).
    reflexivity.
Qed.

(* --- no raw U+2028 / U+2029 --- *)
Definition asciib (b : byte) : bool := bN b <? 128.

Lemma lsps_at_ascii b r : bN b < 128 -> lsps_at (b :: r) = false.
Proof.
  intros H. unfold lsps_at, ls_bytes, ps_bytes. cbn [has_prefix].
  assert (Byte.eqb xe2 b = false) as -> by (apply byte_eqb_neq; intros <-; vm_compute in H; discriminate H).
  reflexivity.
Qed.

Lemma has_lsps_ascii_app x rest : forallb asciib x = true -> has_lsps (x ++ rest) = has_lsps rest.
Proof.
  induction x as [|b x IH]; intros H; [reflexivity|].
  cbn [forallb] in H. apply andb_prop in H as [Hb Hx]. apply N.ltb_lt in Hb.
  cbn [app has_lsps]. change (b :: x ++ rest) with (b :: (x ++ rest)).
  rewrite lsps_at_ascii by exact Hb. cbn [orb]. apply IH. exact Hx.
Qed.

Lemma esc_shape_ascii b x : esc_shape b x -> forallb asciib x = true.
Proof.
  intros [d S1 S2 | h1 h2 h3 h4 a b' c d E1 E2 E3 E4 V].
  - destruct (short_ok_facts d S1) as (D & _). cbn [forallb]. unfold asciib at 2. apply N.ltb_lt in D. rewrite D. reflexivity.
  - destruct (hexv_plain _ _ E1) as [P1 _]. destruct (hexv_plain _ _ E2) as [P2 _].
    destruct (hexv_plain _ _ E3) as [P3 _]. destruct (hexv_plain _ _ E4) as [P4 _].
    destruct (plainb_facts _ P1) as (_ & _ & D1). destruct (plainb_facts _ P2) as (_ & _ & D2).
    destruct (plainb_facts _ P3) as (_ & _ & D3). destruct (plainb_facts _ P4) as (_ & _ & D4).
    apply N.ltb_lt in D1, D2, D3, D4. cbn [forallb]. unfold asciib. rewrite D1, D2, D3, D4. reflexivity.
Qed.

Theorem replace_b_no_lsps s : has_lsps (replace_b s) = false.
Proof.
  induction s as [| t IH | t IH | b t NL IH] using lsps_ind.
  - reflexivity.
  - rewrite replace_b_ls. rewrite has_lsps_ascii_app by reflexivity. exact IH.
  - rewrite replace_b_ps. rewrite has_lsps_ascii_app by reflexivity. exact IH.
  - rewrite replace_b_other by exact NL.
    destruct (N.lt_ge_cases (bN b) 128) as [Lo|Hi].
    + rewrite has_lsps_ascii_app; [exact IH|].
      destruct (chunk_cases b Lo) as [[S _]|[-> P]]; [eapply esc_shape_ascii; exact S|].
      cbn [forallb]. unfold asciib. apply N.ltb_lt in Lo. rewrite Lo. reflexivity.
    + rewrite chunk_hi by exact Hi. cbn [app has_lsps]. rewrite IH, orb_false_r.
      destruct (lsps_at (b :: replace_b t)) eqn:E; [|reflexivity].
      rewrite <- (app_nil_r (replace_b t)) in E. apply lsps_at_replace_b in E; [|exact I]. congruence.
Qed.

(* --- no script end can begin inside bytes that contain no "<" --- *)
Definition no_lt (d : bytes) : bool := forallb (fun b => negb (Byte.eqb b x3c)) d.

Lemma lower_3c c : lower c = x3c -> c = x3c.
Proof. destruct c; vm_compute; intros H; try discriminate H; reflexivity. Qed.

Lemma script_end_at_head c r : script_end_at (c :: r) = true -> c = x3c.
Proof.
  unfold script_end_at, script_close, comment_open. cbn [has_prefix_ci has_prefix]. intros H.
  apply orb_prop in H as [H|H]; apply andb_prop in H as [H _]; apply byte_eqb_eq in H.
  - symmetry in H. apply lower_3c. exact H.
  - symmetry. exact H.
Qed.

Lemma no_script_end_inside d : no_lt d = true -> forall pre post i,
  (length pre <= i < length pre + length d)%nat -> script_end_at (skipn i (pre ++ d ++ post)) = false.
Proof.
  intros Hd pre post i [L1 L2].
  rewrite skipn_app. rewrite (skipn_all2 pre) by exact L1. cbn [app].
  remember (i - length pre)%nat as j. assert (J : (j < length d)%nat) by lia. clear Heqj L1 L2.
  rewrite skipn_app.
  destruct (skipn j d) as [|c r] eqn:E.
  - exfalso. assert (length (skipn j d) = 0%nat) by (rewrite E; reflexivity). rewrite skipn_length in H. lia.
  - cbn [app]. destruct (script_end_at (c :: r ++ skipn (j - length d) post)) eqn:S; [|reflexivity].
    apply script_end_at_head in S. subst c. exfalso.
    unfold no_lt in Hd. rewrite forallb_forall in Hd.
    assert (In x3c d) as I3 by (rewrite <- (firstn_skipn j d), E; apply in_or_app; right; left; reflexivity).
    specialize (Hd _ I3). vm_compute in Hd. discriminate Hd.
Qed.

Lemma clean_no_lt d : clean d = true -> no_lt d = true.
Proof.
  unfold clean, no_lt. rewrite !forallb_forall. intros H x Hx. specialize (H x Hx).
  apply negb_true_iff in H. apply negb_true_iff. apply byte_eqb_neq. intros ->. vm_compute in H. discriminate H.
Qed.

Lemma cool_no_lt d : cool d = true -> no_lt d = true.
Proof.
  unfold cool, no_lt. rewrite !forallb_forall. intros H x Hx. specialize (H x Hx).
  apply negb_true_iff in H. apply negb_true_iff. apply byte_eqb_neq. intros ->. vm_compute in H. discriminate H.
Qed.

(* ========================================================================================== *)
(* PART 5: the literal closes at the author's quote                                           *)

Lemma lex_plain_byte b : plainb b = true -> forall q rest n,
  lex_go q false (b :: rest) n = lex_go q false rest (S n).
Proof.
  intros H q rest n. destruct b; vm_compute in H; try discriminate H; destruct q; reflexivity.
Qed.

Lemma lex_plain_list l : forallb plainb l = true -> forall q rest n,
  lex_go q false (l ++ rest) n = lex_go q false rest (length l + n).
Proof.
  induction l as [|b l IH]; intros H q rest n; [reflexivity|].
  cbn [forallb] in H. apply andb_prop in H as [Hb Hl]. cbn [app length].
  rewrite lex_plain_byte by exact Hb. rewrite IH by exact Hl. f_equal. lia.
Qed.

Lemma lex_backslash q c rest n : Byte.eqb c x0d = false ->
  lex_go q false (x5c :: c :: rest) n = lex_go q false rest (S (S n)).
Proof. intros H. cbn [lex_go]. change (Byte.eqb x5c x5c) with true. cbv iota. rewrite H. reflexivity. Qed.

Lemma lex_esc_shape b x : esc_shape b x -> forall q rest n,
  lex_go q false (x ++ rest) n = lex_go q false rest (length x + n).
Proof.
  intros [d S1 S2 | h1 h2 h3 h4 a b' c d E1 E2 E3 E4 V] q rest n.
  - destruct (short_ok_facts d S1) as (_ & _ & _ & _ & D & _). cbn [app length]. rewrite lex_backslash by exact D. reflexivity.
  - destruct (hexv_plain _ _ E1) as [P1 _]. destruct (hexv_plain _ _ E2) as [P2 _].
    destruct (hexv_plain _ _ E3) as [P3 _]. destruct (hexv_plain _ _ E4) as [P4 _].
    change ([x5c; x75; h1; h2; h3; h4] ++ rest) with (x5c :: x75 :: ([h1; h2; h3; h4] ++ rest)).
    rewrite lex_backslash by reflexivity.
    rewrite lex_plain_list by (cbn [forallb]; rewrite P1, P2, P3, P4; reflexivity).
    reflexivity.
Qed.

Lemma lex_u2028 q rest n : lex_go q false (u2028_esc ++ rest) n = lex_go q false rest (6 + n).
Proof. destruct q; reflexivity. Qed.
Lemma lex_u2029 q rest n : lex_go q false (u2029_esc ++ rest) n = lex_go q false rest (6 + n).
Proof. destruct q; reflexivity. Qed.

Lemma hi_neq b c : 128 <= bN b -> bN c < 128 -> Byte.eqb b c = false.
Proof. intros H1 H2. apply byte_eqb_neq. intros ->. lia. Qed.

Lemma qbyte_ascii q : bN (qbyte q) < 128.
Proof. destruct q; vm_compute; reflexivity. Qed.

Lemma lt_at_hi b rest : 128 <= bN b -> lt_at (b :: rest) = lsps_at (b :: rest).
Proof.
  intros H. unfold lt_at. rewrite (hi_neq b x0a H) by (vm_compute; reflexivity).
  rewrite (hi_neq b x0d H) by (vm_compute; reflexivity). reflexivity.
Qed.

Lemma lex_hi_byte q b rest n : 128 <= bN b -> lsps_at (b :: rest) = false ->
  lex_go q false (b :: rest) n = lex_go q false rest (S n).
Proof.
  intros H NL. cbn [lex_go].
  rewrite (hi_neq b x5c H) by (vm_compute; reflexivity).
  rewrite (hi_neq b (qbyte q) H) by apply qbyte_ascii.
  rewrite (hi_neq b x24 H) by (vm_compute; reflexivity).
  rewrite andb_false_r. cbn [andb]. rewrite lt_at_hi by exact H. rewrite NL, andb_false_r. reflexivity.
Qed.

Lemma lex_replace_b q rest : forall s n,
  lex_go q false (replace_b s ++ qbyte q :: rest) n = lex_go q false (qbyte q :: rest) (length (replace_b s) + n).
Proof.
  intros s. induction s as [| t IH | t IH | b t NL IH] using lsps_ind; intros n.
  - reflexivity.
  - rewrite replace_b_ls, <- app_assoc, lex_u2028, IH, app_length. f_equal. cbn [length u2028_esc]. lia.
  - rewrite replace_b_ps, <- app_assoc, lex_u2029, IH, app_length. f_equal. cbn [length u2029_esc]. lia.
  - rewrite replace_b_other by exact NL. rewrite <- app_assoc, app_length.
    destruct (N.lt_ge_cases (bN b) 128) as [Lo|Hi].
    + destruct (chunk_cases b Lo) as [[S _]|[-> P]].
      * rewrite (lex_esc_shape _ _ S), IH. f_equal. lia.
      * cbn [app length]. rewrite lex_plain_byte by exact P. rewrite IH. f_equal. lia.
    + rewrite chunk_hi by exact Hi. cbn [app length].
      rewrite lex_hi_byte; [rewrite IH; f_equal; lia|exact Hi|].
      destruct (lsps_at (b :: replace_b t ++ qbyte q :: rest)) eqn:E; [|reflexivity].
      apply lsps_at_replace_b in E; [congruence|]. cbn. apply qbyte_ascii.
Qed.

Lemma lex_at_quote q rest n : lex_go q false (qbyte q :: rest) n = LClosed n.
Proof. destruct q; reflexivity. Qed.

Theorem replace_b_literal_closed q s rest :
  lex_string q (replace_b s ++ qbyte q :: rest) = LClosed (length (replace_b s)).
Proof. unfold lex_string. rewrite lex_replace_b, lex_at_quote. f_equal. lia. Qed.

(* ========================================================================================== *)
(* PART 6: the literal's value is the original string                                         *)

Lemma unesc_plain_byte b : plainb b = true -> forall q f rest,
  unesc_fuel q (S f) (b :: rest) = option_map (cons b) (unesc_fuel q f rest).
Proof.
  intros H q f rest. destruct b; vm_compute in H; try discriminate H; destruct q; reflexivity.
Qed.

Lemma hexv_not_brace h v : hexv h = Some v -> Byte.eqb h x7b = false.
Proof. destruct h; vm_compute; intros H; try discriminate H; reflexivity. Qed.

Lemma short_unesc q f d rest : short_ok d = true ->
  unesc_fuel q (S f) (x5c :: d :: rest) = option_map (cons (single_escape d)) (unesc_fuel q f rest).
Proof.
  intros S. destruct (short_ok_facts d S) as (A & U & X & Dg & CR & LF).
  cbn [unesc_fuel]. change (Byte.eqb x5c x5c) with true. cbv iota.
  rewrite U, X, Dg, CR, LF. rewrite lsps_at_ascii by exact A. reflexivity.
Qed.

Lemma hex_unesc q f h1 h2 h3 h4 a b c d rest :
  hexv h1 = Some a -> hexv h2 = Some b -> hexv h3 = Some c -> hexv h4 = Some d ->
  unesc_fuel q (S f) (x5c :: x75 :: h1 :: h2 :: h3 :: h4 :: rest) =
  emit_cp (a * 4096 + b * 256 + c * 16 + d) (unesc_fuel q f rest).
Proof.
  intros E1 E2 E3 E4. cbn [unesc_fuel]. change (Byte.eqb x5c x5c) with true. change (Byte.eqb x75 x75) with true.
  cbv iota. rewrite (hexv_not_brace _ _ E1), E1, E2, E3, E4. reflexivity.
Qed.

Lemma emit_cp_ascii b k : bN b < 128 -> emit_cp (bN b) k = option_map (cons b) k.
Proof.
  intros H. unfold emit_cp, is_surrogate.
  assert ((55296 <=? bN b) = false) as -> by (apply N.leb_gt; lia). cbn [andb].
  rewrite encode_ascii_byte by exact H. reflexivity.
Qed.

Lemma unesc_esc_shape b x : esc_shape b x -> bN b < 128 -> forall q f rest,
  unesc_fuel q (S f) (x ++ rest) = option_map (cons b) (unesc_fuel q f rest).
Proof.
  intros [d S1 S2 | h1 h2 h3 h4 a b' c d E1 E2 E3 E4 V] Hb q f rest.
  - cbn [app]. rewrite short_unesc by exact S1. rewrite S2. reflexivity.
  - cbn [app]. rewrite (hex_unesc q f h1 h2 h3 h4 a b' c d rest E1 E2 E3 E4). rewrite V. apply emit_cp_ascii. exact Hb.
Qed.

Lemma unesc_u2028 q f rest :
  unesc_fuel q (S f) (u2028_esc ++ rest) = option_map (app [xe2; x80; xa8]) (unesc_fuel q f rest).
Proof. destruct q; reflexivity. Qed.
Lemma unesc_u2029 q f rest :
  unesc_fuel q (S f) (u2029_esc ++ rest) = option_map (app [xe2; x80; xa9]) (unesc_fuel q f rest).
Proof. destruct q; reflexivity. Qed.

Lemma unesc_hi_byte q f b rest : 128 <= bN b -> lsps_at (b :: rest) = false ->
  unesc_fuel q (S f) (b :: rest) = option_map (cons b) (unesc_fuel q f rest).
Proof.
  intros H NL. cbn [unesc_fuel].
  rewrite (hi_neq b x5c H) by (vm_compute; reflexivity).
  rewrite (hi_neq b (qbyte q) H) by apply qbyte_ascii.
  rewrite (hi_neq b x24 H) by (vm_compute; reflexivity).
  rewrite andb_false_r. cbn [andb]. rewrite lt_at_hi by exact H. rewrite NL. reflexivity.
Qed.

Lemma unesc_replace_b q : forall s f, (length (replace_b s) < f)%nat -> unesc_fuel q f (replace_b s) = Some s.
Proof.
  intros s. induction s as [| t IH | t IH | b t NL IH] using lsps_ind; intros f L.
  - destruct f; [lia|reflexivity].
  - rewrite replace_b_ls in *. rewrite app_length in L. cbn [length u2028_esc] in L.
    destruct f as [|f]; [lia|]. rewrite unesc_u2028, IH by lia. reflexivity.
  - rewrite replace_b_ps in *. rewrite app_length in L. cbn [length u2029_esc] in L.
    destruct f as [|f]; [lia|]. rewrite unesc_u2029, IH by lia. reflexivity.
  - rewrite replace_b_other in * by exact NL. rewrite app_length in L.
    destruct f as [|f]; [lia|].
    destruct (N.lt_ge_cases (bN b) 128) as [Lo|Hi].
    + destruct (chunk_cases b Lo) as [[S _]|[C P]].
      * assert (1 <= length (chunk b))%nat by (destruct (esc_shape_head _ _ S) as [r ->]; cbn; lia).
        rewrite (unesc_esc_shape _ _ S Lo), IH by lia. reflexivity.
      * rewrite C in *. cbn [app length] in *. rewrite unesc_plain_byte by exact P. rewrite IH by lia. reflexivity.
    + rewrite chunk_hi in * by exact Hi. cbn [app length] in *.
      rewrite unesc_hi_byte; [rewrite IH by lia; reflexivity|exact Hi|].
      destruct (lsps_at (b :: replace_b t)) eqn:E; [|reflexivity].
      rewrite <- (app_nil_r (replace_b t)) in E. apply lsps_at_replace_b in E; [congruence|exact I].
Qed.

Theorem replace_b_roundtrip q s : js_unescape q (replace_b s) = Some s.
Proof. unfold js_unescape. apply unesc_replace_b. lia. Qed.

(* ---- the statements about the model function [replace] ---- *)
Theorem replace_clean s : clean (replace s) = true /\ has_lsps (replace s) = false.
Proof. rewrite replace_is_bytewise. split; [apply replace_b_clean|apply replace_b_no_lsps]. Qed.

Theorem replace_roundtrip q s : js_unescape q (replace s) = Some s.
Proof. rewrite replace_is_bytewise. apply replace_b_roundtrip. Qed.

Theorem literal_closed q s rest : lex_string q (replace s ++ qbyte q :: rest) = LClosed (length (replace s)).
Proof. rewrite replace_is_bytewise. apply replace_b_literal_closed. Qed.

Theorem replace_no_script_end s pre post i :
  (length pre <= i < length pre + length (replace s))%nat ->
  script_end_at (skipn i (pre ++ replace s ++ post)) = false.
Proof. apply no_script_end_inside. apply clean_no_lt. apply replace_clean. Qed.

(* ========================================================================================== *)
(* PART 7: encoding/json's string encoder (escapeHTML on)                                     *)

Lemma cool_app a b : cool (a ++ b) = cool a && cool b.
Proof. apply forallb_app. Qed.

(* an ASCII byte encoding/json leaves alone: printable, not a quote, backslash, < > & *)
Definition plainj (b : byte) : bool :=
  (32 <=? bN b) && (bN b <? 128) && negb (Byte.eqb b x22) && negb (Byte.eqb b x5c) && negb (hot b).

Definition jchunk (b : byte) : bytes := json_rune (bN b) 1 [b].
Definition jascii_ok (b : byte) : bool :=
  if bN b <? 128
  then (esc_ok b (jchunk b) && cool (jchunk b)) || (bytes_eqb (jchunk b) [b] && plainj b)
  else true.
Lemma json_ascii_ok : forallb jascii_ok all_bytes = true.
Proof. vm_compute. reflexivity. Qed.

Lemma jchunk_cases b : bN b < 128 ->
  (esc_shape b (jchunk b) /\ cool (jchunk b) = true) \/ (jchunk b = [b] /\ plainj b = true).
Proof.
  intros H. pose proof (forall_bytes _ json_ascii_ok b) as A. unfold jascii_ok in A.
  apply N.ltb_lt in H. rewrite H in A. apply orb_prop in A as [A|A]; apply andb_prop in A as [A1 A2].
  - left. split; [apply esc_ok_shape; exact A1|exact A2].
  - right. split; [apply bytes_eqb_eq; exact A1|exact A2].
Qed.

Lemma lex_plainj_byte b : plainj b = true -> forall rest n,
  lex_go QDouble false (b :: rest) n = lex_go QDouble false rest (S n).
Proof. intros H rest n. destruct b; vm_compute in H; try discriminate H; reflexivity. Qed.

Lemma unesc_plainj_byte b : plainj b = true -> forall f rest,
  unesc_fuel QDouble (S f) (b :: rest) = option_map (cons b) (unesc_fuel QDouble f rest).
Proof. intros H f rest. destruct b; vm_compute in H; try discriminate H; reflexivity. Qed.

Lemma plainj_facts b : plainj b = true -> hot b = false /\ bN b < 128.
Proof.
  unfold plainj. intros H. repeat (apply andb_prop in H as [H ?]).
  repeat match goal with E : negb _ = true |- _ => apply negb_true_iff in E end.
  match goal with E : (_ <? _) = true |- _ => apply N.ltb_lt in E end. auto.
Qed.

Lemma decode_e2 t : decode_rune (xe2 :: t) =
  match t with
  | b1 :: b2 :: _ => if inr 128 191 b1 && inr 128 191 b2 then (8192 + cont b1 * 64 + cont b2, 3%nat) else (RuneError, 1%nat)
  | _ => (RuneError, 1%nat)
  end.
Proof. destruct t as [|b1 [|b2 t2]]; reflexivity. Qed.

(* shape of a step that copies a valid multi-byte rune other than U+2028/9 *)
Lemma decode_multi_shape s r w : decode_rune s = (r, w) -> (2 <= w)%nat -> r <> 8232 -> r <> 8233 ->
  exists b conts, firstn w s = b :: conts /\ 128 <= bN b /\
    forallb (fun c => inr 128 191 c) conts = true /\ forall rest, lsps_at (b :: conts ++ rest) = false.
Proof.
  intros D W N1 N2. destruct s as [|b t]; [cbn in D; inversion D; subst; lia|].
  pose proof (decode_multi_conts _ _ _ D W) as C.
  destruct (decode_width (b :: t) r w ltac:(discriminate) D) as [[W1 W2] _].
  destruct (firstn_skipn_cons w b t W1) as [F _]. rewrite F in C. cbn [skipn] in C.
  exists b, (firstn (w - 1) t). split; [exact F|].
  assert (Hb : 128 <= bN b).
  { destruct (N.lt_ge_cases (bN b) 128) as [Lo|Hi]; [|exact Hi].
    rewrite (decode_ascii_byte b t Lo) in D. inversion D. lia. }
  split; [exact Hb|]. split; [exact C|].
  intros rest. destruct (lsps_at (b :: firstn (w - 1) t ++ rest)) eqn:E; [|reflexivity]. exfalso.
  apply lsps_at_inv in E as [t' E].
  (* the lead is E2, so the step is a three-byte one and its bytes are E2 80 A8/A9 *)
  assert (Lead : b = xe2) by (destruct E as [E|E]; inversion E; reflexivity). subst b.
  rewrite decode_e2 in D.
  destruct t as [|b1 [|b2 t2]]; try (apply (f_equal snd) in D; cbn [snd] in D; lia).
  destruct (inr 128 191 b1 && inr 128 191 b2); [|apply (f_equal snd) in D; cbn [snd] in D; lia].
  pose proof (f_equal fst D) as Hr. pose proof (f_equal snd D) as Hw. cbn [fst snd] in Hr, Hw. subst w.
  cbn [firstn Nat.sub app] in E.
  destruct E as [E|E]; inversion E; subst b1 b2; [apply N1|apply N2]; rewrite <- Hr; vm_compute; reflexivity.
Qed.

Lemma lex_conts q l rest n : forallb (fun c => inr 128 191 c) l = true ->
  lex_go q false (l ++ rest) n = lex_go q false rest (length l + n).
Proof.
  revert n. induction l as [|c l IH]; intros n H; [reflexivity|].
  cbn [forallb] in H. apply andb_prop in H as [Hc Hl]. cbn [app length].
  rewrite lex_hi_byte; [|apply inr_cont_hi; exact Hc|apply cont_not_lsps; exact Hc].
  rewrite IH by exact Hl. f_equal. lia.
Qed.

Lemma unesc_conts q l : forallb (fun c => inr 128 191 c) l = true -> forall f rest,
  unesc_fuel q (length l + f) (l ++ rest) = option_map (app l) (unesc_fuel q f rest).
Proof.
  induction l as [|c l IH]; intros H f rest.
  - cbn [length app plus]. destruct (unesc_fuel q f rest); reflexivity.
  - cbn [forallb] in H. apply andb_prop in H as [Hc Hl]. cbn [app length plus].
    rewrite unesc_hi_byte; [|apply inr_cont_hi; exact Hc|apply cont_not_lsps; exact Hc].
    rewrite IH by exact Hl. destruct (unesc_fuel q f rest); reflexivity.
Qed.

Lemma has_lsps_conts l rest : forallb (fun c => inr 128 191 c) l = true -> has_lsps (l ++ rest) = has_lsps rest.
Proof.
  induction l as [|c l IH]; intros H; [reflexivity|].
  cbn [forallb] in H. apply andb_prop in H as [Hc Hl]. cbn [app has_lsps].
  change (c :: l ++ rest) with (c :: (l ++ rest)). rewrite cont_not_lsps by exact Hc. cbn [orb]. apply IH. exact Hl.
Qed.

Lemma hi_not_hot b : 128 <= bN b -> hot b = false.
Proof. unfold hot. intros H. repeat (apply orb_false_intro); try (apply N.ltb_ge; lia); apply N.eqb_neq; lia. Qed.

Lemma cool_conts l : forallb (fun c => inr 128 191 c) l = true -> cool l = true.
Proof.
  induction l as [|c l IH]; intros H; [reflexivity|]. cbn [forallb] in H. apply andb_prop in H as [Hc Hl].
  cbn [cool forallb]. rewrite hi_not_hot by (apply inr_cont_hi; exact Hc). cbn [negb andb]. apply IH. exact Hl.
Qed.

(* a step with a rune >= 0x80 and width 1 is an error step *)
Lemma decode_hi_w1 s r : decode_rune s = (r, 1%nat) -> 128 <= r -> r = RuneError.
Proof.
  intros D H. destruct s as [|b t]; [cbn in D; inversion D|].
  unfold decode_rune in D. split_decode D; inversion D; subst; try reflexivity; norm_hyps; lia.
Qed.

(* classification of one encoder step *)
Inductive jstep (s : bytes) (r : N) (w : nat) : bytes -> bytes -> Prop :=
| JS_esc b t x : s = b :: t -> bN b < 128 -> w = 1%nat -> esc_shape b x -> cool x = true -> jstep s r w x [b]
| JS_plain b t : s = b :: t -> w = 1%nat -> plainj b = true -> jstep s r w [b] [b]
| JS_bad : w = 1%nat -> 128 <= r -> jstep s r w ufffd_esc replacement_bytes
| JS_ls : w = 3%nat -> firstn 3 s = [xe2; x80; xa8] -> jstep s r w u2028_esc [xe2; x80; xa8]
| JS_ps : w = 3%nat -> firstn 3 s = [xe2; x80; xa9] -> jstep s r w u2029_esc [xe2; x80; xa9]
| JS_raw b conts : firstn w s = b :: conts -> 128 <= bN b -> forallb (fun c => inr 128 191 c) conts = true ->
    (forall rest, lsps_at (b :: conts ++ rest) = false) -> jstep s r w (b :: conts) (b :: conts).

Lemma json_step s r w : s <> [] -> decode_rune s = (r, w) ->
  jstep s r w (json_rune r w (firstn w s)) (if is_bad (r, w) then replacement_bytes else firstn w s).
Proof.
  intros Hne D. destruct s as [|b t]; [congruence|].
  destruct (N.lt_ge_cases r 128) as [Lo|Hi].
  - destruct (decode_ascii b t r w D Lo) as [-> ->]. cbn [firstn].
    assert (is_bad (bN b, 1%nat) = false) as ->.
    { unfold is_bad. cbn [fst snd]. assert (bN b =? RuneError = false) as -> by (apply N.eqb_neq; unfold RuneError; lia). reflexivity. }
    fold (jchunk b). destruct (jchunk_cases b Lo) as [[S C]|[E P]].
    + eapply JS_esc; eauto.
    + rewrite E. eapply JS_plain; eauto.
  - unfold json_rune. assert (r <? 128 = false) as -> by (apply N.ltb_ge; exact Hi).
    unfold is_bad. cbn [fst snd].
    destruct ((r =? RuneError) && Nat.eqb w 1) eqn:B.
    + apply andb_prop in B as [_ B]. apply Nat.eqb_eq in B. apply JS_bad; assumption.
    + destruct (r =? 8232) eqn:E1; [|destruct (r =? 8233) eqn:E2].
      * apply N.eqb_eq in E1. destruct (decode_2028 _ _ _ D (or_introl E1)) as [-> F]. subst r.
        rewrite F. apply JS_ls; [reflexivity|exact F].
      * apply N.eqb_eq in E2. destruct (decode_2028 _ _ _ D (or_intror E2)) as [-> F]. subst r.
        rewrite F. apply JS_ps; [reflexivity|exact F].
      * apply N.eqb_neq in E1. apply N.eqb_neq in E2.
        assert (W : (2 <= w)%nat).
        { destruct (decode_width (b :: t) r w ltac:(discriminate) D) as [[W1 _] _].
          destruct (Nat.eq_dec w 1) as [->|]; [|lia]. exfalso.
          pose proof (decode_hi_w1 _ _ D Hi) as ->. rewrite N.eqb_refl in B. cbn in B. discriminate B. }
        destruct (decode_multi_shape _ _ _ D W E1 E2) as (b0 & conts & F & Hb & C & NL).
        rewrite F. eapply JS_raw; eauto.
Qed.

(* consequences of one step, for the three observers *)
Lemma jstep_cool s r w x v : jstep s r w x v -> cool x = true.
Proof.
  intros [b t x0 _ _ _ _ C | b t _ _ P | _ _ | _ _ | _ _ | b conts _ Hb C _]; try reflexivity; try exact C.
  - destruct (plainj_facts _ P) as [H _]. cbn [cool forallb]. rewrite H. reflexivity.
  - cbn [cool forallb]. rewrite hi_not_hot by exact Hb. cbn [negb andb]. apply cool_conts. exact C.
Qed.

Lemma jstep_lsps s r w x v : jstep s r w x v -> forall rest, has_lsps (x ++ rest) = has_lsps rest.
Proof.
  intros [b t x0 _ _ _ S _ | b t _ _ P | _ _ | _ _ | _ _ | b conts _ Hb C NL] rest.
  - apply has_lsps_ascii_app. eapply esc_shape_ascii. exact S.
  - destruct (plainj_facts _ P) as [_ H]. apply has_lsps_ascii_app. cbn [forallb]. unfold asciib. apply N.ltb_lt in H. rewrite H. reflexivity.
  - apply has_lsps_ascii_app. reflexivity.
  - apply has_lsps_ascii_app. reflexivity.
  - apply has_lsps_ascii_app. reflexivity.
  - cbn [app has_lsps]. change (b :: conts ++ rest) with (b :: (conts ++ rest)). rewrite NL. cbn [orb]. apply has_lsps_conts. exact C.
Qed.

Lemma jstep_lex s r w x v : jstep s r w x v -> forall rest n,
  lex_go QDouble false (x ++ rest) n = lex_go QDouble false rest (length x + n).
Proof.
  intros [b t x0 _ _ _ S _ | b t _ _ P | _ _ | _ _ | _ _ | b conts _ Hb C NL] rest n.
  - apply (lex_esc_shape _ _ S).
  - cbn [app length]. apply lex_plainj_byte. exact P.
  - reflexivity.
  - reflexivity.
  - reflexivity.
  - cbn [app length]. rewrite lex_hi_byte; [|exact Hb|apply NL]. rewrite lex_conts by exact C. f_equal. lia.
Qed.

Lemma jstep_unesc s r w x v : jstep s r w x v ->
  exists k, (1 <= k <= length x)%nat /\ forall f rest,
    unesc_fuel QDouble (k + f) (x ++ rest) = option_map (app v) (unesc_fuel QDouble f rest).
Proof.
  intros [b t x0 _ Hb _ S _ | b t _ _ P | _ _ | _ _ | _ _ | b conts _ Hb C NL].
  - exists 1%nat. split; [destruct (esc_shape_head _ _ S) as [x1 ->]; cbn [length]; lia|].
    intros f rest. cbn [plus]. rewrite (unesc_esc_shape _ _ S Hb). destruct (unesc_fuel QDouble f rest); reflexivity.
  - exists 1%nat. split; [cbn [length]; lia|]. intros f rest. cbn [plus app].
    rewrite unesc_plainj_byte by exact P. destruct (unesc_fuel QDouble f rest); reflexivity.
  - exists 1%nat. split; [cbn; lia|]. intros f rest. reflexivity.
  - exists 1%nat. split; [cbn; lia|]. intros f rest. reflexivity.
  - exists 1%nat. split; [cbn; lia|]. intros f rest. reflexivity.
  - exists (S (length conts)). split; [cbn [length]; lia|]. intros f rest. cbn [plus app].
    rewrite unesc_hi_byte; [|exact Hb|apply NL]. rewrite unesc_conts by exact C.
    destruct (unesc_fuel QDouble f rest); reflexivity.
Qed.

Lemma json_fuel_cool n : forall s, cool (json_fuel n s) = true.
Proof.
  induction n as [|n IH]; intros s; [reflexivity|]. cbn [json_fuel]. destruct s as [|b t]; [reflexivity|].
  destruct (decode_rune (b :: t)) as [r w] eqn:D. rewrite cool_app, IH, andb_true_r.
  eapply jstep_cool. apply json_step; [discriminate|exact D].
Qed.

Lemma json_fuel_lsps n : forall s rest, has_lsps (json_fuel n s ++ rest) = has_lsps rest.
Proof.
  induction n as [|n IH]; intros s rest; [reflexivity|]. cbn [json_fuel]. destruct s as [|b t]; [reflexivity|].
  destruct (decode_rune (b :: t)) as [r w] eqn:D. rewrite <- app_assoc.
  pose proof (json_step (b :: t) r w ltac:(discriminate) D) as J.
  rewrite (jstep_lsps _ _ _ _ _ J). apply IH.
Qed.

Lemma json_fuel_lex n : forall s rest k,
  lex_go QDouble false (json_fuel n s ++ rest) k = lex_go QDouble false rest (length (json_fuel n s) + k).
Proof.
  induction n as [|n IH]; intros s rest k; [reflexivity|]. cbn [json_fuel]. destruct s as [|b t]; [reflexivity|].
  destruct (decode_rune (b :: t)) as [r w] eqn:D. rewrite <- app_assoc.
  pose proof (json_step (b :: t) r w ltac:(discriminate) D) as J.
  rewrite (jstep_lex _ _ _ _ _ J). rewrite IH, app_length. f_equal. lia.
Qed.

Lemma json_fuel_unesc n : forall s f, (length (json_fuel n s) < f)%nat ->
  unesc_fuel QDouble f (json_fuel n s) = Some (scrub_fuel n s).
Proof.
  induction n as [|n IH]; intros s f L.
  - cbn. destruct f; [lia|reflexivity].
  - cbn [json_fuel scrub_fuel] in *. destruct s as [|b t]; [destruct f; [lia|reflexivity]|].
    destruct (decode_rune (b :: t)) as [r w] eqn:D. cbn [fst snd].
    pose proof (json_step (b :: t) r w ltac:(discriminate) D) as J.
    destruct (jstep_unesc _ _ _ _ _ J) as (k & [K1 K2] & U).
    rewrite app_length in L.
    replace f with (k + (f - k))%nat by lia. rewrite U. rewrite IH by lia. reflexivity.
Qed.

Theorem json_string_clean s : cool (json_string s) = true /\ has_lsps (json_string s) = false.
Proof.
  unfold json_string, json_body. split.
  - rewrite !cool_app, json_fuel_cool. reflexivity.
  - cbn [app has_lsps]. rewrite json_fuel_lsps. reflexivity.
Qed.

Theorem json_string_closed s rest :
  lex_string QDouble (json_body s ++ x22 :: rest) = LClosed (length (json_body s)).
Proof.
  unfold lex_string, json_body. rewrite json_fuel_lex.
  change (x22 :: rest) with (qbyte QDouble :: rest). rewrite lex_at_quote. f_equal. lia.
Qed.

Theorem json_string_roundtrip s : js_unescape QDouble (json_body s) = Some (scrub s).
Proof. unfold js_unescape, json_body, scrub. apply json_fuel_unesc. lia. Qed.

(* ========================================================================================== *)
(* PART 8: whole JSON values                                                                  *)

(* number tokens as strconv writes them *)
Definition num_byte (b : byte) : bool :=
  let n := bN b in ((48 <=? n) && (n <=? 57)) || (n =? 45) || (n =? 43) || (n =? 46) || (n =? 101) || (n =? 69).

Fixpoint wf_jv (v : jv) : bool :=
  match v with
  | JNum t => forallb num_byte t
  | JArr l => forallb wf_jv l
  | JObj l => forallb (fun kv => wf_jv (snd kv)) l
  | _ => true
  end.

Section JvInd.
  Variable P : jv -> Prop.
  Hypothesis Hnull : P JNull.
  Hypothesis Hbool : forall b, P (JBool b).
  Hypothesis Hnum : forall t, P (JNum t).
  Hypothesis Hstr : forall s, P (JStr s).
  Hypothesis Harr : forall l, Forall P l -> P (JArr l).
  Hypothesis Hobj : forall l, Forall (fun kv => P (snd kv)) l -> P (JObj l).
  Fixpoint jv_ind' (v : jv) : P v :=
    match v with
    | JNull => Hnull
    | JBool b => Hbool b
    | JNum t => Hnum t
    | JStr s => Hstr s
    | JArr l => Harr l ((fix go (l : list jv) : Forall P l :=
                           match l with [] => Forall_nil _ | x :: r => Forall_cons x (jv_ind' x) (go r) end) l)
    | JObj l => Hobj l ((fix go (l : list (bytes * jv)) : Forall (fun kv => P (snd kv)) l :=
                           match l with [] => Forall_nil _ | kv :: r => Forall_cons kv (jv_ind' (snd kv)) (go r) end) l)
    end.
End JvInd.

(* the property carried through a value: harmless bytes, and no raw U+2028/9 even across the seam with what follows *)
Definition jgood (x : bytes) : Prop := cool x = true /\ forall rest, has_lsps (x ++ rest) = has_lsps rest.

Lemma jgood_app a b : jgood a -> jgood b -> jgood (a ++ b).
Proof.
  intros [A1 A2] [B1 B2]. split; [rewrite cool_app, A1, B1; reflexivity|].
  intros rest. rewrite <- app_assoc, A2, B2. reflexivity.
Qed.

Lemma jgood_ascii x : forallb asciib x = true -> cool x = true -> jgood x.
Proof. intros A C. split; [exact C|]. intros rest. apply has_lsps_ascii_app. exact A. Qed.

Lemma jgood_string s : jgood (json_string s).
Proof.
  unfold json_string. apply jgood_app; [apply jgood_ascii; reflexivity|].
  apply jgood_app; [|apply jgood_ascii; reflexivity].
  split; [apply json_fuel_cool|]. intros rest. apply json_fuel_lsps.
Qed.

Lemma num_byte_facts b : num_byte b = true -> asciib b = true /\ hot b = false.
Proof. destruct b; vm_compute; intros H; try discriminate H; split; reflexivity. Qed.

Lemma jgood_num t : forallb num_byte t = true -> jgood t.
Proof.
  intros H. apply jgood_ascii.
  - rewrite forallb_forall in *. intros x Hx. apply num_byte_facts. apply H. exact Hx.
  - unfold cool. rewrite forallb_forall in *. intros x Hx. destruct (num_byte_facts x (H x Hx)) as [_ ->]. reflexivity.
Qed.

Theorem json_encode_good v : wf_jv v = true -> jgood (json_encode v).
Proof.
  induction v as [| b | t | s | l IH | l IH] using jv_ind'; intros W.
  - apply jgood_ascii; reflexivity.
  - destruct b; apply jgood_ascii; reflexivity.
  - apply jgood_num. exact W.
  - apply jgood_string.
  - cbn [json_encode]. apply jgood_app; [apply jgood_ascii; reflexivity|].
    apply jgood_app; [|apply jgood_ascii; reflexivity].
    cbn [wf_jv] in W. induction IH as [|x r Hx Hr IHr]; [apply jgood_ascii; reflexivity|].
    cbn [forallb] in W. apply andb_prop in W as [Wx Wr].
    apply jgood_app; [apply Hx; exact Wx|].
    destruct r as [|y r']; [apply jgood_ascii; reflexivity|].
    change (x2c :: ?z) with ([x2c] ++ z). apply jgood_app; [apply jgood_ascii; reflexivity|]. apply IHr. exact Wr.
  - cbn [json_encode]. apply jgood_app; [apply jgood_ascii; reflexivity|].
    apply jgood_app; [|apply jgood_ascii; reflexivity].
    cbn [wf_jv] in W. induction IH as [|[k x] r Hx Hr IHr]; [apply jgood_ascii; reflexivity|].
    cbn [forallb snd] in W. apply andb_prop in W as [Wx Wr]. cbn [snd] in Hx.
    apply jgood_app; [apply jgood_string|]. apply jgood_app; [apply jgood_ascii; reflexivity|].
    apply jgood_app; [apply Hx; exact Wx|].
    destruct r as [|y r']; [apply jgood_ascii; reflexivity|].
    change (x2c :: ?z) with ([x2c] ++ z). apply jgood_app; [apply jgood_ascii; reflexivity|]. apply IHr. exact Wr.
Qed.

Theorem json_clean v : wf_jv v = true -> cool (json_encode v) = true /\ has_lsps (json_encode v) = false.
Proof.
  intros W. destruct (json_encode_good v W) as [C L]. split; [exact C|].
  rewrite <- (app_nil_r (json_encode v)). rewrite L. reflexivity.
Qed.

Theorem json_no_script_end v pre post i : wf_jv v = true ->
  (length pre <= i < length pre + length (json_encode v))%nat ->
  script_end_at (skipn i (pre ++ json_encode v ++ post)) = false.
Proof. intros W. apply no_script_end_inside. apply cool_no_lt. apply json_clean. exact W. Qed.

(* ========================================================================================== *)
(* PART 9: function names and the attribute form of a call                                    *)

Lemma name_start_byte c : name_start c = true -> name_byte c = true.
Proof. destruct c; vm_compute; intros H; try discriminate H; reflexivity. Qed.
Lemma name_body_byte c : name_body c = true -> name_byte c = true.
Proof. destruct c; vm_compute; intros H; try discriminate H; reflexivity. Qed.

Lemma fn_go_inert : forall s st, fn_go st s = true -> forallb name_byte s = true.
Proof.
  induction s as [|c r IH]; intros st H; [reflexivity|]. cbn [fn_go] in H. cbn [forallb].
  destruct ((st =? 0) || (st =? 3)).
  - destruct (name_start c) eqn:E; [|discriminate H]. rewrite (name_start_byte _ E). apply (IH _ H).
  - destruct (st =? 1).
    + destruct (name_body c) eqn:E; [|discriminate H]. rewrite (name_body_byte _ E). apply (IH _ H).
    + destruct (name_body c) eqn:E; [rewrite (name_body_byte _ E); apply (IH _ H)|].
      destruct (Byte.eqb c x2e) eqn:E2; [|discriminate H]. apply byte_eqb_eq in E2. subst c. apply (IH _ H).
Qed.

Theorem fn_name_inert name : fn_name_ok name = true -> forallb name_byte name = true.
Proof. apply fn_go_inert. Qed.

Theorem checked_name_inert name : forallb name_byte (checked_name name) = true.
Proof.
  unfold checked_name. destruct (fn_name_ok name) eqn:E; [apply fn_name_inert; exact E|vm_compute; reflexivity].
Qed.

Lemma name_byte_escape c : name_byte c = true -> html_escape_byte c = [c].
Proof. destruct c; vm_compute; intros H; try discriminate H; reflexivity. Qed.

Lemma html_escape_name s : forallb name_byte s = true -> html_escape s = s.
Proof.
  induction s as [|c r IH]; intros H; [reflexivity|]. cbn [forallb] in H. apply andb_prop in H as [Hc Hr].
  unfold html_escape. cbn [flat_map]. rewrite (name_byte_escape _ Hc). cbn [app]. f_equal. apply IH. exact Hr.
Qed.

Lemma attr_inert_app a b : attr_inert (a ++ b) = attr_inert a && attr_inert b.
Proof. apply forallb_app. Qed.

Lemma html_escape_byte_inert c : attr_inert (html_escape_byte c) = true.
Proof. destruct c; vm_compute; reflexivity. Qed.

Lemma html_escape_inert s : attr_inert (html_escape s) = true.
Proof.
  induction s as [|c r IH]; [reflexivity|]. unfold html_escape. cbn [flat_map].
  rewrite attr_inert_app, html_escape_byte_inert. exact IH.
Qed.

Lemma join_comma_inert l : forallb attr_inert l = true -> attr_inert (join_comma l) = true.
Proof.
  induction l as [|x r IH]; intros H; [reflexivity|]. cbn [forallb] in H. apply andb_prop in H as [Hx Hr].
  cbn [join_comma]. rewrite attr_inert_app, Hx. destruct r as [|y r']; [reflexivity|].
  change (x2c :: ?z) with ([x2c] ++ z). rewrite attr_inert_app. rewrite (IH Hr). reflexivity.
Qed.

(* whatever the name and the parameters (JSExpression included), the attribute form cannot leave a quoted attribute value *)
Theorem safe_script_attr_inert name ps : attr_inert (safe_script name ps) = true.
Proof.
  unfold safe_script. rewrite !attr_inert_app, html_escape_inert. cbn [andb].
  rewrite join_comma_inert; [reflexivity|].
  rewrite forallb_forall. intros x Hx. apply in_map_iff in Hx as [p [<- _]]. apply html_escape_inert.
Qed.

(* the call always starts with an identifier path followed by "(" *)
Theorem safe_script_inline_head name ps :
  exists rest, safe_script_inline name ps = checked_name name ++ x28 :: rest /\ forallb name_byte (checked_name name) = true.
Proof. unfold safe_script_inline. eexists. split; [reflexivity|apply checked_name_inert]. Qed.
