(* Proofs for C11: the buffered handler is all-or-nothing (for every configuration, every component
   outcome, every request history against the buffer pool); the streamed handler is not. *)
From Coq.Strings Require Import Byte String.
From Coq Require Import List NArith Bool Lia Permutation.
Import ListNotations.
From V Require Import lib.Bytes spec.HandlerSpec model.Handler.
Open Scope N_scope.

(* ---------- the decidable specification reflects the specification ---------- *)
Lemma obytes_eqb_eq a b : obytes_eqb a b = true <-> a = b.
Proof.
  destruct a, b; cbn; split; intros H; try discriminate; try reflexivity.
  - apply bytes_eqb_eq in H. congruence.
  - inversion H. apply bytes_eqb_refl.
Qed.

Lemma hdr_eqb_eq a b : hdr_eqb a b = true <-> a = b.
Proof.
  revert b. induction a as [|[k v] a IH]; destruct b as [|[k' v'] b]; cbn; split; intros H;
    try discriminate; try reflexivity.
  - apply andb_prop in H as [H H3]. apply andb_prop in H as [H1 H2].
    apply bytes_eqb_eq in H1. apply bytes_eqb_eq in H2. apply IH in H3. congruence.
  - inversion H; subst. rewrite !bytes_eqb_refl. cbn. apply IH. reflexivity.
Qed.

Lemma resp_eqb_eq a b : resp_eqb a b = true <-> a = b.
Proof.
  unfold resp_eqb. destruct a as [s h bd], b as [s' h' bd']; cbn. split; intros H.
  - apply andb_prop in H as [H H3]. apply andb_prop in H as [H1 H2].
    apply N.eqb_eq in H1. apply hdr_eqb_eq in H2. apply bytes_eqb_eq in H3. congruence.
  - inversion H; subst. rewrite N.eqb_refl, bytes_eqb_refl. cbn.
    rewrite (proj2 (hdr_eqb_eq h' h') eq_refl). reflexivity.
Qed.

Lemma complete_doc_b_spec st ct doc r : complete_doc_b st ct doc r = true <-> complete_doc st ct doc r.
Proof.
  unfold complete_doc_b, complete_doc. rewrite !andb_true_iff, N.eqb_eq, obytes_eqb_eq, bytes_eqb_eq. tauto.
Qed.

Lemma default_error_b_spec r : default_error_b r = true <-> default_error r.
Proof.
  unfold default_error_b, default_error. rewrite !andb_true_iff, N.eqb_eq, !obytes_eqb_eq, bytes_eqb_eq. tauto.
Qed.

Lemma all_or_nothing_b_spec st ct eh doc failed r :
  all_or_nothing_b st ct eh doc failed r = true <-> all_or_nothing st ct eh doc failed r.
Proof.
  unfold all_or_nothing_b, all_or_nothing. destruct failed.
  - destruct eh; [apply resp_eqb_eq | apply default_error_b_spec].
  - apply complete_doc_b_spec.
Qed.

Lemma no_body_eq r r0 : r = no_body r0 <-> (r_body r = [] /\ r_status r = r_status r0 /\ r_hdr r = r_hdr r0).
Proof.
  destruct r as [s h b], r0 as [s0 h0 b0]; unfold no_body; cbn. split.
  - intros H. inversion H; subst. repeat split.
  - intros (H1 & H2 & H3). subst. reflexivity.
Qed.

Lemma all_or_nothing_wire_b_spec head st ct eh doc failed r :
  all_or_nothing_wire_b head st ct eh doc failed r = true <-> all_or_nothing_wire head st ct eh doc failed r.
Proof.
  unfold all_or_nothing_wire_b, all_or_nothing_wire. destruct head; [|apply all_or_nothing_b_spec].
  rewrite andb_true_iff, bytes_eqb_eq. unfold all_or_nothing. destruct failed.
  - destruct eh as [e|].
    + rewrite resp_eqb_eq. split.
      * intros [B E]. exists e. split; [reflexivity|assumption].
      * intros (r0 & E0 & E). subst r0. split; [|assumption]. rewrite E. reflexivity.
    + rewrite !andb_true_iff, N.eqb_eq, !obytes_eqb_eq. unfold default_error. split.
      * intros (B & (S & C) & X).
        exists {| r_status := r_status r; r_hdr := r_hdr r; r_body := err_body |}. cbn.
        split; [repeat split; assumption|]. apply no_body_eq. cbn. repeat split. assumption.
      * intros (r0 & (S & _ & C & X) & E). apply no_body_eq in E as (B & S' & H'). rewrite S', H'. repeat split; assumption.
  - rewrite !andb_true_iff, N.eqb_eq, obytes_eqb_eq. unfold complete_doc. split.
    + intros (B & S & C).
      exists {| r_status := r_status r; r_hdr := r_hdr r; r_body := doc |}. cbn.
      split; [repeat split; assumption|]. apply no_body_eq. cbn. repeat split. assumption.
    + intros (r0 & (S & C & _) & E). apply no_body_eq in E as (B & S' & H'). rewrite S', H'. repeat split; assumption.
Qed.

(* what the ResponseWriter was given is all-or-nothing => so is what the client of a HEAD receives *)
Lemma all_or_nothing_on_the_wire head st ct eh doc failed r :
  all_or_nothing st ct eh doc failed r ->
  all_or_nothing_wire head st ct (if head then option_map no_body eh else eh) doc failed (if head then no_body r else r).
Proof.
  intros A. unfold all_or_nothing_wire. destruct head; [|assumption].
  unfold all_or_nothing in *. destruct failed.
  - destruct eh as [e|]; cbn.
    + exists (no_body e). split; [reflexivity|]. subst r. reflexivity.
    + exists r. split; [assumption|reflexivity].
  - exists r. split; [assumption|reflexivity].
Qed.

(* ---------- rendering into a buffer ---------- *)
Lemma render_into_concat buf o : render_into buf o = buf ++ document o.
Proof.
  unfold render_into, document. generalize (chunks o) as l. intros l. revert buf.
  induction l as [|ch l IH]; intros buf; cbn.
  - symmetry. apply app_nil_r.
  - rewrite IH. symmetry. apply app_assoc.
Qed.

(* ---------- the buffered handler ---------- *)
Lemma default_error_fresh : default_error (observe (http_error err_msg 500 fresh)).
Proof. vm_compute. repeat split. Qed.

Lemma buffered_on_empty q c (k : component) :
  all_or_nothing (c_status c) (c_ctype c) (eh_alone q c) (document (k (q_ctx q))) (fails (k (q_ctx q))) (observe (serve_buffered q c k)).
Proof.
  unfold serve_buffered, serve_buffered_on, all_or_nothing, eh_alone.
  generalize (k (q_ctx q)) as o. intros o.
  destruct (fails o).
  - destruct (c_errh c) as [h|]; cbn [snd].
    + reflexivity.
    + apply default_error_fresh.
  - cbn [snd]. rewrite render_into_concat. cbn [app].
    unfold complete_doc, with_status. destruct (c_status c =? 0); cbn; repeat split.
Qed.

Theorem buffered_all_or_nothing q c (k : component) :
  c_stream c = false ->
  all_or_nothing (c_status c) (c_ctype c) (eh_alone q c) (document (k (q_ctx q))) (fails (k (q_ctx q))) (observe (serve q c k)).
Proof. intros H. unfold serve. rewrite H. apply buffered_on_empty. Qed.

(* the same as the client of the request observes it (HEAD: no body) *)
Theorem buffered_all_or_nothing_wire q c (k : component) :
  c_stream c = false ->
  all_or_nothing_wire (is_head q) (c_status c) (c_ctype c) (option_map (client_view q) (eh_alone q c))
    (document (k (q_ctx q))) (fails (k (q_ctx q))) (client_view q (observe (serve q c k))).
Proof.
  intros H. pose proof (all_or_nothing_on_the_wire (is_head q) _ _ _ _ _ _ (buffered_all_or_nothing q c k H)) as A.
  unfold client_view. destruct (is_head q); [exact A|].
  destruct (eh_alone q c); exact A.
Qed.

(* the handler itself never looks at the request: two requests whose contexts are in the same state and
   on which the error handler (if any) behaves the same get the same response *)
Theorem response_independent_of_request q1 q2 c (k : component) :
  q_ctx q1 = q_ctx q2 ->
  (forall h w, c_errh c = Some h -> h q1 w = h q2 w) ->
  serve q1 c k = serve q2 c k.
Proof.
  intros C E. unfold serve, serve_streamed, serve_buffered, serve_buffered_on. rewrite C.
  destruct (c_stream c); destruct (fails (k (q_ctx q2))); try reflexivity;
    destruct (c_errh c) as [h|] eqn:EH; try reflexivity; cbn [snd]; apply E; reflexivity.
Qed.

(* the error response does not depend on what the component wrote before failing *)
Theorem error_response_independent q c (k1 k2 : component) :
  c_stream c = false -> fails (k1 (q_ctx q)) = true -> fails (k2 (q_ctx q)) = true -> serve q c k1 = serve q c k2.
Proof.
  intros H F1 F2. unfold serve. rewrite H. unfold serve_buffered, serve_buffered_on. rewrite F1, F2.
  destruct (c_errh c); reflexivity.
Qed.

(* without an error handler a failed render is never answered with anything but status 500 and the fixed message;
   a successful one always carries the whole document *)
Theorem buffered_never_mixed q c (k : component) :
  c_stream c = false -> c_errh c = None ->
  let o := k (q_ctx q) in
  let r := observe (serve q c k) in
  (fails o = true -> r_status r = 500 /\ r_body r = err_body) /\
  (fails o = false -> r_body r = document o /\ r_status r = (if c_status c =? 0 then 200 else c_status c)).
Proof.
  intros H E o r. pose proof (buffered_all_or_nothing q c k H) as A. fold o in A. fold r in A.
  unfold all_or_nothing, eh_alone in A. rewrite E in A. split; intros F; rewrite F in A.
  - destruct A as (A1 & A2 & _). split; assumption.
  - destruct A as (A1 & _ & A3). split; assumption.
Qed.

(* ---------- the buffer pool ---------- *)
Definition pool_clean (p : pool) : Prop := Forall (fun b => b = []) p.

Lemma remove_nth_clean n p : pool_clean p -> pool_clean (remove_nth n p).
Proof.
  revert n. induction p as [|b p IH]; intros n H; [destruct n; exact H|].
  inversion H; subst. destruct n; cbn; [assumption|]. constructor; [reflexivity|]. apply IH. assumption.
Qed.

Lemma get_buffer_clean pick p :
  pool_clean p -> fst (get_buffer pick p) = [] /\ pool_clean (snd (get_buffer pick p)).
Proof.
  intros H. unfold get_buffer. destruct (nth_error p pick) as [b|] eqn:E; cbn.
  - split.
    + apply nth_error_In in E. unfold pool_clean in H. rewrite Forall_forall in H. apply H. assumption.
    + apply remove_nth_clean. assumption.
  - split; [reflexivity|assumption].
Qed.

Lemma serve_pooled_pure p pick q c (k : component) :
  pool_clean p ->
  snd (serve_pooled release_buffer p pick q c k) = serve_buffered q c k /\
  pool_clean (fst (serve_pooled release_buffer p pick q c k)).
Proof.
  intros H. unfold serve_pooled. destruct (get_buffer_clean pick p H) as [G1 G2].
  destruct (get_buffer pick p) as [buf p1]. cbn in G1, G2. subst buf.
  unfold serve_buffered. destruct (serve_buffered_on [] q c k) as [buf' w]. cbn. split; [reflexivity|].
  constructor; [reflexivity|assumption].
Qed.

Lemma serve_seq_pure reqs : forall p,
  pool_clean p ->
  snd (serve_seq release_buffer p reqs) = map (fun '(_, q, c, k) => serve_buffered q c k) reqs /\
  pool_clean (fst (serve_seq release_buffer p reqs)).
Proof.
  induction reqs as [|[[[pick q] c] k] t IH]; intros p H; cbn.
  - split; [reflexivity|assumption].
  - destruct (serve_pooled_pure p pick q c k H) as [S1 S2].
    destruct (serve_pooled release_buffer p pick q c k) as [p1 w]. cbn in S1, S2.
    destruct (IH p1 S2) as [T1 T2]. destruct (serve_seq release_buffer p1 t) as [p2 ws]. cbn in T1, T2. cbn.
    split; [congruence|assumption].
Qed.

(* every response in every history of buffered requests, whatever buffers the pool hands out *)
Theorem pooled_all_or_nothing reqs n pick q c (k : component) w :
  nth_error reqs n = Some (pick, q, c, k) ->
  nth_error (snd (serve_seq release_buffer [] reqs)) n = Some w ->
  all_or_nothing (c_status c) (c_ctype c) (eh_alone q c) (document (k (q_ctx q))) (fails (k (q_ctx q))) (observe w).
Proof.
  intros R W. destruct (serve_seq_pure reqs [] (Forall_nil _)) as [S _]. rewrite S in W.
  rewrite (map_nth_error _ _ _ R) in W. inversion W; subst. apply buffered_on_empty.
Qed.

(* ---------- the streamed handler ---------- *)
Lemma fold_write_sent l : forall w x,
  sent w = Some x ->
  fold_left (fun w ch => write ch w) l w = {| live := live w; sent := Some x; out := out w ++ concat l |}.
Proof.
  induction l as [|ch l IH]; intros w x H; cbn.
  - rewrite app_nil_r. destruct w; cbn in *; congruence.
  - rewrite (IH (write ch w) x).
    + unfold write, write_header. rewrite H. cbn. rewrite app_assoc. reflexivity.
    + unfold write, write_header. rewrite H. cbn. assumption.
Qed.

Lemma http_error_sent msg code w x :
  sent w = Some x -> observe (http_error msg code w) = {| r_status := fst x; r_hdr := snd x; r_body := out w ++ msg ++ [x0a] |}.
Proof.
  intros H. unfold http_error, write, write_header, set_header, del_header, observe. cbn. rewrite H. cbn.
  destruct x; reflexivity.
Qed.

Theorem streamed_partial q c (k : component) :
  let o := k (q_ctx q) in
  c_stream c = true -> c_errh c = None -> fails o = true -> (c_status c <> 0 \/ chunks o <> []) ->
  let r := observe (serve q c k) in
  r_status r = (if c_status c =? 0 then 200 else c_status c) /\
  hget h_ctype (r_hdr r) = Some (c_ctype c) /\
  r_body r = document o ++ err_body.
Proof.
  intros o S E F G r. subst r. unfold serve, serve_streamed. fold o. rewrite S, E, F. unfold with_status, document.
  destruct (c_status c =? 0) eqn:Z.
  - destruct G as [G|G]; [apply N.eqb_eq in Z; contradiction|].
    destruct (chunks o) as [|ch l]; [contradiction|]. cbn [fold_left].
    erewrite fold_write_sent by (cbn; reflexivity).
    erewrite http_error_sent by (cbn; reflexivity). cbn. rewrite <- app_assoc. repeat split.
  - erewrite fold_write_sent by (cbn; reflexivity).
    erewrite http_error_sent by (cbn; reflexivity). cbn. repeat split.
Qed.

Theorem streamed_not_all_or_nothing q c (k : component) :
  let o := k (q_ctx q) in
  c_stream c = true -> c_errh c = None -> fails o = true -> document o <> [] ->
  ~ all_or_nothing (c_status c) (c_ctype c) (eh_alone q c) (document o) (fails o) (observe (serve q c k)).
Proof.
  intros o S E F D A. assert (G : c_status c <> 0 \/ chunks o <> []).
  { right. intros N. apply D. unfold document. rewrite N. reflexivity. }
  destruct (streamed_partial q c k S E F G) as (_ & _ & B). fold o in B.
  unfold all_or_nothing, eh_alone in A. rewrite F, E in A. destruct A as (_ & A2 & _).
  rewrite B in A2. apply (f_equal (@length byte)) in A2. rewrite app_length in A2.
  destruct (document o); [apply D; reflexivity | cbn in A2; lia].
Qed.

(* the documented contrast, on the component of handler_test.go: writes "Hello", then fails *)
Theorem streamed_may_be_partial : forall q : request, exists (c : cfg) (o : outcome),
  c_stream c = true /\ fails o = true /\
  r_status (observe (serve q c (fun _ => o))) = 200 /\
  r_body (observe (serve q c (fun _ => o))) = bs "Hello" ++ err_body /\
  ~ all_or_nothing (c_status c) (c_ctype c) (eh_alone q c) (document o) (fails o) (observe (serve q c (fun _ => o))).
Proof.
  intros q.
  exists {| c_status := 0; c_ctype := bs "text/html; charset=utf-8"; c_errh := None; c_stream := true |},
         {| chunks := [bs "Hello"]; fails := true |}.
  split; [reflexivity|]. split; [reflexivity|]. split; [reflexivity|]. split; [reflexivity|].
  apply (streamed_not_all_or_nothing q _ (fun _ => _)); try reflexivity. discriminate.
Qed.

(* ---------- pool discipline under overlapping requests ---------- *)
Lemma nth_error_remove_perm {A} (l : list A) : forall n b,
  nth_error l n = Some b -> Permutation l (b :: remove_nth n l).
Proof.
  induction l as [|x l IH]; intros n b H; [destruct n; discriminate|].
  destruct n; cbn in *.
  - inversion H; subst. apply Permutation_refl.
  - apply IH in H. eapply Permutation_trans; [apply perm_skip; exact H|]. apply perm_swap.
Qed.

Definition pinv (s : pstate) : Prop :=
  NoDup (p_free s ++ p_held s) /\ Forall (fun x => (x < p_next s)%nat) (p_free s ++ p_held s).

Lemma pstep_inv s e : single_release e = true -> pinv s -> pinv (pstep s e).
Proof.
  intros SR [ND LT]. destruct e as [pick|i|i]; [| |discriminate]; cbn.
  - destruct (nth_error (p_free s) pick) as [b|] eqn:E; unfold pinv; cbn.
    + assert (P : Permutation (p_free s ++ p_held s) (remove_nth pick (p_free s) ++ b :: p_held s)).
      { eapply Permutation_trans; [apply Permutation_app_tail; apply (nth_error_remove_perm _ _ _ E)|].
        cbn. apply Permutation_middle. }
      split; [eapply Permutation_NoDup; eassumption|].
      eapply Permutation_Forall; eassumption.
    + assert (P : Permutation (p_next s :: p_free s ++ p_held s) (p_free s ++ p_next s :: p_held s))
        by apply Permutation_middle.
      split.
      * eapply Permutation_NoDup; [exact P|]. constructor; [|assumption].
        intros IN. rewrite Forall_forall in LT. apply LT in IN. lia.
      * eapply Permutation_Forall; [exact P|]. constructor; [lia|].
        eapply Forall_impl; [|exact LT]. cbn. intros; lia.
  - destruct (nth_error (p_held s) i) as [b|] eqn:E; [|split; assumption]. unfold pinv; cbn.
    assert (P : Permutation (p_free s ++ p_held s) (b :: p_free s ++ remove_nth i (p_held s))).
    { eapply Permutation_trans; [apply Permutation_app_head; apply (nth_error_remove_perm _ _ _ E)|].
      apply Permutation_sym. apply Permutation_middle. }
    split; [eapply Permutation_NoDup; eassumption|].
    eapply Permutation_Forall; eassumption.
Qed.

Lemma prun_inv tr : forallb single_release tr = true -> pinv (prun tr).
Proof.
  unfold prun. assert (I : pinv pinit) by (split; constructor).
  revert I. generalize pinit. induction tr as [|e tr IH]; intros s I H; cbn in *; [assumption|].
  apply andb_prop in H as [H1 H2]. apply IH; [apply pstep_inv; assumption|assumption].
Qed.

(* however requests overlap and whichever buffers the pool hands out: as long as each request releases
   its buffer once, no two in-flight requests hold the same buffer, and no in-flight buffer is in the pool *)
Theorem pool_discipline tr :
  forallb single_release tr = true -> NoDup (p_free (prun tr) ++ p_held (prun tr)).
Proof. intros H. apply (prun_inv tr H). Qed.
