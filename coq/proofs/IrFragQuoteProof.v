(* C02 - the Go string literal the generator writes for static markup, on ARBITRARY bytes (template files that are not valid
   UTF-8).  model/IrFragPrint.v prints a literal with fquote = strconv.Quote (model/Quote.v) where every non-ASCII code point
   counts as printable.
     fquote_reads_back      : the literal reads back (strconv.Unquote = what the Go compiler makes of it) as exactly the source
                              bytes, contains no raw newline and scans as one literal - for EVERY byte string
     fquote_wellformed      : on well-formed UTF-8 fquote is Gen.qesc, the quoting of the whole-generator model
     fquote_is_quote        : fquote is strconv.Quote with any IsPrint table that is right on ASCII and holds of the well-formed
                              non-ASCII characters of the text - whatever ill-formed bytes stand between them
     quote_app / quote_concat : quoting the merged pieces = concatenating the quoted pieces, when every boundary has an ASCII byte
                              on one side
     raw_byte_not_preserved : handing an ill-formed byte to the Go file as it is (what Gen.qesc would do) does NOT denote it *)
From Coq.Strings Require Import Byte String.
From Coq Require Import List Arith NArith Bool Lia ZArith ZifyN ZifyNat ZifyBool.
Import ListNotations.
From V Require Import lib.Bytes model.Quote model.QuoteGo model.Gen model.IrFragPrint proofs.QuoteProof proofs.QuoteLitProof proofs.QuoteGoProof proofs.GenLitProof.
Local Open Scope nat_scope.

Lemma frag_is_print_lf : frag_is_print 10%N = false.
Proof. reflexivity. Qed.
Lemma frag_ascii_print_ok : ascii_print_ok frag_is_print.
Proof. intros r H. unfold frag_is_print. apply N.ltb_lt in H. rewrite H. reflexivity. Qed.
Lemma frag_is_print_high r : (128 <= r)%N -> frag_is_print r = true.
Proof. intros H. unfold frag_is_print. apply N.ltb_ge in H. rewrite H. reflexivity. Qed.

Theorem fquote_reads_back (s : bytes) : unquote (fquote s) = Some s /\ scan_ok (fquote s) = true /\ no_byte x0a (fquote s) = true.
Proof.
  split; [apply unquote_quote; exact frag_is_print_lf|]. apply quote_no_lf_no_quote. exact frag_is_print_lf.
Qed.

(* ---- well-formed text ---- *)
Lemma valid_printable_fuel : forall n m s, length s <= n -> length s <= m ->
  valid_utf8_fuel n s = true -> printable_fuel frag_is_print m s = true.
Proof.
  induction n as [|n IH]; intros m s Ln Lm H.
  - destruct s; [destruct m; reflexivity|cbn [length] in Ln; lia].
  - destruct m as [|m]; [reflexivity|]. destruct s as [|b t]; [reflexivity|].
    cbn [valid_utf8_fuel printable_fuel] in *. destruct (bN b <? 128)%N eqn:E.
    + apply N.ltb_lt in E. rewrite (decode_ascii_byte b t E) in H.
      destruct ((1 =? 1) && (bN b =? RuneError)%N); [discriminate|]. cbn [skipn] in *.
      apply (IH m t); [cbn [length] in Ln; lia|cbn [length] in Lm; lia|exact H].
    + destruct (decode_rune (b :: t)) as [r w] eqn:D.
      destruct ((w =? 1) && (r =? RuneError)%N) eqn:Inv; [discriminate|]. cbn [negb andb].
      assert (W : (1 <= w <= length (b :: t))%nat) by (apply (decode_width _ r w); [discriminate|exact D]).
      assert (Hr : (128 <= r)%N).
      { destruct (N.lt_ge_cases r 128) as [Lt|Ge]; [|exact Ge]. destruct (decode_ascii b t r w D Lt) as [-> _]. apply N.ltb_ge in E. exact E. }
      rewrite (frag_is_print_high r Hr). cbn [andb].
      apply (IH m (skipn w (b :: t))); [rewrite skipn_length; cbn [length] in *; lia|rewrite skipn_length; cbn [length] in *; lia|exact H].
Qed.
Lemma valid_printable s : valid_utf8 s = true -> printable frag_is_print s = true.
Proof. intros H. apply (valid_printable_fuel (length s) (length s) s); [apply le_n|apply le_n|exact H]. Qed.
Theorem fquote_wellformed s : valid_utf8 s = true -> fquote s = qesc s.
Proof. intros H. unfold fquote. apply qesc_quote; [exact frag_ascii_print_ok|apply valid_printable; exact H]. Qed.

(* ---- any IsPrint table ---- *)
(* the well-formed non-ASCII characters of s are printable; ill-formed bytes are skipped *)
Fixpoint wf_printable_fuel (is_print : N -> bool) (fuel : nat) (s : bytes) : bool :=
  match fuel with O => true | S f =>
  match s with
  | [] => true
  | _ => let '(r, w) := decode_rune s in
         if (w =? 1)%nat && (r =? RuneError)%N then wf_printable_fuel is_print f (skipn 1 s)
         else ((r <? 128)%N || is_print r) && wf_printable_fuel is_print f (skipn w s)
  end end.
Definition wf_printable (is_print : N -> bool) (s : bytes) : bool := wf_printable_fuel is_print (length s) s.

Lemma quote_rune_ext ip ip' r : ip r = ip' r -> quote_rune ip r = quote_rune ip' r.
Proof. intros H. unfold quote_rune. rewrite H. reflexivity. Qed.

Lemma quote_ext_fuel ip : ascii_print_ok ip -> forall n m s, length s <= n -> length s <= m ->
  wf_printable_fuel ip m s = true -> quote_fuel ip n s = quote_fuel frag_is_print n s.
Proof.
  intros Hp. induction n as [|n IH]; intros m s Ln Lm H; [reflexivity|].
  destruct s as [|b t]; [reflexivity|]. destruct m as [|m]; [cbn [length] in Lm; lia|].
  cbn [quote_fuel wf_printable_fuel] in *. destruct (decode_rune (b :: t)) as [r w] eqn:D.
  destruct ((w =? 1) && (r =? RuneError)%N) eqn:Inv.
  - do 2 f_equal. cbn [skipn] in *. apply (IH m t); [cbn [length] in Ln; lia|cbn [length] in Lm; lia|exact H].
  - apply andb_prop in H as [Hr Hrest].
    assert (W : (1 <= w <= length (b :: t))%nat) by (apply (decode_width _ r w); [discriminate|exact D]).
    f_equal.
    + apply quote_rune_ext. destruct (N.lt_ge_cases r 128) as [Lt|Ge].
      * rewrite (Hp r Lt), (frag_ascii_print_ok r Lt). reflexivity.
      * rewrite (frag_is_print_high r Ge). apply orb_prop in Hr as [Hr|Hr]; [apply N.ltb_lt in Hr; lia|exact Hr].
    + apply (IH m (skipn w (b :: t))); [rewrite skipn_length; cbn [length] in *; lia|rewrite skipn_length; cbn [length] in *; lia|exact Hrest].
Qed.
Theorem fquote_is_quote ip : ascii_print_ok ip -> forall s, wf_printable ip s = true -> quote ip s = fquote s.
Proof. intros Hp s H. unfold fquote, quote. apply (quote_ext_fuel ip Hp (length s) (length s) s); [apply le_n|apply le_n|exact H]. Qed.
(* with Go's own table (gen/Tables16.v, dumped from strconv.IsPrint) *)
Theorem fquote_is_go_quote s : wf_printable go_is_print s = true -> go_quote s = fquote s.
Proof. apply fquote_is_quote. exact go_ascii_print_ok. Qed.

(* ---- merged pieces ---- *)
Lemma inr_ascii lo hi c : (128 <= lo)%N -> (bN c < 128)%N -> inr lo hi c = false.
Proof. intros H1 H2. unfold inr. apply andb_false_iff. left. apply N.leb_gt. lia. Qed.

(* a byte below 0x80 never continues a sequence: what DecodeRune sees of s does not change when such a byte follows s *)
Lemma decode_app_ascii s c t : s <> [] -> (bN c < 128)%N -> decode_rune (s ++ c :: t) = decode_rune s.
Proof.
  intros Hs Hc.
  assert (I : forall lo hi, (128 <= lo)%N -> inr lo hi c = false) by (intros; apply inr_ascii; assumption).
  assert (L3 : forall n0 : N, (128 <= (if (n0 =? 224)%N then 160 else 128))%N) by (intros; destruct (n0 =? 224)%N; lia).
  assert (L4 : forall n0 : N, (128 <= (if (n0 =? 240)%N then 144 else 128))%N) by (intros; destruct (n0 =? 240)%N; lia).
  assert (K : forall lo hi x, (128 <= lo)%N -> inr lo hi c && x = false) by (intros; rewrite I by assumption; reflexivity).
  assert (K2 : forall lo hi x, (128 <= lo)%N -> x && inr lo hi c = false) by (intros; rewrite I by assumption; apply andb_false_r).
  destruct s as [|b0 [|b1 [|b2 [|b3 s']]]]; [contradiction| | | |]; cbn [app]; unfold decode_rune; cbv zeta;
  (destruct (bN b0 <? 128)%N; [reflexivity|]); (destruct (inr 194 223 b0); [rewrite ?I by lia; reflexivity|]);
  (destruct (inr 224 239 b0); [destruct (bN b0 =? 224)%N, (bN b0 =? 237)%N; try destruct t as [|t0 [|t1 t2]]; rewrite ?K, ?K2, ?I by lia; try reflexivity|]);
  (destruct (inr 240 244 b0); [destruct (bN b0 =? 240)%N, (bN b0 =? 244)%N; try destruct t as [|t0 [|t1 t2]]; rewrite ?K, ?K2, ?I by lia; try reflexivity|]);
  try reflexivity.
Qed.

Section A.
Variable ip : N -> bool.
Lemma quote_fuel_irrel : forall n m s, length s <= n -> length s <= m -> quote_fuel ip n s = quote_fuel ip m s.
Proof.
  induction n as [|n IH]; intros m s Ln Lm.
  - destruct s; [destruct m; reflexivity|cbn [length] in Ln; lia].
  - destruct s as [|b t]; [destruct m; reflexivity|]. destruct m as [|m]; [cbn [length] in Lm; lia|]. cbn [quote_fuel].
    destruct (decode_rune (b :: t)) as [r w] eqn:D.
    assert (W : (1 <= w <= length (b :: t))%nat) by (apply (decode_width _ r w); [discriminate|exact D]).
    cbn [length] in *.
    destruct ((w =? 1) && (r =? RuneError)%N).
    + cbn [skipn]. rewrite (IH m t) by lia. reflexivity.
    + rewrite (IH m (skipn w (b :: t))); [reflexivity|rewrite skipn_length; cbn [length]; lia|rewrite skipn_length; cbn [length]; lia].
Qed.
Lemma quote_cons_ascii c t : (bN c < 128)%N -> quote ip (c :: t) = quote_rune ip (bN c) ++ quote ip t.
Proof.
  intros H. unfold quote. cbn [length quote_fuel]. rewrite (decode_ascii_byte c t H).
  replace ((1 =? 1) && (bN c =? RuneError)%N) with false; [reflexivity|].
  symmetry. cbn [Nat.eqb andb]. apply N.eqb_neq. unfold RuneError. lia.
Qed.
(* strconv.Quote of a ++ b is Quote a followed by Quote b when b starts with a byte below 0x80 ... *)
Lemma quote_app_head : forall n a c t, length a <= n -> (bN c < 128)%N -> quote ip (a ++ c :: t) = quote ip a ++ quote ip (c :: t).
Proof.
  induction n as [|n IH]; intros a c t L Hc.
  - destruct a; [reflexivity|cbn [length] in L; lia].
  - destruct a as [|b0 a']; [reflexivity|].
    unfold quote at 1 2. cbn [length app]. cbn [quote_fuel]. change (b0 :: a' ++ c :: t) with ((b0 :: a') ++ c :: t).
    rewrite (decode_app_ascii (b0 :: a') c t) by (discriminate || exact Hc).
    destruct (decode_rune (b0 :: a')) as [r w] eqn:D.
    assert (W : (1 <= w <= length (b0 :: a'))%nat) by (apply (decode_width _ r w); [discriminate|exact D]).
    cbn [length] in *.
    destruct ((w =? 1) && (r =? RuneError)%N).
    + cbn [skipn app]. rewrite <- !app_assoc. do 3 f_equal.
      fold (quote ip (a' ++ c :: t)). fold (quote ip a'). apply IH; [lia|exact Hc].
    + rewrite <- app_assoc. f_equal. rewrite skipn_app. replace (w - length (b0 :: a')) with 0 by (cbn [length]; lia). cbn [skipn].
      rewrite (quote_fuel_irrel _ (length (skipn w (b0 :: a') ++ c :: t)) (skipn w (b0 :: a') ++ c :: t)) by (rewrite ?app_length, ?skipn_length; cbn [length]; lia).
      rewrite (quote_fuel_irrel _ (length (skipn w (b0 :: a'))) (skipn w (b0 :: a'))) by (rewrite ?skipn_length; cbn [length]; lia).
      fold (quote ip (skipn w (b0 :: a') ++ c :: t)). fold (quote ip (skipn w (b0 :: a'))). apply IH; [rewrite skipn_length; cbn [length]; lia|exact Hc].
Qed.
(* ... or a ends with one *)
Lemma quote_app_last a c b : (bN c < 128)%N -> quote ip ((a ++ [c]) ++ b) = quote ip (a ++ [c]) ++ quote ip b.
Proof.
  intros Hc. rewrite <- app_assoc. cbn [app]. rewrite (quote_app_head (length a) a c b (le_n _) Hc), (quote_app_head (length a) a c [] (le_n _) Hc).
  rewrite !quote_cons_ascii by exact Hc. rewrite <- !app_assoc. reflexivity.
Qed.

(* a boundary between two pieces of a literal with a byte below 0x80 on at least one side *)
Definition is_ascii_byte (b : byte) : bool := (bN b <? 128)%N.
Definition ascii_boundary (a b : bytes) : bool :=
  match b with [] => true | c :: _ => is_ascii_byte c end || match rev a with [] => true | c :: _ => is_ascii_byte c end.
Theorem quote_app a b : ascii_boundary a b = true -> quote ip (a ++ b) = quote ip a ++ quote ip b.
Proof.
  unfold ascii_boundary. intros H. apply orb_prop in H as [H|H].
  - destruct b as [|c t]; [rewrite !app_nil_r; reflexivity|]. apply (quote_app_head (length a)); [apply le_n|apply N.ltb_lt; exact H].
  - destruct (rev a) as [|c r] eqn:E.
    + apply (f_equal (@rev byte)) in E. rewrite rev_involutive in E. subst a. reflexivity.
    + apply (f_equal (@rev byte)) in E. rewrite rev_involutive in E. cbn [rev] in E. subst a. apply quote_app_last. apply N.ltb_lt. exact H.
Qed.
(* a literal assembled from pieces: each piece is quoted on its own by the generator (escapeQuotes per text node / attribute value,
   format-string text around them) and the quoted texts are concatenated by RangeWriter, whereas the fragment generator merges the
   pieces (coalesce) and the printer quotes the merged literal.  The two orders give the same text when every boundary has a byte
   below 0x80 on one side - static pieces are delimited by ASCII markup. *)
Fixpoint chain_ok (ps : list bytes) : bool :=
  match ps with [] => true | p :: r => ascii_boundary p (concat r) && chain_ok r end.
Theorem quote_concat ps : chain_ok ps = true -> quote ip (concat ps) = concat (map (quote ip) ps).
Proof.
  induction ps as [|p r IH]; intros H; [reflexivity|]. cbn [chain_ok] in H. apply andb_prop in H as [H1 H2].
  cbn [concat map]. rewrite (quote_app p (concat r) H1), (IH H2). reflexivity.
Qed.
End A.
(* without the condition the orders differ: a piece ending inside a sequence that the next piece completes *)
Lemma quote_split_sequence : quote frag_is_print ([xc3] ++ [xa9]) = [xc3; xa9] /\ quote frag_is_print [xc3] ++ quote frag_is_print [xa9] = bs "\xc3\xa9".
Proof. vm_compute. split; reflexivity. Qed.

(* ---- what goes wrong without the \x escapes ---- *)
(* a Latin-1 e-acute: Gen.qesc leaves it as it is; the Go literal with that byte (were it accepted) reads back as U+FFFD *)
Lemma raw_byte_not_preserved :
  qesc [xe9] = [xe9] /\ unquote (qesc [xe9]) = Some [xef; xbf; xbd] /\ fquote [xe9] = bs "\xe9" /\ unquote (fquote [xe9]) = Some [xe9].
Proof. vm_compute. repeat split. Qed.
