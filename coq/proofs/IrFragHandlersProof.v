(* C02, event handlers: the generated code of an element writes, in front of its open tag, ONE RenderScriptItems call over
   the expressions of ALL its on* / hx-on: attributes - those under conditional attributes included, whichever branch they
   are in (writeElementScript / getAttributeScripts) - then the tag and the attributes.  Together with
   proofs/ScriptOnceProof.v (what the call writes in a render context) this is why a handler attribute never calls a
   function the document has not defined. *)
From Coq.Strings Require Import Byte String.
From Coq Require Import List Arith NArith Bool.
Import ListNotations.
From V Require Import lib.Bytes model.Ast model.IrFrag proofs.IrFragProof.

(* the handler n={ e } occurs in an attribute list, at any depth of conditional attributes, in either branch *)
Inductive handler_in (n : bytes) (e : expr) : list fattr -> Prop :=
| HI_here r : handler_in n e (FScript n e :: r)
| HI_later a r : handler_in n e r -> handler_in n e (a :: r)
| HI_then c th el r : handler_in n e th -> handler_in n e (FCond c th el :: r)
| HI_else c th el r : handler_in n e el -> handler_in n e (FCond c th el :: r).

Theorem handlers_all_hoisted n e attrs : handler_in n e attrs -> In e (flat_map script_exprs attrs).
Proof.
  induction 1 as [r|a r _ IH|c th el r _ IH|c th el r _ IH]; cbn [flat_map script_exprs].
  - left. reflexivity.
  - apply in_or_app. right. exact IH.
  - apply in_or_app. left. apply in_or_app. left. exact IH.
  - apply in_or_app. left. apply in_or_app. right. exact IH.
Qed.

(* an element, void or not, with any children: definitions of the class lists, then the script definitions of every handler
   expression, then the open tag and the attributes *)
Theorem elem_defs_in_front (E : Type) (orc : oracles E) tbl fuel env kids name b void attrs ch t next :
  exists rest,
    exec_f orc false (compile orc tbl) fuel env (option_map (compile_blk orc) kids) (coalesce (gens orc [Elem name b void attrs ch t] next))
    = andthen (css_defs orc env attrs)
        (andthen (script_defs orc env (flat_map script_exprs attrs))
          (andthen (lit (open_tag orc name)) (andthen (dattrs orc false env attrs) rest))).
Proof.
  rewrite generated_code_correct; try exact (or_introl eq_refl).
  unfold denote_f, denotes. cbn [seq_nodes next_of denote]. unfold scripts_defs.
  rewrite andthen_unit_r, !andthen_assoc. eexists. reflexivity.
Qed.
