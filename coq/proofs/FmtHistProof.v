(* Proofs for the process-level reading of C09 (spec/FmtHist.v, model/FmtHist.v). *)
From Coq.Strings Require Import Byte String.
From Coq Require Import List Bool.
Import ListNotations.
From V Require Import lib.Bytes model.Fmt spec.FmtHist model.FmtHist.

Section Process.
  Variable St : Type.
  Variable step : St -> bytes -> St * option bytes.
  Variable s0 : St.
  Notation after := (after St step).
  Notation out_after := (out_after St step s0).
  Notation fresh := (fresh St step s0).
  Notation run := (run St step).

  Lemma after_app : forall h s x, after s (h ++ [x]) = fst (step (after s h) x).
  Proof. induction h as [|y h IH]; intros s x; cbn [app FmtHist.after]; [reflexivity|apply IH]. Qed.

  Lemma run_app : forall h s x, run s (h ++ [x]) = run s h ++ [snd (step (after s h) x)].
  Proof. induction h as [|y h IH]; intros s x; cbn [app FmtHist.run FmtHist.after]; [reflexivity|]. rewrite IH. reflexivity. Qed.

  Lemma stateless_independent : stateless St step -> history_independent St step s0.
  Proof. intros H h x. unfold FmtHist.fresh, FmtHist.out_after. apply H. Qed.

  Lemma independent_stay : history_independent St step s0 -> formatted_files_stay St step s0.
  Proof. intros H h x E. rewrite H. exact E. Qed.

  Lemma independent_second : history_independent St step s0 -> second_run_agrees St step s0.
  Proof. intros H h x y E. split; [rewrite <- H with (h := h); exact E|apply H]. Qed.

  Lemma independent_idem : history_independent St step s0 -> idempotent_after_any_history St step s0.
  Proof. intros H h x y E1 E2. split; rewrite H; assumption. Qed.

  Lemma independent_runs : history_independent St step s0 -> runs_are_fresh St step s0.
  Proof.
    intros H files.
    assert (G : forall fs h, run (after s0 h) fs = map fresh fs).
    { induction fs as [|x r IH]; intros h; cbn [FmtHist.run map]; [reflexivity|].
      f_equal; [apply (H h x)|]. rewrite <- after_app. apply IH. }
    exact (G files []).
  Qed.

  Lemma runs_independent : runs_are_fresh St step s0 -> history_independent St step s0.
  Proof.
    intros H h x. pose proof (H (h ++ [x])) as E. rewrite run_app, map_app, (H h) in E. cbn [map] in E.
    apply app_inv_head in E. injection E as E. exact E.
  Qed.
End Process.

Lemma out_eqb_eq a b : out_eqb a b = true <-> a = b.
Proof.
  destruct a as [x|], b as [y|]; cbn [out_eqb]; split; intros H; try reflexivity; try discriminate.
  - apply bytes_eqb_eq in H. congruence.
  - injection H as H. apply bytes_eqb_eq. exact H.
Qed.

Lemma first_difference_none : forall o r n, first_difference n o r = None <-> o = r.
Proof.
  induction o as [|a o IH]; destruct r as [|b r]; intros n; cbn [first_difference]; split; intros H; try reflexivity; try discriminate.
  - destruct (out_eqb a b) eqn:E; [|discriminate]. apply out_eqb_eq in E. apply IH in H. congruence.
  - injection H as H1 H2. subst. rewrite (proj2 (out_eqb_eq b b) eq_refl). apply IH. reflexivity.
Qed.

Lemma run_judged_fresh_iff o r : run_judged_fresh o r = true <-> o = r.
Proof.
  unfold run_judged_fresh. destruct (first_difference 0 o r) eqn:E.
  - split; [discriminate|]. intros H. apply first_difference_none with (n := 0) in H. congruence.
  - split; [intros _; apply (first_difference_none o r 0); exact E|reflexivity].
Qed.

(* the formatting step: when the parser's verdict and tree are a function of the bytes, so is the formatted text *)
Lemma fmt_step_stateless (St : Type) (parse : St -> bytes -> St * option file) :
  (forall s s' x, snd (parse s x) = snd (parse s' x)) -> stateless St (fmt_step St parse).
Proof. intros H s s' x. unfold fmt_step. cbn [snd]. rewrite (H s s'). reflexivity. Qed.

(* the block scanner: a buffer that is new, or emptied on entry, makes the step stateless *)
Lemma script_step_new_stateless : stateless bytes (script_step NewBuffer).
Proof. intros s s' x. unfold script_step. destruct (drop_prefix script_head x); reflexivity. Qed.
Lemma script_step_entry_stateless : stateless bytes (script_step PooledResetOnEntry).
Proof. intros s s' x. unfold script_step. destruct (drop_prefix script_head x); reflexivity. Qed.
