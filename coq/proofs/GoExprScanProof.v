(* C06 proofs about the scanner-based extractors (model/GoExprScan.v): whatever token stream the scanner
   produces - literals longer than the source text included - TemplExpression's answer lies inside its input
   since 906dd9d, so parseGo neither panics nor records an unfaithful range; without the clamp it does panic;
   Expression's answer lies inside its input under the go/scanner contract on the tokens it takes an end from. *)
From Coq.Strings Require Import Byte String.
From Coq Require Import List Arith ZArith Bool Lia.
Import ListNotations.
From V Require Import lib.Bytes lib.SrcPos spec.PosOf model.ParseInput model.GoExprScan proofs.ParseInputProof.
Local Open Scope nat_scope.

Definition tok_pos (t : gtoken) : Z := fst (fst t).

(* every way out of Insert leaves End where it was or at pos + len - 1 *)
Lemma ep_insert_end st pos tok len :
  ep_end (snd (ep_insert st pos tok len)) = ep_end st \/
  ep_end (snd (ep_insert st pos tok len)) = ep_set_end pos len.
Proof.
  unfold ep_insert, ep_keep, ep_go.
  repeat match goal with
         | |- context [if ?b then _ else _] => destruct b
         | |- context [match ?x with _ => _ end] => destruct x
         end; cbn [snd ep_end]; auto.
Qed.

Lemma ep_insert_end_nonneg st pos tok len :
  (1 <= pos)%Z -> (0 <= ep_end st)%Z -> (0 <= ep_end (snd (ep_insert st pos tok len)))%Z.
Proof.
  intros P E. destruct (ep_insert_end st pos tok len) as [-> | ->]; [exact E|]. unfold ep_set_end. lia.
Qed.

Lemma ep_run_nonneg toks : forall st e,
  Forall (fun t => (1 <= tok_pos t)%Z) toks -> (0 <= ep_end st)%Z ->
  ep_run st toks = Some (Some e) -> (0 <= e)%Z.
Proof.
  induction toks as [|[[pos tok] len] r IH]; intros st e F E H; cbn [ep_run] in H; [discriminate|].
  inversion F as [|x l P F']; subst. cbn [tok_pos fst] in P.
  pose proof (ep_insert_end_nonneg st pos tok len P E) as N.
  destruct (ep_insert st pos tok len) as [[| |] st'] eqn:I; cbn [snd] in N.
  - injection H as <-. exact N.
  - discriminate.
  - eapply IH; eauto.
Qed.

(* TemplExpression: for EVERY token stream (positions are token.Pos values of a file of base 1) the answer is
   0 = start <= end <= len(src) *)
Lemma templ_expression_clamped toks srclen s e :
  Forall (fun t => (1 <= tok_pos t)%Z) toks ->
  templ_expression toks srclen = Some (Some (s, e)) ->
  (s = 0 /\ 0 <= e /\ e <= Z.of_nat srclen)%Z.
Proof.
  intros F. unfold templ_expression, scan_result.
  destruct (ep_run ep_new toks) as [[e0|]|] eqn:R; try discriminate.
  intros H. injection H as <- <-.
  pose proof (ep_run_nonneg toks ep_new e0 F ltac:(cbn; lia) R). lia.
Qed.

(* ... so parseGo on it neither panics nor records an unfaithful range *)
Lemma templ_expression_then_parse_go pi toks s e :
  wf pi -> Forall (fun t => (1 <= tok_pos t)%Z) toks ->
  templ_expression toks (length (rest pi)) = Some (Some (s, e)) ->
  exists ex pi', parse_go pi (Z.to_nat s) (Z.to_nat e) = Some (ex, pi') /\ range_ok (in_s pi) ex /\ wf pi' /\
                 in_idx pi' = in_idx pi + Z.to_nat e.
Proof.
  intros W F H. destruct (templ_expression_clamped _ _ _ _ F H) as (A & B & C).
  destruct (parse_go_ok pi (Z.to_nat s) (Z.to_nat e) W ltac:(lia) ltac:(lia)) as (ex & pi' & P & R & _ & _ & W' & _ & I).
  exists ex, pi'. auto.
Qed.

(* the stream go/scanner produces for `func \xcb)` (7 bytes): FUNC at 1, ILLEGAL at 6 with the 3-byte literal
   U+FFFD, RPAREN at 7, then EOF *)
Definition crash_tokens : list gtoken := [(1%Z, GFunc, 4); (6%Z, GOther, 3); (7%Z, GClose 0, 1); (8%Z, GEof, 0)].

(* before 906dd9d: the end lies beyond the source and parseGo's src[start:end] panics; with the clamp it does not *)
Lemma templ_expression_unclamped_refuted :
  exists toks src s e,
    Forall (fun t => (1 <= tok_pos t)%Z) toks /\
    templ_expression_unclamped toks = Some (Some (s, e)) /\ (Z.of_nat (length src) < e)%Z /\
    parse_go (new_input src) (Z.to_nat s) (Z.to_nat e) = None /\
    templ_expression toks (length src) = Some (Some (0%Z, Z.of_nat (length src))).
Proof.
  exists crash_tokens, (bs "func " ++ [xcb] ++ bs ")"), 0%Z, 8%Z.
  split; [repeat constructor; cbn; lia|].
  split; [vm_compute; reflexivity|]. split; [vm_compute; reflexivity|]. split; vm_compute; reflexivity.
Qed.

(* Expression has no clamp: its answer lies inside the input when every token it takes an end from ends inside the
   source - the go/scanner contract on legal tokens (a literal is the source text, possibly without carriage
   returns); ILLEGAL tokens, whose literal can be longer than the text, are an error before they are measured *)
Lemma expr_run_inside srclen toks : forall brace end_ e,
  Forall (fun t => let '(pos, tok, len) := t in
                   expr_sets_end tok = true -> (0 <= expr_tok_end pos tok len <= srclen)%Z) toks ->
  (0 <= end_ <= srclen)%Z ->
  expr_run brace end_ toks = Some (Some e) -> (0 <= e <= srclen)%Z.
Proof.
  induction toks as [|[[pos tok] len] r IH]; intros brace end_ e F E H; cbn [expr_run] in H; [discriminate|].
  inversion F as [|x l P F']; subst. cbn beta iota in P.
  destruct tok; cbn [expr_sets_end expr_tok_end] in P;
    try (eapply IH; [exact F'| |exact H]; first [exact E | apply P; reflexivity]).
  - injection H as <-. exact E.
  - destruct (k =? 1).
    + destruct (brace - 1 <? 0)%Z; [injection H as <-; exact E|].
      eapply IH; [exact F'| |exact H]. apply P; reflexivity.
    + eapply IH; [exact F'| |exact H]. apply P; reflexivity.
  - discriminate.
Qed.

Lemma expression_scan_inside toks srclen s e :
  Forall (fun t => let '(pos, tok, len) := t in
                   expr_sets_end tok = true -> (0 <= expr_tok_end pos tok len <= Z.of_nat srclen)%Z) toks ->
  expression_scan toks = Some (Some (s, e)) ->
  (s = 0 /\ 0 <= e /\ e <= Z.of_nat srclen)%Z.
Proof.
  intros F. unfold expression_scan, scan_result.
  destruct (expr_run 0 0 toks) as [[e0|]|] eqn:R; try discriminate.
  intros H. injection H as <- <-.
  pose proof (expr_run_inside (Z.of_nat srclen) toks 0%Z 0%Z e0 F ltac:(lia) R). lia.
Qed.

Lemma expression_scan_then_parse_go pi toks s e :
  wf pi ->
  Forall (fun t => let '(pos, tok, len) := t in
                   expr_sets_end tok = true -> (0 <= expr_tok_end pos tok len <= Z.of_nat (length (rest pi)))%Z) toks ->
  expression_scan toks = Some (Some (s, e)) ->
  exists ex pi', parse_go pi (Z.to_nat s) (Z.to_nat e) = Some (ex, pi') /\ range_ok (in_s pi) ex /\ wf pi'.
Proof.
  intros W F H. destruct (expression_scan_inside _ _ _ _ F H) as (A & B & C).
  destruct (parse_go_ok pi (Z.to_nat s) (Z.to_nat e) W ltac:(lia) ltac:(lia)) as (ex & pi' & P & R & _ & _ & W' & _).
  exists ex, pi'. auto.
Qed.

(* an ILLEGAL token stops Expression with an error whatever its literal *)
Lemma expression_scan_illegal_is_error pre pos len post :
  Forall (fun t => let '(_, tok, _) := t in
                   match tok with GEof | GIllegal => False | GClose 1 => False | _ => True end) pre ->
  expression_scan (pre ++ (pos, GIllegal, len) :: post) = Some None.
Proof.
  intros F. unfold expression_scan.
  assert (forall brace end_, expr_run brace end_ (pre ++ (pos, GIllegal, len) :: post) = Some None) as ->; [|reflexivity].
  induction pre as [|[[p t] l] r IH]; intros brace end_; cbn [app expr_run]; [reflexivity|].
  inversion F as [|x y P F']; subst. cbn beta iota in P.
  destruct t; try contradiction; try (apply IH; exact F').
  destruct k as [|[|k]]; cbn [Nat.eqb]; try contradiction; apply IH; exact F'.
Qed.
