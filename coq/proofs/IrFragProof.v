(* Proofs about model/IrFrag.v: literal merging is sound, the generated statements mean what the template denotes
   (output, evaluation trace, error position) for ANY expression semantics, and the corollaries that are the
   sentences of property C02. *)
From Coq.Strings Require Import Byte String.
From Coq Require Import List Arith NArith Bool.
Import ListNotations.
From V Require Import lib.Bytes model.Ast model.IrFrag.
Local Open Scope nat_scope.

(* ================= induction principles for the nested types ================= *)
Section FattrInd.
Variable P : fattr -> Prop.
Hypothesis HBC : forall n, P (FBoolConst n).
Hypothesis HC : forall n v, P (FConst n v).
Hypothesis HBE : forall n e, P (FBoolExpr n e).
Hypothesis HE : forall n e, P (FExpr n e).
Hypothesis HU : forall n e, P (FUrl n e).
Hypothesis HSt : forall n e, P (FStyle n e).
Hypothesis HSc : forall n e, P (FScript n e).
Hypothesis HSp : forall e, P (FSpread e).
Hypothesis HCl : forall n e, P (FClass n e).
Hypothesis HCond : forall e th el, Forall P th -> Forall P el -> P (FCond e th el).
Fixpoint fattr_ind' (a : fattr) : P a :=
  let go := fix go (l : list fattr) : Forall P l :=
    match l with [] => Forall_nil P | x :: r => Forall_cons x (fattr_ind' x) (go r) end in
  match a with
  | FBoolConst n => HBC n | FConst n v => HC n v | FBoolExpr n e => HBE n e | FExpr n e => HE n e
  | FUrl n e => HU n e | FStyle n e => HSt n e | FScript n e => HSc n e | FSpread e => HSp e | FClass n e => HCl n e
  | FCond e th el => HCond e th el (go th) (go el)
  end.
End FattrInd.

Definition ForallC {A B} (P : B -> Prop) (l : list (A * list B)) : Prop := Forall (fun p => Forall P (snd p)) l.

Section NdInd.
Variable P : nd -> Prop.
Hypothesis HWs : P Ws.
Hypothesis HText : forall v t, P (Text v t).
Hypothesis HStr : forall e t, P (Str e t).
Hypothesis HElem : forall name b v attrs ch t, Forall P ch -> P (Elem name b v attrs ch t).
Hypothesis HRaw : forall name attrs c, P (Raw name attrs c).
Hypothesis HScript : forall attrs parts, P (Script attrs parts).
Hypothesis HDoc : forall v, P (Doc v).
Hypothesis HComment : forall c, P (Comment c).
Hypothesis HGoComment : P GoComment.
Hypothesis HGoCode : forall e, P (GoCode e).
Hypothesis HIf : forall c th elifs he el, Forall P th -> ForallC P elifs -> Forall P el -> P (If c th elifs he el).
Hypothesis HSwitch : forall e cases, ForallC P cases -> P (Switch e cases).
Hypothesis HFor : forall e body, Forall P body -> P (For e body).
Hypothesis HCall : forall e, P (Call e).
Hypothesis HCallB : forall e ch, Forall P ch -> P (CallB e ch).
Hypothesis HChildren : P Children.
Fixpoint nd_ind' (n : nd) : P n :=
  let go := fix go (l : list nd) : Forall P l :=
    match l with [] => Forall_nil P | x :: r => Forall_cons x (nd_ind' x) (go r) end in
  let gc := fix gc (l : list (expr * list nd)) : ForallC P l :=
    match l with
    | [] => Forall_nil _
    | p :: r => Forall_cons p (match p as p0 return Forall P (snd p0) with (_, b) => go b end) (gc r) end in
  match n with
  | Ws => HWs | Text v t => HText v t | Str e t => HStr e t
  | Elem name b v attrs ch t => HElem name b v attrs ch t (go ch)
  | Raw name attrs c => HRaw name attrs c | Script attrs parts => HScript attrs parts | Doc v => HDoc v | Comment c => HComment c
  | GoComment => HGoComment | GoCode e => HGoCode e
  | If c th elifs he el => HIf c th elifs he el (go th) (gc elifs) (go el)
  | Switch e cases => HSwitch e cases (gc cases)
  | For e body => HFor e body (go body)
  | Call e => HCall e
  | CallB e ch => HCallB e ch (go ch)
  | Children => HChildren
  end.
End NdInd.

Section StmtInd.
Variable P : stmt -> Prop.
Hypothesis HLit : forall s, P (SLit s).
Hypothesis HExpr : forall e, P (SExpr e).
Hypothesis HAttrV : forall k el n e, P (SAttrV k el n e).
Hypothesis HSpread : forall e, P (SSpread e).
Hypothesis HHoist : forall e, P (SClassHoist e).
Hypothesis HUse : forall e, P (SClassUse e).
Hypothesis HSHoist : forall es, P (SScriptHoist es).
Hypothesis HJs : forall i e, P (SJs i e).
Hypothesis HGo : forall e, P (SGo e).
Hypothesis HIf : forall c th elifs he el, Forall P th -> ForallC P elifs -> Forall P el -> P (SIf c th elifs he el).
Hypothesis HSwitch : forall e cases, ForallC P cases -> P (SSwitch e cases).
Hypothesis HFor : forall e body, Forall P body -> P (SFor e body).
Hypothesis HCall : forall e, P (SCall e).
Hypothesis HCallB : forall e body, Forall P body -> P (SCallB e body).
Hypothesis HChildren : P SChildren.
Fixpoint stmt_ind' (s : stmt) : P s :=
  let go := fix go (l : list stmt) : Forall P l :=
    match l with [] => Forall_nil P | x :: r => Forall_cons x (stmt_ind' x) (go r) end in
  let gc := fix gc (l : list (expr * list stmt)) : ForallC P l :=
    match l with
    | [] => Forall_nil _
    | p :: r => Forall_cons p (match p as p0 return Forall P (snd p0) with (_, b) => go b end) (gc r) end in
  match s with
  | SLit a => HLit a | SExpr e => HExpr e | SAttrV k el n e => HAttrV k el n e | SSpread e => HSpread e
  | SClassHoist e => HHoist e | SClassUse e => HUse e | SScriptHoist es => HSHoist es | SJs i e => HJs i e | SGo e => HGo e
  | SIf c th elifs he el => HIf c th elifs he el (go th) (gc elifs) (go el)
  | SSwitch e cases => HSwitch e cases (gc cases)
  | SFor e body => HFor e body (go body)
  | SCall e => HCall e
  | SCallB e body => HCallB e body (go body)
  | SChildren => HChildren
  end.
End StmtInd.

(* ================= results form a monoid under sequencing ================= *)
Lemma andthen_unit_l r : andthen unit_r r = r.
Proof. destruct r as [[o t] p]. reflexivity. Qed.
Lemma andthen_unit_r r : andthen r unit_r = r.
Proof. destruct r as [[o t] [p|]]; [reflexivity|]. cbn. rewrite !app_nil_r. reflexivity. Qed.
Lemma andthen_assoc a b c : andthen (andthen a b) c = andthen a (andthen b c).
Proof.
  destruct a as [[o t] [p|]]; [reflexivity|].
  destruct b as [[o' t'] [p'|]]; [reflexivity|].
  destruct c as [[o'' t''] p'']. cbn. rewrite !app_assoc. reflexivity.
Qed.
Lemma lit_nil : lit [] = unit_r. Proof. reflexivity. Qed.
Lemma andthen_lit_lit a b : andthen (lit a) (lit b) = lit (a ++ b).
Proof. reflexivity. Qed.
Lemma andthen_lit_lit_r a b r : andthen (lit a) (andthen (lit b) r) = andthen (lit (a ++ b)) r.
Proof. rewrite <- andthen_assoc. reflexivity. Qed.
(* nothing runs after an error *)
Lemma andthen_failed a b : err_of a <> None -> andthen a b = a.
Proof. destruct a as [[o t] [p|]]; [reflexivity|]. intros H; exfalso; apply H; reflexivity. Qed.

Lemma seq_list_app {A} (f : A -> res) a b : seq_list f (a ++ b) = andthen (seq_list f a) (seq_list f b).
Proof.
  induction a as [|x r IH]; [symmetry; apply andthen_unit_l|].
  cbn [app seq_list]. fold (seq_list f). rewrite IH, andthen_assoc. reflexivity.
Qed.
Lemma seq_list_ext {A} (f g : A -> res) l : Forall (fun x => f x = g x) l -> seq_list f l = seq_list g l.
Proof. induction 1 as [|x r H _ IH]; [reflexivity|]. cbn [seq_list]. fold (seq_list f) (seq_list g). rewrite H, IH. reflexivity. Qed.
Lemma seq_list_ext_all {A} (f g : A -> res) l : (forall x, f x = g x) -> seq_list f l = seq_list g l.
Proof. intros H. apply seq_list_ext. apply Forall_forall. intros; apply H. Qed.
Lemma seq_list_flat_map {A B} (f : B -> res) (g : A -> list B) l :
  seq_list f (flat_map g l) = seq_list (fun x => seq_list f (g x)) l.
Proof.
  induction l as [|x r IH]; [reflexivity|]. cbn [flat_map]. rewrite seq_list_app, IH. reflexivity.
Qed.
Lemma seq_list_unit {A} (f : A -> res) l : Forall (fun x => f x = unit_r) l -> seq_list f l = unit_r.
Proof. induction 1 as [|x r H _ IH]; [reflexivity|]. cbn [seq_list]. fold (seq_list f). rewrite H, IH. reflexivity. Qed.
Lemma seq_nodes_app {A} (f : A -> option A -> res) a b next :
  seq_nodes f (a ++ b) next = andthen (seq_nodes f a (next_of b next)) (seq_nodes f b next).
Proof.
  induction a as [|x r IH]; [symmetry; apply andthen_unit_l|].
  cbn [app seq_nodes]. fold (seq_nodes f). rewrite IH, andthen_assoc. f_equal. f_equal.
  destruct r; reflexivity.
Qed.

Lemma seq_list_map {A B} (f : B -> res) (g : A -> B) l : seq_list f (map g l) = seq_list (fun x => f (g x)) l.
Proof. induction l as [|x r IH]; [reflexivity|]. cbn [map seq_list]. fold (seq_list f) (seq_list (fun x => f (g x))). rewrite IH. reflexivity. Qed.
Lemma flat_map_map {A B C} (f : B -> C) (g : A -> list B) l : flat_map (fun a => map f (g a)) l = map f (flat_map g l).
Proof. induction l as [|x r IH]; [reflexivity|]. cbn [flat_map]. rewrite map_app, IH. reflexivity. Qed.

Section Proofs.
Variable E : Type.
Variable orc : oracles E.
Variable tc : bool.
Notation escape := (o_escape orc).
Notation eval_bool := (o_bool orc).
Notation EX1 := (exec1 orc tc).
Notation EX := (exec orc tc).
Notation DEN := (denote orc tc).
Notation DENS := (denotes orc tc).
Notation DATTR := (dattr orc tc).
Notation DATTRS := (dattrs orc tc).
Notation CHAIN := (chain orc).
Notation GEN := (gen orc).
Notation GENS := (gens orc).
Notation GATTR := (gattr orc).
Notation GATTRS := (gattrs orc).
Notation xb := (xblock E).
Notation db := (dblock E).

(* ---------- chain / pick under map and extensionality ---------- *)
Lemma chain_map {B C} env (f : C -> res) (g : B -> C) l el :
  CHAIN env f (map (fun p => let '(c, b) := p in (c, g b)) l) el = CHAIN env (fun b => f (g b)) l el.
Proof.
  induction l as [|[c b] r IH]; [reflexivity|]. cbn [map chain]. fold (CHAIN env f) (CHAIN env (fun b => f (g b))).
  rewrite IH. reflexivity.
Qed.
Lemma chain_ext {B C} env (f : B -> res) (g : C -> res) (h : B -> C) l el el' :
  Forall (fun p => f (snd p) = g (h (snd p))) l -> el = el' -> CHAIN env f l el = CHAIN env (fun b => g (h b)) l el'.
Proof.
  intros H ->. induction H as [|[c b] r H _ IH]; [reflexivity|]. cbn [chain]. fold (CHAIN env f) (CHAIN env (fun b => g (h b))).
  cbn [snd] in H. rewrite H, IH. reflexivity.
Qed.
Lemma pick_map {B C} (f : C -> res) (g : B -> C) l i :
  pick f (map (fun p => let '(c, b) := p in (c, g b)) l) i = pick (fun b => f (g b)) l i.
Proof.
  revert i. induction l as [|[c b] r IH]; intros i; [reflexivity|]. cbn [map pick]. fold (pick f) (pick (fun b => f (g b))).
  destruct i; [reflexivity|apply IH].
Qed.
Lemma pick_ext {B} (f g : B -> res) l i :
  Forall (fun p => f (snd p) = g (snd p)) l -> pick f l i = pick g l i.
Proof.
  intros H. revert i. induction H as [|[c b] r H _ IH]; intros i; [reflexivity|]. cbn [pick]. fold (pick f) (pick g).
  destruct i; [exact H|apply IH].
Qed.

(* ---------- basic facts about exec, for any handlers ---------- *)
Section ExecBasics.
Variable xcall : E -> expr -> option xb -> res.
Variable xblk : option xb -> res.
Lemma exec_app env k a b : EX xcall xblk env k (a ++ b) = andthen (EX xcall xblk env k a) (EX xcall xblk env k b).
Proof. apply seq_list_app. Qed.
Lemma exec_cons env k x r : EX xcall xblk env k (x :: r) = andthen (EX1 xcall xblk env k x) (EX xcall xblk env k r).
Proof. reflexivity. Qed.
Lemma exec_nil env k : EX xcall xblk env k [] = unit_r.
Proof. reflexivity. Qed.
Lemma exec_single env k x : EX xcall xblk env k [x] = EX1 xcall xblk env k x.
Proof. rewrite exec_cons, exec_nil, andthen_unit_r. reflexivity. Qed.
Lemma exec_push env k x acc : EX xcall xblk env k (push x acc) = andthen (EX1 xcall xblk env k x) (EX xcall xblk env k acc).
Proof.
  destruct x; try reflexivity. destruct acc as [|[b| | | | | | | | | | | | | |] r]; try reflexivity.
  cbn [push]. rewrite !exec_cons. cbn [exec1]. rewrite andthen_lit_lit_r. reflexivity.
Qed.
Lemma exec_glit env k s : EX xcall xblk env k (glit s) = lit s.
Proof. destruct s; [reflexivity|]. cbn [glit]. apply exec_single. Qed.
Theorem error_stops env k p q : err_of (EX xcall xblk env k p) <> None -> EX xcall xblk env k (p ++ q) = EX xcall xblk env k p.
Proof. intros H. rewrite exec_app. apply andthen_failed, H. Qed.
End ExecBasics.

(* ================= merging literals does not change what runs ================= *)
(* child blocks whose bodies differ only by the merging *)
Inductive CR : option xb -> option xb -> Prop :=
| CR_none : CR None None
| CR_some b e k1 k2 : CR k1 k2 -> CR (Some (XBlk (coalesce b) e k1)) (Some (XBlk b e k2)).

Section Coalesce.
Variable c1 : E -> expr -> option xb -> res.    (* handlers running the merged program *)
Variable r1 : option xb -> res.
Variable c2 : E -> expr -> option xb -> res.    (* handlers running the unmerged program *)
Variable r2 : option xb -> res.
Hypothesis Hc : forall env e b1 b2, CR b1 b2 -> c1 env e b1 = c2 env e b2.
Hypothesis Hr : forall b1 b2, CR b1 b2 -> r1 b1 = r2 b2.

Definition cst_ok (s : stmt) : Prop := forall env k1 k2, CR k1 k2 -> EX1 c1 r1 env k1 (cst s) = EX1 c2 r2 env k2 s.
Lemma coal_sound_list l : Forall cst_ok l ->
  forall env k1 k2, CR k1 k2 -> EX c1 r1 env k1 (coal_with cst l) = EX c2 r2 env k2 l.
Proof.
  induction 1 as [|x r H _ IH]; intros env k1 k2 HK; [reflexivity|].
  cbn [coal_with]. fold (coal_with cst). rewrite exec_push, exec_cons, (H env k1 k2 HK), (IH env k1 k2 HK). reflexivity.
Qed.
Lemma cst_sound s : cst_ok s.
Proof.
  induction s using stmt_ind'; intros env k1 k2 HK; try reflexivity.
  - (* SIf *)
    cbn [cst exec1].
    change (seq_list (fun s => EX1 c1 r1 env k1 s)) with (EX c1 r1 env k1).
    change (seq_list (fun s => EX1 c2 r2 env k2 s)) with (EX c2 r2 env k2).
    rewrite (coal_sound_list th H env k1 k2 HK), (coal_sound_list el H1 env k1 k2 HK).
    f_equal. destruct (eval_bool env c); [reflexivity|].
    rewrite chain_map. apply (chain_ext env _ (EX c2 r2 env k2) (fun b => b)); [|reflexivity].
    eapply Forall_impl; [|exact H0]. intros [c' b] Hb. cbn [snd] in *. apply (coal_sound_list b Hb env k1 k2 HK).
  - (* SSwitch *)
    cbn [cst exec1]. f_equal. rewrite pick_map. apply pick_ext.
    eapply Forall_impl; [|exact H]. intros [c' b] Hb. cbn [snd] in *. apply (coal_sound_list b Hb env k1 k2 HK).
  - (* SFor *)
    cbn [cst exec1]. f_equal. apply seq_list_ext_all. intros env'. apply (coal_sound_list body H env' k1 k2 HK).
  - (* SCall *) cbn [cst exec1]. f_equal. apply Hc. constructor.
  - (* SCallB *) cbn [cst exec1]. f_equal. apply Hc. constructor. exact HK.
  - (* SChildren *) cbn [cst exec1]. apply Hr, HK.
Qed.
Theorem coalesce_sound_rel env k1 k2 p : CR k1 k2 -> EX c1 r1 env k1 (coalesce p) = EX c2 r2 env k2 p.
Proof. intros HK. apply coal_sound_list; [|exact HK]. apply Forall_forall. intros s _. apply cst_sound. Qed.
End Coalesce.

(* ================= the generated statements mean what the template denotes ================= *)
(* guard for the full trace: the hoisted kinds are evaluated in front of the element, so either the trace does not record the
   hoisted evaluations or there are none *)
Definition G (b : bool) : Prop := tc = false \/ b = true.
Lemma G_and a b : G (a && b) -> G a /\ G b.
Proof. intros [H|H]; [split; left; exact H|]. apply andb_prop in H as [H1 H2]. split; right; assumption. Qed.
Lemma G_true : G true. Proof. right; reflexivity. Qed.
Lemma G_exists_cons (x : fattr) r : G (negb (existsb attr_hoisted (x :: r))) -> G (negb (attr_hoisted x)) /\ G (negb (existsb attr_hoisted r)).
Proof. cbn [existsb]. rewrite negb_orb. apply G_and. Qed.
Lemma G_forallb_cons {A} (f : A -> bool) x r : G (forallb f (x :: r)) -> G (f x) /\ G (forallb f r).
Proof. cbn [forallb]. apply G_and. Qed.
Lemma G_cases_cons {B} (f : B -> bool) (c : expr) b r : G (cases_all f ((c, b) :: r)) -> G (f b) /\ G (cases_all f r).
Proof. unfold cases_all. cbn [forallb]. apply G_and. Qed.

(* no hoisted attribute: no class and no script expressions *)
Lemma not_hoisted_nil a : attr_hoisted a = false -> class_exprs a = [] /\ script_exprs a = [].
Proof.
  induction a using fattr_ind'; intros Hh; try (split; reflexivity); try discriminate.
  cbn [attr_hoisted] in Hh. apply orb_false_elim in Hh as [H1 H2]. cbn [class_exprs script_exprs].
  assert (L : forall l, Forall (fun a => attr_hoisted a = false -> class_exprs a = [] /\ script_exprs a = []) l ->
              existsb attr_hoisted l = false -> flat_map class_exprs l = [] /\ flat_map script_exprs l = []).
  { intros l HL. induction HL as [|x r Hx _ IH]; intros Hl; [split; reflexivity|].
    cbn [existsb] in Hl. apply orb_false_elim in Hl as [Ha Hb]. destruct (Hx Ha) as [X1 X2]. destruct (IH Hb) as [Y1 Y2].
    cbn [flat_map]. rewrite X1, X2, Y1, Y2. split; reflexivity. }
  destruct (L th H H1) as [A1 A2]. destruct (L el H0 H2) as [B1 B2]. rewrite A1, A2, B1, B2. split; reflexivity.
Qed.
Lemma not_hoisted_nil_list l : existsb attr_hoisted l = false -> flat_map class_exprs l = [] /\ flat_map script_exprs l = [].
Proof.
  induction l as [|x r IH]; intros Hl; [split; reflexivity|].
  cbn [existsb] in Hl. apply orb_false_elim in Hl as [Ha Hb]. destruct (not_hoisted_nil x Ha) as [X1 X2]. destruct (IH Hb) as [Y1 Y2].
  cbn [flat_map]. rewrite X1, X2, Y1, Y2. split; reflexivity.
Qed.

(* children blocks: the generated (unmerged) form of a lexical block, bodies inside the guard *)
Inductive GR : option xb -> option db -> Prop :=
| GR_none : GR None None
| GR_some body e xk dk : G (forallb hoist_free body) -> GR xk dk -> GR (Some (XBlk (GENS body None) e xk)) (Some (DBlk body e dk)).

Section GenCorrect.
Variable xcall : E -> expr -> option xb -> res.   (* how the generated code's calls and children run *)
Variable xblk : option xb -> res.
Variable dcall : E -> expr -> option db -> res.   (* what the denotation of a call / of a block is *)
Variable dblk : option db -> res.
Hypothesis Hcall : forall env e b1 b2, GR b1 b2 -> xcall env e b1 = dcall env e b2.
Hypothesis Hblk : forall b1 b2, GR b1 b2 -> xblk b1 = dblk b2.
Notation X := (EX xcall xblk).
Notation X1 := (EX1 xcall xblk).
Notation D := (DEN dcall dblk).
Notation DS := (DENS dcall dblk).

Lemma hoists_ok l env k : G (negb (existsb attr_hoisted l)) -> X env k (flat_map hoist l) = css_defs orc env l.
Proof.
  intros HG. unfold hoist, css_defs. rewrite flat_map_map. unfold exec. rewrite seq_list_map.
  destruct HG as [HG|HG].
  - apply seq_list_ext_all. intros e. cbn [exec1]. unfold class_ev. rewrite HG. reflexivity.
  - apply negb_true_iff in HG. destruct (not_hoisted_nil_list l HG) as [H1 _]. rewrite H1. reflexivity.
Qed.
Lemma script_hoist_ok l env k : G (negb (existsb attr_hoisted l)) -> X env k (ghoist_scripts l) = scripts_defs orc env l.
Proof.
  intros HG. unfold ghoist_scripts, scripts_defs, script_defs. destruct (flat_map script_exprs l) as [|e es] eqn:Es; [reflexivity|].
  rewrite exec_single. cbn [exec1]. destruct HG as [HG|HG].
  - unfold hoist_ev. rewrite HG. reflexivity.
  - apply negb_true_iff in HG. destruct (not_hoisted_nil_list l HG) as [_ H2]. rewrite H2 in Es. discriminate.
Qed.

Lemma gexpr_attr_ok env k n v : X env k (gexpr_attr orc n v) = expr_attr orc n (X1 env k v).
Proof. unfold gexpr_attr, expr_attr. rewrite !exec_cons, exec_nil, andthen_unit_r. reflexivity. Qed.

Lemma gattr_correct elem a : G (negb (attr_hoisted a)) -> forall env k, X env k (GATTR elem a) = DATTR env a.
Proof.
  induction a using fattr_ind'; intros HG env k; cbn [gattr dattr]; try (rewrite gexpr_attr_ok; reflexivity); try (apply exec_single).
  - (* FBoolExpr *) rewrite exec_single. cbn [exec1 chain]. f_equal.
    change (seq_list (fun s => X1 env k s)) with (X env k). rewrite exec_single.
    destruct (eval_bool env e); reflexivity.
  - (* FClass *) rewrite gexpr_attr_ok. cbn [exec1].
    destruct HG as [HG|HG]; [|discriminate]. unfold class_ev. rewrite HG. reflexivity.
  - (* FCond *) rewrite exec_single. cbn [exec1 chain]. f_equal.
    change (seq_list (fun s => X1 env k s)) with (X env k).
    cbn [attr_hoisted] in HG. rewrite negb_orb in HG. apply G_and in HG as [G1 G2].
    assert (L : forall l, Forall (fun a => G (negb (attr_hoisted a)) -> forall env k, X env k (GATTR elem a) = DATTR env a) l ->
                G (negb (existsb attr_hoisted l)) -> X env k (flat_map (GATTR elem) l) = seq_list (DATTR env) l).
    { intros l HL. induction HL as [|x r Hx _ IH]; intros HGl; [reflexivity|].
      apply G_exists_cons in HGl as [Ga Gb]. cbn [flat_map seq_list]. fold (seq_list (DATTR env)).
      rewrite exec_app, (Hx Ga env k), (IH Gb). reflexivity. }
    destruct (eval_bool env e); [apply L|apply L]; assumption.
Qed.
Lemma gattrs_correct elem l : G (negb (existsb attr_hoisted l)) -> forall env k, X env k (GATTRS elem l) = DATTRS env l.
Proof.
  intros HG env k. unfold gattrs, dattrs. induction l as [|x r IH]; [reflexivity|].
  apply G_exists_cons in HG as [Ga Gb]. cbn [flat_map seq_list]. fold (seq_list (DATTR env)).
  rewrite exec_app, (gattr_correct elem x Ga env k), (IH Gb). reflexivity.
Qed.
Lemma gparts_correct env k parts : X env k (flat_map gpart parts) = seq_list (dpart orc env) parts.
Proof.
  induction parts as [|p r IH]; [reflexivity|]. cbn [flat_map seq_list]. fold (seq_list (dpart orc env)).
  rewrite exec_app, IH. f_equal. destruct p as [v|e tr i]; cbn [gpart dpart].
  - apply exec_glit.
  - rewrite exec_cons, exec_glit. reflexivity.
Qed.

Definition gen_ok (n : nd) : Prop :=
  G (hoist_free n) -> forall env xk dk next, GR xk dk -> X env xk (GEN n next) = D env dk n next.

Lemma gen_nodes_ok l : Forall gen_ok l -> G (forallb hoist_free l) ->
  forall env xk dk next, GR xk dk -> X env xk (gen_nodes GEN l next) = seq_nodes (fun c nx => D env dk c nx) l next.
Proof.
  induction 1 as [|x r Hx _ IH]; intros HG env xk dk next HK; [reflexivity|].
  apply G_forallb_cons in HG as [Ga Gb].
  cbn [gen_nodes seq_nodes]. fold (gen_nodes GEN) (seq_nodes (fun c nx => D env dk c nx)).
  rewrite exec_app, (Hx Ga env xk dk _ HK), (IH Gb env xk dk _ HK). reflexivity.
Qed.

Theorem gen_correct n : gen_ok n.
Proof.
  induction n using nd_ind'; intros HG env xk dk next HK; unfold gen_ok in *;
    cbn [gen denote]; rewrite exec_app, exec_glit; f_equal; try reflexivity; try (rewrite exec_single; reflexivity).
  - (* Elem *)
    cbn [hoist_free] in HG. apply G_and in HG as [Ga Gc].
    rewrite exec_app, (hoists_ok attrs env xk Ga). f_equal.
    rewrite exec_app, (script_hoist_ok attrs env xk Ga). f_equal.
    rewrite exec_app, exec_single. cbn [exec1]. f_equal.
    rewrite exec_app, (gattrs_correct name attrs Ga env xk). f_equal.
    rewrite exec_app, exec_single. cbn [exec1]. f_equal.
    destruct (v && is_nil ch); [reflexivity|].
    rewrite exec_app, (gen_nodes_ok ch H Gc env xk dk _ HK), exec_single. reflexivity.
  - (* Raw *)
    cbn [hoist_free] in HG.
    rewrite exec_app, (script_hoist_ok attrs env xk HG). f_equal.
    rewrite exec_app, exec_single. cbn [exec1]. f_equal.
    rewrite exec_app, (gattrs_correct name attrs HG env xk). f_equal.
    rewrite !exec_cons, exec_nil. cbn [exec1]. rewrite andthen_unit_r, !andthen_lit_lit. reflexivity.
  - (* Script *)
    cbn [hoist_free] in HG.
    rewrite exec_app, (script_hoist_ok attrs env xk HG). f_equal.
    rewrite exec_app, exec_single. cbn [exec1]. f_equal.
    rewrite exec_app, (gattrs_correct (bs "script") attrs HG env xk). f_equal.
    rewrite exec_app, exec_single. cbn [exec1]. f_equal.
    rewrite exec_app, gparts_correct, exec_single. reflexivity.
  - (* If *)
    cbn [hoist_free] in HG. apply G_and in HG as [HG Ge]. apply G_and in HG as [Gt Gi].
    rewrite exec_single. cbn [exec1]. f_equal.
    change (seq_list (fun s => X1 env xk s)) with (X env xk).
    rewrite (gen_nodes_ok th H Gt env xk dk _ HK), (gen_nodes_ok el H1 Ge env xk dk _ HK).
    destruct (eval_bool env c); [reflexivity|].
    rewrite chain_map. apply (chain_ext env _ (fun b => seq_nodes (fun c nx => D env dk c nx) b next) (fun b => b)); [|reflexivity].
    clear -H0 Gi HK. induction H0 as [|[c' b] r Hb _ IH]; constructor.
    + cbn [snd] in *. apply G_cases_cons in Gi as [Gb _]. apply (gen_nodes_ok b Hb Gb env xk dk _ HK).
    + apply G_cases_cons in Gi as [_ Gr]. apply IH, Gr.
  - (* Switch *)
    cbn [hoist_free] in HG.
    rewrite exec_single. cbn [exec1]. f_equal.
    rewrite pick_map. apply pick_ext.
    clear -H HG HK. induction H as [|[c' b] r Hb _ IH]; constructor.
    + cbn [snd] in *. apply G_cases_cons in HG as [Gb _]. apply (gen_nodes_ok b Hb Gb env xk dk _ HK).
    + apply G_cases_cons in HG as [_ Gr]. apply IH, Gr.
  - (* For *)
    cbn [hoist_free] in HG.
    rewrite exec_single. cbn [exec1]. f_equal.
    apply seq_list_ext_all. intros env'. apply (gen_nodes_ok body H HG env' xk dk _ HK).
  - (* Call *) rewrite exec_single. cbn [exec1]. f_equal. apply Hcall. constructor.
  - (* CallB *) cbn [hoist_free] in HG. rewrite exec_single. cbn [exec1]. f_equal. apply Hcall. constructor; assumption.
  - (* Children *) rewrite exec_single. cbn [exec1]. apply Hblk, HK.
Qed.

Lemma gens_correct l : G (forallb hoist_free l) ->
  forall env xk dk next, GR xk dk -> X env xk (GENS l next) = DS env dk l next.
Proof. intros HG env xk dk next HK. apply gen_nodes_ok; [| exact HG | exact HK]. apply Forall_forall. intros n _. apply gen_correct. Qed.
End GenCorrect.

(* ================= files: calls and child blocks, on fuel ================= *)
Notation CX := (call_x orc tc).
Notation BX := (blk_x orc tc).
Notation CD := (call_d orc tc).
Notation BD := (blk_d orc tc).
Notation XF := (exec_f orc tc).
Notation DF := (denote_f orc tc).

Lemma find_compile tbl k : find (compile orc tbl) k = option_map (fun b => coalesce (GENS b None)) (find tbl k).
Proof.
  induction tbl as [|[k' b] r IH]; [reflexivity|]. cbn [compile map find]. fold (compile orc r).
  destruct (bytes_eqb k k'); [reflexivity|apply IH].
Qed.
Lemma find_compile_raw tbl k : find (compile_raw orc tbl) k = option_map (fun b => GENS b None) (find tbl k).
Proof.
  induction tbl as [|[k' b] r IH]; [reflexivity|]. cbn [compile_raw map find]. fold (compile_raw orc r).
  destruct (bytes_eqb k k'); [reflexivity|apply IH].
Qed.
Lemma find_hoist_free tbl k b : G (tbl_hoist_free tbl) -> find tbl k = Some b -> G (forallb hoist_free b).
Proof.
  induction tbl as [|[k' b'] r IH]; intros HG F; [discriminate|].
  unfold tbl_hoist_free in HG. cbn [forallb] in HG. apply G_and in HG as [Gb Gr]. cbn [find] in F.
  destruct (bytes_eqb k k'); [inversion F; subst; exact Gb|apply IH; assumption].
Qed.

(* the merged file runs as the unmerged one *)
Lemma merged_agree tbl fuel :
  (forall env e b1 b2, CR b1 b2 -> CX (compile orc tbl) fuel env e b1 = CX (compile_raw orc tbl) fuel env e b2) /\
  (forall b1 b2, CR b1 b2 -> BX (compile orc tbl) fuel b1 = BX (compile_raw orc tbl) fuel b2).
Proof.
  induction fuel as [|f [IHc IHb]]; split.
  - intros; reflexivity.
  - intros b1 b2 H. destruct H; reflexivity.
  - intros env e b1 b2 H. cbn [call_x]. destruct (o_comp orc e) as [name|o c|s| |]; try reflexivity.
    + rewrite find_compile, find_compile_raw. destruct (find tbl name) as [body|]; [|reflexivity]. cbn [option_map].
      apply (coalesce_sound_rel _ _ _ _ IHc IHb). exact H.
    + f_equal. f_equal. apply IHb, H.
  - intros b1 b2 H. destruct H as [|b e k1 k2 H]; cbn [blk_x]; [reflexivity|].
    apply (coalesce_sound_rel _ _ _ _ IHc IHb). exact H.
Qed.
(* the unmerged file runs as the templates denote *)
Lemma raw_agree tbl : G (tbl_hoist_free tbl) -> forall fuel,
  (forall env e b1 b2, GR b1 b2 -> CX (compile_raw orc tbl) fuel env e b1 = CD tbl fuel env e b2) /\
  (forall b1 b2, GR b1 b2 -> BX (compile_raw orc tbl) fuel b1 = BD tbl fuel b2).
Proof.
  intros Gt. induction fuel as [|f [IHc IHb]]; split.
  - intros; reflexivity.
  - intros b1 b2 H. destruct H; reflexivity.
  - intros env e b1 b2 H. cbn [call_x call_d]. destruct (o_comp orc e) as [name|o c|s| |]; try reflexivity.
    + rewrite find_compile_raw. destruct (find tbl name) as [body|] eqn:F; [|reflexivity]. cbn [option_map].
      apply (gens_correct _ _ _ _ IHc IHb); [eapply find_hoist_free; eassumption|exact H].
    + f_equal. f_equal. apply IHb, H.
  - intros b1 b2 H. destruct H as [|body e xk dk Gb H]; cbn [blk_x blk_d]; [reflexivity|].
    apply (gens_correct _ _ _ _ IHc IHb); assumption.
Qed.

(* the generated form of a lexical child block *)
Fixpoint raw_blk (b : db) : xb :=
  match b with DBlk body cap k => XBlk (GENS body None) cap (match k with Some k' => Some (raw_blk k') | None => None end) end.
Definition kids_free (k : option db) : bool := match k with Some b => blk_hoist_free b | None => true end.
Fixpoint blk_rel (b : db) : G (blk_hoist_free b) ->
  CR (Some (compile_blk orc b)) (Some (raw_blk b)) /\ GR (Some (raw_blk b)) (Some b).
Proof.
  destruct b as [body cap [k|]]; intros HG; cbn [blk_hoist_free] in HG; apply G_and in HG as [Gb Gk].
  - destruct (blk_rel k Gk) as [C1 G1]. split; cbn [compile_blk raw_blk]; [apply CR_some, C1|apply GR_some; [exact Gb|exact G1]].
  - split; cbn [compile_blk raw_blk]; [apply CR_some, CR_none|apply GR_some; [exact Gb|apply GR_none]].
Qed.
Lemma kids_rel k : G (kids_free k) ->
  CR (option_map (compile_blk orc) k) (option_map raw_blk k) /\ GR (option_map raw_blk k) k.
Proof. destruct k as [b|]; intros HG; [apply blk_rel, HG|split; constructor]. Qed.
Notation XK k := (option_map (compile_blk orc) k).

(* the generated, literal-merged code of a file writes exactly what the templates denote - output, evaluation
   trace and error position - for every expression semantics, every call depth, with any children *)
Theorem generated_code_correct tbl fuel env kids l next :
  G (tbl_hoist_free tbl) -> G (kids_free kids) -> G (forallb hoist_free l) ->
  XF (compile orc tbl) fuel env (XK kids) (coalesce (GENS l next)) = DF tbl fuel env kids l next.
Proof.
  intros Gt Gk Gl. unfold exec_f, denote_f. destruct (kids_rel kids Gk) as [C1 G1].
  destruct (merged_agree tbl fuel) as [Mc Mb]. destruct (raw_agree tbl Gt fuel) as [Rc Rb].
  rewrite (coalesce_sound_rel _ _ _ _ Mc Mb env _ _ _ C1).
  apply (gens_correct _ _ _ _ Rc Rb); assumption.
Qed.
(* merging alone, for a whole file: no guard, any program *)
Fixpoint blk_cr (b : db) : CR (Some (compile_blk orc b)) (Some (raw_blk b)).
Proof. destruct b as [body cap [k|]]; cbn [compile_blk raw_blk]; constructor; [apply blk_cr|constructor]. Qed.
Theorem coalesce_sound tbl fuel env kids p :
  XF (compile orc tbl) fuel env (XK kids) (coalesce p) = XF (compile_raw orc tbl) fuel env (option_map raw_blk kids) p.
Proof.
  unfold exec_f. destruct (merged_agree tbl fuel) as [Mc Mb]. apply (coalesce_sound_rel _ _ _ _ Mc Mb).
  destruct kids as [b|]; [apply blk_cr|constructor].
Qed.

(* ================= corollaries: the sentences of the property ================= *)
Lemma G_app {A} (f : A -> bool) a b : G (forallb f a) -> G (forallb f b) -> G (forallb f (a ++ b)).
Proof.
  intros [H|H]; [left; exact H|]. intros [H'|H']; [left; exact H'|]. right. rewrite forallb_app, H, H'. reflexivity.
Qed.
Lemma G_cons {A} (f : A -> bool) a b : G (f a) -> G (forallb f b) -> G (forallb f (a :: b)).
Proof.
  intros [H|H]; [left; exact H|]. intros [H'|H']; [left; exact H'|]. right. cbn [forallb]. rewrite H, H'. reflexivity.
Qed.

(* sequencing: a node list renders as its parts in source order, and nothing runs after an error *)
Theorem nodes_in_order tbl fuel env kids a b next :
  G (tbl_hoist_free tbl) -> G (kids_free kids) -> G (forallb hoist_free a) -> G (forallb hoist_free b) ->
  XF (compile orc tbl) fuel env (XK kids) (coalesce (GENS (a ++ b) next))
  = andthen (DF tbl fuel env kids a (next_of b next)) (DF tbl fuel env kids b next).
Proof.
  intros Gt Gk Ga Gb. rewrite generated_code_correct; [|exact Gt|exact Gk|apply G_app; assumption].
  unfold denote_f, denotes. apply seq_nodes_app.
Qed.
Theorem str_error tbl fuel env kids e t next :
  o_str orc env e = None ->
  XF (compile orc tbl) fuel env kids (coalesce (GENS [Str e t] next)) = ([], [(KStr, e)], Some (epos_of e)).
Proof.
  intros H. unfold exec_f, coalesce, gens. cbn [gen_nodes gen]. rewrite app_nil_r.
  destruct (trailer (Str e t) next) as [|b r]; cbn [glit app coal_with cst push]; rewrite ?exec_cons; cbn [exec1];
    unfold str_val; rewrite H; reflexivity.
Qed.

(* static markup in source order *)
Lemma static_attrs_denote l a :
  static_attrs escape l = Some a -> (forall env, DATTRS env l = lit a) /\ existsb attr_hoisted l = false.
Proof.
  revert a. induction l as [|x r IH]; intros a H.
  - inversion H. split; reflexivity.
  - cbn [static_attrs] in H. destruct (static_attr escape x) as [xa|] eqn:Hx; [|discriminate].
    destruct (static_attrs escape r) as [ra|] eqn:Hr; [|discriminate]. inversion H; subst.
    destruct (IH ra eq_refl) as [IH1 IH2].
    destruct x; try discriminate; cbn in Hx; inversion Hx; subst;
      (split; [intros env; unfold dattrs; cbn [seq_list]; fold (seq_list (DATTR env));
               change (seq_list (DATTR env) r) with (DATTRS env r); rewrite IH1; reflexivity
              |cbn [existsb attr_hoisted]; exact IH2]).
Qed.
Definition static_ok (n : nd) : Prop :=
  forall next s, static_node escape n next = Some s ->
  hoist_free n = true /\ forall dcall dblk env kids, DEN dcall dblk env kids n next = lit s.
Lemma static_nodes_ok l : Forall static_ok l ->
  forall next s, static_nodes (static_node escape) l next = Some s ->
  forallb hoist_free l = true /\ forall dcall dblk env kids, DENS dcall dblk env kids l next = lit s.
Proof.
  induction 1 as [|x r Hx _ IH]; intros next s H.
  - inversion H. split; reflexivity.
  - cbn [static_nodes] in H. fold (static_nodes (static_node escape)) in H.
    destruct (static_node escape x (next_of r next)) as [xs|] eqn:E1; [|discriminate].
    destruct (static_nodes (static_node escape) r next) as [rs|] eqn:E2; [|discriminate]. inversion H; subst.
    destruct (Hx _ _ E1) as [H1 H2]. destruct (IH _ _ E2) as [H3 H4]. split.
    + cbn [forallb]. rewrite H1, H3. reflexivity.
    + intros dcall dblk env kids. unfold denotes. cbn [seq_nodes]. fold (seq_nodes (fun c nx => DEN dcall dblk env kids c nx)).
      rewrite H2. change (seq_nodes (fun c nx => DEN dcall dblk env kids c nx) r next) with (DENS dcall dblk env kids r next).
      rewrite H4. reflexivity.
Qed.
Lemma no_defs l env : existsb attr_hoisted l = false -> css_defs orc env l = unit_r /\ scripts_defs orc env l = unit_r.
Proof.
  intros H. destruct (not_hoisted_nil_list l H) as [H1 H2]. unfold css_defs, scripts_defs. rewrite H1, H2. split; reflexivity.
Qed.
Lemma static_node_ok n : static_ok n.
Proof.
  induction n using nd_ind'; intros next s Hs; cbn [static_node] in Hs; try discriminate.
  - inversion Hs. split; [reflexivity|]. intros. reflexivity.
  - inversion Hs. split; [reflexivity|]. intros. reflexivity.
  - (* Elem *)
    destruct (static_attrs escape attrs) as [a|] eqn:Ha; [|discriminate].
    destruct (static_nodes (static_node escape) ch None) as [c|] eqn:Hc; [|discriminate].
    cbn [option_map] in Hs. inversion Hs; subst.
    destruct (static_attrs_denote _ _ Ha) as [A1 A2]. destruct (static_nodes_ok _ H _ _ Hc) as [C1 C2]. split.
    + cbn [hoist_free]. rewrite A2, C1. reflexivity.
    + intros dcall dblk env kids. cbn [denote]. destruct (no_defs attrs env A2) as [D1 D2]. rewrite D1, D2, A1, !andthen_unit_l.
      change (seq_nodes (fun c nx => DEN dcall dblk env kids c nx) ch None) with (DENS dcall dblk env kids ch None). rewrite C2.
      unfold sopen, sclose, open_tag, close_tag.
      destruct (v && is_nil ch); cbn; rewrite ?app_nil_r, <- ?app_assoc; reflexivity.
  - (* Raw *)
    destruct (static_attrs escape attrs) as [a|] eqn:Ha; [|discriminate].
    cbn [option_map] in Hs. inversion Hs; subst.
    destruct (static_attrs_denote _ _ Ha) as [A1 A2]. split.
    + cbn [hoist_free]. rewrite A2. reflexivity.
    + intros dcall dblk env kids. cbn [denote]. destruct (no_defs attrs env A2) as [D1 D2]. rewrite D2, A1, !andthen_unit_l.
      unfold sopen, sclose, open_tag, close_tag. cbn; rewrite ?app_nil_r, <- ?app_assoc; reflexivity.
  - inversion Hs. split; [reflexivity|]. intros. reflexivity.
  - inversion Hs. split; [reflexivity|]. intros. reflexivity.
  - inversion Hs. split; [reflexivity|]. intros. reflexivity.
Qed.
Theorem static_in_order tbl fuel env kids l next s :
  G (tbl_hoist_free tbl) -> G (kids_free kids) -> static_render escape l next = Some s ->
  XF (compile orc tbl) fuel env (XK kids) (coalesce (GENS l next)) = lit s.
Proof.
  intros Gt Gk H. unfold static_render in H.
  destruct (static_nodes_ok l (proj2 (Forall_forall _ _) (fun n _ => static_node_ok n)) _ _ H) as [H1 H2].
  rewrite generated_code_correct; [|exact Gt|exact Gk|right; exact H1]. apply H2.
Qed.

(* void elements are not closed *)
Theorem void_unclosed tbl fuel env kids name b attrs t next :
  G (tbl_hoist_free tbl) -> G (kids_free kids) -> G (negb (existsb attr_hoisted attrs)) ->
  XF (compile orc tbl) fuel env (XK kids) (coalesce (GENS [Elem name b true attrs [] t] next))
  = andthen (css_defs orc env attrs) (andthen (scripts_defs orc env attrs)
      (andthen (lit (open_tag orc name)) (andthen (DATTRS env attrs) (lit ([x3e] ++ trailer (Elem name b true attrs [] t) next))))).
Proof.
  intros Gt Gk Ga. rewrite generated_code_correct; [|exact Gt|exact Gk|].
  - unfold denote_f, denotes. cbn [seq_nodes next_of denote andb is_nil].
    rewrite !andthen_unit_r, !andthen_assoc, andthen_lit_lit. reflexivity.
  - destruct Ga as [Ga|Ga]; [left; exact Ga|right]. cbn [forallb hoist_free]. rewrite Ga. reflexivity.
Qed.

(* Go comments are omitted *)
Theorem go_comments_omitted tbl fuel env kids a b next :
  G (tbl_hoist_free tbl) -> G (kids_free kids) -> G (forallb hoist_free a) -> G (forallb hoist_free b) ->
  XF (compile orc tbl) fuel env (XK kids) (coalesce (GENS (a ++ GoComment :: b) next))
  = andthen (DF tbl fuel env kids a (Some GoComment)) (DF tbl fuel env kids b next).
Proof.
  intros Gt Gk Ga Gb. rewrite nodes_in_order; [|exact Gt|exact Gk|exact Ga|apply G_cons; [apply G_true|exact Gb]].
  cbn [next_of]. f_equal. unfold denote_f, denotes. cbn [seq_nodes denote].
  rewrite ?andthen_unit_l. reflexivity.
Qed.

(* attributes: present exactly when their conditions hold; every sink writes its value in its own way *)
Lemma attrs_merged tbl fuel env kids elem l : G (negb (existsb attr_hoisted l)) ->
  XF (compile orc tbl) fuel env (XK kids) (coalesce (GATTRS elem l)) = DATTRS env l.
Proof. intros HG. rewrite coalesce_sound. unfold exec_f. apply gattrs_correct. exact HG. Qed.
Theorem cond_attrs_iff tbl fuel env kids elem c th el :
  G (negb (existsb attr_hoisted th || existsb attr_hoisted el)) ->
  XF (compile orc tbl) fuel env (XK kids) (coalesce (GATTRS elem [FCond c th el]))
  = andthen (evt KBool c) (DATTRS env (if eval_bool env c then th else el)).
Proof.
  intros HG. rewrite attrs_merged.
  - unfold dattrs. cbn [seq_list dattr]. rewrite andthen_unit_r. destruct (eval_bool env c); reflexivity.
  - cbn [existsb attr_hoisted]. rewrite orb_false_r. exact HG.
Qed.
Theorem bool_attr_iff tbl fuel env kids elem n e :
  XF (compile orc tbl) fuel env (XK kids) (coalesce (GATTRS elem [FBoolExpr n e]))
  = andthen (evt KBool e) (if eval_bool env e then lit ([x20] ++ escape n) else unit_r).
Proof. rewrite attrs_merged; [|apply G_true]. unfold dattrs. cbn [seq_list dattr]. apply andthen_unit_r. Qed.
(* the value of an expression attribute, by sink: name="value" where value is ... *)
Theorem expr_attr_default tbl fuel env kids elem n e :
  XF (compile orc tbl) fuel env (XK kids) (coalesce (GATTRS elem [FExpr n e]))
  = expr_attr orc n (val_or_err KStr e (option_map escape (o_str orc env e))).        (* escaped; an error stops the rendering *)
Proof. rewrite attrs_merged; [|apply G_true]. unfold dattrs. cbn [seq_list dattr]. apply andthen_unit_r. Qed.
Theorem expr_attr_url tbl fuel env kids elem n e :
  XF (compile orc tbl) fuel env (XK kids) (coalesce (GATTRS elem [FUrl n e]))
  = expr_attr orc n (escape (o_url orc env e), [(KUrl, e)], None).                     (* the SafeURL, escaped *)
Proof. rewrite attrs_merged; [|apply G_true]. unfold dattrs. cbn [seq_list dattr]. apply andthen_unit_r. Qed.
Theorem expr_attr_style tbl fuel env kids elem n e :
  XF (compile orc tbl) fuel env (XK kids) (coalesce (GATTRS elem [FStyle n e]))
  = expr_attr orc n (val_or_err KStyle e (o_style orc env e)).                         (* the sanitised value as returned; error stops *)
Proof. rewrite attrs_merged; [|apply G_true]. unfold dattrs. cbn [seq_list dattr]. apply andthen_unit_r. Qed.
Theorem spread_attr tbl fuel env kids elem e :
  XF (compile orc tbl) fuel env (XK kids) (coalesce (GATTRS elem [FSpread e])) = (o_spread orc env e, [(KSpread, e)], None).
Proof. rewrite attrs_merged; [|apply G_true]. unfold dattrs. cbn [seq_list dattr]. apply andthen_unit_r. Qed.
(* an on* attribute writes the script's call, unescaped; (its evaluation for RenderScriptItems is the hoisted one) *)
Theorem expr_attr_script tbl fuel env kids elem n e :
  tc = false ->
  XF (compile orc tbl) fuel env (XK kids) (coalesce (GATTRS elem [FScript n e]))
  = expr_attr orc n (o_script_call orc env e, [(KScript, e)], None).
Proof. intros H. rewrite attrs_merged; [|left; exact H]. unfold dattrs. cbn [seq_list dattr]. apply andthen_unit_r. Qed.

(* whitespace is only normalised *)
Lemma trailer_none n : trailer n None = [].
Proof. unfold trailer. destruct (trail_of n) as [[| |]|]; try reflexivity; rewrite andb_false_r; reflexivity. Qed.
Lemma denote_split dcall dblk env kids a nx t :
  trail_of a = Some t -> DEN dcall dblk env kids a nx = andthen (DEN dcall dblk env kids a None) (lit (trailer a nx)).
Proof.
  destruct a; try discriminate; intros _; cbn [denote]; rewrite trailer_none, lit_nil, andthen_unit_r; reflexivity.
Qed.
Theorem ws_not_invented tbl fuel env kids a b next :
  G (tbl_hoist_free tbl) -> G (kids_free kids) -> G (hoist_free a) -> G (hoist_free b) ->
  trail_of a = Some SpNone ->
  XF (compile orc tbl) fuel env (XK kids) (coalesce (GENS [a; b] next))
  = andthen (DF tbl fuel env kids [a] None) (DF tbl fuel env kids [b] next).
Proof.
  intros Gt Gk Ga Gb H. rewrite generated_code_correct; [|exact Gt|exact Gk|apply G_cons; [exact Ga|apply G_cons; [exact Gb|apply G_true]]].
  unfold denote_f, denotes. cbn [seq_nodes next_of]. rewrite !andthen_unit_r.
  rewrite (denote_split _ _ env kids a (Some b) SpNone H). unfold trailer at 1. rewrite H, lit_nil, andthen_unit_r. reflexivity.
Qed.
Theorem ws_not_lost tbl fuel env kids a b next t :
  G (tbl_hoist_free tbl) -> G (kids_free kids) -> G (hoist_free a) -> G (hoist_free b) ->
  trail_of a = Some t -> t <> SpNone -> inline (Some a) = true -> inline (Some b) = true ->
  XF (compile orc tbl) fuel env (XK kids) (coalesce (GENS [a; b] next))
  = andthen (DF tbl fuel env kids [a] None) (andthen (lit [x20]) (DF tbl fuel env kids [b] next)).
Proof.
  intros Gt Gk Ga Gb H Ht Ia Ib. rewrite generated_code_correct; [|exact Gt|exact Gk|apply G_cons; [exact Ga|apply G_cons; [exact Gb|apply G_true]]].
  unfold denote_f, denotes. cbn [seq_nodes next_of]. rewrite !andthen_unit_r.
  rewrite (denote_split _ _ env kids a (Some b) t H). unfold trailer at 1. rewrite H, Ia, Ib.
  destruct t; [contradiction| |]; cbn [andb]; rewrite andthen_assoc; reflexivity.
Qed.
(* ... and a block-level neighbour gets no space *)
Theorem ws_block_no_space tbl fuel env kids a b next :
  G (tbl_hoist_free tbl) -> G (kids_free kids) -> G (hoist_free a) -> G (hoist_free b) ->
  inline (Some a) && inline (Some b) = false ->
  (exists t, trail_of a = Some t) ->
  XF (compile orc tbl) fuel env (XK kids) (coalesce (GENS [a; b] next))
  = andthen (DF tbl fuel env kids [a] None) (DF tbl fuel env kids [b] next).
Proof.
  intros Gt Gk Ga Gb Hi [t H]. rewrite generated_code_correct; [|exact Gt|exact Gk|apply G_cons; [exact Ga|apply G_cons; [exact Gb|apply G_true]]].
  unfold denote_f, denotes. cbn [seq_nodes next_of]. rewrite !andthen_unit_r.
  rewrite (denote_split _ _ env kids a (Some b) t H). unfold trailer at 1. rewrite H, Hi.
  destruct t; rewrite lit_nil, andthen_unit_r; reflexivity.
Qed.

(* expressions are evaluated only where control flow reaches them *)
Theorem eval_only_where_reached tbl fuel env kids l next :
  G (tbl_hoist_free tbl) -> G (kids_free kids) -> G (forallb hoist_free l) ->
  trace_of (XF (compile orc tbl) fuel env (XK kids) (coalesce (GENS l next))) = trace_of (DF tbl fuel env kids l next).
Proof. intros Gt Gk Gl. rewrite generated_code_correct by assumption. reflexivity. Qed.
Theorem untaken_branch_silent tbl fuel env kids c th next :
  eval_bool env c = false ->
  XF (compile orc tbl) fuel env kids (coalesce (GENS [If c th [] false []] next)) = evt KBool c.
Proof.
  intros H. unfold exec_f, coalesce, gens. cbn [gen_nodes gen map trailer trail_of glit app coal_with cst push].
  rewrite exec_single. cbn [exec1 chain]. rewrite H. reflexivity.
Qed.

(* ---------- component calls, child blocks, the children slot ---------- *)
Lemma single_call dcall dblk env kids n next : trail_of n = None ->
  DENS dcall dblk env kids [n] next = DEN dcall dblk env kids n next.
Proof. intros _. unfold denotes. cbn [seq_nodes]. apply andthen_unit_r. Qed.
Lemma den_trail_none dcall dblk env kids n next r :
  trail_of n = None -> DEN dcall dblk env kids n next = andthen r (lit (trailer n next)) -> DEN dcall dblk env kids n next = r.
Proof. intros H E0. rewrite E0. unfold trailer. rewrite H, lit_nil. apply andthen_unit_r. Qed.
(* a block call of a template of the file: the callee's body runs in the callee's environment, and the block - a lexical
   closure: the caller's environment and the caller's own children - is what its { children... } renders *)
Theorem call_with_block_template tbl fuel env kids e ch next name body :
  G (tbl_hoist_free tbl) -> G (kids_free kids) -> G (forallb hoist_free ch) ->
  o_comp orc e = KTempl name -> find tbl name = Some body ->
  XF (compile orc tbl) (S fuel) env (XK kids) (coalesce (GENS [CallB e ch] next))
  = andthen (evt KCall e) (DF tbl fuel (o_call_env orc env e) (Some (DBlk ch env kids)) body None).
Proof.
  intros Gt Gk Gc Hc Hf. rewrite generated_code_correct; [|exact Gt|exact Gk|].
  - unfold denote_f. rewrite single_call by reflexivity. cbn [denote trailer trail_of]. rewrite lit_nil, andthen_unit_r.
    f_equal. cbn [call_d]. rewrite Hc, Hf. reflexivity.
  - destruct Gc as [Gc|Gc]; [left; exact Gc|right]. cbn [forallb hoist_free]. rewrite Gc. reflexivity.
Qed.
(* { children... } renders the block in the environment, and with the children, of the place where it was written *)
Theorem children_render_the_block tbl fuel env ch cap k next :
  G (tbl_hoist_free tbl) -> G (kids_free (Some (DBlk ch cap k))) ->
  XF (compile orc tbl) (S fuel) env (XK (Some (DBlk ch cap k))) (coalesce (GENS [Children] next))
  = DF tbl fuel cap k ch None.
Proof.
  intros Gt Gk. rewrite generated_code_correct; [|exact Gt|exact Gk|apply G_true].
  unfold denote_f. rewrite single_call by reflexivity. cbn [denote trailer trail_of]. rewrite lit_nil, andthen_unit_r.
  reflexivity.
Qed.
(* a call without a block hands no children over; without children { children... } renders nothing *)
Theorem no_block_no_children tbl fuel env kids e next name body :
  G (tbl_hoist_free tbl) -> G (kids_free kids) ->
  o_comp orc e = KTempl name -> find tbl name = Some body ->
  XF (compile orc tbl) (S fuel) env (XK kids) (coalesce (GENS [Call e] next))
  = andthen (evt KCall e) (DF tbl fuel (o_call_env orc env e) None body None).
Proof.
  intros Gt Gk Hc Hf. rewrite generated_code_correct; [|exact Gt|exact Gk|apply G_true].
  unfold denote_f. rewrite single_call by reflexivity. cbn [denote trailer trail_of]. rewrite lit_nil, andthen_unit_r.
  f_equal. cbn [call_d]. rewrite Hc, Hf. reflexivity.
Qed.
Theorem children_none_empty tbl fuel env next :
  XF (compile orc tbl) fuel env None (coalesce (GENS [Children] next)) = unit_r.
Proof.
  unfold exec_f, coalesce, gens. cbn [gen_nodes gen trailer trail_of glit app coal_with cst push]. rewrite exec_single.
  cbn [exec1]. destruct fuel; reflexivity.
Qed.
(* hand-written components: a wrapper renders the block it was given between its own output; an opaque one ignores it *)
Theorem call_with_block_wrapper tbl fuel env kids e ch next o c :
  G (tbl_hoist_free tbl) -> G (kids_free kids) -> G (forallb hoist_free ch) ->
  o_comp orc e = KWrap o c ->
  XF (compile orc tbl) (S (S fuel)) env (XK kids) (coalesce (GENS [CallB e ch] next))
  = andthen (evt KCall e) (andthen (lit o) (andthen (DF tbl fuel env kids ch None) (lit c))).
Proof.
  intros Gt Gk Gc Hc. rewrite generated_code_correct; [|exact Gt|exact Gk|].
  - unfold denote_f. rewrite single_call by reflexivity. cbn [denote trailer trail_of]. rewrite lit_nil, andthen_unit_r.
    f_equal. cbn [call_d]. rewrite Hc. reflexivity.
  - destruct Gc as [Gc|Gc]; [left; exact Gc|right]. cbn [forallb hoist_free]. rewrite Gc. reflexivity.
Qed.
Theorem call_with_block_opaque tbl fuel env kids e ch next s :
  G (tbl_hoist_free tbl) -> G (kids_free kids) -> G (forallb hoist_free ch) ->
  o_comp orc e = KOpaque s ->
  XF (compile orc tbl) (S fuel) env (XK kids) (coalesce (GENS [CallB e ch] next)) = andthen (evt KCall e) (lit s).
Proof.
  intros Gt Gk Gc Hc. rewrite generated_code_correct; [|exact Gt|exact Gk|].
  - unfold denote_f. rewrite single_call by reflexivity. cbn [denote trailer trail_of]. rewrite lit_nil, andthen_unit_r.
    f_equal. cbn [call_d]. rewrite Hc. reflexivity.
  - destruct Gc as [Gc|Gc]; [left; exact Gc|right]. cbn [forallb hoist_free]. rewrite Gc. reflexivity.
Qed.
End Proofs.
Arguments raw_blk {E}. Arguments kids_free {E}.
