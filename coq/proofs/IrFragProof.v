(* Proofs about model/IrFrag.v: literal merging is sound, the generated statements mean what the template denotes
   (output, evaluation trace, error position) for ANY expression semantics, and the corollaries that are the
   sentences of property C02. *)
From Coq.Strings Require Import Byte String.
From Coq Require Import List Arith NArith Bool.
Import ListNotations.
From V Require Import lib.Bytes model.Ast model.IrFrag.
Local Open Scope nat_scope.

(* ================= induction principles for the nested types ================= *)
Section FattrInd.
Variable P : fattr -> Prop.
Hypothesis HBC : forall n, P (FBoolConst n).
Hypothesis HC : forall n v, P (FConst n v).
Hypothesis HBE : forall n e, P (FBoolExpr n e).
Hypothesis HE : forall n e, P (FExpr n e).
Hypothesis HCl : forall n e, P (FClass n e).
Hypothesis HCond : forall e th el, Forall P th -> Forall P el -> P (FCond e th el).
Fixpoint fattr_ind' (a : fattr) : P a :=
  let go := fix go (l : list fattr) : Forall P l :=
    match l with [] => Forall_nil P | x :: r => Forall_cons x (fattr_ind' x) (go r) end in
  match a with
  | FBoolConst n => HBC n | FConst n v => HC n v | FBoolExpr n e => HBE n e | FExpr n e => HE n e | FClass n e => HCl n e
  | FCond e th el => HCond e th el (go th) (go el)
  end.
End FattrInd.

Definition ForallC {A B} (P : B -> Prop) (l : list (A * list B)) : Prop := Forall (fun p => Forall P (snd p)) l.

Section NdInd.
Variable P : nd -> Prop.
Hypothesis HWs : P Ws.
Hypothesis HText : forall v t, P (Text v t).
Hypothesis HStr : forall e t, P (Str e t).
Hypothesis HElem : forall name b v attrs ch t, Forall P ch -> P (Elem name b v attrs ch t).
Hypothesis HRaw : forall name attrs c, P (Raw name attrs c).
Hypothesis HDoc : forall v, P (Doc v).
Hypothesis HComment : forall c, P (Comment c).
Hypothesis HGoComment : P GoComment.
Hypothesis HGoCode : forall e, P (GoCode e).
Hypothesis HIf : forall c th elifs he el, Forall P th -> ForallC P elifs -> Forall P el -> P (If c th elifs he el).
Hypothesis HSwitch : forall e cases, ForallC P cases -> P (Switch e cases).
Hypothesis HFor : forall e body, Forall P body -> P (For e body).
Hypothesis HCall : forall e, P (Call e).
Fixpoint nd_ind' (n : nd) : P n :=
  let go := fix go (l : list nd) : Forall P l :=
    match l with [] => Forall_nil P | x :: r => Forall_cons x (nd_ind' x) (go r) end in
  let gc := fix gc (l : list (expr * list nd)) : ForallC P l :=
    match l with
    | [] => Forall_nil _
    | p :: r => Forall_cons p (match p as p0 return Forall P (snd p0) with (_, b) => go b end) (gc r) end in
  match n with
  | Ws => HWs | Text v t => HText v t | Str e t => HStr e t
  | Elem name b v attrs ch t => HElem name b v attrs ch t (go ch)
  | Raw name attrs c => HRaw name attrs c | Doc v => HDoc v | Comment c => HComment c
  | GoComment => HGoComment | GoCode e => HGoCode e
  | If c th elifs he el => HIf c th elifs he el (go th) (gc elifs) (go el)
  | Switch e cases => HSwitch e cases (gc cases)
  | For e body => HFor e body (go body)
  | Call e => HCall e
  end.
End NdInd.

Section StmtInd.
Variable P : stmt -> Prop.
Hypothesis HLit : forall s, P (SLit s).
Hypothesis HExpr : forall e, P (SExpr e).
Hypothesis HAttrV : forall el n e, P (SAttrV el n e).
Hypothesis HHoist : forall e, P (SClassHoist e).
Hypothesis HUse : forall e, P (SClassUse e).
Hypothesis HGo : forall e, P (SGo e).
Hypothesis HIf : forall c th elifs he el, Forall P th -> ForallC P elifs -> Forall P el -> P (SIf c th elifs he el).
Hypothesis HSwitch : forall e cases, ForallC P cases -> P (SSwitch e cases).
Hypothesis HFor : forall e body, Forall P body -> P (SFor e body).
Hypothesis HCall : forall e, P (SCall e).
Fixpoint stmt_ind' (s : stmt) : P s :=
  let go := fix go (l : list stmt) : Forall P l :=
    match l with [] => Forall_nil P | x :: r => Forall_cons x (stmt_ind' x) (go r) end in
  let gc := fix gc (l : list (expr * list stmt)) : ForallC P l :=
    match l with
    | [] => Forall_nil _
    | p :: r => Forall_cons p (match p as p0 return Forall P (snd p0) with (_, b) => go b end) (gc r) end in
  match s with
  | SLit a => HLit a | SExpr e => HExpr e | SAttrV el n e => HAttrV el n e | SClassHoist e => HHoist e
  | SClassUse e => HUse e | SGo e => HGo e
  | SIf c th elifs he el => HIf c th elifs he el (go th) (gc elifs) (go el)
  | SSwitch e cases => HSwitch e cases (gc cases)
  | SFor e body => HFor e body (go body)
  | SCall e => HCall e
  end.
End StmtInd.

(* ================= results form a monoid under sequencing ================= *)
Lemma andthen_unit_l r : andthen unit_r r = r.
Proof. destruct r as [[o t] p]. reflexivity. Qed.
Lemma andthen_unit_r r : andthen r unit_r = r.
Proof. destruct r as [[o t] [p|]]; [reflexivity|]. cbn. rewrite !app_nil_r. reflexivity. Qed.
Lemma andthen_assoc a b c : andthen (andthen a b) c = andthen a (andthen b c).
Proof.
  destruct a as [[o t] [p|]]; [reflexivity|].
  destruct b as [[o' t'] [p'|]]; [reflexivity|].
  destruct c as [[o'' t''] p'']. cbn. rewrite !app_assoc. reflexivity.
Qed.
Lemma lit_nil : lit [] = unit_r. Proof. reflexivity. Qed.
Lemma andthen_lit_lit a b : andthen (lit a) (lit b) = lit (a ++ b).
Proof. reflexivity. Qed.
Lemma andthen_lit_lit_r a b r : andthen (lit a) (andthen (lit b) r) = andthen (lit (a ++ b)) r.
Proof. rewrite <- andthen_assoc. reflexivity. Qed.
(* nothing runs after an error *)
Lemma andthen_failed a b : err_of a <> None -> andthen a b = a.
Proof. destruct a as [[o t] [p|]]; [reflexivity|]. intros H; exfalso; apply H; reflexivity. Qed.

Lemma seq_list_app {A} (f : A -> res) a b : seq_list f (a ++ b) = andthen (seq_list f a) (seq_list f b).
Proof.
  induction a as [|x r IH]; [symmetry; apply andthen_unit_l|].
  cbn [app seq_list]. fold (seq_list f). rewrite IH, andthen_assoc. reflexivity.
Qed.
Lemma seq_list_ext {A} (f g : A -> res) l : Forall (fun x => f x = g x) l -> seq_list f l = seq_list g l.
Proof. induction 1 as [|x r H _ IH]; [reflexivity|]. cbn [seq_list]. fold (seq_list f) (seq_list g). rewrite H, IH. reflexivity. Qed.
Lemma seq_list_ext_all {A} (f g : A -> res) l : (forall x, f x = g x) -> seq_list f l = seq_list g l.
Proof. intros H. apply seq_list_ext. apply Forall_forall. intros; apply H. Qed.
Lemma seq_list_flat_map {A B} (f : B -> res) (g : A -> list B) l :
  seq_list f (flat_map g l) = seq_list (fun x => seq_list f (g x)) l.
Proof.
  induction l as [|x r IH]; [reflexivity|]. cbn [flat_map]. rewrite seq_list_app, IH. reflexivity.
Qed.
Lemma seq_list_unit {A} (f : A -> res) l : Forall (fun x => f x = unit_r) l -> seq_list f l = unit_r.
Proof. induction 1 as [|x r H _ IH]; [reflexivity|]. cbn [seq_list]. fold (seq_list f). rewrite H, IH. reflexivity. Qed.
Lemma seq_nodes_app {A} (f : A -> option A -> res) a b next :
  seq_nodes f (a ++ b) next = andthen (seq_nodes f a (next_of b next)) (seq_nodes f b next).
Proof.
  induction a as [|x r IH]; [symmetry; apply andthen_unit_l|].
  cbn [app seq_nodes]. fold (seq_nodes f). rewrite IH, andthen_assoc. f_equal. f_equal.
  destruct r; reflexivity.
Qed.

Section Proofs.
Variable E : Type.
Variable escape : bytes -> bytes.
Variable eval_str : E -> expr -> option bytes.
Variable eval_bool : E -> expr -> bool.
Variable eval_for : E -> expr -> list E.
Variable eval_sw : E -> expr -> nat.
Variable eval_class : E -> expr -> bytes.
Variable callee : expr -> bytes.
Variable call_env : E -> expr -> E.
Variable tc : bool.
Notation EX1 := (exec1 E escape eval_str eval_bool eval_for eval_sw eval_class tc).
Notation EX := (exec E escape eval_str eval_bool eval_for eval_sw eval_class tc).
Notation DEN := (denote E escape eval_str eval_bool eval_for eval_sw eval_class tc).
Notation DENS := (denotes E escape eval_str eval_bool eval_for eval_sw eval_class tc).
Notation DATTR := (dattr E escape eval_str eval_bool eval_class tc).
Notation DATTRS := (dattrs E escape eval_str eval_bool eval_class tc).
Notation CHAIN := (chain E eval_bool).
Notation GEN := (gen escape).
Notation GENS := (gens escape).
Notation GATTR := (gattr escape).
Notation GATTRS := (gattrs escape).
Notation SV := (str_val E escape eval_str).

(* ---------- chain / pick under map and extensionality ---------- *)
Lemma chain_map {B C} env (f : C -> res) (g : B -> C) l el :
  CHAIN env f (map (fun p => let '(c, b) := p in (c, g b)) l) el = CHAIN env (fun b => f (g b)) l el.
Proof.
  induction l as [|[c b] r IH]; [reflexivity|]. cbn [map chain]. fold (CHAIN env f) (CHAIN env (fun b => f (g b))).
  rewrite IH. reflexivity.
Qed.
Lemma chain_ext {B} env (f g : B -> res) l el el' :
  Forall (fun p => f (snd p) = g (snd p)) l -> el = el' -> CHAIN env f l el = CHAIN env g l el'.
Proof.
  intros H ->. induction H as [|[c b] r H _ IH]; [reflexivity|]. cbn [chain]. fold (CHAIN env f) (CHAIN env g).
  cbn [snd] in H. rewrite H, IH. reflexivity.
Qed.
Lemma pick_map {B C} (f : C -> res) (g : B -> C) l i :
  pick f (map (fun p => let '(c, b) := p in (c, g b)) l) i = pick (fun b => f (g b)) l i.
Proof.
  revert i. induction l as [|[c b] r IH]; intros i; [reflexivity|]. cbn [map pick]. fold (pick f) (pick (fun b => f (g b))).
  destruct i; [reflexivity|apply IH].
Qed.
Lemma pick_ext {B} (f g : B -> res) l i :
  Forall (fun p => f (snd p) = g (snd p)) l -> pick f l i = pick g l i.
Proof.
  intros H. revert i. induction H as [|[c b] r H _ IH]; intros i; [reflexivity|]. cbn [pick]. fold (pick f) (pick g).
  destruct i; [exact H|apply IH].
Qed.

Section WithCall.
Variable call : E -> expr -> res.

Lemma exec_app env a b : EX call env (a ++ b) = andthen (EX call env a) (EX call env b).
Proof. apply seq_list_app. Qed.
Lemma exec_cons env x r : EX call env (x :: r) = andthen (EX1 call env x) (EX call env r).
Proof. reflexivity. Qed.
Lemma exec_nil env : EX call env [] = unit_r.
Proof. reflexivity. Qed.
Lemma exec_single env x : EX call env [x] = EX1 call env x.
Proof. rewrite exec_cons, exec_nil, andthen_unit_r. reflexivity. Qed.
Lemma exec_push env x acc : EX call env (push x acc) = andthen (EX1 call env x) (EX call env acc).
Proof.
  destruct x; try reflexivity. destruct acc as [|[b| | | | | | | | |] r]; try reflexivity.
  cbn [push]. rewrite !exec_cons. cbn [exec1]. rewrite andthen_lit_lit_r. reflexivity.
Qed.

(* ================= merging literals does not change what runs ================= *)
Lemma coal_sound_list l :
  Forall (fun s => forall env, EX1 call env (cst s) = EX1 call env s) l ->
  forall env, EX call env (coal_with cst l) = EX call env l.
Proof.
  induction 1 as [|x r H _ IH]; intros env; [reflexivity|].
  cbn [coal_with]. fold (coal_with cst). rewrite exec_push, exec_cons, H, IH. reflexivity.
Qed.
Lemma cst_sound s : forall env, EX1 call env (cst s) = EX1 call env s.
Proof.
  induction s using stmt_ind'; intros env; try reflexivity.
  - (* SIf *)
    cbn [cst exec1]. fold (EX call env).
    change (seq_list (fun s => EX1 call env s)) with (EX call env).
    rewrite (coal_sound_list th H env), (coal_sound_list el H1 env).
    f_equal. destruct (eval_bool env c); [reflexivity|].
    rewrite chain_map. apply chain_ext; [|reflexivity].
    eapply Forall_impl; [|exact H0]. intros [c' b] Hb. cbn [snd] in *. apply (coal_sound_list b Hb env).
  - (* SSwitch *)
    cbn [cst exec1]. f_equal. rewrite pick_map. apply pick_ext.
    eapply Forall_impl; [|exact H]. intros [c' b] Hb. cbn [snd] in *. apply (coal_sound_list b Hb env).
  - (* SFor *)
    cbn [cst exec1]. f_equal. apply seq_list_ext_all. intros env'. apply (coal_sound_list body H env').
Qed.
Theorem coalesce_sound env p : EX call env (coalesce p) = EX call env p.
Proof. apply coal_sound_list. apply Forall_forall. intros s _. apply cst_sound. Qed.

End WithCall.

(* ================= the generated statements mean what the template denotes ================= *)
Section GenCorrect.
Variable call : E -> expr -> res.      (* how the generated code's calls run *)
Variable call' : E -> expr -> res.     (* what the denotation of a call is *)
Hypothesis Hcall : forall env e, call env e = call' env e.
(* guard for the full trace: class expressions are hoisted, so either the trace does not record them or there are none *)
Definition G (b : bool) : Prop := tc = false \/ b = true.
Lemma G_and a b : G (a && b) -> G a /\ G b.
Proof. intros [H|H]; [split; left; exact H|]. apply andb_prop in H as [H1 H2]. split; right; assumption. Qed.

Lemma exec_glit env s : EX call env (glit s) = lit s.
Proof. destruct s; [reflexivity|]. cbn [glit]. rewrite exec_cons, exec_nil, andthen_unit_r. reflexivity. Qed.

Lemma G_exists_cons (x : fattr) r : G (negb (existsb attr_has_class (x :: r))) -> G (negb (attr_has_class x)) /\ G (negb (existsb attr_has_class r)).
Proof. cbn [existsb]. rewrite negb_orb. apply G_and. Qed.
Lemma hoist_unit_list env l :
  Forall (fun a => G (negb (attr_has_class a)) -> forall env, EX call env (hoist a) = unit_r) l ->
  G (negb (existsb attr_has_class l)) -> Forall (fun x => seq_list (fun s => EX1 call env s) (hoist x) = unit_r) l.
Proof.
  induction 1 as [|x r Hx _ IH]; intros HG; constructor; apply G_exists_cons in HG as [Ga Gb].
  - apply (Hx Ga env).
  - apply IH, Gb.
Qed.
Lemma hoist_unit a : G (negb (attr_has_class a)) -> forall env, EX call env (hoist a) = unit_r.
Proof.
  induction a using fattr_ind'; intros HG env; try reflexivity.
  - (* FClass *) destruct HG as [HG|HG]; [|discriminate]. cbn. unfold class_ev. rewrite HG. reflexivity.
  - (* FCond *)
    cbn [hoist]. rewrite exec_app. unfold exec. rewrite !seq_list_flat_map.
    cbn [attr_has_class] in HG. rewrite negb_orb in HG. apply G_and in HG as [G1 G2].
    rewrite !seq_list_unit; [reflexivity| |]; apply hoist_unit_list; assumption.
Qed.
Lemma hoists_unit l : G (negb (existsb attr_has_class l)) -> forall env, EX call env (flat_map hoist l) = unit_r.
Proof.
  intros HG env. unfold exec. rewrite seq_list_flat_map. apply seq_list_unit.
  induction l as [|x r IH]; constructor.
  - apply hoist_unit. cbn [existsb] in HG. rewrite negb_orb in HG. apply G_and in HG. apply HG.
  - apply IH. cbn [existsb] in HG. rewrite negb_orb in HG. apply G_and in HG. apply HG.
Qed.


Lemma gattr_correct elem a : G (negb (attr_has_class a)) -> forall env, EX call env (GATTR elem a) = DATTR env a.
Proof.
  induction a using fattr_ind'; intros HG env.
  - cbn [gattr dattr]. rewrite exec_cons, exec_nil, andthen_unit_r. reflexivity.
  - cbn [gattr dattr]. rewrite exec_cons, exec_nil, andthen_unit_r. reflexivity.
  - cbn [gattr dattr]. rewrite exec_single. cbn [exec1 chain]. f_equal.
    change (seq_list (fun s => EX1 call env s)) with (EX call env). rewrite exec_single.
    destruct (eval_bool env e); reflexivity.
  - cbn [gattr dattr]. rewrite !exec_cons, exec_nil, andthen_unit_r. reflexivity.
  - cbn [gattr dattr]. rewrite !exec_cons, exec_nil, andthen_unit_r. cbn [exec1].
    destruct HG as [HG|HG]; [|discriminate]. unfold class_ev. rewrite HG. reflexivity.
  - cbn [gattr dattr]. rewrite exec_cons, exec_nil, andthen_unit_r. cbn [exec1 chain]. f_equal.
    change (seq_list (fun s => EX1 call env s)) with (EX call env).
    cbn [attr_has_class] in HG. rewrite negb_orb in HG. apply G_and in HG as [G1 G2].
    assert (L : forall l, Forall (fun a => G (negb (attr_has_class a)) -> forall env, EX call env (GATTR elem a) = DATTR env a) l ->
                G (negb (existsb attr_has_class l)) -> EX call env (flat_map (GATTR elem) l) = seq_list (DATTR env) l).
    { intros l HL. induction HL as [|x r Hx _ IH]; intros HGl; [reflexivity|].
      apply G_exists_cons in HGl as [Ga Gb]. cbn [flat_map seq_list]. fold (seq_list (DATTR env)).
      rewrite exec_app, (Hx Ga env), (IH Gb). reflexivity. }
    destruct (eval_bool env e); [apply L|apply L]; assumption.
Qed.
Lemma gattrs_correct elem l : G (negb (existsb attr_has_class l)) -> forall env, EX call env (GATTRS elem l) = DATTRS env l.
Proof.
  intros HG env. unfold gattrs, dattrs. induction l as [|x r IH]; [reflexivity|].
  apply G_exists_cons in HG as [Ga Gb]. cbn [flat_map seq_list]. fold (seq_list (DATTR env)).
  rewrite exec_app, (gattr_correct elem x Ga env), (IH Gb). reflexivity.
Qed.

Definition gen_ok (n : nd) : Prop := G (hoist_free n) -> forall env next, EX call env (GEN n next) = DEN call' env n next.

Lemma G_forallb_cons {A} (f : A -> bool) x r : G (forallb f (x :: r)) -> G (f x) /\ G (forallb f r).
Proof. cbn [forallb]. apply G_and. Qed.

Lemma gen_nodes_ok l : Forall gen_ok l -> G (forallb hoist_free l) ->
  forall env next, EX call env (gen_nodes GEN l next) = seq_nodes (fun c nx => DEN call' env c nx) l next.
Proof.
  induction 1 as [|x r Hx _ IH]; intros HG env next; [reflexivity|].
  apply G_forallb_cons in HG as [Ga Gb].
  cbn [gen_nodes seq_nodes]. fold (gen_nodes GEN) (seq_nodes (fun c nx => DEN call' env c nx)).
  rewrite exec_app, (Hx Ga), (IH Gb). reflexivity.
Qed.

Lemma G_cases_cons {B} (f : B -> bool) (c : expr) b r : G (cases_all f ((c, b) :: r)) -> G (f b) /\ G (cases_all f r).
Proof. unfold cases_all. cbn [forallb]. apply G_and. Qed.

Theorem gen_correct n : gen_ok n.
Proof.
  induction n using nd_ind'; intros HG env next; unfold gen_ok in *;
    cbn [gen denote]; rewrite exec_app, exec_glit; f_equal; try reflexivity; try (rewrite exec_single; reflexivity);
    try (rewrite exec_single; cbn [exec1]; rewrite Hcall; reflexivity).
  - (* Elem *)
    cbn [hoist_free] in HG. apply G_and in HG as [Ga Gc].
    rewrite exec_app, (hoists_unit attrs Ga env), andthen_unit_l.
    rewrite exec_app, exec_cons, exec_nil, andthen_unit_r. cbn [exec1]. f_equal.
    rewrite exec_app, (gattrs_correct name attrs Ga env). f_equal.
    rewrite exec_app, exec_cons, exec_nil, andthen_unit_r. cbn [exec1]. f_equal.
    destruct (v && is_nil ch); [reflexivity|].
    rewrite exec_app, (gen_nodes_ok ch H Gc), exec_cons, exec_nil, andthen_unit_r. reflexivity.
  - (* Raw *)
    cbn [hoist_free] in HG.
    rewrite exec_app, exec_cons, exec_nil, andthen_unit_r. cbn [exec1]. f_equal.
    rewrite exec_app, (gattrs_correct name attrs HG env). f_equal.
    rewrite !exec_cons, exec_nil. cbn [exec1]. rewrite andthen_unit_r, !andthen_lit_lit. reflexivity.
  - (* If *)
    cbn [hoist_free] in HG. apply G_and in HG as [HG Ge]. apply G_and in HG as [Gt Gi].
    rewrite exec_cons, exec_nil, andthen_unit_r. cbn [exec1]. f_equal.
    change (seq_list (fun s => EX1 call env s)) with (EX call env).
    rewrite (gen_nodes_ok th H Gt), (gen_nodes_ok el H1 Ge).
    destruct (eval_bool env c); [reflexivity|].
    rewrite chain_map. apply chain_ext; [|reflexivity].
    clear -H0 Gi. induction H0 as [|[c' b] r Hb _ IH]; constructor.
    + cbn [snd] in *. apply G_cases_cons in Gi as [Gb _]. apply (gen_nodes_ok b Hb Gb).
    + apply G_cases_cons in Gi as [_ Gr]. apply IH, Gr.
  - (* Switch *)
    cbn [hoist_free] in HG.
    rewrite exec_cons, exec_nil, andthen_unit_r. cbn [exec1]. f_equal.
    rewrite pick_map. apply pick_ext.
    clear -H HG. induction H as [|[c' b] r Hb _ IH]; constructor.
    + cbn [snd] in *. apply G_cases_cons in HG as [Gb _]. apply (gen_nodes_ok b Hb Gb).
    + apply G_cases_cons in HG as [_ Gr]. apply IH, Gr.
  - (* For *)
    cbn [hoist_free] in HG.
    rewrite exec_cons, exec_nil, andthen_unit_r. cbn [exec1]. f_equal.
    apply seq_list_ext_all. intros env'. apply (gen_nodes_ok body H HG).
Qed.

Lemma gens_correct l : G (forallb hoist_free l) -> forall env next, EX call env (GENS l next) = DENS call' env l next.
Proof. intros HG env next. apply gen_nodes_ok; [|exact HG]. apply Forall_forall. intros n _. apply gen_correct. Qed.
End GenCorrect.

(* ================= files: calls to other templates of the file, on fuel ================= *)
Notation CX := (call_x E escape eval_str eval_bool eval_for eval_sw eval_class callee call_env tc).
Notation CD := (call_d E escape eval_str eval_bool eval_for eval_sw eval_class callee call_env tc).
Notation XF := (exec_f E escape eval_str eval_bool eval_for eval_sw eval_class callee call_env tc).
Notation DF := (denote_f E escape eval_str eval_bool eval_for eval_sw eval_class callee call_env tc).

Lemma find_compile tbl k : find (compile escape tbl) k = option_map (fun b => coalesce (GENS b None)) (find tbl k).
Proof.
  induction tbl as [|[k' b] r IH]; [reflexivity|]. cbn [compile map find]. fold (compile escape r).
  destruct (bytes_eqb k k'); [reflexivity|apply IH].
Qed.
Lemma find_hoist_free tbl k b : G (tbl_hoist_free tbl) -> find tbl k = Some b -> G (forallb hoist_free b).
Proof.
  induction tbl as [|[k' b'] r IH]; intros HG F; [discriminate|].
  unfold tbl_hoist_free in HG. cbn [forallb] in HG. apply G_and in HG as [Gb Gr]. cbn [find] in F.
  destruct (bytes_eqb k k'); [inversion F; subst; exact Gb|apply IH; assumption].
Qed.
Lemma call_agree tbl : G (tbl_hoist_free tbl) -> forall fuel env e, CX (compile escape tbl) fuel env e = CD tbl fuel env e.
Proof.
  intros HG. induction fuel as [|f IH]; intros env e; [reflexivity|].
  cbn [call_x call_d]. rewrite find_compile. destruct (find tbl (callee e)) as [b|] eqn:F; [|reflexivity].
  cbn [option_map]. rewrite coalesce_sound. apply (gens_correct _ _ IH). eapply find_hoist_free; eassumption.
Qed.

(* the generated, literal-coalesced code of a file writes exactly what the templates denote - output, evaluation
   trace and error position - for every expression semantics, every call depth *)
Theorem generated_code_correct tbl fuel env l next :
  G (tbl_hoist_free tbl) -> G (forallb hoist_free l) ->
  XF (compile escape tbl) fuel env (coalesce (GENS l next)) = DF tbl fuel env l next.
Proof.
  intros Gt Gl. unfold exec_f, denote_f. rewrite coalesce_sound.
  apply gens_correct; [apply call_agree; exact Gt|exact Gl].
Qed.

(* ================= corollaries: the sentences of the property ================= *)
Lemma G_true : G true. Proof. right; reflexivity. Qed.
Lemma G_app {A} (f : A -> bool) a b : G (forallb f a) -> G (forallb f b) -> G (forallb f (a ++ b)).
Proof.
  intros [H|H]; [left; exact H|]. intros [H'|H']; [left; exact H'|]. right. rewrite forallb_app, H, H'. reflexivity.
Qed.
Lemma G_cons {A} (f : A -> bool) a b : G (f a) -> G (forallb f b) -> G (forallb f (a :: b)).
Proof.
  intros [H|H]; [left; exact H|]. intros [H'|H']; [left; exact H'|]. right. cbn [forallb]. rewrite H, H'. reflexivity.
Qed.

(* sequencing: a node list renders as its parts in source order, and nothing runs after an error *)
Theorem nodes_in_order tbl fuel env a b next :
  G (tbl_hoist_free tbl) -> G (forallb hoist_free a) -> G (forallb hoist_free b) ->
  XF (compile escape tbl) fuel env (coalesce (GENS (a ++ b) next))
  = andthen (DF tbl fuel env a (next_of b next)) (DF tbl fuel env b next).
Proof.
  intros Gt Ga Gb. rewrite generated_code_correct; [|exact Gt|apply G_app; assumption].
  unfold denote_f, denotes. apply seq_nodes_app.
Qed.
Theorem error_stops call env p q : err_of (EX call env p) <> None -> EX call env (p ++ q) = EX call env p.
Proof. intros H. rewrite exec_app. apply andthen_failed, H. Qed.
Theorem str_error tbl fuel env e t next :
  eval_str env e = None ->
  XF (compile escape tbl) fuel env (coalesce (GENS [Str e t] next)) = ([], [(KStr, e)], Some (epos_of e)).
Proof.
  intros H. unfold exec_f. rewrite coalesce_sound. unfold gens. cbn [gen_nodes gen]. rewrite app_nil_r, exec_app, exec_single.
  cbn [exec1]. unfold str_val. rewrite H. reflexivity.
Qed.

(* static markup in source order *)
Lemma static_attrs_denote l a :
  static_attrs escape l = Some a -> (forall env, DATTRS env l = lit a) /\ existsb attr_has_class l = false.
Proof.
  revert a. induction l as [|x r IH]; intros a H.
  - inversion H. split; reflexivity.
  - cbn [static_attrs] in H. destruct (static_attr escape x) as [xa|] eqn:Hx; [|discriminate].
    destruct (static_attrs escape r) as [ra|] eqn:Hr; [|discriminate]. inversion H; subst.
    destruct (IH ra eq_refl) as [IH1 IH2].
    destruct x; try discriminate; cbn in Hx; inversion Hx; subst;
      (split; [intros env; unfold dattrs; cbn [seq_list]; fold (seq_list (DATTR env));
               change (seq_list (DATTR env) r) with (DATTRS env r); rewrite IH1; reflexivity
              |cbn [existsb attr_has_class]; exact IH2]).
Qed.
Definition static_ok (n : nd) : Prop :=
  forall next s, static_node escape n next = Some s -> hoist_free n = true /\ forall call env, DEN call env n next = lit s.
Lemma static_nodes_ok l : Forall static_ok l ->
  forall next s, static_nodes (static_node escape) l next = Some s ->
  forallb hoist_free l = true /\ forall call env, DENS call env l next = lit s.
Proof.
  induction 1 as [|x r Hx _ IH]; intros next s H.
  - inversion H. split; reflexivity.
  - cbn [static_nodes] in H. fold (static_nodes (static_node escape)) in H.
    destruct (static_node escape x (next_of r next)) as [xs|] eqn:E1; [|discriminate].
    destruct (static_nodes (static_node escape) r next) as [rs|] eqn:E2; [|discriminate]. inversion H; subst.
    destruct (Hx _ _ E1) as [H1 H2]. destruct (IH _ _ E2) as [H3 H4]. split.
    + cbn [forallb]. rewrite H1, H3. reflexivity.
    + intros call env. unfold denotes. cbn [seq_nodes]. fold (seq_nodes (fun c nx => DEN call env c nx)).
      rewrite H2. change (seq_nodes (fun c nx => DEN call env c nx) r next) with (DENS call env r next). rewrite H4. reflexivity.
Qed.
Lemma static_node_ok n : static_ok n.
Proof.
  induction n using nd_ind'; intros next s Hs; cbn [static_node] in Hs; try discriminate.
  - inversion Hs. split; [reflexivity|]. intros. reflexivity.
  - inversion Hs. split; [reflexivity|]. intros. reflexivity.
  - (* Elem *)
    destruct (static_attrs escape attrs) as [a|] eqn:Ha; [|discriminate].
    destruct (static_nodes (static_node escape) ch None) as [c|] eqn:Hc; [|discriminate].
    cbn [option_map] in Hs. inversion Hs; subst.
    destruct (static_attrs_denote _ _ Ha) as [A1 A2]. destruct (static_nodes_ok _ H _ _ Hc) as [C1 C2]. split.
    + cbn [hoist_free]. rewrite A2, C1. reflexivity.
    + intros call env. cbn [denote]. rewrite A1.
      change (seq_nodes (fun c nx => DEN call env c nx) ch None) with (DENS call env ch None). rewrite C2.
      destruct (v && is_nil ch); cbn; rewrite ?app_nil_r, <- ?app_assoc; reflexivity.
  - (* Raw *)
    destruct (static_attrs escape attrs) as [a|] eqn:Ha; [|discriminate].
    cbn [option_map] in Hs. inversion Hs; subst.
    destruct (static_attrs_denote _ _ Ha) as [A1 A2]. split.
    + cbn [hoist_free]. rewrite A2. reflexivity.
    + intros call env. cbn [denote]. rewrite A1. cbn; rewrite ?app_nil_r, <- ?app_assoc; reflexivity.
  - inversion Hs. split; [reflexivity|]. intros. reflexivity.
  - inversion Hs. split; [reflexivity|]. intros. reflexivity.
  - inversion Hs. split; [reflexivity|]. intros. reflexivity.
Qed.
Theorem static_in_order tbl fuel env l next s :
  G (tbl_hoist_free tbl) -> static_render escape l next = Some s ->
  XF (compile escape tbl) fuel env (coalesce (GENS l next)) = lit s.
Proof.
  intros Gt H. unfold static_render in H.
  destruct (static_nodes_ok l (proj2 (Forall_forall _ _) (fun n _ => static_node_ok n)) _ _ H) as [H1 H2].
  rewrite generated_code_correct; [|exact Gt|right; exact H1]. apply H2.
Qed.

(* void elements are not closed *)
Theorem void_unclosed tbl fuel env name b attrs t next :
  G (tbl_hoist_free tbl) -> G (negb (existsb attr_has_class attrs)) ->
  XF (compile escape tbl) fuel env (coalesce (GENS [Elem name b true attrs [] t] next))
  = andthen (lit (open_tag escape name)) (andthen (DATTRS env attrs) (lit ([x3e] ++ trailer (Elem name b true attrs [] t) next))).
Proof.
  intros Gt Ga. rewrite generated_code_correct; [|exact Gt|].
  - unfold denote_f, denotes. cbn [seq_nodes next_of denote andb is_nil].
    rewrite !andthen_unit_r, !andthen_assoc, andthen_lit_lit. reflexivity.
  - destruct Ga as [Ga|Ga]; [left; exact Ga|right]. cbn [forallb hoist_free]. rewrite Ga. reflexivity.
Qed.

(* Go comments are omitted *)
Theorem go_comments_omitted tbl fuel env a b next :
  G (tbl_hoist_free tbl) -> G (forallb hoist_free a) -> G (forallb hoist_free b) ->
  XF (compile escape tbl) fuel env (coalesce (GENS (a ++ GoComment :: b) next))
  = andthen (DF tbl fuel env a (Some GoComment)) (DF tbl fuel env b next).
Proof.
  intros Gt Ga Gb. rewrite nodes_in_order; [|exact Gt|exact Ga|apply G_cons; [apply G_true|exact Gb]].
  cbn [next_of]. f_equal. unfold denote_f, denotes. cbn [seq_nodes denote].
  rewrite ?andthen_unit_l. reflexivity.
Qed.

(* conditional and boolean attributes are present exactly when their conditions hold *)
Theorem cond_attrs_iff call env elem c th el :
  G (negb (existsb attr_has_class th || existsb attr_has_class el)) ->
  EX call env (coalesce (GATTRS elem [FCond c th el]))
  = andthen (evt KBool c) (DATTRS env (if eval_bool env c then th else el)).
Proof.
  intros HG. rewrite coalesce_sound, (gattrs_correct call).
  - unfold dattrs. cbn [seq_list dattr]. rewrite andthen_unit_r. destruct (eval_bool env c); reflexivity.
  - cbn [existsb attr_has_class]. rewrite orb_false_r. exact HG.
Qed.
Theorem bool_attr_iff call env elem n e :
  EX call env (coalesce (GATTRS elem [FBoolExpr n e]))
  = andthen (evt KBool e) (if eval_bool env e then lit ([x20] ++ escape n) else unit_r).
Proof.
  rewrite coalesce_sound, (gattrs_correct call); [|apply G_true].
  unfold dattrs. cbn [seq_list dattr]. apply andthen_unit_r.
Qed.
(* attribute values are escaped *)
Theorem attr_value_escaped call env elem n e s :
  eval_str env e = Some s ->
  EX call env (coalesce (GATTRS elem [FExpr n e])) = ([x20] ++ escape n ++ [x3d; x22] ++ escape s ++ [x22], [(KStr, e)], None).
Proof.
  intros H. rewrite coalesce_sound, (gattrs_correct call); [|apply G_true].
  unfold dattrs. cbn [seq_list dattr]. unfold str_val. rewrite H. cbn. rewrite ?app_nil_r, <- ?app_assoc. reflexivity.
Qed.

(* whitespace is only normalised *)
Lemma trailer_none n : trailer n None = [].
Proof. unfold trailer. destruct (trail_of n) as [[| |]|]; try reflexivity; rewrite andb_false_r; reflexivity. Qed.
Lemma denote_split call env a nx t :
  trail_of a = Some t -> DEN call env a nx = andthen (DEN call env a None) (lit (trailer a nx)).
Proof.
  destruct a; try discriminate; intros _; cbn [denote]; rewrite trailer_none, lit_nil, andthen_unit_r; reflexivity.
Qed.
Theorem ws_not_invented tbl fuel env a b next :
  G (tbl_hoist_free tbl) -> G (hoist_free a) -> G (hoist_free b) ->
  trail_of a = Some SpNone ->
  XF (compile escape tbl) fuel env (coalesce (GENS [a; b] next))
  = andthen (DF tbl fuel env [a] None) (DF tbl fuel env [b] next).
Proof.
  intros Gt Ga Gb H. rewrite generated_code_correct; [|exact Gt|apply G_cons; [exact Ga|apply G_cons; [exact Gb|apply G_true]]].
  unfold denote_f, denotes. cbn [seq_nodes next_of]. rewrite !andthen_unit_r.
  rewrite (denote_split _ env a (Some b) SpNone H). unfold trailer at 1. rewrite H, lit_nil, andthen_unit_r. reflexivity.
Qed.
Theorem ws_not_lost tbl fuel env a b next t :
  G (tbl_hoist_free tbl) -> G (hoist_free a) -> G (hoist_free b) ->
  trail_of a = Some t -> t <> SpNone -> inline (Some a) = true -> inline (Some b) = true ->
  XF (compile escape tbl) fuel env (coalesce (GENS [a; b] next))
  = andthen (DF tbl fuel env [a] None) (andthen (lit [x20]) (DF tbl fuel env [b] next)).
Proof.
  intros Gt Ga Gb H Ht Ia Ib. rewrite generated_code_correct; [|exact Gt|apply G_cons; [exact Ga|apply G_cons; [exact Gb|apply G_true]]].
  unfold denote_f, denotes. cbn [seq_nodes next_of]. rewrite !andthen_unit_r.
  rewrite (denote_split _ env a (Some b) t H). unfold trailer at 1. rewrite H, Ia, Ib.
  destruct t; [contradiction| |]; cbn [andb]; rewrite andthen_assoc; reflexivity.
Qed.
(* ... and a block-level neighbour gets no space *)
Theorem ws_block_no_space tbl fuel env a b next :
  G (tbl_hoist_free tbl) -> G (hoist_free a) -> G (hoist_free b) ->
  inline (Some a) && inline (Some b) = false ->
  (exists t, trail_of a = Some t) ->
  XF (compile escape tbl) fuel env (coalesce (GENS [a; b] next))
  = andthen (DF tbl fuel env [a] None) (DF tbl fuel env [b] next).
Proof.
  intros Gt Ga Gb Hi [t H]. rewrite generated_code_correct; [|exact Gt|apply G_cons; [exact Ga|apply G_cons; [exact Gb|apply G_true]]].
  unfold denote_f, denotes. cbn [seq_nodes next_of]. rewrite !andthen_unit_r.
  rewrite (denote_split _ env a (Some b) t H). unfold trailer at 1. rewrite H, Hi.
  destruct t; rewrite lit_nil, andthen_unit_r; reflexivity.
Qed.

(* expressions are evaluated only where control flow reaches them *)
Theorem eval_only_where_reached tbl fuel env l next :
  G (tbl_hoist_free tbl) -> G (forallb hoist_free l) ->
  trace_of (XF (compile escape tbl) fuel env (coalesce (GENS l next))) = trace_of (DF tbl fuel env l next).
Proof. intros Gt Gl. rewrite generated_code_correct by assumption. reflexivity. Qed.
Theorem untaken_branch_silent tbl fuel env c th next :
  eval_bool env c = false ->
  XF (compile escape tbl) fuel env (coalesce (GENS [If c th [] false []] next)) = evt KBool c.
Proof.
  intros H. unfold exec_f. rewrite coalesce_sound. unfold gens. cbn [gen_nodes gen map]. rewrite !app_nil_r.
  rewrite exec_single. cbn [exec1 chain]. rewrite H. reflexivity.
Qed.
End Proofs.
